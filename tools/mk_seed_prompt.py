#!/usr/bin/env python3
"""tools/mk_seed_prompt.py <Cxx> <worktree>   — prints the prompt handed to a seeding sub-agent.

The agent gets the text of the property (title, statement, quantifier) from properties.jsonl, seeded/PROMPT.txt, and one sentence
per earlier seeded change for the same property (what its author changed — so that it picks something else).  Nothing about
/verif's checks goes in."""
import json, sys, os, glob

VERIF = os.path.dirname(os.path.dirname(os.path.abspath(__file__)))
pid, wt = sys.argv[1], sys.argv[2]
prop = None
for l in open(os.path.join(VERIF, "properties.jsonl")):
    d = json.loads(l)
    if d["id"] == pid:
        prop = d
text = "%s — %s\n\n%s\n\nIt must hold %s." % (prop["id"], prop["title"], prop["statement"], prop["quantifier"]["text"])
prompt = open(os.path.join(VERIF, "seeded/PROMPT.txt")).read().format(WT=wt, PROPERTY=text, ID=pid)
earlier = []
for m in sorted(glob.glob(os.path.join(VERIF, "seeded", pid + "-*", "meta.json")) +
                glob.glob(os.path.join(VERIF, "seeded/neutralised", pid + "-*", "meta.json"))):
    try:
        earlier.append(json.load(open(m)).get("summary", "")[:600])
    except Exception:
        pass
if earlier:
    prompt += ("\n\nEARLIER ATTEMPTS by other developers for this same property (do something DIFFERENT: another clause of the "
               "property, another code site, another mechanism, another kind of trigger):\n" +
               "\n".join("  - " + s for s in earlier))
print(prompt)
