#!/bin/bash
# remove scratch replay files (git-ignored) before a fresh run
find /verif/replay -maxdepth 1 -name '*.json' -delete 2>/dev/null
exit 0
