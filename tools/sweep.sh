#!/bin/bash
# usage: tools/sweep.sh <tier> <seed> [<seed> …]      (VERIF_REPO may point to a snapshot of /repo)
# Runs every check at the given tier for each seed on the unchanged tree and prints one line per (check, seed); any line with rc≠0 or a
# VIOLATION is a false alarm to investigate.  Used for unchanged-tree sweeps (also under `vp run --with-repo`, with VERIF_REPO=$VP_RUN_REPO).
tier="$1"; shift
cd "$(dirname "$0")/.."
./check --setup > /dev/null 2>&1 || { echo "setup failed"; exit 2; }
for seed in "$@"; do
  for i in 01 02 03 04 05 06 07 08 09 10 11 12 13 14 15 16 17 18 19 20; do
    s=$(date +%s)
    out=$(./check C$i --tier "$tier" --seed "$seed" 2>&1); rc=$?
    echo "seed=$seed C$i rc=$rc $(( $(date +%s) - s ))s $(echo "$out" | grep -E '^VIOLATION' | head -2 | tr '\n' ' ')"
    if [ $rc -ne 0 ]; then for f in $(echo "$out" | grep -oE 'replay=[^ ]+' | cut -d= -f2 | head -2); do echo "---- $f"; head -c 2500 "$f"; echo; done; fi
  done
done
