#!/usr/bin/env python3
"""tools/coverage.py [Cxx …]   — which statements of /repo do the correspondence checks execute?

Builds the binaries with `go build -cover`, runs the quick tier of the named checks (default: all twenty) with GOCOVERDIR set, and writes
COVERAGE.md: statement coverage of internal/ergo and cmd/ergo per function, under the real binary and the differential driver together.
(Processes killed by the crash machinery write no counters, so the figures are a lower bound.)  Not a registered check."""
import os, subprocess, sys, tempfile, shutil, re, json
VERIF = os.path.dirname(os.path.dirname(os.path.abspath(__file__)))
REPO = os.environ.get("VERIF_REPO", "/repo")
props = [a for a in sys.argv[1:] if a.startswith("C")] or ["C%02d" % i for i in range(1, 21)]
d = tempfile.mkdtemp(prefix="ergo-verif-cover-")
env = dict(os.environ, VERIF_COVER="1", GOCOVERDIR=d)
for p in props:
    r = subprocess.run(["./check", p, "--tier", "quick"], cwd=VERIF, env=env, capture_output=True, text=True)
    print(p, "exit", r.returncode, flush=True)
goenv = dict(os.environ, GOFLAGS="-mod=mod", GOPROXY="off")
txt = os.path.join(d, "cov.txt")
subprocess.run(["go", "tool", "covdata", "textfmt", "-i=" + d, "-o=" + txt], cwd=REPO, env=goenv, check=True)
pct = subprocess.run(["go", "tool", "covdata", "percent", "-i=" + d], cwd=REPO, env=goenv, capture_output=True, text=True).stdout
# `go tool cover -func` opens every source file the counters name: the harness files exist only in the overlay, so give it a copy that has them
sys.path.insert(0, VERIF)
from vlib import common
src = os.path.join(d, "src")
shutil.copytree(REPO, src, ignore=shutil.ignore_patterns(".git"), symlinks=True)
for dst, frm in json.load(open(common.write_overlay()))["Replace"].items():
    rel = os.path.relpath(dst, common.REPO)
    os.makedirs(os.path.dirname(os.path.join(src, rel)), exist_ok=True)
    shutil.copy(frm, os.path.join(src, rel))
fnr = subprocess.run(["go", "tool", "cover", "-func=" + txt], cwd=src, env=goenv, capture_output=True, text=True)
fn = fnr.stdout
if fnr.returncode != 0:
    print("go tool cover -func:", fnr.stderr[-500:])
rows = []
for l in fn.splitlines():
    m = re.match(r"^(\S+):(\d+):\s+(\S+)\s+([\d.]+)%$", l)
    if m and "zz_verif" not in m.group(1) and "ergoverif" not in m.group(1):
        rows.append((m.group(1).split("sandover/ergo/")[-1], m.group(3), float(m.group(4))))
head = subprocess.run(["git", "-C", REPO, "rev-parse", "--short", "HEAD"], capture_output=True, text=True).stdout.strip()
vh = subprocess.run(["git", "-C", VERIF, "rev-parse", "--short", "HEAD"], capture_output=True, text=True).stdout.strip()
low = sorted([r for r in rows if r[2] < 60.0], key=lambda r: (r[2], r[0], r[1]))
out = ["# Statement coverage of /repo under the correspondence checks", "",
       "Produced by `tools/coverage.py` (quick tier of %s; /repo %s, /verif %s). Binaries built with `go build -cover`; killed processes" % (", ".join(props) if len(props) < 20 else "all twenty checks", head, vh),
       "write no counters, so these are lower bounds. Harness files (overlay) are left out.", "", "```", pct.strip(), "```", "",
       "Functions below 60 %% (%d of %d):" % (len(low), len(rows)), "", "| file | function | % |", "|---|---|---|"]
out += ["| %s | %s | %.1f |" % r for r in low]
open(os.path.join(VERIF, "COVERAGE.md"), "w").write("\n".join(out) + "\n")
print(pct)
shutil.rmtree(d, ignore_errors=True)
