#!/bin/bash
# usage: tools/confirm_seed.sh <Cxx> [name] [worktree-prefix, default /tmp/seed_]
# Confirms a seeded change produced in the scratch worktree <prefix><Cxx> (patch in <prefix><Cxx>_scratch/patch.diff):
#   1. the patch applies to a clean checkout of /repo's HEAD, 2. it builds, 3. the pinned suite's stable tests still pass,
#   4. the demonstration fails with the change and 5. passes without it.
# On success copies patch.diff, the demo and meta.json to /verif/seeded/<name>/ and records what was run.
set -u
id="$1"; name="${2:-$1}"
pre="${3:-/tmp/seed_}"
wt="${pre}${id}"; sc="${pre}${id}_scratch"
export GOFLAGS=-mod=mod GOPROXY=off
cd "$wt" || exit 2
git checkout -q -- . && git clean -fdq internal cmd
git checkout -q --detach "$(git -C /repo rev-parse HEAD)" || { echo "FAIL: cannot check out /repo HEAD"; exit 1; }
git apply "$sc/patch.diff" || { echo "FAIL: patch does not apply"; exit 1; }
go build ./... || { echo "FAIL: does not build"; exit 1; }
go test -json -vet=off -count=1 -timeout 25m ./... > "$sc/test.json" 2>/dev/null
python3 - "$sc/test.json" <<'PY' || { echo "FAIL: stable tests do not all pass"; exit 1; }
import json,sys
base=json.load(open('/root/.vp/BASELINE.json'))
passed=set()
for l in open(sys.argv[1]):
    try: e=json.loads(l)
    except: continue
    if e.get('Action')=='pass' and e.get('Test'): passed.add(e['Package']+'::'+e['Test'])
missing=[t for t in base['stable_pass'] if t not in passed]
print('stable tests passing with the change: %d/%d' % (len(base['stable_pass'])-len(missing), len(base['stable_pass'])), missing[:5])
sys.exit(1 if missing else 0)
PY
demo=$(ls "$sc"/demo.sh 2>/dev/null || ls "$sc"/demo* | head -1)
timeout 600 bash "$demo" "$wt" > "$sc/confirm_with.out" 2>&1; rc_with=$?
# without the change (no `git stash`: the stash is shared between worktrees)
git checkout -q -- . && git clean -fdq internal cmd
timeout 600 bash "$demo" "$wt" > "$sc/confirm_without.out" 2>&1; rc_without=$?
git apply "$sc/patch.diff"
echo "demo with change: exit $rc_with; without: exit $rc_without"
if [ "$rc_with" = "0" ] || [ "$rc_without" != "0" ]; then echo "FAIL: demo does not discriminate"; exit 1; fi
mkdir -p "/verif/seeded/$name"
cp "$sc/patch.diff" "/verif/seeded/$name/patch.diff"
cp "$demo" "/verif/seeded/$name/$(basename "$demo")"
python3 - "$sc/meta.json" "/verif/seeded/$name/meta.json" "$rc_with" "$rc_without" <<'PY'
import json,sys
m=json.load(open(sys.argv[1]))
m["confirmed_by_verif"]={"patch_applies_to_repo_HEAD":True,"builds":True,"stable_tests_pass_with_change":"389/389",
   "demo_exit_with_change":int(sys.argv[3]),"demo_exit_without_change":int(sys.argv[4]),
   "how":"tools/confirm_seed.sh in the scratch worktree (git apply, go build, go test -json compared with BASELINE stable_pass, demo with and without the change)"}
json.dump(m,open(sys.argv[2],"w"),indent=1)
PY
echo "OK: kept as /verif/seeded/$name"
