#!/usr/bin/env python3
"""tools/validate_evidence.py — validate MANIFEST.json and every evidence/<id>.json against the harness schemas (needs jsonschema: run with python3-vt)."""
import json, glob, sys
import jsonschema
ms = json.load(open("/root/.vp/MANIFEST.schema.json")); es = json.load(open("/root/.vp/EVIDENCE.schema.json"))
bad = 0
try:
    jsonschema.validate(json.load(open("/verif/MANIFEST.json")), ms); print("MANIFEST.json ok")
except Exception as e:
    bad += 1; print("MANIFEST.json:", str(e)[:300])
for f in sorted(glob.glob("/verif/evidence/*.json")):
    try:
        jsonschema.validate(json.load(open(f)), es)
    except Exception as e:
        bad += 1; print(f, str(e)[:300])
print("evidence files:", len(glob.glob("/verif/evidence/*.json")), "problems:", bad)
sys.exit(1 if bad else 0)
