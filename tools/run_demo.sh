#!/bin/bash
# usage: tools/run_demo.sh <seed name, e.g. C01-e> <source dir>
# Runs the author's demonstration of a seeded change against a source tree (exit 0: the property held in the scenario, 1: violated).
# The demonstrations were written in their authors' scratch directories (/tmp/seedN_Cxx_scratch) and keep their working files
# there: the directories they name are created first and removed afterwards.
set -u
name="$1"; src="$2"
demo=$(ls /verif/seeded/"$name"/demo.sh 2>/dev/null || ls /verif/seeded/"$name"/demo* | head -1)
made=()
for d in $(grep -oh "/tmp/seed[0-9]*_C[0-9]*_scratch" "$demo" | sort -u); do
  [ -d "$d" ] || { mkdir -p "$d"; made+=("$d"); }
done
timeout 900 bash "$demo" "$src"; rc=$?
for d in "${made[@]:-}"; do [ -n "$d" ] && rm -rf "$d"; done
exit $rc
