#!/bin/bash
# usage: tools/run_demo.sh <seed name, e.g. C04-a> <source dir>
# Runs the author's demonstration of a seeded change against a source tree.  The demos were written in scratch directories
# /tmp/seed_Cxx_scratch (round 1) or /tmp/seed2_Cxx_scratch (round 2) and create their work files there: the directory is
# made for the run and removed afterwards.  Never run a demo without it: with an empty work dir some fall back to "/".
set -u
name="$1"; src="$2"
demo=$(ls /verif/seeded/"$name"/demo* 2>/dev/null | head -1)
[ -n "$demo" ] || { echo "no demo for $name"; exit 2; }
dirs=$(grep -o '/tmp/seed2\?_C[0-9][0-9]_scratch' "$demo" | sort -u)
for d in $dirs; do mkdir -p "$d"; done
( cd /tmp && timeout 900 bash "$demo" "$src" ); rc=$?
for d in $dirs; do case "$d" in /tmp/seed*_scratch) rm -rf "$d";; esac; done
exit $rc
