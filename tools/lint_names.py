#!/usr/bin/env python3
"""tools/lint_names.py — names a function of check, vlib/ or tools/ reads from module scope that nothing defines (a missing import shows up
only when the line runs: in a check that means a harness exception on exactly the input that mattered).  Not a registered check."""
import builtins, glob, os, symtable, sys
VERIF = os.path.dirname(os.path.dirname(os.path.abspath(__file__)))
bad = 0
for path in [os.path.join(VERIF, "check")] + sorted(glob.glob(os.path.join(VERIF, "vlib", "**", "*.py"), recursive=True)) + sorted(glob.glob(os.path.join(VERIF, "tools", "*.py"))):
    src = open(path).read()
    top = symtable.symtable(src, path, "exec")
    defined = {s.get_name() for s in top.get_symbols() if s.is_assigned() or s.is_imported() or s.is_namespace()} | set(dir(builtins)) | {"__file__", "__name__", "__doc__"}
    def walk(t):
        global bad
        for s in t.get_symbols():
            if t.get_type() != "module" and s.is_global() and s.is_referenced() and s.get_name() not in defined:
                print("%s: %s() reads undefined global %r" % (os.path.relpath(path, VERIF), t.get_name(), s.get_name())); bad += 1
            if t.get_type() == "module" and s.is_referenced() and not (s.is_assigned() or s.is_imported() or s.is_namespace()) and s.get_name() not in defined:
                print("%s: module level reads undefined %r" % (os.path.relpath(path, VERIF), s.get_name())); bad += 1
        for c in t.get_children():
            walk(c)
    walk(top)
sys.exit(1 if bad else 0)
