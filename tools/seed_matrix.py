#!/usr/bin/env python3
"""tools/seed_matrix.py [--all] [--seeds NAME…] [--tier quick]

Applies each confirmed seeded change under /verif/seeded/<name>/patch.diff to /repo, runs checks against it, restores /repo,
and records which check reports it and how (VIOLATION with a concrete replay / `no-failing-input-found` / not reported) in
seeded/RESULTS.json and the table of seeded/README.md.

  default: each seed against the check of the property it was written to break
  --all  : each seed against all twenty checks (about an hour)

/repo is restored (`git checkout -- .`) after every seed, also on interruption.  Nothing here is used by a registered check."""
import json, os, subprocess, sys, glob, time

VERIF = os.path.dirname(os.path.dirname(os.path.abspath(__file__)))
PROPS = ["C%02d" % i for i in range(1, 21)]


REPO = os.environ.get("VERIF_REPO", "/repo")      # a scratch clone when run in the background (vp run --with-repo)


def sh(cmd, **kw):
    return subprocess.run(cmd, shell=True, capture_output=True, text=True, **kw)


def restore():
    sh("git -C %s checkout -- . ; git -C %s clean -fdq internal cmd" % (REPO, REPO))


def run_check(prop, tier):
    t = time.time()
    r = sh("cd %s && ./check %s --tier %s" % (VERIF, prop, tier))
    lines = [l for l in r.stdout.splitlines() if l.startswith(("VIOLATION", "KNOWN-FINDING"))]
    out = {"exit": r.returncode, "seconds": round(time.time() - t), "concrete": [], "unproved": []}
    for l in lines:
        if not l.startswith("VIOLATION"):
            continue
        path = l.split("replay=")[1].split()[0]
        try:
            doc = json.load(open(path))
        except Exception:
            doc = {}
        if l.rstrip().endswith("no-failing-input-found"):
            out["unproved"] += [x.get("name") for x in doc.get("no_longer_checks", [])][:4]
        else:
            out["concrete"].append(doc.get("signature", "?"))
    return out


def main():
    args = sys.argv[1:]
    tier = "quick"
    allp = "--all" in args
    names = sorted(os.path.basename(os.path.dirname(p)) for p in glob.glob(os.path.join(VERIF, "seeded/*/patch.diff")))
    if "--seeds" in args:
        names = [n for n in names if n in args[args.index("--seeds") + 1:]]
    if sh("git -C %s diff --quiet" % REPO).returncode != 0:
        sys.exit("refusing: /repo has uncommitted changes")
    res_path = os.path.join(VERIF, "seeded/RESULTS.json")
    results = json.load(open(res_path)) if os.path.exists(res_path) else {}
    head = sh("git -C %s rev-parse --short HEAD" % REPO).stdout.strip()
    try:
        for n in names:
            patch = os.path.join(VERIF, "seeded", n, "patch.diff")
            meta = json.load(open(os.path.join(VERIF, "seeded", n, "meta.json")))
            own = meta["property"]
            if sh("git -C %s apply %s" % (REPO, patch)).returncode != 0:
                results[n] = {"error": "patch does not apply to /repo HEAD %s" % head}
                continue
            try:
                entry = results.get(n, {})
                entry.update({"property": own, "repo_head": head, "tier": tier})
                entry.setdefault("checks", {})
                for p in (PROPS if allp else [own]):
                    entry["checks"][p] = run_check(p, tier)
                    c = entry["checks"][p]
                    print("%s × %s: exit %s %s %s" % (n, p, c["exit"], c["concrete"][:2], c["unproved"][:2]), flush=True)
                results[n] = entry
            finally:
                restore()
            json.dump(results, open(res_path, "w"), indent=1, sort_keys=True)
    finally:
        restore()
    write_readme(results)


def write_readme(results):
    rows = []
    for n in sorted(results):
        e = results[n]
        if "checks" not in e or not os.path.exists(os.path.join(VERIF, "seeded", n, "meta.json")):
            continue
        meta = json.load(open(os.path.join(VERIF, "seeded", n, "meta.json")))
        own = e["checks"].get(e["property"], {})
        verdict = ("VIOLATION with replay: " + "; ".join(sorted(set(own.get("concrete", [])))[:2])) if own.get("concrete") else \
                  ("VIOLATION … no-failing-input-found (%s)" % ", ".join(own.get("unproved", [])[:2]) if own.get("exit") == 1 else "NOT REPORTED")
        others = sorted(p for p, c in e["checks"].items() if p != e["property"] and c["exit"] == 1)
        needs = meta.get("needs", "")
        rows.append("| %s | %s | %s | %s | %s |" % (n, e["property"], needs.replace("|", "/").replace("\n", " ")[:260], verdict.replace("|", "/"), ", ".join(others) or "–"))
    text = open(os.path.join(VERIF, "seeded/README.head.md")).read() if os.path.exists(os.path.join(VERIF, "seeded/README.head.md")) else ""
    text += "\n| change | breaks | needs, to manifest | what `./check <property>` (quick tier) prints | other checks that also exit 1 (when the full matrix was run) |\n|---|---|---|---|---|\n" + "\n".join(rows) + "\n"
    open(os.path.join(VERIF, "seeded/README.md"), "w").write(text)


if __name__ == "__main__":
    if "--readme" in sys.argv:
        write_readme(json.load(open(os.path.join(VERIF, "seeded/RESULTS.json"))))
    else:
        main()
