#!/bin/bash
# usage: tools/seedtest.sh <patch.diff> <Cxx> [<Cyy> ...]
# Applies a seeded change to /repo, runs the named checks (quick tier), prints their verdict lines, and always
# restores /repo afterwards.  Scratch replay files go to /verif/replay (git-ignored).
set -u
patch="$1"; shift
cd /repo || exit 2
if ! git diff --quiet; then echo "refusing: /repo has uncommitted changes"; exit 2; fi
git apply "$patch" || { echo "patch does not apply"; exit 2; }
trap 'git -C /repo checkout -- . ; git -C /repo clean -fdq internal cmd 2>/dev/null' EXIT
cd /verif
for p in "$@"; do
  start=$(date +%s)
  out=$(./check "$p" --tier "${VERIF_TIER:-quick}" 2>/dev/null)
  rc=$?
  echo "== $p exit=$rc ($(( $(date +%s) - start ))s)"
  echo "$out" | grep -E "VIOLATION|KNOWN-FINDING" | head -5
done
