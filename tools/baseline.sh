#!/bin/bash
# Runs /repo's test suite (guard off) and checks every test in BASELINE.json's stable_pass list passes.
cd "${1:-/repo}" && GOFLAGS=-mod=mod GOPROXY=off go test -json -vet=off -count=1 -timeout 25m ./... > /tmp/verif-baseline.json 2>/dev/null
python3 - <<'PY'
import json
base=json.load(open('/root/.vp/BASELINE.json'))
passed=set()
for l in open('/tmp/verif-baseline.json'):
    try: e=json.loads(l)
    except: continue
    if e.get('Action')=='pass' and e.get('Test'): passed.add(e['Package']+'::'+e['Test'])
missing=[t for t in base['stable_pass'] if t not in passed]
print('stable_pass', len(base['stable_pass']), 'passed-now', len(base['stable_pass'])-len(missing), 'missing', missing[:10])
import sys; sys.exit(1 if missing else 0)
PY
rc=$?; rm -f /tmp/verif-baseline.json; exit $rc
