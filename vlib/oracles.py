"""Executable oracles over *implementation* observations (decidable restatements of the properties).
They never consult the Lean model: the documented tables are written out here independently."""

DOC_TRANSITIONS = {
    "todo": {"doing", "done", "blocked", "canceled"},
    "doing": {"todo", "done", "blocked", "canceled", "error"},
    "blocked": {"todo", "doing", "done", "canceled"},
    "done": {"todo"},
    "canceled": {"todo"},
    "error": {"todo", "doing", "canceled"},
}
SIX = set(DOC_TRANSITIONS)
MUST_CLAIM = {"doing", "error"}
MUST_NOT_CLAIM = {"todo", "done", "canceled"}


def inv06(graph):
    """every task in one of six states, claimed iff required; epics todo & unclaimed.  → list of problems"""
    bad = []
    for t in graph["tasks"]:
        if t["is_epic"]:
            if t["st"] != "todo" or t["claimed_by"] != "":
                bad.append(("epic-has-state-or-claim", t["id"], t["st"], t["claimed_by"]))
            continue
        if t["st"] not in SIX:
            bad.append(("not-a-state", t["id"], t["st"]))
        elif t["st"] in MUST_CLAIM and t["claimed_by"] == "":
            bad.append(("%s-unclaimed" % t["st"], t["id"]))
        elif t["st"] in MUST_NOT_CLAIM and t["claimed_by"] != "":
            bad.append(("%s-claimed" % t["st"], t["id"]))
    return bad


def task_of(graph, tid):
    for t in graph["tasks"]:
        if t["id"] == tid:
            return t
    return None


def transitions(pre, post):
    """(id, from, to) for every item whose state differs between two graphs"""
    out = []
    for t in post["tasks"]:
        p = task_of(pre, t["id"])
        if p is not None and p["st"] != t["st"]:
            out.append((t["id"], p["st"], t["st"]))
    return out


def observable(t):
    """what a reader can see of one item (claim time included)"""
    keys = ("id", "uuid", "epic_id", "is_epic", "st", "title", "body", "claimed_by", "created_at", "updated_at", "results",
            "deps", "rdeps", "ready", "blocked")
    d = {k: t[k] for k in keys}
    d["claimed_at"] = t["last_claim"] if t["claimed_by"] != "" else "0"
    return d


def obs_graph(g):
    return {"tasks": [observable(t) for t in g["tasks"]]}


def inv14(graph):
    """every task's epic reference is empty or names a live epic; epics belong to nothing"""
    epics = {t["id"] for t in graph["tasks"] if t["is_epic"]}
    bad = []
    for t in graph["tasks"]:
        if t["is_epic"]:
            if t["epic_id"] != "":
                bad.append(("epic-in-epic", t["id"], t["epic_id"]))
        elif t["epic_id"] != "" and t["epic_id"] not in epics:
            kind = "task" if any(x["id"] == t["epic_id"] for x in graph["tasks"]) else ("pruned" if t["epic_id"] in graph.get("tombs", []) else "unknown")
            bad.append(("dangling-epic:" + kind, t["id"], t["epic_id"]))
    return bad


def prune_policy(graph):
    """ids `prune` must select: done/canceled tasks, and epics with no remaining (unpruned) child"""
    closed = {"done", "canceled"}
    ids = [t["id"] for t in graph["tasks"] if not t["is_epic"] and t["st"] in closed]
    for e in graph["tasks"]:
        if e["is_epic"]:
            remaining = [t for t in graph["tasks"] if not t["is_epic"] and t["st"] not in closed and t["epic_id"] == e["id"]]
            if not remaining:
                ids.append(e["id"])
    return sorted(ids)


# ---- C07 -------------------------------------------------------------------------------------
def find_cycle(edges):
    """edges: list of (a, b) meaning a depends on b; returns a cycle as a list of ids or None"""
    succ = {}
    for a, b in edges:
        succ.setdefault(a, []).append(b)
    color, stack = {}, []
    def dfs(u):
        color[u] = 1; stack.append(u)
        for v in succ.get(u, []):
            if color.get(v) == 1:
                return stack[stack.index(v):] + [v]
            if color.get(v) is None:
                c = dfs(v)
                if c:
                    return c
        color[u] = 2; stack.pop()
        return None
    for u in list(succ):
        if color.get(u) is None:
            c = dfs(u)
            if c:
                return c
    return None


def inv07(graph):
    bad = []
    by = {t["id"]: t for t in graph["tasks"]}
    edges = [tuple(e) for e in graph["deps"]]
    for a, b in edges:
        if a == b:
            bad.append(("self-edge", a, b))
        if a not in by or b not in by:
            bad.append(("edge-to-missing-item", a, b))
        elif by[a]["is_epic"] != by[b]["is_epic"]:
            bad.append(("mixed-kind-edge", a, b))
        if a in graph.get("tombs", []) or b in graph.get("tombs", []):
            bad.append(("edge-to-pruned", a, b))
    c = find_cycle(edges)
    if c:
        bad.append(("cycle", c))
    for t in graph["tasks"]:
        for d in t["deps"]:
            if d in by and t["id"] not in by[d]["rdeps"]:
                bad.append(("mirror", t["id"], d))
            if d not in by:
                bad.append(("deps-names-missing-item", t["id"], d))
        for r in t["rdeps"]:
            if r in by and t["id"] not in by[r]["deps"]:
                bad.append(("mirror", r, t["id"]))
            if r not in by:
                bad.append(("rdeps-names-missing-item", t["id"], r))
    return bad


# ---- C08 -------------------------------------------------------------------------------------
CLOSED = {"done", "canceled"}


def ready_spec(graph, t):
    by = {x["id"]: x for x in graph["tasks"]}
    if t["st"] != "todo" or t["claimed_by"] != "":
        return False
    for a, b in graph["deps"]:
        if a == t["id"] and b in by and by[b]["st"] not in CLOSED:
            return False
    if t["epic_id"] != "":
        for a, e in graph["deps"]:
            if a == t["epic_id"] and e in by and by[e]["is_epic"]:
                if any(c["epic_id"] == e and c["st"] not in CLOSED for c in graph["tasks"]):
                    return False
    return True


def blocked_spec(graph, t):
    return t["st"] == "blocked" or (t["st"] == "todo" and t["claimed_by"] == "" and not ready_spec(graph, t))


def ready_order(graph, epic=""):
    r = [t for t in graph["tasks"] if not t["is_epic"] and ready_spec(graph, t) and (epic == "" or t["epic_id"] == epic)]
    r.sort(key=lambda t: (int(t["created_at"]), t["id"].encode()))
    return [t["id"] for t in r]


# ---- C15 -------------------------------------------------------------------------------------
def waits_edges(graph):
    """effective waits-for among live items: own deps + deps inherited from the epic's epic-deps"""
    by = {x["id"]: x for x in graph["tasks"]}
    out = []
    for t in graph["tasks"]:
        for a, b in graph["deps"]:
            if a == t["id"] and b in by:
                out.append((t["id"], b, "own"))
        if t["epic_id"] != "":
            for a, e in graph["deps"]:
                if a == t["epic_id"] and e in by and by[e]["is_epic"]:
                    for c in graph["tasks"]:
                        if c["epic_id"] == e:
                            out.append((t["id"], c["id"], "via-epic"))
    return out
