"""Executable oracles over *implementation* observations (decidable restatements of the properties).
They never consult the Lean model: the documented tables are written out here independently."""

DOC_TRANSITIONS = {
    "todo": {"doing", "done", "blocked", "canceled"},
    "doing": {"todo", "done", "blocked", "canceled", "error"},
    "blocked": {"todo", "doing", "done", "canceled"},
    "done": {"todo"},
    "canceled": {"todo"},
    "error": {"todo", "doing", "canceled"},
}
SIX = set(DOC_TRANSITIONS)
MUST_CLAIM = {"doing", "error"}
MUST_NOT_CLAIM = {"todo", "done", "canceled"}


def inv06(graph):
    """every task in one of six states, claimed iff required; epics todo & unclaimed.  → list of problems"""
    bad = []
    for t in graph["tasks"]:
        if t["is_epic"]:
            if t["st"] != "todo" or t["claimed_by"] != "":
                bad.append(("epic-has-state-or-claim", t["id"], t["st"], t["claimed_by"]))
            continue
        if t["st"] not in SIX:
            bad.append(("not-a-state", t["id"], t["st"]))
        elif t["st"] in MUST_CLAIM and t["claimed_by"] == "":
            bad.append(("%s-unclaimed" % t["st"], t["id"]))
        elif t["st"] in MUST_NOT_CLAIM and t["claimed_by"] != "":
            bad.append(("%s-claimed" % t["st"], t["id"]))
    return bad


def task_of(graph, tid):
    for t in graph["tasks"]:
        if t["id"] == tid:
            return t
    return None


def transitions(pre, post):
    """(id, from, to) for every item whose state differs between two graphs"""
    out = []
    for t in post["tasks"]:
        p = task_of(pre, t["id"])
        if p is not None and p["st"] != t["st"]:
            out.append((t["id"], p["st"], t["st"]))
    return out


def observable(t):
    """what a reader can see of one item (claim time included)"""
    keys = ("id", "uuid", "epic_id", "is_epic", "st", "title", "body", "claimed_by", "created_at", "updated_at", "results",
            "deps", "rdeps", "ready", "blocked")
    d = {k: t[k] for k in keys}
    d["claimed_at"] = t["last_claim"] if t["claimed_by"] != "" else "0"
    return d


def obs_graph(g):
    return {"tasks": [observable(t) for t in g["tasks"]]}


def inv14(graph):
    """every task's epic reference is empty or names a live epic; epics belong to nothing"""
    epics = {t["id"] for t in graph["tasks"] if t["is_epic"]}
    bad = []
    for t in graph["tasks"]:
        if t["is_epic"]:
            if t["epic_id"] != "":
                bad.append(("epic-in-epic", t["id"], t["epic_id"]))
        elif t["epic_id"] != "" and t["epic_id"] not in epics:
            kind = "task" if any(x["id"] == t["epic_id"] for x in graph["tasks"]) else ("pruned" if t["epic_id"] in graph.get("tombs", []) else "unknown")
            bad.append(("dangling-epic:" + kind, t["id"], t["epic_id"]))
    return bad


def prune_policy(graph):
    """ids `prune` must select: done/canceled tasks, and epics with no remaining (unpruned) child"""
    closed = {"done", "canceled"}
    ids = [t["id"] for t in graph["tasks"] if not t["is_epic"] and t["st"] in closed]
    for e in graph["tasks"]:
        if e["is_epic"]:
            remaining = [t for t in graph["tasks"] if not t["is_epic"] and t["st"] not in closed and t["epic_id"] == e["id"]]
            if not remaining:
                ids.append(e["id"])
    return sorted(ids)
