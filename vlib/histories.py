"""Generic seeded command history: every command goes to the real binary and to the Lean model (T2-cmd);
the property's oracle looks at the real pre/post graphs."""
from . import cmdrun, gen, oracles


TORN_FRAGMENTS = [b'{"type":"state","ts":"2026-01-01T00:00:00Z","data":{"id":"', b'{"type":"new_task","ts":"2026-01-01T00:00:00.5Z","data":{"id":"QQQQQQ","uuid":"u","title":"half a li',
                  b'{', b'{"type":"claim","ts":"2026-01-01T00:00:00Z","data":{"id":"AAAAAA","agent_id":"zz","ts":"2026-01-01T00:00:00Z"']


def mode_of(req):
    if req.get("body_stdin"): return "body-stdin"
    if req.get("piped") is False: return "flags"
    return "json"


def fields_of(req):
    d = req.get("json") or req.get("flags") or {}
    return sorted(k for k in d if d.get(k) is not None)


def fieldset(req, only=("state", "claim", "epic", "title", "body", "result_path", "result_summary")):
    return ",".join(k for k in fields_of(req) if k in only) or "-"


def skew_edit(st, r, trace):
    """lines a collaborator's ergo wrote with a clock that runs ahead (a log merged through git; this machine's clock stepped back since) are now in
    the log: what an item is depends on the *order of the lines* and never on how their stamps compare with those of later lines.  Two kinds:
    a retitle (title + body) of a live item, or a claim-and-release of a ready task (crash.add_skewed_history).  Returns True if the log changed."""
    import datetime, json
    from . import crash
    if not st.log_bytes().endswith(b"\n"):
        return False
    n0 = len(trace)
    if r.p(50):
        crash.add_skewed_history(st, r, trace, max_tasks=1)
        return len(trace) > n0
    g = st.graph()
    if "graph" not in g or not g["graph"]["tasks"]:
        return False
    t = r.pick(g["graph"]["tasks"])
    f = (datetime.datetime.now(datetime.timezone.utc) + datetime.timedelta(minutes=60 + r.n(30))).strftime("%Y-%m-%dT%H:%M:%S.%f000Z")
    lines = [{"type": "title", "ts": f, "data": {"id": t["id"], "title": "collaborator's title", "ts": f}},
             {"type": "body", "ts": f, "data": {"id": t["id"], "body": "collaborator's body", "ts": f}}]
    blob = "".join(json.dumps(l, separators=(",", ":")) + "\n" for l in lines)
    with open(st.log_path(), "ab") as fh:
        fh.write(blob.encode())
    trace.append({"edit": "lines appended to the log: title and body of %s as rewritten by a collaborator whose clock runs an hour ahead" % t["id"], "bytes": blob})
    return True


def run_history(ctx, r, n_cmds, weights, oracle, legacy=None, prelude=None, gen_fn=None):
    """returns the trace; stops at the first tie break or violation.  legacy=None: one history in seven runs on a store whose log still has the
    old name `events.jsonl` (every command must read and write that same file)"""
    if legacy is None:
        legacy = r.p(14)
    st = cmdrun.Store(ctx.ergo, ctx.go, legacy=legacy)
    v = gen.View()
    trace = [{"store": "legacy log name events.jsonl"}] if legacy else []
    try:
        pre = None
        diverged = False
        skews = 0
        for i in range(n_cmds):
            if i and r.p(4) and st.log_bytes().endswith(b"\n"):
                # another writer was killed in the middle of its write: the log now ends in a fragment without newline (readers skip it, the
                # next writer drops it).  Nothing about what commands decide, print or record may depend on it.
                frag = r.pick(TORN_FRAGMENTS)
                with open(st.log_path(), "ab") as f:
                    f.write(frag)
                trace.append({"edit": "torn fragment appended to the log, no newline", "bytes": frag.decode("utf-8", "replace")})
                pre = None
            elif i and r.p(3):
                # the last line is complete but its newline is missing (a write cut one byte short; an editor or a merge that drops the final
                # newline): readers take the line as an event, so the next writer has to keep it — and to decide on a log that contains it
                data = st.log_bytes()
                if data.endswith(b"\n") and len(data) > 1:
                    with open(st.log_path(), "wb") as f:
                        f.write(data[:-1])
                    trace.append({"edit": "final newline of the log removed (the last line stays a complete event)"})
            if i and skews < 2 and r.p(6) and skew_edit(st, r, trace):
                skews += 1
                pre = None
                gs = st.graph()
                if "graph" in gs:
                    v.update(gs["graph"])
            req, agent = (gen_fn or gen.gen_request)(r, v, weights)
            req = cmdrun.classify_raw(ctx.go, req)
            rec = cmdrun.run_and_compare(st, ctx.model, req, agent, pre_graph=pre)
            step = {"argv": cmdrun.argv_of(req, agent), "stdin": None if cmdrun.stdin_of(req) is None else cmdrun.stdin_of(req).decode("utf-8", "replace"),
                    "exit": rec["exit"]}
            trace.append(step)
            ctx.count(1, key=(req["cmd"], rec["errclass"] or "ok", mode_of(req), fieldset(req)))
            if "err" in rec["post"] and "err" not in rec["pre"]:
                # whatever the property, nothing of it is left once the store cannot be read any more: a command (successful or refused) that leaves
                # behind a log no command can load is reported with the history that led to it
                ctx.violation("%s store unreadable after %s (exit %s)" % (ctx.prop, req["cmd"], rec["exit"]),
                              "the log was readable before this command and is not after it: %s" % str(rec["post"].get("err"))[:200], {"trace": trace})
                return trace
            if rec["diff"] and not diverged:
                ctx.tie_broken("T2-cmd", {"diff": rec["diff"], "trace": list(trace), "stderr": rec["stderr"][:300]})
                diverged = True
            if diverged:
                # model and implementation disagree from here on: keep looking for a concrete failing input with the property's oracle
                # alone, on this step and on the rest of the history (the generator now follows the real store)
                if "err" in rec["pre"] or "err" in rec["post"]:
                    return trace
                if oracle(ctx, st, req, agent, rec, trace):
                    return trace
                v.update(rec["post"]["graph"])
                pre = rec["post"]
                continue
            if oracle(ctx, st, req, agent, rec, trace):
                return trace
            v.update(rec.get("model_post"))
            pre = rec["post"]
            # T2-view: what `list --json` / `show --json` say about this log vs the model's View functions
            if (i % 6 == 5 or i == n_cmds - 1) and "events" in rec["post"]:
                ids = [r.pick(x) for x in (v.tasks, v.tasks, v.epics, v.pruned) if x] + ["ZZZZZZ"]
                vd = cmdrun.compare_views(st, ctx.model, rec["post"]["events"], ids, epic=(r.pick(v.epics) if v.epics else ""))
                ctx.count(1, key=("view", len(ids)))
                if vd:
                    ctx.tie_broken("T2-view", {"diff": vd, "trace": trace})
                    return trace
        ctx.sample({"history": trace[:5]}, cap=3)
        return trace
    finally:
        st.close()


def apply_edit(st, step):
    """re-apply a recorded edit of the store's files (a step without argv) when a trace is replayed"""
    import os
    e = str(step.get("edit", ""))
    if "bytes" in step and ("appended to the log" in e):
        with open(st.log_path(), "ab") as f:
            f.write(step["bytes"].encode())
    elif e.startswith("final newline of the log removed"):
        data = st.log_bytes()
        if data.endswith(b"\n"):
            open(st.log_path(), "wb").write(data[:-1])
    elif e.startswith(".ergo/lock removed"):
        try:
            os.unlink(os.path.join(st.dir, "lock"))
        except OSError:
            pass
    elif e.startswith(".ergo/plans.jsonl moved to shared/plans.jsonl"):
        os.makedirs(os.path.join(st.root, "shared"), exist_ok=True)
        os.rename(os.path.join(st.dir, "plans.jsonl"), os.path.join(st.root, "shared", "plans.jsonl"))
        os.symlink(os.path.join("..", "shared", "plans.jsonl"), os.path.join(st.dir, "plans.jsonl"))


def replay_trace(ctx, trace, legacy=False):
    """re-run a recorded trace against the current tree; returns the store (caller closes)"""
    legacy = legacy or any("legacy" in str(step.get("store", "")) for step in trace)
    st = cmdrun.Store(ctx.ergo, ctx.go, legacy=legacy)
    for step in trace:
        if "argv" not in step:
            apply_edit(st, step)
            print("·", {k: (v if len(str(v)) < 300 else str(v)[:300] + "…") for k, v in step.items()})
            continue
        r = st.exec(step["argv"], None if step.get("stdin") is None else step["stdin"].encode(), env=step.get("env"))
        print(" ".join(step["argv"]), "⇒ exit", r["exit"], r["stderr"].strip()[:160])
    return st
