"""The check pipeline of DESIGN.md §4: facts → proofs → audit → builds → ties → oracles → verdict."""
import json, os, re, subprocess, sys, time, hashlib, traceback
from . import common

ALLOWED_AXIOMS = {"propext", "Classical.choice", "Quot.sound"}
FORBIDDEN_TOKENS = ["sorry", "admit", "native_decide", "bv_decide", "implemented_by", "unsafe ", "maxHeartbeats 0"]


class Ctx:
    def __init__(self, prop, tier, seed):
        self.prop, self.tier, self.seed = prop, tier, seed
        self.t0 = time.time()
        self.violations = []      # dicts: {signature, what, replay(dict), found_input(bool)}
        self.known_hit = []       # (signature, what)
        self.cov = {"evaluations": 0, "distinct_nontrivial": 0, "samples": [], "rule": "", "ties": {}, "oracles": {}}
        self.distinct = set()
        self.assumptions = []
        self.broken = []          # names of proof obligations / ties that no longer check
        self.bins = None
        self._model = None
        self._go = None
        self.quick = tier == "quick"

    # ---- resources
    def build(self):
        if self.bins is None:
            self.bins = common.build_go()
        return self.bins
    @property
    def ergo(self): return self.build()[0]
    @property
    def ergo_verif(self): return self.build()[1]
    @property
    def ev(self): return self.build()[2]
    @property
    def model(self):
        if self._model is None:
            self._model = common.Model()
        return self._model
    @property
    def go(self):
        if self._go is None:
            from . import cmdrun
            self._go = cmdrun.GoServer(self.ev)
        return self._go
    def close(self):
        if self._model: self._model.close()
        if self._go: self._go.close()

    # ---- bookkeeping
    def count(self, n=1, key=None):
        self.cov["evaluations"] += n
        if key is not None:
            self.distinct.add(key if isinstance(key, str) else common.canon(key))
    def sample(self, s, cap=6):
        if len(self.cov["samples"]) < cap:
            self.cov["samples"].append(s)
    def tie(self, name, **kw):
        self.cov["ties"].setdefault(name, {}).update(kw)
    def tie_tally(self, name, key):
        """how often each observed shape went through a tie"""
        d = self.cov["ties"].setdefault(name, {})
        d[key] = d.get(key, 0) + 1
    def violation(self, signature, what, replay, found_input=True):
        self.violations.append({"signature": signature, "what": what, "replay": replay, "found_input": found_input})
    def tie_broken(self, name, detail):
        self.broken.append({"name": name, "detail": detail})


def load_known():
    p = os.path.join(common.VERIF, "known_findings.jsonl")
    out = []
    if os.path.exists(p):
        for l in open(p):
            l = l.strip()
            if l and not l.startswith("#"):
                out.append(json.loads(l))
    return out


# ------------------------------------------------------------------------------------------------
# T1 facts

def run_extract(ctx):
    """regenerate Generated/Facts.lean + facts.json from /repo's working tree"""
    with common.Lock("extract.lock"):
        exe = os.path.join(common.BUILD, "extract")
        srcs = os.path.join(common.VERIF, "extract", "main.go")
        if not os.path.exists(exe) or os.path.getmtime(exe) < os.path.getmtime(srcs):
            env = dict(common.GOENV, GOTOOLCHAIN="local")
            r = common.run(["go", "build", "-o", exe, "."], cwd=os.path.join(common.VERIF, "extract"), env=env)
            if r.returncode != 0:
                raise common.BuildError("extract build failed: " + r.stderr)
        fj = os.path.join(common.BUILD, "facts.json")
        r = common.run([exe, os.path.join(common.REPO, "internal", "ergo"),
                        os.path.join(common.LEAN, "ErgoModel", "Generated", "Facts.lean"), fj])
        if r.returncode != 0:
            raise common.BuildError("extract failed (does /repo still parse?): " + r.stderr[-2000:])
        return json.load(open(fj))


def check_facts(ctx, facts, keys):
    """compare the regenerated structural facts with the committed expectations"""
    exp = json.load(open(os.path.join(common.VERIF, "extract", "expect.json")))
    bad = []
    for k in keys + ["unknown"]:
        if common.canon(facts.get(k)) != common.canon(exp.get(k)):
            from .fndiff import first_difference
            bad.append("%s: %s" % (k, first_difference(exp.get(k), facts.get(k)) or "differs"))
    ctx.tie("T1_facts", keys=keys, mismatches=bad)
    for b in bad:
        ctx.tie_broken("T1:" + b.split(":")[0], b)
    return bad


# ------------------------------------------------------------------------------------------------
# proofs

def theorem_names(prop):
    p = os.path.join(common.LEAN, "ErgoProofs", "Props", prop + ".lean")
    if not os.path.exists(p):
        return []
    txt = open(p).read()
    return re.findall(r"^theorem\s+(" + prop + r"_[A-Za-z0-9_']+)", txt, re.M)


def grep_forbidden():
    hits = []
    for root in ("ErgoModel", "ErgoProofs"):
        for d, _, files in os.walk(os.path.join(common.LEAN, root)):
            for fn in files:
                if not fn.endswith(".lean"):
                    continue
                in_block = False
                for i, line in enumerate(open(os.path.join(d, fn)), 1):
                    s = line
                    # strip comments (line and simple block comments)
                    if in_block:
                        if "-/" in s:
                            s = s.split("-/", 1)[1]; in_block = False
                        else:
                            continue
                    while "/-" in s:
                        a, b = s.split("/-", 1)
                        if "-/" in b:
                            s = a + b.split("-/", 1)[1]
                        else:
                            s = a; in_block = True
                    s = s.split("--", 1)[0]
                    for tok in FORBIDDEN_TOKENS:
                        if tok in s:
                            hits.append("%s/%s:%d: %s" % (root, fn, i, tok.strip()))
                    if re.match(r"\s*axiom\s", s):
                        hits.append("%s/%s:%d: axiom" % (root, fn, i))
    return hits


def prove(ctx):
    """build the property's theorem file and audit axioms; returns (obligations, discharged)"""
    prop = ctx.prop
    names = theorem_names(prop)
    mod = "ErgoProofs.Props." + prop
    t = time.time()
    r = common.lake("ergo_model", mod, "ErgoProofs.Audit")
    build_ok = r.returncode == 0
    detail = ""
    if not build_ok:
        detail = (r.stdout + r.stderr)[-3000:]
        # which theorems/files failed
        failed = sorted(set(re.findall(r"error: (\S+\.lean):(\d+)", r.stdout + r.stderr)))
        ctx.tie_broken("proof:lake build " + mod, detail)
        ctx.cov["proof"] = {"module": mod, "build_ok": False, "errors": ["%s:%s" % f for f in failed][:20]}
        return len(names), 0
    # audit
    audit_src = "import ErgoProofs.Props.%s\nimport ErgoProofs.Audit\n" % prop + "".join("#print axioms Ergo.%s\n" % n for n in names)
    ap = os.path.join(common.BUILD, "Audit_%s_%d.lean" % (prop, os.getpid()))
    open(ap, "w").write(audit_src)
    with common.Lock("lake.lock"):
        a = common.run(["lake", "env", "lean", ap], cwd=common.LEAN)
    os.unlink(ap)
    out = a.stdout + a.stderr
    discharged, axioms_used, bad_axioms = 0, set(), []
    for n in names:
        m = re.search(r"'Ergo\." + re.escape(n) + r"' (depends on axioms: \[([^\]]*)\]|does not depend on any axioms)", out, re.S)
        if not m:
            bad_axioms.append(n + ": not found in audit output")
            continue
        ax = set(x.strip() for x in (m.group(2) or "").replace("\n", " ").split(",") if x.strip())
        axioms_used |= ax
        if ax <= ALLOWED_AXIOMS:
            discharged += 1
        else:
            bad_axioms.append("%s: %s" % (n, sorted(ax - ALLOWED_AXIOMS)))
    hits = grep_forbidden()
    if hits:
        bad_axioms += hits
        discharged = 0
    for b in bad_axioms:
        ctx.tie_broken("audit:" + b.split(":")[0], b)
    ctx.cov["proof"] = {"module": mod, "build_ok": True, "theorems": names, "axioms_used": sorted(axioms_used),
                        "audit_problems": bad_axioms, "lake_s": round(time.time() - t, 1)}
    if ctx.tier == "thorough":
        # non-vacuity: ErgoProofs/Witness.lean instantiates the property theorems on a concrete eleven-command history, a concrete line codec and
        # concrete runs of the process model (their hypotheses are jointly satisfiable); it must still build against the regenerated tables
        w = common.lake("ErgoProofs.Witness")
        ctx.cov["proof"]["witness_build"] = "ok" if w.returncode == 0 else (w.stdout + w.stderr)[-600:]
        if w.returncode != 0:
            ctx.tie_broken("proof:non-vacuity witnesses (ErgoProofs.Witness)", (w.stdout + w.stderr)[-1500:])
        with common.Lock("lake.lock"):
            lc = common.run(["lake", "env", "leanchecker", mod], cwd=common.LEAN)
        ctx.cov["proof"]["leanchecker"] = "ok" if lc.returncode == 0 else (lc.stdout + lc.stderr)[-500:]
        if lc.returncode != 0:
            ctx.tie_broken("leanchecker:" + mod, (lc.stdout + lc.stderr)[-800:])
    return len(names), discharged


# ------------------------------------------------------------------------------------------------
# verdict

def finish(ctx, level_text_extra=None):
    prop = ctx.prop
    known = [k for k in load_known() if k["property"] == prop and k.get("status") == "open"]
    known_sigs = {k["signature"]: k for k in known}
    lines, new_viol = [], []
    seen_known = set()
    for v in ctx.violations:
        if v["signature"] in known_sigs:
            if v["signature"] not in seen_known:
                seen_known.add(v["signature"])
                lines.append("KNOWN-FINDING: property=%s %s" % (prop, known_sigs[v["signature"]]["what"]))
        else:
            new_viol.append(v)
    os.makedirs(os.path.join(common.VERIF, "replay"), exist_ok=True)
    exit_code = 0
    reported = set()
    for v in new_viol:
        if v["signature"] in reported:
            continue
        reported.add(v["signature"])
        h = hashlib.sha256(common.canon([v["signature"], v["replay"]]).encode()).hexdigest()[:10]
        rp = os.path.join(common.VERIF, "replay", "%s-%s.json" % (prop, h))
        json.dump({"property": prop, "signature": v["signature"], "what": v["what"], "seed": ctx.seed, "tier": ctx.tier,
                   "replay": v["replay"]}, open(rp, "w"), indent=1, ensure_ascii=False, default=str)
        lines.append("VIOLATION property=%s replay=%s" % (prop, rp))
        exit_code = 1
    if ctx.broken and not new_viol:
        # something no longer checks and the search found no failing input
        h = hashlib.sha256(common.canon(ctx.broken).encode()).hexdigest()[:10]
        rp = os.path.join(common.VERIF, "replay", "%s-unproved-%s.json" % (prop, h))
        json.dump({"property": prop, "no_longer_checks": ctx.broken, "seed": ctx.seed, "tier": ctx.tier,
                   "note": "a proof obligation or a model/implementation tie broke; the search found no concrete failing input"},
                  open(rp, "w"), indent=1, ensure_ascii=False, default=str)
        lines.append("VIOLATION property=%s replay=%s no-failing-input-found" % (prop, rp))
        exit_code = 1
    elif ctx.broken:
        ctx.cov["also_broken"] = ctx.broken
    ctx.cov["distinct_nontrivial"] = max(ctx.cov.get("distinct_nontrivial", 0), len(ctx.distinct))
    ctx.cov["known_findings_hit"] = sorted(seen_known)
    ev = {"property_id": prop, "tier": ctx.tier, "seed": ctx.seed, "level": "proof", "coverage": ctx.cov,
          "assumptions": ctx.assumptions, "wall_s": round(time.time() - ctx.t0, 2), "violations": len(reported) + (1 if (ctx.broken and not new_viol) else 0)}
    os.makedirs(os.path.join(common.VERIF, "evidence"), exist_ok=True)
    with open(os.path.join(common.VERIF, "evidence", prop + ".json"), "w") as f:
        json.dump(ev, f, indent=1, ensure_ascii=False, default=str)
    for l in lines:
        print(l, flush=True)
    return exit_code
