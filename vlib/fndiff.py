"""T2-fn: run an `ergoverif fn-*` stream through the Lean model and diff the answers."""
import json, subprocess
from . import common


def strip_tag(d):
    d = dict(d); d.pop("tag", None); return d


def run_stream(ev_bin, args, limit_samples=3):
    p = subprocess.run([ev_bin, *args], stdout=subprocess.PIPE, stderr=subprocess.PIPE, text=True)
    if p.returncode != 0:
        # the real function panicked (or the harness did) inside the differential driver: a disagreement like any other — the model never panics —
        # reported with the end of the Go trace; the rest of the check goes on
        tail = (p.stderr or "")[-1200:]
        return {"cases": 0, "classes": {"crashed": 1}, "samples": [],
                "diffs": [{"req": {"stream": list(args), "s": [], "lit": [], "p": [], "start": [], "width": 0, "kind": "", "doc": "", "line": ""},
                           "go": {"crashed": "ergoverif %s exited %s: %s" % (" ".join(args), p.returncode, tail)}, "model": {}}]}
    cases = [json.loads(l) for l in p.stdout.split("\n") if l]
    outs = common.model_batch([c["req"] for c in cases])
    diffs, classes, samples = [], {}, []
    for c, o in zip(cases, outs):
        go, mo = c["go"], strip_tag(o)
        key = go.get("err") or "ok"
        classes[key] = classes.get(key, 0) + 1
        if common.canon(go) != common.canon(mo):
            diffs.append({"req": c["req"], "go": go, "model": mo})
        elif len(samples) < limit_samples:
            samples.append({"req": c["req"], "answer_keys": sorted(go.keys())})
    return {"cases": len(cases), "diffs": diffs, "classes": classes, "samples": samples}


def first_difference(a, b, path=""):
    """human-oriented locator of the first differing leaf"""
    if type(a) != type(b):
        return "%s: %r vs %r" % (path, a, b)
    if isinstance(a, dict):
        for k in sorted(set(a) | set(b)):
            if k not in a or k not in b:
                return "%s.%s: missing on one side" % (path, k)
            d = first_difference(a[k], b[k], path + "." + k)
            if d:
                return d
        return None
    if isinstance(a, list):
        if len(a) != len(b):
            return "%s: len %d vs %d" % (path, len(a), len(b))
        for i, (x, y) in enumerate(zip(a, b)):
            d = first_difference(x, y, "%s[%d]" % (path, i))
            if d:
                return d
        return None
    return None if a == b else "%s: %r vs %r" % (path, a, b)
