"""Two-process schedule explorer on the real binary.

A is parked (strace SIGSTOP injection) right after one of its system calls on the store — before the lock, while holding
it, or after releasing it; meanwhile B either runs to completion or is itself parked right after taking the lock; then A
is resumed, then B.  Commands are self-identifying (unique agent / title marker / edge) so every line of the log can be
attributed.  Oracles: whole lines, one contiguous batch per successful writer, nothing from a failed command, and the
final state equals running the successful commands one at a time in one of the two orders (twin stores, same RNG script).
"""
import json, os
from . import cmdrun, strace, crash, sched, gen, fndiff, common

common_canon = common.canon


def marked(r, v, i, kinds=None, shared=None):
    """(req, agent, label) whose writes are attributable to process i"""
    tag = "P%d" % i
    ag = "ag-" + tag
    todo = [t for t in v.tasks if v.by_id[t]["st"] == "todo" and v.by_id[t]["claimed_by"] == ""]
    closed = [t for t in v.tasks if v.by_id[t]["st"] in ("done", "canceled")]
    pool = [("new", 18), ("new+state", 8), ("claim_oldest", 14), ("prune", 8), ("compact", 8), ("plan", 6)]
    if v.tasks:
        pool += [("set", 18), ("claim_id", 10), ("set+state", 10)]
    if closed:
        pool += [("reopen", 10)]
    open_ = [t for t in v.tasks if v.by_id[t]["st"] not in ("done", "canceled")]
    if open_:
        pool += [("close", 0)]             # only on request: finish a task (changes what prune would take)
    if len(v.tasks) >= 2:
        pool += [("sequence", 8)]
    if getattr(v, "deps", None):
        pool += [("sequence_rm", 6)]          # take an existing edge away (what is ready changes; a later cycle test has to see it)
    if v.epics:
        pool += [("new_in_epic", 6)]
        if v.tasks:
            pool += [("set_epic", 6)]
    if len(v.tasks) >= 2:
        pool += [("seq_opposed", 0)]          # only on request: A and B ask for the two directions of one edge
    if v.tasks:
        pool += [("set_same", 0)]             # only on request: A and B move the *same* task to different states (what one validates, the other changes)
    if kinds:
        pool = [(k, w if w else 10) for k, w in pool if k in kinds] or [(k, w) for k, w in pool if w]
    else:
        pool = [(k, w) for k, w in pool if w]
    k = r.weighted(pool)
    J = lambda d: {"piped": True, "body_stdin": False, "flags": {}, "json": d}
    if k == "new": return dict(cmd="new_task", **J({"title": tag + " new", "body": "b"})), ag, k
    if k == "new+state": return dict(cmd="new_task", **J({"title": tag + " new", "state": r.pick(["doing", "blocked", "done"])})), ag, k
    if k == "set": return dict(cmd="set", id=r.pick(v.tasks), **J({"title": tag + " retitled"})), ag, k
    if k == "set+state": return dict(cmd="set", id=r.pick(v.tasks), **J({"title": tag + " retitled", "state": r.pick(gen.STATES)})), ag, k
    if k in ("new_in_epic", "set_epic"):
        # prefer an epic without children: the one `prune` would take
        used = {v.by_id[t].get("epic_id", "") for t in v.tasks}
        empty = [e for e in v.epics if e not in used]
        e = r.pick(empty) if empty and r.p(80) else r.pick(v.epics)
        if k == "new_in_epic": return dict(cmd="new_task", **J({"title": tag + " new", "epic": e})), ag, k
        return dict(cmd="set", id=r.pick(v.tasks), **J({"title": tag + " retitled", "epic": e})), ag, k
    if k == "set_same":
        shared = shared if shared is not None else {}
        if "task" not in shared:
            doing = [t for t in v.tasks if v.by_id[t]["st"] == "doing"]
            shared["task"] = r.pick(doing) if doing and r.p(70) else r.pick(todo or v.tasks)
            shared["directed"] = r.p(65)
        t = shared["task"]
        cur = v.by_id[t]["st"]
        if shared["directed"] and cur in ("doing", "todo", "blocked"):
            # A asks for a move that is allowed from the task's present state; B first takes the task somewhere from where it is not
            st_ = ("error" if cur == "doing" else "done") if i == 0 else ("todo" if cur == "doing" and r.p(50) else "canceled")
            upd = {"title": tag + " retitled", "state": st_}
        else:
            upd = {"title": tag + " retitled", "state": r.pick(gen.STATES)}
            if r.p(40):
                upd["claim"] = r.pick([ag, ""])
        return dict(cmd="set", id=t, **J(upd)), ag, k
    if k == "seq_opposed":
        shared = shared if shared is not None else {}
        if "pair" not in shared:
            a = r.pick(v.tasks); b = r.pick([t for t in v.tasks if t != a])
            shared["pair"] = (a, b)
        a, b = shared["pair"]
        return {"cmd": "sequence", "args": [a, b] if i == 0 else [b, a]}, ag, k
    if k == "sequence_rm":
        x, y = r.pick(v.deps)            # x waits for y
        return {"cmd": "sequence", "args": ["rm", y, x]}, ag, k
    if k == "close":
        t = r.pick(open_)
        # done needs a claimant history for some states; canceled is reachable from every open state
        return dict(cmd="set", id=t, **J({"title": tag + " closed", "state": r.pick(["canceled", "done"]) if v.by_id[t]["st"] in ("doing",) else "canceled"})), ag, k
    if k == "reopen": return dict(cmd="set", id=r.pick(closed), **J({"title": tag + " reopened", "state": "todo"})), ag, k
    if k == "claim_id": return {"cmd": "claim", "id": r.pick(todo or v.tasks)}, ag, k
    if k == "claim_oldest": return {"cmd": "claim_oldest", "epic": ""}, ag, k
    if k == "prune": return {"cmd": "prune", "yes": True}, ag, k
    if k == "compact": return {"cmd": "compact"}, ag, k
    if k == "plan": return {"cmd": "plan", "plan": {"title": tag + " plan", "tasks": [{"title": tag + " a"}, {"title": tag + " b", "after": [tag + " a"]}]}}, ag, k
    a, b = r.pick(v.tasks), r.pick(v.tasks)
    if a == b:
        return {"cmd": "claim_oldest", "epic": ""}, ag, "claim_oldest"
    return {"cmd": "sequence", "args": [a, b]}, ag, k


def owner_of(ev, cmds):
    """which of the commands wrote this line, when that can be told (None otherwise — e.g. two processes asking for the very same edge)"""
    d = ev.get("data") or {}
    owners = []
    for i, (req, ag, _) in enumerate(cmds):
        tag = "P%d" % i
        if ev["type"] in ("new_task", "new_epic", "title") and str(d.get("title", "")).startswith(tag + " "): owners.append(i)
        elif ev["type"] in ("claim", "tombstone") and d.get("agent_id") == ag: owners.append(i)
        elif ev["type"] == "link" and req["cmd"] == "sequence" and [d.get("to_id"), d.get("from_id")] == req["args"]: owners.append(i)
        elif ev["type"] == "unlink" and req["cmd"] == "sequence" and ["rm", d.get("to_id"), d.get("from_id")] == req["args"]: owners.append(i)
    return owners[0] if len(owners) == 1 else None


def lines_problem(data):
    if data and not data.endswith(b"\n"):
        return "log does not end in a newline"
    for i, l in enumerate(data.split(b"\n")[:-1], 1):
        try:
            json.loads(l)
        except Exception:
            return "line %d is not a JSON value: %r" % (i, l[:80])
    return None


def timeless_reply(req, res):
    """what a successful command printed, without clock readings (None for a failed one)"""
    if res["exit"] != 0:
        return None
    rep = cmdrun.canon_reply(req, res["stdout"])
    return {k: v for k, v in rep.items() if k not in ("created_at", "claimed_at")}


def serial_twin(base, order, cmds):
    t = crash.clone(base)
    try:
        exits, replies = [], {}
        for i in order:
            req, ag, env = cmds[i]
            rr = t.exec(cmdrun.argv_of(req, ag), cmdrun.stdin_of(req), env=env)
            exits.append(rr["exit"])
            replies[i] = timeless_reply(req, rr)
        g = t.graph()
        return exits, (crash.timeless(g["graph"]) if "graph" in g else None), replies
    finally:
        t.close()


def judge(ctx, prop, base, c, cmds, results, trace, step, post_oracle=None):
    """oracles after one schedule on clone `c` (base = the common pre-state); returns True if a violation was reported"""
    pre = base.log_bytes()
    data = c.log_bytes()
    if pre and not pre.endswith(b"\n"):
        # the common pre-state ends in the fragment of a killed writer: the first command that writes drops it (the fragments used are never whole
        # events); if nobody wrote, it is still there and the log is otherwise untouched
        if data == pre:
            data = pre = pre[:pre.rfind(b"\n") + 1]
        else:
            pre = pre[:pre.rfind(b"\n") + 1]
    bad = lines_problem(data)
    g = c.graph()
    if bad or "err" in g:
        ctx.violation("%s log is not whole JSON lines after a concurrent schedule" % prop, bad or g.get("err", "")[:200], {"trace": trace + [step]}); return True
    if post_oracle:
        why = post_oracle(g["graph"])
        if why:
            ctx.violation("%s %s after a concurrent schedule (%s ∥ %s)" % (prop, why[0], cmds[0][0]["cmd"], cmds[1][0]["cmd"]), why[1], {"trace": trace + [step]}); return True
    ok = [i for i in range(len(cmds)) if results[i]["exit"] == 0]
    rewrote = any(cmds[i][0]["cmd"] in ("compact", "plan") for i in ok)
    if data.startswith(pre) and not rewrote:
        evs = [json.loads(l) for l in data[len(pre):].split(b"\n")[:-1]]
        batches = []
        for ev in evs:
            if batches and batches[-1][0] == ev["ts"]:
                batches[-1][1].append(ev)
            else:
                batches.append((ev["ts"], [ev]))
        seen = []
        log_order = None
        for ts, group in batches:
            owners = {owner_of(ev, cmds) for ev in group} - {None}
            if len(owners) > 1:
                ctx.violation("%s two writers' lines interleave" % prop, "a batch written at %s belongs to writers %s" % (ts, sorted(owners)), {"trace": trace + [step]}); return True
            if not owners:
                continue
            o = owners.pop()
            if o in seen:
                ctx.violation("%s a writer's lines are split" % prop, "P%d wrote two separate batches" % o, {"trace": trace + [step]}); return True
            seen.append(o)
            if results[o]["exit"] != 0:
                ctx.violation("%s a command that failed changed the store (%s)" % (prop, cmds[o][0]["cmd"]),
                              "P%d exited %s (%s) but its events are in the log" % (o, results[o]["exit"], results[o]["stderr"].strip()[:80]), {"trace": trace + [step]}); return True
        log_order = list(seen)
    elif not data.startswith(pre) and not rewrote:
        ctx.violation("%s earlier log bytes changed" % prop, "the log no longer starts with its previous content and no rewrite command succeeded", {"trace": trace + [step]}); return True
    # serial equivalence: the commands that actually ran (everything except lock-busy failures), one at a time in some order,
    # must give the same success/failure pattern and the same final state
    ran = [i for i in range(len(cmds)) if not (results[i]["exit"] != 0 and "lock busy" in results[i]["stderr"])]
    got = crash.timeless(g["graph"])
    want_pattern = {i: results[i]["exit"] == 0 for i in ran}
    orders = [ran, list(reversed(ran))] if len(ran) == 2 else [ran]
    # the log is the commit order: when both commands wrote, the only serial order that can explain the outcome is the order of their batches in the
    # log — a command whose lines come second decided on a store that already held the other's (C02_each_commit_decided_on_predecessors)
    by_log = bool(data.startswith(pre) and not rewrote and log_order and len(ran) == 2 and sorted(log_order) == sorted(ran))
    if by_log:
        orders = [log_order]
    details = []
    matches = False
    got_replies = {i: timeless_reply(cmds[i][0], results[i]) for i in ran}
    reply_mismatch = None
    for order in orders:
        exits, tw, replies = serial_twin(base, order, cmds)
        pattern = {i: e == 0 for i, e in zip(order, exits)}
        details.append((order, exits))
        if tw == got and pattern == want_pattern:
            if common_canon(replies) == common_canon(got_replies):
                matches = True
                reply_mismatch = None
                break
            reply_mismatch = (order, replies)
    if not matches and reply_mismatch:
        order, replies = reply_mismatch
        bad = [i for i in ran if common_canon(replies.get(i)) != common_canon(got_replies.get(i))][0]
        ctx.violation("%s reply differs from the serial run with the same outcome (%s, with %s concurrent)" % (prop, cmds[bad][0]["cmd"], cmds[1 - bad][0]["cmd"]),
                      "P%d printed %s; run one at a time in the order %s — same exits, same final state — it prints %s" % (bad, json.dumps(got_replies[bad])[:300], order, json.dumps(replies[bad])[:300]),
                      {"trace": trace + [step]}); return True
    if not matches and by_log:
        ctx.violation("%s a command decided on a store that was no longer current (%s ∥ %s)" % (prop, cmds[0][0]["cmd"], cmds[1][0]["cmd"]),
                      "the log holds P%d's lines before P%d's, but the outcome is not that of running them in this order: exits %s; serial run in log order (order, exits) %s" %
                      (log_order[0], log_order[1], [r_["exit"] for r_ in results], details), {"trace": trace + [step]}); return True
    if not matches:
        ctx.violation("%s concurrent outcome matches no serial order of the commands that ran (%s ∥ %s)" % (prop, cmds[0][0]["cmd"], cmds[1][0]["cmd"]),
                      "exits %s; serial attempts (order, exits) %s; no order gives this success/failure pattern with this final state" % ([r_["exit"] for r_ in results], details),
                      {"trace": trace + [step]}); return True
    return False


def one_schedule(ctx, prop, base, cmds, point, mode, trace, prog, post_oracle=None, label=("A", "B"), env_extra=None, calls=None):
    """A is parked right after `point` = (syscall, n-th occurrence on the store's files); B runs to completion (mode "complete") or takes the
    lock and is parked itself ("hold"); A resumes; B resumes.  Returns "violation", "skipped" or "ok"."""
    (reqA, agA, envA), (reqB, agB, envB) = cmds
    envA = dict(envA, **(env_extra or {})); envB = dict(envB, **(env_extra or {}))
    argvA, stdinA = cmdrun.argv_of(reqA, agA), cmdrun.stdin_of(reqA)
    argvB, stdinB = cmdrun.argv_of(reqB, agB), cmdrun.stdin_of(reqB)
    c = crash.clone(base)
    pkA = pkB = None
    try:
        pkA = sched.Parked(c, argvA, stdinA, tuple(point), env=envA, calls=calls)
        if not pkA.parked:
            pkA.wait(5); pkA = None
            return "skipped"
        atA = (strace.summarize(pkA.steps_at_park) or ["-"])[-1]
        step = {"A": argvA, "A_stdin": (stdinA or b"").decode("utf-8", "replace")[:2000], "B": argvB, "B_stdin": (stdinB or b"").decode("utf-8", "replace")[:2000],
                "schedule": "A parked after its call %d (%s); B %s; A resumes%s" % (len(pkA.steps_at_park), atA, "runs to completion" if mode == "complete" else ("takes the lock and is parked" if mode == "hold" else "takes the lock, reads the log and is parked"),
                                                                                  "" if mode == "complete" else "; B resumes"),
                "A_program": prog,
                # everything needed to run this schedule again: ./check <prop> --replay <file>
                "explore2": {"reqA": reqA, "agentA": agA, "envA": envA, "reqB": reqB, "agentB": agB, "envB": envB, "park_point": list(point), "mode": mode, "calls": calls}}
        if mode == "complete":
            rb = c.exec(argvB, stdinB, env=envB, timeout=10)
            if rb.get("timeout"):
                ctx.violation("%s command blocks waiting for the lock (%s)" % (prop, reqB["cmd"]), "B did not return within 10 s while A was parked", {"trace": trace + [step]}); return "violation"
            ra = pkA.resume(); pkA = None
        else:
            # "hold": B stops right after it got the lock; "hold_read": after it has also read the log (it has decided, it has not written)
            # (the first close on the store's files is that of the log after it has been read to its end: only then is B's snapshot complete)
            pkB = sched.Parked(c, argvB, stdinB, ("flock", 1) if mode == "hold" else ("close", 1), env=envB)
            ra = pkA.resume(); pkA = None
            rb = pkB.resume() if pkB.parked else pkB.wait(10)
            pkB = None
        if ra.get("tracer_error") or rb.get("tracer_error"):
            ctx.count(1, key=("skipped: tracer error",)); return "skipped"
        if ra["exit"] == -9 or rb["exit"] == -9:
            # the harness gave up waiting for a resumed process and killed it (a lost SIGCONT / ptrace hiccup): such a run says nothing about ergo.
            # (A command that really blocks on the lock is caught in "complete" mode, where B is run untraced with a 10 s limit.)
            ctx.count(1, key=("skipped: resumed process did not finish, killed by the harness",)); return "skipped"
        ctx.count(1, key=(label[0], label[1], atA, mode))
        # T3: each process's calls on the lock file follow the automaton of ErgoModel.LockFile (whose runs C02_one_process_inside_whatever_the_lock_file is about)
        for who, res, stat_traced in (("A", ra, bool(calls) and "stat" in calls), ("B", rb, False)):
            toks = strace.lock_calls(res.get("steps") or [])
            if not toks or (toks[0] == "open-" and not stat_traced):
                continue
            a = ctx.model.ask({"op": "lockprog", "calls": toks})
            ctx.count(1, key=("T3-lock automaton", " ".join(toks))); ctx.tie_tally("T3 lock automaton (LockFile.acquireOK)", " ".join(toks))
            if not a.get("ok"):
                ctx.tie_broken("T3 lock acquisition (two-process schedule)", {"process": who, "argv": argvA if who == "A" else argvB, "lock_calls": toks,
                               "automaton_ends_in": a.get("end"), "expected": "a path of LockFile.next ending outside the section"})
        if judge(ctx, prop, base, c, [(reqA, agA, envA), (reqB, agB, envB)], [ra, rb], trace, step, post_oracle):
            return "violation"
        return "ok"
    finally:
        for pk in (pkA, pkB):
            if pk is not None:
                pk.kill()
        c.close()


def explore_fixed(ctx, prop, base, cmds, trace, labels=("A", "B"), with_stat=True, b_modes=("complete",), post_oracle=None, env_extra=None):
    """a given pre-state and a given pair of commands: A parked after *every* one of its calls on the store (stat calls included), B as in b_modes"""
    (reqA, agA, envA) = cmds[0]
    argvA, stdinA = cmdrun.argv_of(reqA, agA), cmdrun.stdin_of(reqA)
    callsA = (strace.CALLS + "," + strace.STAT_CALLS) if with_stat else None
    solo = crash.clone(base)
    try:
        _, _, _, stepsA = strace.run(solo, argvA, stdinA, env=envA, calls=callsA)
    finally:
        solo.close()
    pts = strace.kill_points(stepsA)
    prog = strace.summarize(stepsA)
    for pt in pts:
        for mode in b_modes:
            if one_schedule(ctx, prop, base, cmds, pt, mode, trace, prog, post_oracle, label=labels, env_extra=env_extra, calls=callsA) == "violation":
                return "violation"
    return "ok"


def is_schedule_replay(doc):
    t = (doc.get("replay") or {}).get("trace") or []
    return bool(t) and isinstance(t[-1], dict) and "explore2" in t[-1]


def replay(ctx, doc, post_oracle=None):
    """re-run a recorded two-process schedule against the current tree: rebuild the pre-state from the recorded commands (same scripted RNG),
    park A at the recorded point, run B, resume, judge with the same oracles.  Exit 1 if the violation shows again."""
    trace = doc["replay"]["trace"]
    x = trace[-1]["explore2"]
    legacy = any("legacy" in str(s_.get("store", "")) for s_ in trace)
    base = cmdrun.Store(ctx.ergo_verif, ctx.go, legacy=legacy)
    try:
        for st_ in trace[:-1]:
            if "argv" not in st_:
                from .histories import apply_edit
                apply_edit(base, st_)
                continue
            if st_.get("bulk"):
                doc_ = {"title": "bulk", "tasks": [{"title": "bulk %d" % i, "body": ("filler %d " % i) * 60} for i in range(st_["bulk"])]}
                base.exec(st_["argv"], json.dumps(doc_).encode(), env=st_.get("env"))
                continue
            base.exec(st_["argv"], None if st_.get("stdin") is None else st_["stdin"].encode(), env=st_.get("env"))
        cmds = [(x["reqA"], x["agentA"], x["envA"]), (x["reqB"], x["agentB"], x["envB"])]
        before = len(ctx.violations) if hasattr(ctx, "violations") else 0
        out = one_schedule(ctx, doc.get("property", "?"), base, cmds, x["park_point"], x["mode"], trace[:-1], trace[-1].get("A_program"), post_oracle, calls=x.get("calls"))
        print("schedule:", trace[-1]["schedule"]); print("outcome:", out)
        return 1 if out == "violation" else 0
    finally:
        base.close()


def explore(ctx, prop, r, kindsA=None, kindsB=None, points="all", b_modes=("complete", "hold"), max_points=4, state_cmds=10, big=0, post_oracle=None, weights=None, legacy=False, env_extra=None,
            torn=False, missing_lock=False, with_stat=False):
    """with_stat: A's stat-like calls on the store's files count as places to park it as well (a process that has just *looked* whether a file is
    there and acts on the answer a moment later); torn: the log ends in the fragment of a killed writer (the first writer repairs it); missing_lock: `.ergo/lock` is not there (a fresh
    checkout, a cleaned tree: it is not state and is re-created on demand) — whoever re-creates it, there is still one lock"""
    base, v, trace = crash.build_state(ctx, r, state_cmds + r.n(8), big=big, legacy=legacy, torn=torn, **({"weights": weights} if weights else {}))
    if missing_lock:
        try:
            os.unlink(os.path.join(base.dir, "lock"))
            trace = trace + [{"edit": ".ergo/lock removed"}]
        except OSError:
            pass
    try:
        shared = {}
        reqA, agA, labA = marked(r, v, 0, kindsA, shared)
        reqB, agB, labB = marked(r, v, 1, kindsB, shared)
        cmds = [(reqA, agA, {"VERIF_RAND": str(r.next() % (1 << 40))}), (reqB, agB, {"VERIF_RAND": str(r.next() % (1 << 40))})]
        argvA, stdinA = cmdrun.argv_of(reqA, agA), cmdrun.stdin_of(reqA)
        argvB, stdinB = cmdrun.argv_of(reqB, agB), cmdrun.stdin_of(reqB)
        callsA = (strace.CALLS + "," + strace.STAT_CALLS) if with_stat else None
        solo = crash.clone(base)
        try:
            _, _, _, stepsA = strace.run(solo, argvA, stdinA, env=cmds[0][2], calls=callsA)
        finally:
            solo.close()
        if not stepsA:
            return
        pts = strace.kill_points(stepsA)
        prog = strace.summarize(stepsA)
        idx = list(range(1, len(pts) + 1))
        if points != "all" or len(idx) > max_points:
            # always include: first call (before the lock), right after the lock, right before and right after the unlock, last call
            un = [i for i, s in enumerate(stepsA, 1) if s["call"] == "flock" and "LOCK_UN" in s.get("flags", [])]
            lk = [i for i, s in enumerate(stepsA, 1) if s["call"] == "flock" and "LOCK_UN" not in s.get("flags", [])]
            rd = [i for i, s in enumerate(stepsA, 1) if s["call"] in ("read", "pread64") and s["obj"] == "log"]
            # right after the log was opened for appending (the descriptor is bound to a file that a tail repair by somebody else would replace)
            ap = [i for i, s in enumerate(stepsA, 1) if s["call"] == "openat" and s["obj"] == "log" and "O_APPEND" in s.get("flags", [])]
            # right after each look at the lock file that found nothing (stat / open returning ENOENT)
            st_ = [i for i, s in enumerate(stepsA, 1) if s["obj"] == "lock" and s.get("ret") == "-1"]
            must = sorted(set([1] + lk[:1] + [l - 1 for l in lk if l > 1] + rd[:1] + ap[:1] + st_[:3] + [u - 1 for u in un[:1]] + un + [len(pts) - 1]))
            must = [i for i in must if 1 <= i <= len(pts)]
            extra = [i for i in idx if i not in must]
            while len(must) < max_points and extra:
                must.append(extra.pop(r.n(len(extra))))
            idx = sorted(must)
        for k in idx:
            for mode in b_modes:
                out = one_schedule(ctx, prop, base, cmds, pts[k - 1], mode, trace, prog, post_oracle, label=(labA, labB), env_extra=env_extra, calls=callsA)
                if out == "violation":
                    return
    finally:
        base.close()
