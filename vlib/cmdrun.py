"""T2-cmd: drive the real ergo binary, mirror every command into the Lean model, compare."""
import json, os, re, shutil, subprocess, tempfile
from . import common

ERR_CLASSES = [
    (r"lock busy", "lock_busy"),
    (r"^usage:", "usage"),
    (r"no fields to update", "no_fields"),
    (r"(invalid JSON|no input: pipe JSON)", "parse_error"),
    (r"(invalid input|missing required fields)", "validation"),
    (r"claim requires --agent", "need_agent"),
    (r"id \S+ is pruned", "pruned"),
    (r"unknown task id", "unknown_task"),
    (r"unknown epic id", "unknown_epic"),
    (r"unknown id ", "unknown_id"),
    (r"epics do not have state", "epic_no_state"),
    (r"epics cannot be claimed", "epic_no_claim"),
    (r"state requires claim; pass --agent", "implicit_claim_needs_agent"),
    (r"title cannot be empty", "empty_title"),
    (r"epics cannot be assigned to other epics", "epic_epic"),
    (r"invalid state:", "invalid_state"),
    (r"(invalid transition:|unknown state:)", "bad_transition"),
    (r"(requires a claim|must have no claim)", "claim_invariant"),
    (r"is not an epic", "not_epic"),
    (r"failed to generate unique id", "id_exhausted"),
    (r"cannot depend on self", "dep_self"),
    (r"cannot depend on", "dep_kinds"),
    (r"would create a cycle", "dep_cycle"),
    (r"(result\.summary requires|result\.path requires)", "result_pair"),
    (r"cannot attach result to epic", "result_epic"),
    (r"result summary", "result_summary"),
    (r"(result path|result file|cannot access result|cannot read result)", "result_path"),
    (r"mutually exclusive", "body_exclusive"),
    (r"requires --title", "need_title"),
    (r"requires non-empty body", "empty_body"),
    (r"conflicting flags", "conflicting_flags"),
    (r"no such epic", "no_such_epic"),
    (r"duplicate task id", "replay:duplicate"),
    (r"(invalid JSON in events log|git conflict markers|event line too long)", "read_err"),
    (r"parsing time", "replay:bad_time"),
    (r"(cannot unmarshal|unexpected end of JSON input|invalid character)", "replay:bad_data"),
    (r"no \.ergo directory found", "no_ergo_dir"),
]


def classify_stderr(stderr):
    for line in stderr.splitlines():
        if line.startswith("error:"):
            msg = line[len("error:"):].strip()
            for pat, cls in ERR_CLASSES:
                if re.search(pat, msg):
                    return cls
            return "other:" + msg
    return None


class GoServer:
    def __init__(self, ev_bin):
        self.p = subprocess.Popen([ev_bin, "serve"], stdin=subprocess.PIPE, stdout=subprocess.PIPE, text=True)
    def ask(self, req):
        self.p.stdin.write(json.dumps(req) + "\n"); self.p.stdin.flush()
        return json.loads(self.p.stdout.readline())
    def canon(self, path):
        return self.ask({"op": "canon", "path": path})
    def graph(self, path):
        return self.ask({"op": "graph", "path": path})
    def close(self):
        try:
            self.p.stdin.close(); self.p.wait(timeout=5)
        except Exception:
            self.p.kill()


class Store:
    """A scratch project directory with an ergo store, outside /repo and /verif."""
    def __init__(self, ergo_bin, go: GoServer, root=None, legacy=False):
        self.bin = ergo_bin
        self.go = go
        self.root = root or tempfile.mkdtemp(prefix="ergo-verif-")
        self.own = root is None
        r = subprocess.run([ergo_bin, "init"], cwd=self.root, capture_output=True, text=True, stdin=subprocess.DEVNULL)
        assert r.returncode == 0, r.stderr
        self.dir = os.path.join(self.root, ".ergo")
        if legacy:
            os.rename(os.path.join(self.dir, "plans.jsonl"), os.path.join(self.dir, "events.jsonl"))
    def log_path(self):
        p = os.path.join(self.dir, "plans.jsonl")
        if os.path.exists(p):
            return p
        q = os.path.join(self.dir, "events.jsonl")
        return q if os.path.exists(q) else p
    def log_bytes(self):
        try:
            return open(self.log_path(), "rb").read()
        except FileNotFoundError:
            return b""
    def events(self):
        return self.go.canon(self.log_path())
    def graph(self):
        """the real replay of the real log (VerifGraph shape)"""
        return self.go.graph(self.log_path())
    def exec(self, argv, stdin=None, cwd=None, timeout=20, env=None, binary=None):
        """stdin: None → /dev/null (a character device: flags mode); bytes → a pipe."""
        kw = {}
        if stdin is None:
            kw["stdin"] = subprocess.DEVNULL
        else:
            kw["input"] = stdin
        e = dict(os.environ)
        if env:
            e.update(env)
        try:
            r = subprocess.run([binary or self.bin, *argv], cwd=cwd or self.root, capture_output=True, timeout=timeout, env=e, **kw)
            return {"exit": r.returncode, "stdout": r.stdout.decode("utf-8", "replace"), "stderr": r.stderr.decode("utf-8", "replace"),
                    "stdout_raw": r.stdout}
        except subprocess.TimeoutExpired as ex:
            return {"exit": -9, "stdout": "", "stderr": "TIMEOUT", "stdout_raw": b"", "timeout": True}
    def snapshot(self):
        """what readers can see: list --json --all, list --json --epics, show --json per id"""
        a = self.exec(["--json", "list", "--all"])
        e = self.exec(["--json", "list", "--epics"])
        snap = {"all": None, "epics": None, "show": {}, "errors": []}
        for key, r in (("all", a), ("epics", e)):
            if r["exit"] == 0:
                snap[key] = json.loads(r["stdout"])
            else:
                snap["errors"].append((key, r["stderr"]))
        ids = [t["id"] for t in (snap["all"] or [])] + [t["id"] for t in (snap["epics"] or [])]
        for i in ids:
            s = self.exec(["--json", "show", i])
            if s["exit"] == 0:
                snap["show"][i] = json.loads(s["stdout"])
            else:
                snap["errors"].append(("show " + i, s["stderr"]))
        return snap
    def close(self):
        if self.own:
            shutil.rmtree(self.root, ignore_errors=True)


# ---------------------------------------------------------------------------------------------
# requests: one dict describes both the model request and how to invoke the binary

def argv_of(req, agent="", json_out=True):
    g = []
    if json_out:
        g.append("--json")
    if agent:
        g += ["--agent", agent]
    c = req["cmd"]
    def flag_args(f):
        a = []
        for k, opt in (("title", "--title"), ("body", "--body"), ("epic", "--epic"), ("state", "--state"), ("claim", "--claim"),
                       ("result_path", "--result-path"), ("result_summary", "--result-summary")):
            if f.get(k, "") != "":
                a += [opt, f[k]]
        return a
    if c in ("new_task", "new_epic", "set"):
        base = {"new_task": ["new", "task"], "new_epic": ["new", "epic"], "set": ["set", req.get("id", "")]}[c]
        a = g + base + flag_args(req.get("flags", {}))
        if req.get("body_stdin"):
            a.append("--body-stdin")
        return a
    if c == "claim":
        return g + ["claim", req["id"]]
    if c == "claim_oldest":
        return g + ["claim"] + (["--epic", req["epic"]] if req.get("epic") else [])
    if c == "sequence":
        return g + ["sequence", *req["args"]]
    if c == "plan":
        return g + ["plan"]
    if c == "prune":
        return g + ["prune"] + (["--yes"] if req.get("yes") else [])
    if c == "compact":
        return g + ["compact"]
    raise ValueError(c)


def stdin_of(req):
    """bytes for a pipe, or None for /dev/null"""
    if not req.get("piped", True) and req["cmd"] in ("new_task", "new_epic", "set"):
        return None
    if "stdin_raw" in req:
        return req["stdin_raw"].encode("utf-8")
    if req.get("body_stdin"):
        return req.get("stdin_text", "").encode("utf-8")
    if req["cmd"] in ("new_task", "new_epic", "set"):
        return json.dumps(req["json"], ensure_ascii=False).encode("utf-8") if req.get("json") is not None else b""
    if req["cmd"] == "plan":
        return json.dumps(req["plan"], ensure_ascii=False).encode("utf-8") if req.get("plan") is not None else b""
    return None


MARK = 1000  # marker base for pass-1 times


def model_cmd(model, pre_events, req, agent, real_new_events, po=None):
    """Two passes: pass 1 with marker clock readings to learn which reading lands in which event,
    pass 2 with the readings the real run used (read back from the events it wrote)."""
    ids = [e["id"] for e in real_new_events if e["k"] == "new"]
    uuids = [e["uuid"] for e in real_new_events if e["k"] == "new"]
    mreq = {k: v for k, v in req.items() if k != "stdin_raw"}
    # JSON on stdin: the model decodes the very bytes the real command was given (ErgoModel.Input) — what the harness believes the document
    # says (`json` / `plan`, filled in with the help of the real decoder) stays in the request only for commands without such a document
    sin = stdin_of(req)
    if sin is not None and ((req["cmd"] in ("new_task", "new_epic", "set") and req.get("piped", True) and not req.get("body_stdin")) or req["cmd"] == "plan"):
        mreq["stdin_hex"] = sin.hex()
    # a failing create wrote no event to read the drawn id back from: give the model spare draws so it gets
    # past id selection to the follow-up validation, as the real code does
    ids = ids + ["~spare%d" % i for i in range(8)]
    uuids = uuids + ["~uuid%d" % i for i in range(8)]
    env = {"agent": agent, "ids": ids, "uuids": uuids, "times": [str(MARK + i) for i in range(64)]}
    if po is not None:
        env["po"] = po
    a1 = model.ask({"op": "cmd", "events": pre_events, "env": env, "req": mreq})
    # map marker → real time by position among appended events
    m_events = []
    n_pre = len(pre_events)
    for w in a1.get("writes", []):
        if w["w"] == "append":
            m_events += w["events"]
        else:
            m_events = w["events"][n_pre:] if len(w["events"]) >= n_pre else w["events"]
    times = {}
    for me, re_ in zip(m_events, real_new_events):
        for key in ("ts", "at"):
            mv, rv = me.get(key), re_.get(key)
            if mv is not None and rv is not None and int(mv) >= MARK and int(mv) < MARK + 64:
                times.setdefault(int(mv) - MARK, rv)
    tl = [times.get(i, "0") for i in range((max(times) + 1) if times else 0)]
    env["times"] = tl
    return model.ask({"op": "cmd", "events": pre_events, "env": env, "req": mreq})


def go_ns(text):
    """RFC3339Nano text → decimal ns since Go's zero time (what the model's Time is); "" → "0" """
    import calendar, re as _re, time as _t
    if not text:
        return "0"
    m = _re.match(r"^(\d{4})-(\d\d)-(\d\d)T(\d\d):(\d\d):(\d\d)(?:\.(\d{1,9}))?Z$", text)
    if not m:
        return "unparsed:" + text
    y, mo, d, h, mi, sec = (int(x) for x in m.groups()[:6])
    secs = calendar.timegm((y, mo, d, h, mi, sec, 0, 0, 0)) + 62135596800
    return str(secs * 10**9 + int((m.group(7) or "0").ljust(9, "0")))


def canon_reply(req, stdout):
    """the single JSON value a successful `--json` command printed → the model's reply shape (Driver.Wire.replyJson)"""
    try:
        v = json.loads(stdout)
    except Exception as e:
        return {"k": "unparsed", "why": str(e)[:80]}
    edges = lambda es: [[e["from_id"], e["to_id"]] for e in es]
    c = req["cmd"]
    if c in ("new_task", "new_epic"):
        return {"k": "created", "kind": v.get("kind"), "id": v.get("id"), "uuid": v.get("uuid"), "epic_id": v.get("epic_id"), "state": v.get("state"),
                "title": v.get("title"), "body": v.get("body"), "created_at": go_ns(v.get("created_at"))}
    if c == "set":
        return {"k": "set", "id": v.get("id"), "updated_fields": v.get("updated_fields") or [], "state": v.get("state"), "claimed_by": v.get("claimed_by", "")}
    if c in ("claim", "claim_oldest"):
        if v.get("status") == "no_ready":
            return {"k": "no_ready"}
        return {"k": "claimed", "id": v.get("id"), "epic": v.get("epic"), "state": v.get("state"), "title": v.get("title"), "body": v.get("body"),
                "agent_id": v.get("agent_id"), "claimed_at": go_ns(v.get("claimed_at"))}
    if c == "sequence":
        return {"k": "sequence", "action": v.get("action"), "edges": edges(v.get("edges") or [])}
    if c == "prune":
        return {"k": "pruned", "dry_run": v.get("dry_run"), "ids": sorted(v.get("pruned_ids") or [])}
    if c == "compact":
        return {"k": "compacted"} if v.get("status") == "ok" else {"k": "compact?", "v": v}
    if c == "plan":
        return {"k": "planned", "epic_id": v["epic"]["id"], "epic_uuid": v["epic"]["uuid"], "title": v["epic"]["title"], "created_at": go_ns(v["epic"]["created_at"]),
                "tasks": [[t["id"], t["title"]] for t in v.get("tasks") or []], "edges": edges(v.get("edges") or [])}
    return {"k": "?", "v": v}


LIST_OPTS = [{}, {"all": True}, {"ready": True}, {"epics": True}]


def canon_list(v):
    return [{"kind": i.get("kind", ""), "id": i["id"], "epic_id": i.get("epic_id", ""), "state": i["state"], "claimed_by": i.get("claimed_by", ""), "title": i["title"],
             "ready": i["ready"], "blocked": i["blocked"], "has_results": i.get("has_results", False)} for i in v]


def canon_show_item(i):
    return {"id": i["id"], "uuid": i["uuid"], "epic_id": i["epic_id"], "state": i["state"], "claimed_by": i["claimed_by"], "claimed_at": go_ns(i["claimed_at"]),
            "created_at": go_ns(i["created_at"]), "updated_at": go_ns(i["updated_at"]), "deps": i["deps"] or [], "rdeps": i["rdeps"] or [], "title": i["title"], "body": i["body"],
            "results": [{"summary": x["summary"], "path": x["path"], "sha": x["sha256_at_attach"], "mtime": x.get("mtime_at_attach", ""), "git": x.get("git_commit_at_attach", ""),
                         "at": go_ns(x["created_at"])} for x in (i.get("results") or [])]}


def compare_views(store, model, events, ids, epic=""):
    """`list --json` (default / --all / --ready / --epics, optionally within an epic) and `show --json <id>` of the real binary against the model's
    View functions on the same log; returns None or a description of the first difference"""
    from .fndiff import first_difference
    opts = [dict(o) for o in LIST_OPTS] + ([dict(o, epic=epic) for o in LIST_OPTS[:3]] if epic else [])
    m = model.ask({"op": "view", "events": events, "lists": opts, "shows": ids})
    if "err" in m:
        return None
    for o, want in zip(opts, m["lists"]):
        argv = ["--json", "list"] + (["--all"] if o.get("all") else []) + (["--ready"] if o.get("ready") else []) + (["--epics"] if o.get("epics") else []) + (["--epic", o["epic"]] if o.get("epic") else [])
        r = store.exec(argv)
        if r["exit"] != 0:
            if o.get("epic"):
                continue         # the epic filter validates its argument; refusals are the command tie's business
            return "%s: exit %s %s" % (" ".join(argv), r["exit"], r["stderr"].strip()[:100])
        got = canon_list(json.loads(r["stdout"]) or [])
        if common.canon(got) != common.canon(want):
            return "%s: %s" % (" ".join(argv), first_difference(got, want))
    for i, want in zip(ids, m["shows"]):
        r = store.exec(["--json", "show", i])
        if ("err" in want) != (r["exit"] != 0):
            return "show %s: exit %s, model %s" % (i, r["exit"], want.get("err", "ok"))
        if r["exit"] != 0:
            continue
        v = json.loads(r["stdout"])
        got = {"epic": canon_show_item(v["epic"]), "children": [canon_show_item(c) for c in v["children"]]} if "epic" in v and "children" in v else {"item": canon_show_item(v)}
        if common.canon(got) != common.canon(want):
            return "show %s: %s" % (i, first_difference(got, want))
    return None


def bytes_diff(model, m, appended):
    """the bytes an appending command added to the log vs the bytes the model's line encoder (ErgoModel.Codec.encodeEvent) gives for the events
    the model's command decided to write, each under the envelope time stamp of the real line; None = identical"""
    evs = [e for w in m.get("writes", []) if w["w"] == "append" for e in w["events"]]
    lines = appended.split(b"\n")[:-1]
    if len(lines) != len(evs) or not appended.endswith(b"\n") and appended:
        return None if not evs and not appended else "bytes: %d lines appended, the model writes %d events" % (len(lines), len(evs))
    try:
        ets = [json.loads(l)["ts"] for l in lines]
    except Exception:
        return "bytes: an appended line is not a JSON object with a ts"
    if not evs:
        return None
    want = bytes.fromhex(model.ask({"op": "encode", "events": evs, "ets": ets})["hex"])
    if want != appended:
        k = next((i for i in range(min(len(want), len(appended))) if want[i] != appended[i]), min(len(want), len(appended)))
        return "bytes: the appended lines differ from the model's encoding at byte %d: real …%r model …%r" % (k, appended[max(0, k - 30):k + 30], want[max(0, k - 30):k + 30])
    return None


def run_and_compare(store, model, req, agent="", po=None, json_out=True, pre_graph=None):
    """Run one mutating command for real and in the model. Returns a record with `diff` (None = agree)."""
    pre = store.graph() if pre_graph is None else pre_graph
    pre_bytes = store.log_bytes()
    r = store.exec(argv_of(req, agent, json_out), stdin_of(req))
    post = store.graph()
    post_bytes = store.log_bytes()
    rec = {"req": req, "agent": agent, "exit": r["exit"], "stdout": r["stdout"], "stderr": r["stderr"],
           "pre_n": pre.get("n"), "post_n": post.get("n"), "changed": pre_bytes != post_bytes,
           "errclass": classify_stderr(r["stderr"]) if r["exit"] != 0 else None, "diff": None,
           "pre": pre, "post": post}
    if "err" in pre or "err" in post:
        rec["diff"] = "log unreadable: %s / %s" % (pre.get("err"), post.get("err"))
        return rec
    pe, qe = pre["events"], post["events"]
    if req["cmd"] == "compact":
        new = qe
    else:
        new = qe[len(pe):] if qe[:len(pe)] == pe else qe
    m = model_cmd(model, pe, req, agent, new, po)
    rec["model_err"] = m.get("err")
    # the model's log afterwards
    mlog = list(pe)
    for w in m.get("writes", []):
        mlog = mlog + w["events"] if w["w"] == "append" else w["events"]
    rec["new_events"] = new
    want_exit = 0 if m.get("err") is None else 1
    if (r["exit"] != 0) != (want_exit != 0):
        rec["diff"] = "exit: real %s (%s) model %s" % (r["exit"], rec["errclass"], m.get("err"))
    elif r["exit"] != 0 and rec["errclass"] != m.get("err"):
        rec["diff"] = "error class: real %s model %s" % (rec["errclass"], m.get("err"))
    elif common.canon(mlog) != common.canon(qe):
        from .fndiff import first_difference
        rec["diff"] = "log after: " + str(first_difference(qe, mlog))
    elif (r["exit"] == 0 and req["cmd"] not in ("compact", "plan") and pre_bytes.endswith(b"\n") and post_bytes.startswith(pre_bytes)
          and (bd := bytes_diff(model, m, post_bytes[len(pre_bytes):])) is not None):
        rec["diff"] = bd
    elif r["exit"] == 0 and json_out and m.get("reply") is not None:
        got = canon_reply(req, r["stdout"])
        if common.canon(got) != common.canon(m["reply"]):
            from .fndiff import first_difference
            rec["diff"] = "reply: " + str(first_difference(got, m["reply"]))
    elif r["exit"] == 0 and json_out and m.get("reply") is None and m.get("err") is None:
        rec["diff"] = "reply: the model has no reply for a command that succeeded"
    rec["model_post"] = m.get("post")
    rec["model_created"] = m.get("created")
    rec["model_reply"] = m.get("reply")
    return rec


def classify_raw(go, req):
    """requests carrying raw stdin text: let the real strict decoder say whether it parses; if it does the
    model receives the decoded fields, else `json: null` (parse error)."""
    if "stdin_raw" not in req:
        if req["cmd"] == "plan" and req.get("plan") is not None:
            pv = go.ask({"op": "planinput", "doc": json.dumps(req["plan"])})
            if not pv["parsed"]:
                return dict(req, stdin_raw=json.dumps(req["plan"]), plan=None)
        return req
    raw = req["stdin_raw"]
    if req["cmd"] == "plan":
        pv = go.ask({"op": "planinput", "doc": raw})
        return dict(req, plan=json.loads(raw) if pv["parsed"] else None)
    tv = go.ask({"op": "taskinput", "doc": raw, "require_title": False, "is_epic": False})
    return dict(req, json=json.loads(raw) if tv["parsed"] else None)
