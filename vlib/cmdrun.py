"""T2-cmd: drive the real ergo binary, mirror every command into the Lean model, compare."""
import json, os, re, shutil, subprocess, tempfile
from . import common

ERR_CLASSES = [
    (r"lock busy", "lock_busy"),
    (r"^usage:", "usage"),
    (r"no fields to update", "no_fields"),
    (r"(invalid JSON|no input: pipe JSON)", "parse_error"),
    (r"(invalid input|missing required fields)", "validation"),
    (r"claim requires --agent", "need_agent"),
    (r"id \S+ is pruned", "pruned"),
    (r"unknown task id", "unknown_task"),
    (r"unknown epic id", "unknown_epic"),
    (r"unknown id ", "unknown_id"),
    (r"epics do not have state", "epic_no_state"),
    (r"epics cannot be claimed", "epic_no_claim"),
    (r"state requires claim; pass --agent", "implicit_claim_needs_agent"),
    (r"title cannot be empty", "empty_title"),
    (r"epics cannot be assigned to other epics", "epic_epic"),
    (r"invalid state:", "invalid_state"),
    (r"(invalid transition:|unknown state:)", "bad_transition"),
    (r"(requires a claim|must have no claim)", "claim_invariant"),
    (r"is not an epic", "not_epic"),
    (r"failed to generate unique id", "id_exhausted"),
    (r"cannot depend on self", "dep_self"),
    (r"cannot depend on", "dep_kinds"),
    (r"would create a cycle", "dep_cycle"),
    (r"(result\.summary requires|result\.path requires)", "result_pair"),
    (r"cannot attach result to epic", "result_epic"),
    (r"result summary", "result_summary"),
    (r"(result path|result file|cannot access result|cannot read result)", "result_path"),
    (r"mutually exclusive", "body_exclusive"),
    (r"requires --title", "need_title"),
    (r"requires non-empty body", "empty_body"),
    (r"conflicting flags", "conflicting_flags"),
    (r"no such epic", "no_such_epic"),
    (r"duplicate task id", "replay:duplicate"),
    (r"(invalid JSON in events log|git conflict markers|event line too long)", "read_err"),
    (r"parsing time", "replay:bad_time"),
    (r"(cannot unmarshal|unexpected end of JSON input|invalid character)", "replay:bad_data"),
    (r"no \.ergo directory found", "no_ergo_dir"),
]


def classify_stderr(stderr):
    for line in stderr.splitlines():
        if line.startswith("error:"):
            msg = line[len("error:"):].strip()
            for pat, cls in ERR_CLASSES:
                if re.search(pat, msg):
                    return cls
            return "other:" + msg
    return None


class GoServer:
    def __init__(self, ev_bin):
        self.p = subprocess.Popen([ev_bin, "serve"], stdin=subprocess.PIPE, stdout=subprocess.PIPE, text=True)
    def ask(self, req):
        self.p.stdin.write(json.dumps(req) + "\n"); self.p.stdin.flush()
        return json.loads(self.p.stdout.readline())
    def canon(self, path):
        return self.ask({"op": "canon", "path": path})
    def graph(self, path):
        return self.ask({"op": "graph", "path": path})
    def close(self):
        try:
            self.p.stdin.close(); self.p.wait(timeout=5)
        except Exception:
            self.p.kill()


class Store:
    """A scratch project directory with an ergo store, outside /repo and /verif."""
    def __init__(self, ergo_bin, go: GoServer, root=None, legacy=False):
        self.bin = ergo_bin
        self.go = go
        self.root = root or tempfile.mkdtemp(prefix="ergo-verif-")
        self.own = root is None
        r = subprocess.run([ergo_bin, "init"], cwd=self.root, capture_output=True, text=True, stdin=subprocess.DEVNULL)
        assert r.returncode == 0, r.stderr
        self.dir = os.path.join(self.root, ".ergo")
        if legacy:
            os.rename(os.path.join(self.dir, "plans.jsonl"), os.path.join(self.dir, "events.jsonl"))
    def log_path(self):
        p = os.path.join(self.dir, "plans.jsonl")
        if os.path.exists(p):
            return p
        q = os.path.join(self.dir, "events.jsonl")
        return q if os.path.exists(q) else p
    def log_bytes(self):
        try:
            return open(self.log_path(), "rb").read()
        except FileNotFoundError:
            return b""
    def events(self):
        return self.go.canon(self.log_path())
    def graph(self):
        """the real replay of the real log (VerifGraph shape)"""
        return self.go.graph(self.log_path())
    def exec(self, argv, stdin=None, cwd=None, timeout=20, env=None, binary=None):
        """stdin: None → /dev/null (a character device: flags mode); bytes → a pipe."""
        kw = {}
        if stdin is None:
            kw["stdin"] = subprocess.DEVNULL
        else:
            kw["input"] = stdin
        e = dict(os.environ)
        if env:
            e.update(env)
        try:
            r = subprocess.run([binary or self.bin, *argv], cwd=cwd or self.root, capture_output=True, timeout=timeout, env=e, **kw)
            return {"exit": r.returncode, "stdout": r.stdout.decode("utf-8", "replace"), "stderr": r.stderr.decode("utf-8", "replace"),
                    "stdout_raw": r.stdout}
        except subprocess.TimeoutExpired as ex:
            return {"exit": -9, "stdout": "", "stderr": "TIMEOUT", "stdout_raw": b"", "timeout": True}
    def snapshot(self):
        """what readers can see: list --json --all, list --json --epics, show --json per id"""
        a = self.exec(["--json", "list", "--all"])
        e = self.exec(["--json", "list", "--epics"])
        snap = {"all": None, "epics": None, "show": {}, "errors": []}
        for key, r in (("all", a), ("epics", e)):
            if r["exit"] == 0:
                snap[key] = json.loads(r["stdout"])
            else:
                snap["errors"].append((key, r["stderr"]))
        ids = [t["id"] for t in (snap["all"] or [])] + [t["id"] for t in (snap["epics"] or [])]
        for i in ids:
            s = self.exec(["--json", "show", i])
            if s["exit"] == 0:
                snap["show"][i] = json.loads(s["stdout"])
            else:
                snap["errors"].append(("show " + i, s["stderr"]))
        return snap
    def close(self):
        if self.own:
            shutil.rmtree(self.root, ignore_errors=True)


# ---------------------------------------------------------------------------------------------
# requests: one dict describes both the model request and how to invoke the binary

def argv_of(req, agent="", json_out=True):
    g = []
    if json_out:
        g.append("--json")
    if agent:
        g += ["--agent", agent]
    c = req["cmd"]
    def flag_args(f):
        a = []
        for k, opt in (("title", "--title"), ("body", "--body"), ("epic", "--epic"), ("state", "--state"), ("claim", "--claim"),
                       ("result_path", "--result-path"), ("result_summary", "--result-summary")):
            if f.get(k, "") != "":
                a += [opt, f[k]]
        return a
    if c in ("new_task", "new_epic", "set"):
        base = {"new_task": ["new", "task"], "new_epic": ["new", "epic"], "set": ["set", req.get("id", "")]}[c]
        a = g + base + flag_args(req.get("flags", {}))
        if req.get("body_stdin"):
            a.append("--body-stdin")
        return a
    if c == "claim":
        return g + ["claim", req["id"]]
    if c == "claim_oldest":
        return g + ["claim"] + (["--epic", req["epic"]] if req.get("epic") else [])
    if c == "sequence":
        return g + ["sequence", *req["args"]]
    if c == "plan":
        return g + ["plan"]
    if c == "prune":
        return g + ["prune"] + (["--yes"] if req.get("yes") else [])
    if c == "compact":
        return g + ["compact"]
    raise ValueError(c)


def stdin_of(req):
    """bytes for a pipe, or None for /dev/null"""
    if not req.get("piped", True) and req["cmd"] in ("new_task", "new_epic", "set"):
        return None
    if "stdin_raw" in req:
        return req["stdin_raw"].encode("utf-8")
    if req.get("body_stdin"):
        return req.get("stdin_text", "").encode("utf-8")
    if req["cmd"] in ("new_task", "new_epic", "set"):
        return json.dumps(req["json"], ensure_ascii=False).encode("utf-8") if req.get("json") is not None else b""
    if req["cmd"] == "plan":
        return json.dumps(req["plan"], ensure_ascii=False).encode("utf-8") if req.get("plan") is not None else b""
    return None


MARK = 1000  # marker base for pass-1 times


def model_cmd(model, pre_events, req, agent, real_new_events, po=None):
    """Two passes: pass 1 with marker clock readings to learn which reading lands in which event,
    pass 2 with the readings the real run used (read back from the events it wrote)."""
    ids = [e["id"] for e in real_new_events if e["k"] == "new"]
    uuids = [e["uuid"] for e in real_new_events if e["k"] == "new"]
    mreq = {k: v for k, v in req.items() if k != "stdin_raw"}
    # a failing create wrote no event to read the drawn id back from: give the model spare draws so it gets
    # past id selection to the follow-up validation, as the real code does
    ids = ids + ["~spare%d" % i for i in range(8)]
    uuids = uuids + ["~uuid%d" % i for i in range(8)]
    env = {"agent": agent, "ids": ids, "uuids": uuids, "times": [str(MARK + i) for i in range(64)]}
    if po is not None:
        env["po"] = po
    a1 = model.ask({"op": "cmd", "events": pre_events, "env": env, "req": mreq})
    # map marker → real time by position among appended events
    m_events = []
    n_pre = len(pre_events)
    for w in a1.get("writes", []):
        if w["w"] == "append":
            m_events += w["events"]
        else:
            m_events = w["events"][n_pre:] if len(w["events"]) >= n_pre else w["events"]
    times = {}
    for me, re_ in zip(m_events, real_new_events):
        for key in ("ts", "at"):
            mv, rv = me.get(key), re_.get(key)
            if mv is not None and rv is not None and int(mv) >= MARK and int(mv) < MARK + 64:
                times.setdefault(int(mv) - MARK, rv)
    tl = [times.get(i, "0") for i in range((max(times) + 1) if times else 0)]
    env["times"] = tl
    return model.ask({"op": "cmd", "events": pre_events, "env": env, "req": mreq})


def run_and_compare(store, model, req, agent="", po=None, json_out=True, pre_graph=None):
    """Run one mutating command for real and in the model. Returns a record with `diff` (None = agree)."""
    pre = store.graph() if pre_graph is None else pre_graph
    pre_bytes = store.log_bytes()
    r = store.exec(argv_of(req, agent, json_out), stdin_of(req))
    post = store.graph()
    post_bytes = store.log_bytes()
    rec = {"req": req, "agent": agent, "exit": r["exit"], "stdout": r["stdout"], "stderr": r["stderr"],
           "pre_n": pre.get("n"), "post_n": post.get("n"), "changed": pre_bytes != post_bytes,
           "errclass": classify_stderr(r["stderr"]) if r["exit"] != 0 else None, "diff": None,
           "pre": pre, "post": post}
    if "err" in pre or "err" in post:
        rec["diff"] = "log unreadable: %s / %s" % (pre.get("err"), post.get("err"))
        return rec
    pe, qe = pre["events"], post["events"]
    if req["cmd"] == "compact":
        new = qe
    else:
        new = qe[len(pe):] if qe[:len(pe)] == pe else qe
    m = model_cmd(model, pe, req, agent, new, po)
    rec["model_err"] = m.get("err")
    # the model's log afterwards
    mlog = list(pe)
    for w in m.get("writes", []):
        mlog = mlog + w["events"] if w["w"] == "append" else w["events"]
    rec["new_events"] = new
    want_exit = 0 if m.get("err") is None else 1
    if (r["exit"] != 0) != (want_exit != 0):
        rec["diff"] = "exit: real %s (%s) model %s" % (r["exit"], rec["errclass"], m.get("err"))
    elif r["exit"] != 0 and rec["errclass"] != m.get("err"):
        rec["diff"] = "error class: real %s model %s" % (rec["errclass"], m.get("err"))
    elif common.canon(mlog) != common.canon(qe):
        from .fndiff import first_difference
        rec["diff"] = "log after: " + str(first_difference(qe, mlog))
    rec["model_post"] = m.get("post")
    rec["model_created"] = m.get("created")
    return rec


def classify_raw(go, req):
    """requests carrying raw stdin text: let the real strict decoder say whether it parses; if it does the
    model receives the decoded fields, else `json: null` (parse error)."""
    if "stdin_raw" not in req:
        if req["cmd"] == "plan" and req.get("plan") is not None:
            pv = go.ask({"op": "planinput", "doc": json.dumps(req["plan"])})
            if not pv["parsed"]:
                return dict(req, stdin_raw=json.dumps(req["plan"]), plan=None)
        return req
    raw = req["stdin_raw"]
    if req["cmd"] == "plan":
        pv = go.ask({"op": "planinput", "doc": raw})
        return dict(req, plan=json.loads(raw) if pv["parsed"] else None)
    tv = go.ask({"op": "taskinput", "doc": raw, "require_title": False, "is_epic": False})
    return dict(req, json=json.loads(raw) if tv["parsed"] else None)
