"""Shared plumbing for /verif/check: builds, the Lean driver pipe, evidence files."""
import fcntl, hashlib, json, os, shutil, subprocess, sys, tempfile, time

VERIF = os.path.dirname(os.path.dirname(os.path.abspath(__file__)))
REPO = os.environ.get("VERIF_REPO", "/repo")
BUILD = os.path.join(VERIF, ".build")
LEAN = os.path.join(VERIF, "lean")
MODEL_EXE = os.path.join(LEAN, ".lake", "build", "bin", "ergo_model")

GOENV = dict(os.environ, GOFLAGS="-mod=mod", GOPROXY="off", CGO_ENABLED="0")
GOENV.pop("GOSUMDB", None)


def log(*a):
    print(*a, file=sys.stderr, flush=True)


class Lock:
    """flock on a file under .build so concurrent checks do not trample lake / go build output."""
    def __init__(self, name):
        os.makedirs(BUILD, exist_ok=True)
        self.path = os.path.join(BUILD, name)
    def __enter__(self):
        self.f = open(self.path, "w")
        fcntl.flock(self.f, fcntl.LOCK_EX)
        return self
    def __exit__(self, *a):
        fcntl.flock(self.f, fcntl.LOCK_UN)
        self.f.close()


def run(cmd, **kw):
    kw.setdefault("stdout", subprocess.PIPE)
    kw.setdefault("stderr", subprocess.PIPE)
    kw.setdefault("text", True)
    return subprocess.run(cmd, **kw)


def repo_fingerprint():
    """hash of every non-test Go source + go.mod in /repo's working tree (build cache key)."""
    h = hashlib.sha256()
    for root, dirs, files in os.walk(REPO):
        dirs[:] = sorted(d for d in dirs if d not in (".git",))
        for fn in sorted(files):
            if fn.endswith(".go") or fn in ("go.mod", "go.sum") or fn.endswith(".txt"):
                p = os.path.join(root, fn)
                h.update(p.encode()); h.update(open(p, "rb").read())
    for root, dirs, files in os.walk(os.path.join(VERIF, "harness")):
        for fn in sorted(files):
            p = os.path.join(root, fn)
            h.update(p.encode()); h.update(open(p, "rb").read())
    return h.hexdigest()[:16]


def write_overlay():
    os.makedirs(BUILD, exist_ok=True)
    rep = {
        f"{REPO}/internal/ergo/zz_verif_export.go": f"{VERIF}/harness/zz_verif_export.go",
    }
    hv = os.path.join(VERIF, "harness", "ergoverif")
    for fn in sorted(os.listdir(hv)):
        if fn.endswith(".go"):
            rep[f"{REPO}/cmd/ergoverif/{fn}"] = os.path.join(hv, fn)
    p = os.path.join(BUILD, "overlay.json")
    with open(p, "w") as f:
        json.dump({"Replace": rep}, f, indent=1)
    return p


def build_go():
    """(prod ergo binary, verif-tagged ergo binary with scriptable RNG, ergoverif) built from /repo's working tree."""
    with Lock("go.lock"):
        fp = repo_fingerprint()
        cover = ["-cover"] if os.environ.get("VERIF_COVER") else []     # tools/coverage.py: which statements of /repo the ties and oracles execute
        d = os.path.join(BUILD, "bin-" + fp + ("-cover" if cover else ""))
        ergo, ergov, ev = (os.path.join(d, n) for n in ("ergo", "ergo_verif", "ergoverif"))
        if all(os.path.exists(x) for x in (ergo, ergov, ev)):
            os.utime(d)
            return ergo, ergov, ev
        # drop stale binaries (not those another run — on a different state of the sources — has used within the last half hour)
        import time as _t
        for n in os.listdir(BUILD):
            if n.startswith("bin-") and n != "bin-" + fp:
                try:
                    if _t.time() - os.path.getmtime(os.path.join(BUILD, n)) > 1800:
                        shutil.rmtree(os.path.join(BUILD, n), ignore_errors=True)
                except OSError:
                    pass
        os.makedirs(d, exist_ok=True)
        ov = write_overlay()
        src, ovargs, scratch = REPO, ["-overlay", ov], None
        if cover:
            # `go build -cover` instruments files by their real path and does not see overlay files: build from a scratch copy of the
            # working tree with the harness files physically in place
            import tempfile
            scratch = tempfile.mkdtemp(prefix="ergo-verif-coversrc-")
            src = os.path.join(scratch, "repo")
            shutil.copytree(REPO, src, ignore=shutil.ignore_patterns(".git"), symlinks=True)
            for dst, frm in json.load(open(ov))["Replace"].items():
                rel = os.path.relpath(dst, REPO)
                os.makedirs(os.path.dirname(os.path.join(src, rel)), exist_ok=True)
                shutil.copy(frm, os.path.join(src, rel))
            ovargs = []
        try:
            for out, tags, pkg in ((ergo, [], "./cmd/ergo"), (ergov, ["-tags", "verif", *ovargs], "./cmd/ergo"),
                                   (ev, ["-tags", "verif", *ovargs], "./cmd/ergoverif")):
                r = run(["go", "build", *cover, *tags, "-o", out, pkg], cwd=src, env=GOENV)
                if r.returncode != 0:
                    shutil.rmtree(d, ignore_errors=True)
                    raise BuildError("go build failed for %s:\n%s" % (pkg, r.stderr[-4000:]))
        finally:
            if scratch:
                shutil.rmtree(scratch, ignore_errors=True)
        return ergo, ergov, ev


class BuildError(Exception):
    pass


def lake(*targets, timeout=3000):
    with Lock("lake.lock"):
        r = run(["lake", "build", *targets], cwd=LEAN, timeout=timeout)
    return r


class Model:
    """A running ergo_model process; send request objects, get answers in order."""
    def __init__(self):
        self.p = subprocess.Popen([MODEL_EXE], stdin=subprocess.PIPE, stdout=subprocess.PIPE, text=True, bufsize=1 << 20)
    def ask(self, req):
        self.p.stdin.write(json.dumps(req) + "\n")
        self.p.stdin.flush()
        line = self.p.stdout.readline()
        if not line:
            raise RuntimeError("model died on %r" % (req,))
        return json.loads(line)
    def close(self):
        try:
            self.p.stdin.close()
            self.p.wait(timeout=10)
        except Exception:
            self.p.kill()


def model_batch(reqs):
    """Pipe many requests through one model process (fast path)."""
    data = "".join(json.dumps(r) + "\n" for r in reqs)
    r = subprocess.run([MODEL_EXE], input=data, stdout=subprocess.PIPE, text=True)
    outs = [json.loads(l) for l in r.stdout.split("\n") if l]
    if len(outs) != len(reqs):
        raise RuntimeError("model answered %d of %d requests" % (len(outs), len(reqs)))
    return outs


def canon(v):
    return json.dumps(v, sort_keys=True, ensure_ascii=False)
