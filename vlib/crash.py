"""Crash machinery shared by C03/C04/C13: store copies, kill-point enumeration, torn writes."""
import json, os, shutil, tempfile
from . import cmdrun, strace, oracles, gen

KILLABLE = "openat,flock,read,pread64,write,rename,renameat,renameat2,fsync,close"


def clone(store, binary=None):
    root = tempfile.mkdtemp(prefix="ergo-verif-")
    shutil.rmtree(root)
    shutil.copytree(store.root, root, symlinks=True)
    c = cmdrun.Store.__new__(cmdrun.Store)
    c.bin, c.go, c.root, c.own, c.dir = binary or store.bin, store.go, root, True, os.path.join(root, ".ergo")
    return c


def timeless(g):
    out = []
    for t in g["tasks"]:
        o = oracles.observable(t)
        for k in ("created_at", "updated_at", "claimed_at"):
            o.pop(k)
        o["results"] = [{k: v for k, v in r.items() if k not in ("at", "mtime")} for r in o["results"]]
        out.append(o)
    return {"tasks": out, "deps": sorted(map(tuple, g["deps"]))}


def reads_ok(store):
    """list/show must succeed; returns problem string or None"""
    a = store.exec(["--json", "list", "--all"])
    if a["exit"] != 0:
        return "list --json --all exits %s: %s" % (a["exit"], a["stderr"].strip()[:200])
    e = store.exec(["--json", "list", "--epics"])
    if e["exit"] != 0:
        return "list --json --epics exits %s: %s" % (e["exit"], e["stderr"].strip()[:200])
    for it in (json.loads(a["stdout"]) + json.loads(e["stdout"]))[:4]:
        s = store.exec(["--json", "show", it["id"]])
        if s["exit"] != 0:
            return "show %s exits %s: %s" % (it["id"], s["exit"], s["stderr"].strip()[:200])
    return None


def add_skewed_history(st, r, trace, max_tasks=2):
    """the log carries, for its oldest ready tasks, an earlier claim-and-release stamped by a clock that runs ahead (a collaborator's machine
    whose log was merged in; this machine's clock stepped back since): the *order of the lines* is what decides a task's state, whatever the stamps say"""
    import datetime
    g = st.graph()
    if "graph" not in g:
        return
    from . import oracles
    ready = oracles.ready_order(g["graph"], "")[:max_tasks]
    if not ready or not st.log_bytes().endswith(b"\n"):
        return
    now = datetime.datetime.now(datetime.timezone.utc)
    lines = []
    for k, tid in enumerate(ready):
        f1 = (now + datetime.timedelta(minutes=50 + 7 * k)).strftime("%Y-%m-%dT%H:%M:%S.%f000Z")
        f2 = (now + datetime.timedelta(minutes=55 + 7 * k)).strftime("%Y-%m-%dT%H:%M:%S.%f000Z")
        lines += [{"type": "claim", "ts": f1, "data": {"id": tid, "agent_id": "earlier-agent", "ts": f1}},
                  {"type": "state", "ts": f1, "data": {"id": tid, "state": "doing", "ts": f1}},
                  {"type": "state", "ts": f2, "data": {"id": tid, "state": "todo", "ts": f2}}]
    blob = "".join(json.dumps(l, separators=(",", ":")) + "\n" for l in lines)
    with open(st.log_path(), "ab") as f:
        f.write(blob.encode())
    trace.append({"edit": "lines appended to the log: an earlier claim and release of %s stamped 50–60 minutes ahead of this machine's clock" % ready, "bytes": blob})


def build_state(ctx, r, n_cmds, weights=None, binary=None, big=0, legacy=False, torn=False):
    """a store brought to a CLI-reachable state by a short seeded history (returns store, view, trace).
    big=N first adds one plan of N tasks with ~600-byte bodies, so the log spans several 64 KiB blocks"""
    st = cmdrun.Store(binary or ctx.ergo_verif, ctx.go, legacy=legacy)      # legacy: the log is still called events.jsonl
    v = gen.View()
    trace = [{"store": "legacy log name events.jsonl"}] if legacy else []
    if big:
        doc = {"title": "bulk", "tasks": [{"title": "bulk %d" % i, "body": ("filler %d " % i) * 60} for i in range(big)]}
        env = {"VERIF_RAND": str(r.next() % (1 << 40))}
        st.exec(["--json", "plan"], json.dumps(doc).encode(), env=env)
        trace.append({"argv": ["--json", "plan"], "stdin": "<plan with %d tasks, ~600-byte bodies>" % big, "env": env, "bulk": big})
    w = weights or {"new_task": 30, "new_epic": 8, "set": 30, "claim_oldest": 6, "sequence": 12, "plan": 4, "prune_yes": 2}
    for i in range(n_cmds):
        req, agent = gen.gen_request(r, v, w)
        req = cmdrun.classify_raw(ctx.go, req)
        env = {"VERIF_RAND": str(r.next() % (1 << 40))}
        argv, stdin = cmdrun.argv_of(req, agent), cmdrun.stdin_of(req)
        st.exec(argv, stdin, env=env)
        trace.append({"argv": argv, "stdin": None if stdin is None else stdin.decode("utf-8", "replace"), "env": env})
        g = st.graph()
        if "graph" in g:
            v.update(g["graph"])
    if torn:
        # an earlier writer was killed in the middle of its write: the log ends in a fragment without newline
        frag = r.pick([b'{"type":"state","ts":"2026-01-01T00:00:00Z","data":{"id":"', b'{"type":"new_task","ts":"2026-01-01T00:00:00.5Z","data":{"id":"QQQQQQ","uuid":"u","title":"half a li', b'{'])
        with open(st.log_path(), "ab") as f:
            f.write(frag)
        trace.append({"edit": "torn fragment appended to the log, no newline", "bytes": frag.decode()})
    return st, v, trace


def multi_event_command(r, v):
    """a command instance that records more than one event (argv, stdin, label)"""
    todo = [i for i in v.tasks if v.by_id[i]["st"] == "todo" and v.by_id[i]["claimed_by"] == ""]
    closed = [i for i in v.tasks if v.by_id[i]["st"] in ("done", "canceled")]
    choices = [("new-task{state,claim}", ["--json", "new", "task"], json.dumps({"title": "n", "state": "doing", "claim": "c1"}).encode()),
               ("plan", ["--json", "plan"], json.dumps({"title": "P", "tasks": [{"title": "a"}, {"title": "b", "after": ["a"]}, {"title": "c", "after": ["a", "b"]}]}).encode()),
               ("compact", ["--json", "compact"], None),
               ("new-task{state}", ["--json", "--agent", "me", "new", "task"], json.dumps({"title": "m", "state": "blocked"}).encode()),
               # the same requests through the other two input channels (flags only; --body-stdin): whichever code path serves them, one command is one batch
               ("new-task flags{state,claim}", ["--json", "--agent", "c4", "new", "task", "--title", "nf", "--state", "doing", "--claim", "c4"], None),
               ("new-task flags{claim}", ["--json", "--agent", "c5", "new", "task", "--title", "nf2", "--claim", "c5"], None),
               ("new-task body-stdin{claim}", ["--json", "--agent", "c6", "new", "task", "--body-stdin", "--title", "nb", "--claim", "c6"], b"body text\n"),
               ("new-task body-stdin{state}", ["--json", "--agent", "c7", "new", "task", "--body-stdin", "--title", "nb2", "--state", "blocked"], b"body text\n")]
    if todo:
        t = r.pick(todo)
        big_body = ("a fairly long paragraph of result notes %d. " % r.n(1000)) * (1800 + r.n(1500))     # 80–150 KB: more than one 64 KiB buffer
        choices += [("set{big-body,claim,state}", ["--json", "set", t], json.dumps({"body": big_body, "claim": "k9", "state": "doing"}).encode()),
                    ("set{big-body,claim,state}", ["--json", "set", t], json.dumps({"title": "T big", "body": big_body, "claim": "k9", "state": "error"}).encode())]
        choices += [("claim-oldest", ["--json", "--agent", "k1", "claim"], None),
                    ("claim-id", ["--json", "--agent", "k2", "claim", t], None),
                    ("set{title,body,state}", ["--json", "set", t], json.dumps({"title": "T2", "body": "B2", "state": "done"}).encode()),
                    ("set{claim}", ["--json", "set", t], json.dumps({"claim": "k3"}).encode()),
                    ("set flags{title,state,claim}", ["--json", "--agent", "k4", "set", t, "--title", "Tf", "--state", "doing", "--claim", "k4"], None),
                    ("set body-stdin{title,state}", ["--json", "set", t, "--body-stdin", "--title", "Tb", "--state", "done"], b"new body\n")]
        if len(todo) >= 3:
            choices.append(("sequence-chain", ["--json", "sequence", todo[0], todo[1], todo[2]], None))
    if len(closed) >= 2 or (closed and v.epics):
        choices.append(("prune--yes", ["--json", "--agent", "p", "prune", "--yes"], None))
    return r.pick(choices)
