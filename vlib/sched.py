"""Schedule control for real ergo processes: park a process right after its N-th system call on the store's files
(strace SIGSTOP injection), run others meanwhile, resume it.  Never uses sleeps to order events."""
import os, signal, subprocess, tempfile, time
from . import strace


def holds_lock(steps):
    """is a process that has run exactly these calls inside its lock section — exclusive lock obtained, unlock not yet attempted?
    (Position in the program, not descriptor state: a lock descriptor closed early is exactly what the oracles must notice.)"""
    got = any(s["call"] == "flock" and "LOCK_EX" in s.get("flags", []) and s["ret"] == "0" for s in steps)
    unlocked = any((s["call"] == "flock" and "LOCK_UN" in s.get("flags", [])) for s in steps)
    return got and not unlocked


class Parked:
    """`steps_at_park`: the calls the parked process has really run (its own trace).  strace counts `when=` per *thread*, and
    the Go runtime may move the main goroutine to another thread between two calls, so the process can stop later than the
    addressed call (never earlier): every judgement about "where A is" has to use `steps_at_park`, not the address."""
    def __init__(self, store, argv, stdin, point, env=None, binary=None, calls=None):
        """start `argv`; it stops right after the given (syscall, n-th occurrence) returns"""
        self.out = tempfile.NamedTemporaryFile(prefix="ergo-park-", delete=False); self.out.close()
        self.so = tempfile.TemporaryFile(); self.se = tempfile.TemporaryFile()
        inj = ["-e", "inject=%s:signal=SIGSTOP:when=%d" % point]
        cmd = strace._cmd(store, argv, ["-o", self.out.name] + inj, binary, calls)
        e = dict(os.environ)
        if env:
            e.update(env)
        self.stdin_file = None
        if stdin is None:
            sin = subprocess.DEVNULL
        else:
            self.stdin_file = tempfile.TemporaryFile(); self.stdin_file.write(stdin); self.stdin_file.seek(0)
            sin = self.stdin_file
        self.p = subprocess.Popen(cmd, cwd=store.root, stdin=sin, stdout=self.so, stderr=self.se, env=e)
        self.store = store
        self.tracee = None
        self.point = point
        self.steps_at_park = []
        self.parked = self._wait_parked()

    def _children(self):
        try:
            out = subprocess.run(["pgrep", "-P", str(self.p.pid)], capture_output=True, text=True).stdout.split()
            return [int(x) for x in out]
        except Exception:
            return []

    def _state(self, pid):
        try:
            return open("/proc/%d/stat" % pid).read().rsplit(")", 1)[1].split()[0]
        except Exception:
            return None

    def _all_stopped(self, pid):
        try:
            for t in os.listdir("/proc/%d/task" % pid):
                st = open("/proc/%d/task/%s/stat" % (pid, t)).read().rsplit(")", 1)[1].split()[0]
                if st not in ("T", "t", "Z", "X"):
                    return False
            return True
        except Exception:
            return True

    def _reached(self):
        """has the call we park after been logged? (distinguishes the injected stop from start-up ptrace stops)"""
        try:
            steps = strace.parse(open(self.out.name).read(), self.store)
        except Exception:
            return False
        self.steps_at_park = steps
        return sum(1 for st in steps if st["call"] == self.point[0]) >= self.point[1]

    def _wait_parked(self, timeout=10.0):
        t0 = time.time()
        while time.time() - t0 < timeout:
            if self.p.poll() is not None:
                return False             # finished without reaching the park point
            for c in self._children():
                if self._state(c) in ("T", "t"):
                    # make sure it is the injected stop, not a transient ptrace stop: state must persist
                    time.sleep(0.02)
                    if self._state(c) in ("T", "t") and self.p.poll() is None and self._reached():
                        self.tracee = c
                        # a Go process has several threads; the stop reaches them one after the other, and the goroutine that made the call
                        # may meanwhile have been handed to another thread and gone on.  Where the process *is* can only be read from its
                        # trace once every thread has stopped: wait for that, then read the trace again.
                        t1 = time.time()
                        while time.time() - t1 < 2.0 and not self._all_stopped(c):
                            time.sleep(0.005)
                        time.sleep(0.03)
                        self._reached()
                        return True
            time.sleep(0.005)
        return False

    def resume(self, timeout=20):
        """SIGCONT until the process really runs again (a CONT that arrives before the injected STOP has been
        delivered is lost, so it is re-sent while the tracee is still stopped)"""
        t0 = time.time()
        while self.tracee and self.p.poll() is None and time.time() - t0 < timeout:
            try:
                os.kill(self.tracee, signal.SIGCONT)
            except ProcessLookupError:
                break
            try:
                self.p.wait(timeout=0.15)
                break
            except subprocess.TimeoutExpired:
                if self._state(self.tracee) not in ("T", "t"):
                    break
        return self.wait(max(1.0, timeout - (time.time() - t0)))

    def kill(self):
        if self.tracee:
            try:
                os.kill(self.tracee, signal.SIGKILL)
            except ProcessLookupError:
                pass
        return self.wait(10)

    def wait(self, timeout=20):
        try:
            rc = self.p.wait(timeout=timeout)
        except subprocess.TimeoutExpired:
            # why did it not finish?  A tracee that is *still stopped* never got going again (a SIGCONT lost against strace's group-stop handling,
            # seen on loaded machines): that is the harness's problem and says nothing about ergo.  One that runs or sleeps is ergo hanging.
            try:
                never_resumed = bool(self.tracee) and self._state(self.tracee) in ("T", "t")
            except Exception:
                never_resumed = False
            for c in self._children():
                try:
                    os.kill(c, signal.SIGKILL)
                except ProcessLookupError:
                    pass
            self.p.kill(); rc = -9
            try:
                self.p.wait(timeout=5)
            except subprocess.TimeoutExpired:
                pass
        self.so.seek(0); self.se.seek(0)
        out, err = self.so.read().decode("utf-8", "replace"), self.se.read().decode("utf-8", "replace")
        steps = strace.parse(open(self.out.name).read(), self.store)
        os.unlink(self.out.name)
        res = {"exit": rc, "stdout": out, "stderr": err, "steps": steps}
        if rc == -9 and locals().get("never_resumed"):
            res["tracer_error"] = "the tracee was still stopped when the harness gave up waiting (lost SIGCONT)"
        # strace's own failures (e.g. "strace: ptrace(PTRACE_LISTEN,…): Input/output error" when a CONT races its group-stop handling)
        # replace the tracee's exit status by strace's: such a run says nothing about ergo
        if any(l.startswith("strace: ") for l in err.splitlines()):
            res["tracer_error"] = [l for l in err.splitlines() if l.startswith("strace: ")][0][:200]
        return res


def run_concurrently(store, cmds, env=None, binary=None, timeout=30):
    """start all commands at once (real OS scheduling); returns results in the given order"""
    procs = []
    for argv, stdin in cmds:
        e = dict(os.environ)
        if env:
            e.update(env)
        f = None
        if stdin is not None:
            f = tempfile.TemporaryFile(); f.write(stdin); f.seek(0)
        procs.append((subprocess.Popen([binary or store.bin, *argv], cwd=store.root, stdin=(f if f else subprocess.DEVNULL), stdout=subprocess.PIPE, stderr=subprocess.PIPE, env=e), f))
    out = []
    for p, f in procs:
        try:
            so, se = p.communicate(timeout=timeout)
        except subprocess.TimeoutExpired:
            p.kill(); so, se = p.communicate()
        out.append({"exit": p.returncode, "stdout": so.decode("utf-8", "replace"), "stderr": se.decode("utf-8", "replace")})
    return out
