"""T3 and process control: run the real binary under strace; parse its system-call program; inject kills / stops."""
import os, re, subprocess, signal, time, tempfile

CALLS = "openat,flock,read,pread64,write,rename,renameat,renameat2,fsync,ftruncate,close,unlink,unlinkat"
# the calls by which a process *looks at* names before it opens anything: where a time-of-check/time-of-use gap between two processes starts
STAT_CALLS = "newfstatat,stat,lstat,statx,access,faccessat,faccessat2"
LINE = re.compile(r"^(?:\[pid\s+(\d+)\]\s+|(\d+)\s+)?(\w+)\((.*)\)\s+=\s+(-?\d+|\?)(?:\s+(\w+))?")


def paths(store):
    d = store.dir
    out = [os.path.join(d, n) for n in ("lock", "plans.jsonl", "plans.jsonl.tmp", "events.jsonl", "events.jsonl.tmp")] + [d]
    for n in ("plans.jsonl", "events.jsonl"):
        p = os.path.join(d, n)
        if os.path.islink(p):          # a log kept elsewhere and linked in: whatever is done to the file it points to counts as done to the log
            t = os.path.realpath(p)
            out += [t, t + ".tmp"]
    return out


def _cmd(store, argv, extra, binary=None, calls=None):
    c = ["strace", "-f", "-y", "-qq", "-e", "trace=" + (calls or CALLS)]
    for p in paths(store):
        c += ["-P", p]
    return c + extra + [binary or store.bin] + argv


def run(store, argv, stdin=None, env=None, extra=(), timeout=30, binary=None, calls=None):
    """returns (exit, stdout, stderr_of_ergo_and_strace_lines, steps)"""
    tf = tempfile.NamedTemporaryFile(prefix="ergo-strace-", delete=False)
    tf.close()
    e = dict(os.environ)
    if env:
        e.update(env)
    kw = {"stdin": subprocess.DEVNULL} if stdin is None else {"input": stdin}
    try:
        r = subprocess.run(_cmd(store, argv, ["-o", tf.name] + list(extra), binary, calls), cwd=store.root, capture_output=True, env=e, timeout=timeout, **kw)
        steps = parse(open(tf.name).read(), store)
        return r.returncode, r.stdout.decode("utf-8", "replace"), r.stderr.decode("utf-8", "replace"), steps
    finally:
        os.unlink(tf.name)


def classify_path(arg, store):
    for name, kind in (("plans.jsonl.tmp", "tmp"), ("events.jsonl.tmp", "tmp"), ("plans.jsonl", "log"), ("events.jsonl", "log"), ("/lock", "lock")):
        if name in arg:
            return kind
    if store.dir in arg:
        return "dir"
    return "other"


UNFINISHED = re.compile(r"^(?:\[pid\s+(\d+)\]\s+|(\d+)\s+)?(\w+)\((.*?)\s*<unfinished \.\.\.>\s*$")
RESUMED = re.compile(r"^(?:\[pid\s+(\d+)\]\s+|(\d+)\s+)?<\.\.\. (\w+) resumed>\s*(.*)$")


def merge_unfinished(lines):
    """strace -f splits a call that another thread's call overtakes into `call(args <unfinished ...>` and `<... call resumed>rest) = ret`:
    put the two halves back together (at the place of the *resumed* half, i.e. where the call returned)"""
    pending, out = {}, []
    for line in lines:
        l = line.strip()
        u = UNFINISHED.match(l)
        if u:
            pending[(u.group(1) or u.group(2), u.group(3))] = l[:l.index("<unfinished")].rstrip()
            continue
        r = RESUMED.match(l)
        if r:
            key = (r.group(1) or r.group(2), r.group(3))
            head = pending.pop(key, None)
            if head is not None:
                out.append(head + r.group(4))
                continue
        out.append(l)
    return out


def parse(text, store):
    """→ list of step dicts {call, obj, ret, flags/bytes}: the program the process ran on the store's files"""
    steps = []
    for line in merge_unfinished(text.splitlines()):
        m = LINE.match(line.strip())
        if not m:
            continue
        call, args, ret, errno = m.group(3), m.group(4), m.group(5), m.group(6)
        obj = classify_path(args, store)
        if obj == "other":
            continue
        s = {"call": call, "obj": obj, "ret": ret}
        if errno:
            s["errno"] = errno
        if call == "openat":
            fl = re.search(r",\s*(O_[A-Z_|]+)", args)
            s["flags"] = sorted(f for f in (fl.group(1).split("|") if fl else []) if f not in ("O_CLOEXEC", "O_LARGEFILE"))
        elif call == "flock":
            fl = re.search(r",\s*(LOCK_[A-Z_|]+)", args)
            s["flags"] = sorted(fl.group(1).split("|")) if fl else []
        elif call in ("write", "read", "pread64"):
            s["n"] = int(ret) if ret.lstrip("-").isdigit() else -1
            if call == "write":
                mm = re.search(r',\s*"((?:[^"\\]|\\.)*)"(\.\.\.)?,\s*(\d+)\)?$', args)
                s["req"] = int(args.rsplit(",", 1)[1]) if args.rsplit(",", 1)[1].strip().isdigit() else None
        elif call in ("rename", "renameat", "renameat2"):
            # what name is given to a new file: the log's (the rewrite of plan / compact / the tail repair) or the lock's
            dest = args.rsplit(",", 2)[-2] if call == "renameat2" and args.count(",") >= 4 else args.rsplit(",", 1)[-1]
            quoted = re.findall(r'"((?:[^"\\]|\\.)*)"', args)
            src = quoted[0] if quoted else ""
            if "/lock" in dest and "jsonl" not in dest:
                s["obj"] = "tmp->lock"
            elif re.search(r"(plans|events)\.jsonl$", src) and not re.search(r"(plans|events)\.jsonl$", dest.strip().strip('"')):
                s["obj"] = "log->away"          # the log's name given up (moved aside): between this call and the next rename there is no log
            else:
                s["obj"] = "tmp->log"
        steps.append(s)
    return steps


def kill_points(steps):
    """(syscall name, occurrence number) of every step of a complete program: strace counts `when=` per syscall name"""
    seen, out = {}, []
    for s in steps:
        seen[s["call"]] = seen.get(s["call"], 0) + 1
        out.append((s["call"], seen[s["call"]]))
    return out


def kill_at(store, argv, stdin, point, env=None, timeout=30, binary=None):
    """SIGKILL delivered when the given (syscall, n-th occurrence on the store's files) is entered: it does not execute.
    Returns (returncode, stdout, stderr, steps that did execute)."""
    syscalls, when = point
    inj = ["-e", "inject=%s:signal=SIGKILL:when=%d" % (syscalls, when)]
    rc, out, err, steps = run(store, argv, stdin, env=env, extra=inj, timeout=timeout, binary=binary)
    return rc, out, err, steps


def summarize(steps):
    """compact textual program for evidence / comparison"""
    out = []
    for s in steps:
        if s["call"] == "openat":
            out.append("open(%s,%s)%s" % (s["obj"], "|".join(s["flags"]), "" if s["ret"] != "-1" else "=ERR"))
        elif s["call"] == "flock":
            out.append("flock(%s)%s" % ("|".join(s["flags"]), "" if s["ret"] == "0" else "=" + s.get("errno", "ERR")))
        elif s["call"] in ("read", "pread64"):
            if out and out[-1].startswith("read(" + s["obj"]):
                continue
            out.append("read(%s)" % s["obj"])
        elif s["call"] == "write":
            out.append("write(%s)" % s["obj"])
        elif s["call"] == "close":
            out.append("close(%s)" % s["obj"])
        else:
            out.append("%s(%s)" % (s["call"], s["obj"]))
    return out


def shape(model, steps):
    """the Lean shape predicates (ErgoModel.Program.writerOK / busyOK / readerOK, with the theorems of Lemmas/ProgramThm.lean about what they
    guarantee) applied to an observed program; returns {"writer": bool, "busy": bool, "reader": bool, "abstract": [...]}"""
    return model.ask({"op": "program", "program": summarize_all(steps)})


def lock_calls(steps):
    """one process's calls on the lock file as tokens for the automaton of ErgoModel.LockFile (driver op `lockprog`): open+/open- (O_RDONLY: a
    descriptor / ENOENT), stat+/stat-, creat (O_CREAT without a rename: the name is created only if missing), flock+/flock- (LOCK_EX|LOCK_NB on a
    descriptor of the lock file: held / EWOULDBLOCK), unlock; anything else that touches the lock file, and a flock on any other file, is `bad`"""
    out = []
    for s in steps:
        c, o = s["call"], s["obj"]
        if c == "flock":
            fl = s.get("flags", [])
            if o != "lock":
                out.append("bad:flock on " + o)
            elif "LOCK_UN" in fl:
                out.append("unlock")
            elif sorted(fl) == ["LOCK_EX", "LOCK_NB"]:
                out.append("flock+" if s["ret"] == "0" else "flock-" if s.get("errno") in ("EAGAIN", "EWOULDBLOCK") else "bad:flock " + str(s.get("errno")))
            else:
                out.append("bad:flock " + "|".join(fl))
        elif o == "tmp->lock":
            out.append("bad:rename onto the lock file")
        elif o != "lock":
            continue
        elif c == "openat":
            fl = s.get("flags", [])
            if "O_CREAT" in fl:
                out.append("creat" if s["ret"] != "-1" else "bad:create failed " + str(s.get("errno")))
            elif fl == ["O_RDONLY"]:
                out.append("open+" if s["ret"] != "-1" else "open-" if s.get("errno") == "ENOENT" else "bad:open " + str(s.get("errno")))
            else:
                out.append("bad:open " + "|".join(fl))
        elif c in STAT_CALLS.split(","):
            out.append("stat+" if s["ret"] == "0" else "stat-" if s.get("errno") == "ENOENT" else "bad:stat " + str(s.get("errno")))
        elif c == "write":
            if s.get("req") != 0:
                out.append("bad:write to the lock file")
        elif c in ("close", "read", "pread64"):
            continue
        else:
            out.append("bad:%s on the lock file" % c)
    return out


def lock_program_ok(model, steps):
    """→ (accepted by LockFile.acquireOK, tokens, phase the automaton ends in)"""
    toks = lock_calls(steps)
    a = model.ask({"op": "lockprog", "calls": toks})
    return bool(a.get("ok")), toks, a.get("end")


def summarize_all(steps):
    """like summarize, but without merging repeated reads (the predicate counts calls)"""
    out = []
    for s in steps:
        one = summarize([s])
        out += one if one else []
    return out
