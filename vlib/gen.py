"""Seeded generators for command histories (every random choice comes from one SplitMix64 state)."""

M64 = (1 << 64) - 1


class Rng:
    def __init__(self, seed):
        self.s = seed & M64
    def next(self):
        self.s = (self.s + 0x9e3779b97f4a7c15) & M64
        z = self.s
        z = ((z ^ (z >> 30)) * 0xbf58476d1ce4e5b9) & M64
        z = ((z ^ (z >> 27)) * 0x94d049bb133111eb) & M64
        return z ^ (z >> 31)
    def n(self, k):
        return self.next() % k
    def p(self, pct):
        return self.n(100) < pct
    def pick(self, xs):
        return xs[self.n(len(xs))]
    def weighted(self, pairs):
        tot = sum(w for _, w in pairs)
        x = self.n(tot)
        for v, w in pairs:
            if x < w:
                return v
            x -= w
        return pairs[-1][0]
    def fork(self):
        return Rng(self.next())


STATES = ["todo", "doing", "done", "blocked", "canceled", "error"]
TITLES = ["Fix the parser", "Write docs", "a", "Ünïcödé ✓ title", "tab\there", "quote\"s and \\ slashes", "<b>&amp;</b>",
          "日本語のタイトル", "emoji 🎉 party", "  padded  "]
BODIES = ["details", "line1\nline2\n", "# heading\ntext", "\ttabbed", "x" * 300, "ends with space "]


class View:
    """what the generator knows about the store (from the model's post graph)"""
    def __init__(self, graph=None):
        self.tasks, self.epics, self.pruned, self.by_id = [], [], [], {}
        if graph:
            self.update(graph)
    def update(self, graph):
        if not graph or "tasks" not in graph:
            return
        self.tasks = [t["id"] for t in graph["tasks"] if not t["is_epic"]]
        self.epics = [t["id"] for t in graph["tasks"] if t["is_epic"]]
        self.by_id = {t["id"]: t for t in graph["tasks"]}
        self.pruned = list(graph.get("tombs", []))
        self.deps = [tuple(e) for e in graph.get("deps", [])]          # (x, y): x waits for y


def some_id(r, v, want="task"):
    """mostly a live id of the wanted kind; sometimes wrong kind / unknown / pruned / empty"""
    pools = []
    primary = v.tasks if want == "task" else v.epics
    other = v.epics if want == "task" else v.tasks
    if primary:
        pools.append((("live", primary), 82))
    if other:
        pools.append((("wrongkind", other), 6))
    if v.pruned:
        pools.append((("pruned", v.pruned), 5))
    pools.append((("unknown", ["ZZZZZZ", "QQQQQQ"]), 4 if primary else 60))
    if primary:
        pools.append((("spelling", primary), 5))
    cls, pool = r.weighted(pools)
    if cls == "spelling":
        # ids are exact: another spelling of a live id (case, surrounding blanks) names nothing — whatever a command does with it, it must do
        # the same thing in every place where it looks the id up
        i = r.pick(pool)
        return r.pick([i.lower(), " " + i, i + " ", i.lower() + " ", i[:1].lower() + i[1:], "\t" + i]), cls
    return r.pick(pool), cls


def gen_taskinput(r, v, for_new, is_epic=False):
    """a TaskInput-shaped dict (None = key absent)"""
    d = {}
    if for_new or r.p(35):
        d["title"] = r.weighted([(r.pick(TITLES), 88), ("", 4), ("   ", 4), ("\n", 4)]) if for_new or r.p(90) else ""
        if for_new and r.p(4):
            del d["title"]
    if r.p(35):
        d["body"] = r.weighted([(r.pick(BODIES), 90), ("", 5), ("  \n", 5)])
    if not is_epic or r.p(10):
        if r.p(30 if for_new else 25):
            eid, _ = some_id(r, v, "epic")
            d["epic"] = r.weighted([(eid, 85), ("", 15)])
        if r.p(25 if for_new else 55):
            d["state"] = r.weighted([(r.pick(STATES), 94), ("bogus", 3), ("", 3)])
        if r.p(15 if for_new else 30):
            d["claim"] = r.weighted([("ag-" + str(r.n(3)), 64), ("", 28), (" ", 5), (" x ", 3)])
    return d


def flags_from(d):
    f = {}
    for k in ("title", "body", "epic", "state", "claim"):
        if d.get(k):
            f[k] = d[k]
    return f


def gen_request(r, v, weights=None):
    """returns (request dict, agent)"""
    w = weights or {"new_task": 22, "new_epic": 8, "set": 26, "claim": 6, "claim_oldest": 8, "sequence": 12,
                    "sequence_rm": 3, "plan": 5, "prune": 3, "prune_yes": 3, "compact": 2, "malformed": 3}
    kind = r.weighted(list(w.items()))
    agent = r.weighted([("", 20), ("ag-1", 38), ("ag-2", 36), (" ", 3), ("\t\n", 1), (" ag-1 ", 2)])      # identities are opaque text: blank-looking ones included
    if kind in ("new_task", "new_epic"):
        is_epic = kind == "new_epic"
        d = gen_taskinput(r, v, True, is_epic)
        mode = r.weighted([("json", 60), ("flags", 25), ("body_stdin", 15)])
        if mode == "json":
            return {"cmd": kind, "piped": True, "body_stdin": False, "flags": {}, "json": d}, agent
        if mode == "flags":
            f = flags_from(d)
            if is_epic:
                f = {k: v_ for k, v_ in f.items() if k in ("title", "body")}
            return {"cmd": kind, "piped": False, "body_stdin": False, "flags": f, "json": None}, agent
        f = flags_from(d); body = f.pop("body", "")
        if is_epic:
            f = {k: v_ for k, v_ in f.items() if k in ("title",)}
        if r.p(5):
            f["body"] = "both"
        # one time in eight with a character device as stdin (/dev/null: nothing to read): --body-stdin still decides the input mode
        if r.p(12):
            return {"cmd": kind, "piped": False, "body_stdin": True, "flags": f, "stdin_text": "", "json": None}, agent
        return {"cmd": kind, "piped": True, "body_stdin": True, "flags": f, "stdin_text": r.weighted([(body, 80), ("", 20)]), "json": None}, agent
    if kind == "set":
        tid, _ = some_id(r, v, "task")
        d = gen_taskinput(r, v, False)
        mode = r.weighted([("json", 65), ("flags", 25), ("body_stdin", 10)])
        if mode == "json":
            return {"cmd": "set", "id": tid, "piped": True, "body_stdin": False, "flags": {}, "json": d}, agent
        if mode == "flags":
            return {"cmd": "set", "id": tid, "piped": False, "body_stdin": False, "flags": flags_from(d), "json": None}, agent
        f = flags_from(d); body = f.pop("body", "new body")
        if r.p(12):
            return {"cmd": "set", "id": tid, "piped": False, "body_stdin": True, "flags": f, "stdin_text": "", "json": None}, agent
        return {"cmd": "set", "id": tid, "piped": True, "body_stdin": True, "flags": f,
                "stdin_text": r.weighted([(body, 85), ("", 8), ("  \n", 7)]), "json": None}, agent
    if kind == "claim":
        tid, _ = some_id(r, v, "task")
        return {"cmd": "claim", "id": tid}, agent
    if kind == "claim_oldest":
        ep = ""
        if r.p(35):
            ep, _ = some_id(r, v, "epic")
        return {"cmd": "claim_oldest", "epic": ep}, agent
    if kind == "sequence":
        # one time in four, where the graph has one: the shortcut of an existing path (a waits for b waits for c: ask for "a after c") — an edge that
        # adds nothing to reachability and still has to be recorded, reported and shown like any other
        deps = getattr(v, "deps", [])
        paths = [(a, c) for (a, b) in deps for (b2, c) in deps if b2 == b and a != c and (a, c) not in deps]
        if paths and r.p(25):
            a, c = r.pick(paths)
            return {"cmd": "sequence", "args": [c, a]}, agent
        want = "task" if r.p(80) else "epic"
        k = r.weighted([(2, 60), (3, 30), (4, 10)])
        return {"cmd": "sequence", "args": [some_id(r, v, want)[0] for _ in range(k)]}, agent
    if kind == "sequence_rm":
        want = "task" if r.p(80) else "epic"
        args = ["rm", some_id(r, v, want)[0], some_id(r, v, want)[0]]
        if r.p(5):
            args.append("EXTRA1")
        return {"cmd": "sequence", "args": args}, agent
    if kind == "plan":
        return {"cmd": "plan", "plan": gen_plan(r)}, agent
    if kind == "prune":
        return {"cmd": "prune", "yes": False}, agent
    if kind == "prune_yes":
        return {"cmd": "prune", "yes": True}, agent
    if kind == "compact":
        return {"cmd": "compact"}, agent
    # malformed JSON stdin for new/set/plan
    raw = r.pick(['{"title":"x","bogus":1}', '{"title":"a"}{"title":"b"}', '', '[]', '{"title":5}', '{"title":"t"} x', 'nope',
                  '{"titel":"x"}', '{"title":"ok","state":"doing","claim":""}', '{"title":"t","result_path":"a.txt"}'])
    cmd = r.pick(["new_task", "new_epic", "set", "plan"])
    if cmd == "plan":
        return {"cmd": "plan", "plan": None, "stdin_raw": raw}, agent
    req = {"cmd": cmd, "piped": True, "body_stdin": False, "flags": {}, "json": None, "stdin_raw": raw}
    if cmd == "set":
        req["id"] = some_id(r, v, "task")[0]
    return req, agent


CONFUSABLE_SEPS = ["->", "→", ":", "|", ",", " ", "/", "-", "=>", "\t", "."]


def gen_confusable_plan(r, sep=None, fam=None):
    """titles that collide when glued together with a separator, differ only in case or surrounding blanks, or are prefixes of one another:
    whatever keys the implementation builds from titles, the edges must be exactly the ones named"""
    sep = sep if sep is not None else r.pick(CONFUSABLE_SEPS)
    fam = fam or r.pick(["glue", "glue", "case", "prefix"])
    if fam == "glue":
        a, b, c = r.pick([("A", "B", "C"), ("x", "y", "z"), ("1", "2", "3")])
        tasks = [{"title": a, "after": [b + sep + c]}, {"title": b + sep + c}, {"title": a + sep + b, "after": [c]}, {"title": c}]
        if r.p(50):
            tasks.append({"title": a + sep + b + sep + c, "after": [a, c]})
    elif fam == "case":
        tasks = [{"title": "build"}, {"title": "Build", "after": ["build"]}, {"title": "build ", "after": ["Build"]}, {"title": " build", "after": ["build", "build "]}]
    else:
        tasks = [{"title": "ab"}, {"title": "a", "after": ["ab"]}, {"title": "b", "after": ["a"]}, {"title": "abab", "after": ["ab", "b"]}]
    if r.p(50):
        r_ = list(tasks); tasks = [r_.pop(r.n(len(r_))) for _ in range(len(r_))]
    return {"title": "Plan confusable " + fam, "tasks": tasks}


def gen_plan(r):
    if r.p(18):
        return gen_confusable_plan(r)
    n = r.weighted([(1, 15), (2, 25), (3, 25), (4, 20), (6, 15)])
    titles = ["step %d %s" % (i, r.pick(["α", "b", "c"])) for i in range(n)]
    tasks = []
    for i in range(n):
        t = {"title": titles[i]}
        if r.p(40):
            t["body"] = r.pick(BODIES)
        after = []
        for j in range(i):
            if r.p(35):
                after.append(titles[j])
        if r.p(6):
            after.append(r.pick(titles))          # may be self / forward (cycle) / duplicate
        if r.p(3):
            after.append("no such title")
        if r.p(4) and i:
            # a reference that differs from an existing title only by surrounding white space names nothing
            after.append(r.pick([" %s", "%s ", "%s\n", "\t%s"]) % r.pick(titles[:i]))
        if r.p(2):
            after.append(" ")
        if after:
            t["after"] = after
        tasks.append(t)
    p = {"title": r.weighted([("Plan " + r.pick(TITLES), 92), ("", 4), ("  ", 4)]), "tasks": tasks}
    if r.p(30):
        p["body"] = r.weighted([("plan body", 90), (" ", 10)])
    if r.p(4) and n > 1:
        tasks[1]["title"] = tasks[0]["title"]
    if r.p(3):
        p["tasks"] = []
    if r.p(3):
        tasks[0].pop("title", None)
    return p
