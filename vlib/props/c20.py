"""C20 — result attachments are confined, faithful and never lost."""
import hashlib, json, os, urllib.parse
from .. import common, framework, fndiff, cmdrun, gen, oracles

PATHS = ["docs/r.md", "a.txt", "./a.txt", "docs/../a.txt", "docs//r.md", "docs/./r.md", "é/ü.txt", "a b.txt", "..x", ".ergox", "x..",
         "../outside.txt", "docs/../../outside.txt", "..", "docs/..", "/etc/hostname", ".ergo/plans.jsonl", ".ergo", "./.ergo/lock", "docs/../.ergo/lock",
         "docs", "docs/", "missing.txt", "", ".", "link_out", "link_in", "fifo", "a.txt/x", "docs/r.md/", "sub/.ergo/x"]
SUMMARIES = ["done", "  padded  ", "x" * 120, "x" * 121, "é" * 60, "é" * 61, "two\nlines", "cr\rhere", "", "   ", "tab\tok", "quote \" and \\ slash", "<b>&</b>"]


def mk_tree(root):
    for d in ("docs", "é", "sub/.ergo"):
        os.makedirs(os.path.join(root, d), exist_ok=True)
    files = {"docs/r.md": b"report\n", "a.txt": b"alpha", "é/ü.txt": "ünï".encode(), "a b.txt": b"sp", "..x": b"dots", ".ergox": b"x", "x..": b"y", "sub/.ergo/x": b"z"}
    for f, c in files.items():
        open(os.path.join(root, f), "wb").write(c)
    open(os.path.join(os.path.dirname(root), "outside.txt"), "wb").write(b"outside")
    os.symlink(os.path.join(os.path.dirname(root), "outside.txt"), os.path.join(root, "link_out"))
    os.symlink("a.txt", os.path.join(root, "link_in"))
    os.mkfifo(os.path.join(root, "fifo"))
    return files


def confined(rel):
    """the property's own words: cleaned relative path inside the project root and outside .ergo"""
    c = os.path.normpath(rel) if rel != "" else "."
    if rel.startswith("//"):
        c = "/" + c.lstrip("/")
    return (not os.path.isabs(c)) and c != ".." and not c.startswith("../") and c != ".ergo" and not c.startswith(".ergo/"), c


def one_history(ctx, r):
    import tempfile, shutil
    outer = os.path.realpath(tempfile.mkdtemp(prefix="ergo-verif-c20-"))
    root = os.path.join(outer, "proj")
    os.makedirs(root)
    st = cmdrun.Store(ctx.ergo, ctx.go, root=root)
    mk_tree(root)
    trace = []
    try:
        def ex(argv, stdin=None, timeout=20, cwd=None):
            rr = st.exec(argv, stdin, timeout=timeout, cwd=cwd)
            trace.append({"argv": argv, "stdin": None if stdin is None else stdin.decode("utf-8", "replace"), "exit": rr["exit"], "cwd": cwd})
            return rr
        ep = json.loads(ex(["--json", "new", "epic"], b'{"title":"E"}')["stdout"])["id"]
        ids = [json.loads(ex(["--json", "new", "task"], json.dumps({"title": "t%d" % i}).encode())["stdout"])["id"] for i in range(3)]
        expect = {i: [] for i in ids}          # newest first
        for step in range(14):
            tid = r.weighted([(r.pick(ids), 85), (ep, 8), ("ZZZZZZ", 7)])
            rel = r.pick(PATHS); summ = r.weighted([(r.pick(SUMMARIES), 60), ("ok %d" % step, 40)])
            if step == 5:
                rel, summ, tid = "fifo", "a named pipe", ids[0]      # every history tries the non-regular file once
            have = [(i, expect[i][0][0]) for i in ids if expect.get(i)]
            if have and r.p(30):
                tid, rel = r.pick(have)             # attach again the path this task already carries (as a new version of the same deliverable)
            mode = r.weighted([("json", 60), ("flags", 40)])
            extra = r.weighted([({}, 70), ({"state": r.pick(["done", "blocked", "todo", "doing"])}, 30)])
            # the file may have been rewritten since it was last attached — also by a tool that restores the modification time
            # (cp -p, rsync -t, tar): the recorded hash is that of the content *now*, nothing remembered about the file may be reused
            ok_, c_ = confined(rel)
            full_ = os.path.join(root, c_)
            if ok_ and rel and os.path.isfile(full_) and not os.path.islink(full_) and r.p(55):
                stt = os.stat(full_)
                with open(full_, "ab") as f:
                    f.write(("rev %d\n" % step).encode())
                keep = r.p(60)
                if keep:
                    os.utime(full_, ns=(stt.st_atime_ns, stt.st_mtime_ns))
                trace.append({"edit": "content of %s changed%s" % (c_, ", modification time restored" if keep else "")})
            pre = st.graph()
            if mode == "json":
                rr = ex(["--json", "--agent", "ag", "set", tid], json.dumps(dict({"result_path": rel, "result_summary": summ}, **extra)).encode(), timeout=4)
            else:
                if rel == "" or summ == "":
                    continue
                args = ["--json", "--agent", "ag", "set", tid, "--result-path", rel, "--result-summary", summ]
                if extra:
                    args += ["--state", extra["state"]]
                rr = ex(args, None, timeout=4)
            ctx.count(1, key=(confined(rel)[0], os.path.exists(os.path.join(root, rel)) if rel else False, rr["exit"] == 0, mode, bool(extra), tid in ids))
            if rr.get("timeout"):
                ctx.violation("C20 attach hangs on a non-regular file (under the lock)", "set with result_path=%r did not return within 4 s (the lock is held meanwhile)" % rel, {"trace": trace})
                os.system("pkill -f %s >/dev/null 2>&1" % st.root)
                return
            post = st.graph()
            if "err" in post:
                ctx.violation("C20 store unreadable after attach", post["err"][:200], {"trace": trace}); return
            k = oracles.task_of(post["graph"], tid)
            if rr["exit"] == 0:
                ok, c = confined(rel)
                full = os.path.join(root, c)
                prob = None
                if tid not in ids: prob = "attached to something that is not a live task"
                elif not ok: prob = "path %r (cleaned %r) is outside the project or inside .ergo but was accepted" % (rel, c)
                elif not os.path.isfile(full) or os.path.islink(full) and not os.path.realpath(full).startswith(root + os.sep): prob = "accepted %r which is not an existing regular file inside the project" % rel if not os.path.isfile(full) else None
                s2 = summ.strip()
                if prob is None and (s2 == "" or "\n" in s2 or "\r" in s2 or len(s2.encode()) > 120): prob = "summary %r accepted" % summ[:30]
                if prob is None:
                    res = k["results"][0] if k and k["results"] else None
                    sha = hashlib.sha256(open(full, "rb").read()).hexdigest()
                    if not res or res["path"] != c or res["summary"] != s2 or res["sha"] != sha:
                        prob = "recorded result %r does not match (path %r, summary %r, sha256 %s)" % (res, c, s2, sha[:12])
                    else:
                        expect[tid].insert(0, (c, s2, sha))
                        sh = ex(["--json", "show", tid], cwd=r.pick([root, os.path.join(root, "docs")]))
                        sv = json.loads(sh["stdout"])
                        url = sv["results"][0]["file_url"]
                        want = "file://" + urllib.parse.quote(full, safe="/$&+,:;=@")
                        if url != want:
                            prob = "file_url %r, expected %r" % (url, want)
                if prob:
                    ctx.violation("C20 " + (prob.split(" ")[0] + " " + prob.split(" ")[1]), prob, {"trace": trace}); return
            else:
                if oracles.obs_graph(pre["graph"]) != oracles.obs_graph(post["graph"]):
                    ctx.violation("C20 rejected attach changed the store", "exit %s but the store changed" % rr["exit"], {"trace": trace}); return
                ok, c = confined(rel)
                s2 = summ.strip()
                fine_summary = s2 != "" and "\n" not in s2 and "\r" not in s2 and len(s2.encode()) <= 120
                full = os.path.join(root, c)
                transition_ok = not extra or extra["state"] in ("done", "blocked", "todo", "doing")
                if tid in ids and ok and fine_summary and os.path.isfile(full) and not extra and not c.startswith(".."):
                    ctx.violation("C20 valid attach rejected", "a regular file inside the project (%r) with a valid summary was refused: %s" % (rel, rr["stderr"].strip()[:120]), {"trace": trace}); return
            # accumulation: newest first, nothing dropped/duplicated/reordered by anything
            if r.p(12):
                # a log merged from machines with skewed clocks: the recorded times of result events are not increasing in log order.
                # Attach order is log order; timestamps are data.
                lines = st.log_bytes().split(b"\n")
                n_res = 0
                for li, ln in enumerate(lines):
                    if b'"type":"result"' in ln:
                        ev = json.loads(ln)
                        n_res += 1
                        t = "2020-01-%02dT00:00:00Z" % max(1, 28 - n_res)
                        ev["ts"] = t
                        if isinstance(ev.get("data"), dict) and "ts" in ev["data"]:
                            ev["data"]["ts"] = t
                        lines[li] = json.dumps(ev, separators=(",", ":"), ensure_ascii=False).encode()
                if n_res >= 2:
                    open(st.log_path(), "wb").write(b"\n".join(lines))
                    trace.append({"edit": "timestamps of the %d result events rewritten to decrease in log order (skewed clocks); then compact" % n_res})
                    ex(["--json", "compact"])
            if r.p(25):
                ex(r.pick([["--json", "compact"], ["--json", "set", r.pick(ids), "--title", "renamed"], ["--json", "prune", "--yes"], ["--json", "sequence", ids[0], ids[1]]]))
            g = st.graph()["graph"]
            for i in ids:
                kk = oracles.task_of(g, i)
                if kk is None:
                    expect.pop(i, None); continue
                got = [(x["path"], x["summary"], x["sha"]) for x in kk["results"]]
                if i in expect and got != expect[i]:
                    ctx.violation("C20 results changed later", "results of %s are %s, expected %s (newest first)" % (i, got, expect[i]), {"trace": trace}); return
            ids[:] = [i for i in ids if i in expect]
            if not ids:
                return
        ctx.sample({"attach_history": [t.get("argv", t.get("edit")) for t in trace[:8]]}, cap=3)
    finally:
        shutil.rmtree(outer, ignore_errors=True)


def parked_attach(ctx, r):
    """the evidence recorded with a result (sha256, mtime) describes the file as it is when the result is recorded — inside the lock section that
    also checks that the task is live and stamps created_at.  The attaching process is parked right after its first call on the store (before it
    has the lock); the file is rewritten, or removed, by somebody else; the process goes on.  What it records must be the file as it is then."""
    import tempfile, shutil
    from .. import sched, strace
    outer = os.path.realpath(tempfile.mkdtemp(prefix="ergo-verif-c20p-"))
    root = os.path.join(outer, "proj")
    os.makedirs(os.path.join(root, "out"))
    st = cmdrun.Store(ctx.ergo, ctx.go, root=root)
    trace = []
    pk = None
    try:
        def ex(argv, stdin=None):
            rr = st.exec(argv, stdin); trace.append({"argv": argv, "stdin": None if stdin is None else stdin.decode(), "exit": rr["exit"]}); return rr
        tid = json.loads(ex(["--json", "new", "task"], b'{"title":"deliver"}')["stdout"])["id"]
        rel = "out/report.txt"
        full = os.path.join(root, rel)
        open(full, "wb").write(b"first version\n" * (1 + r.n(2000)))
        what = r.pick(["rewrite", "rewrite-keep-mtime", "remove"])
        mode = r.pick(["json", "flags", "new"])
        if mode == "json":
            argv, stdin = ["--json", "--agent", "ag", "set", tid], json.dumps({"result_path": rel, "result_summary": "the report"}).encode()
        elif mode == "flags":
            argv, stdin = ["--json", "--agent", "ag", "set", tid, "--result-path", rel, "--result-summary", "the report"], None
        else:
            argv, stdin = ["--json", "--agent", "ag", "new", "task"], json.dumps({"title": "with result", "result_path": rel, "result_summary": "the report"}).encode()
        pk = sched.Parked(st, argv, stdin, ("openat", 1))
        if not pk.parked:
            pk.wait(5); pk = None
            ctx.count(1, key=("parked-attach", "skipped: not parked")); return
        at = (strace.summarize(pk.steps_at_park) or ["-"])[-1]
        if any(s_["call"] == "flock" for s_ in pk.steps_at_park):          # only a process that has not asked for the lock yet is "before" it
            pk.resume(); pk = None
            ctx.count(1, key=("parked-attach", "skipped: parked too late")); return
        stt = os.stat(full)
        if what == "remove":
            os.unlink(full)
        else:
            open(full, "wb").write(b"second version, written while the attaching command was waiting\n")
            if what == "rewrite-keep-mtime":
                os.utime(full, ns=(stt.st_atime_ns, stt.st_mtime_ns))
        step = {"A": argv, "A_stdin": None if stdin is None else stdin.decode(), "schedule": "A parked after its first call on the store (%s), before it holds the lock; %s is %s; A resumes" %
                (at, rel, {"remove": "removed", "rewrite": "rewritten", "rewrite-keep-mtime": "rewritten and its modification time restored"}[what])}
        ra = pk.resume(); pk = None
        if ra.get("tracer_error") or ra["exit"] == -9:
            ctx.count(1, key=("parked-attach", "skipped: tracer")); return
        ctx.count(1, key=("parked-attach", what, mode, ra["exit"] == 0))
        g = st.graph()
        if "err" in g:
            ctx.violation("C20 store unreadable after attach", g["err"][:200], {"trace": trace + [step]}); return
        recs = [(t["id"], x) for t in g["graph"]["tasks"] for x in t["results"]]
        if what == "remove":
            if ra["exit"] == 0 or recs:
                ctx.violation("C20 result recorded for a file that does not exist", "the file was removed before the command had the lock; exit %s, %d result(s) recorded" % (ra["exit"], len(recs)),
                              {"trace": trace + [step]})
            return
        if ra["exit"] != 0:
            return
        sha = hashlib.sha256(open(full, "rb").read()).hexdigest()
        if not recs or recs[0][1]["sha"] != sha:
            ctx.violation("C20 recorded sha256 is not the file's", "the result's sha256_at_attach is %s; the file (unchanged since before the command took the lock) hashes to %s: the evidence was taken "
                          "before the lock section that records it" % (recs[0][1]["sha"][:16] if recs else None, sha[:16]), {"trace": trace + [step]})
    finally:
        if pk is not None:
            pk.kill()
        st.close()
        shutil.rmtree(outer, ignore_errors=True)


def run(ctx):
    # results through replay and compaction (random event lists: several results per task, equal and decreasing timestamps, tombstones)
    rr_ = fndiff.run_stream(ctx.ev, ["fn-replay", str(ctx.seed + 2001), "1500" if ctx.quick else "20000"])
    ctx.tie("T2-fn replay/compactEvents (results kept, in attach order)", cases=rr_["cases"], disagreements=len(rr_["diffs"]))
    ctx.count(rr_["cases"])
    for d in rr_["diffs"][:3]:
        ctx.tie_broken("T2-fn replay/compactEvents", {"first_difference": fndiff.first_difference(d["go"], d["model"])})
    res = fndiff.run_stream(ctx.ev, ["fn-path", str(ctx.seed + 2000), "1500" if ctx.quick else "20000"])
    ctx.tie("T2-fn validateResultPath/Clean/Join", cases=res["cases"], disagreements=len(res["diffs"]))
    ctx.count(res["cases"])
    for d in res["diffs"][:3]:
        ctx.tie_broken("T2-fn path functions", {"first_difference": fndiff.first_difference(d["go"], d["model"]), "p": "".join(map(chr, d["req"]["p"]))})
    r = gen.Rng(ctx.seed * 1000003 + 20)
    for h in range(10 if ctx.quick else 150):
        one_history(ctx, r.fork())
    for h in range(6 if ctx.quick else 80):
        parked_attach(ctx, r.fork())
    ctx.cov["rule"] = ("generated path strings against a real tree (files, directories, a FIFO, symlinks in and out, Unicode names, .ergo look-alikes) → Go validateResultPath/Clean vs model; "
                       "attach histories through the real binary (json and flags, with and without another field): accepted ⇒ cleaned path confined, regular file, sha256 of content, "
                       "absolute file:// URL from any cwd; rejected ⇒ nothing changed; results newest-first and untouched by compact/set/prune/sequence; 4 s hang detector")
    ctx.assumptions += ["confinement is lexical (cleaned relative path); a symlink inside the project is followed by os.Stat", "sha256 from Python's hashlib"]


def replay(ctx, doc):
    print(json.dumps(doc["replay"], indent=1)[:2000])
    return 0
