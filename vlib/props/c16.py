"""C16 — --json output is a single value and tells the truth."""
import json, re
from .. import common, framework, fndiff, cmdrun, gen, oracles, explore2
from ..histories import run_history, replay_trace

WEIGHTS = {"new_task": 20, "new_epic": 6, "set": 22, "claim": 8, "claim_oldest": 8, "sequence": 10, "sequence_rm": 3, "plan": 5, "prune": 4,
           "prune_yes": 4, "compact": 3, "malformed": 7}
ID_RE = re.compile(r"^[A-Z2-7]{6}$")


def one_json_value(raw):
    """(value, problem) — stdout must be exactly one JSON value plus whitespace"""
    s = raw.decode("utf-8", "strict")
    try:
        v, end = json.JSONDecoder().raw_decode(s.lstrip())
    except Exception as e:
        return None, "stdout is not JSON: %r" % s[:80]
    if s.lstrip()[end:].strip() != "":
        return v, "extra output after the JSON value: %r" % s.lstrip()[end:][:80]
    return v, None


def shape(ctx, argv, r, trace, what):
    if r["exit"] == 0:
        v, prob = one_json_value(r["stdout_raw"])
        if prob:
            ctx.violation("C16 success output not a single JSON value (%s)" % what, prob, {"trace": trace}); return None, True
        return v, False
    if r["stderr"].strip() == "":
        ctx.violation("C16 failure without explanation on stderr (%s)" % what, "exit %s with empty stderr" % r["exit"], {"trace": trace}); return None, True
    if r["stdout_raw"].strip() != b"":
        v, prob = one_json_value(r["stdout_raw"])
        if prob or not isinstance(v, dict) or "error" not in v:
            ctx.violation("C16 failure output not one JSON error object (%s)" % what, prob or "stdout: %r" % r["stdout"][:80], {"trace": trace}); return None, True
    return None, False


def oracle(ctx, st, req, agent, rec, trace):
    r = {"exit": rec["exit"], "stdout_raw": rec["stdout"].encode(), "stderr": rec["stderr"], "stdout": rec["stdout"]}
    v, bad = shape(ctx, None, r, trace, req["cmd"])
    if bad:
        return True
    pg, post = rec["pre"]["graph"], rec["post"]["graph"]
    if rec["exit"] == 0 and v is not None:
        c = req["cmd"]
        prob = None
        if c in ("new_task", "new_epic"):
            k = oracles.task_of(post, v.get("id"))
            if not ID_RE.match(v.get("id", "")): prob = "id %r is not six upper-case base32 characters" % v.get("id")
            elif oracles.task_of(pg, v["id"]) or v["id"] in pg.get("tombs", []): prob = "id %s is not fresh" % v["id"]
            elif not k: prob = "reported id %s does not exist" % v["id"]
            else:
                for a, b in (("state", "st"), ("title", "title"), ("body", "body"), ("epic_id", "epic_id"), ("uuid", "uuid")):
                    if v.get(a) != k[b]: prob = "reply %s=%r but a read shows %r" % (a, v.get(a), k[b])
                if v.get("kind") != ("epic" if k["is_epic"] else "task"): prob = "kind"
        elif c == "set":
            k = oracles.task_of(post, v.get("id"))
            if not k or v.get("state") != k["st"] or v.get("claimed_by", "") != k["claimed_by"]:
                prob = "set reply state/claimed_by %r/%r, read shows %r" % (v.get("state"), v.get("claimed_by"), k and (k["st"], k["claimed_by"]))
        elif c in ("claim", "claim_oldest") and v.get("status") != "no_ready":
            k = oracles.task_of(post, v.get("id"))
            if not k or v.get("state") != k["st"] or v.get("agent_id") != k["claimed_by"] or v.get("title") != k["title"] or v.get("body") != k["body"] or v.get("epic") != k["epic_id"]:
                prob = "claim reply disagrees with a read: %r vs %r" % ({x: v.get(x) for x in ("id", "state", "agent_id", "epic")}, k and (k["id"], k["st"], k["claimed_by"], k["epic_id"]))
            else:
                s = st.exec(["--json", "show", v["id"]])
                sv = json.loads(s["stdout"]) if s["exit"] == 0 else {}
                sv = sv.get("epic", sv) if "epic" in sv and isinstance(sv.get("epic"), dict) else sv
                if sv.get("claimed_at") != v.get("claimed_at"):
                    prob = "claimed_at %r but show says %r" % (v.get("claimed_at"), sv.get("claimed_at"))
        elif c == "sequence":
            edges = {tuple(e) for e in post["deps"]}
            for e in v.get("edges", []):
                present = (e["from_id"], e["to_id"]) in edges
                if (v.get("action") == "link") != present:
                    prob = "sequence reports %s %s→%s but a read shows present=%s" % (v.get("action"), e["from_id"], e["to_id"], present)
        elif c == "prune":
            live = {t["id"] for t in post["tasks"]}
            ids = v.get("pruned_ids") or []
            if v.get("dry_run") != (not req.get("yes")): prob = "dry_run flag"
            elif req.get("yes") and any(i in live for i in ids): prob = "pruned id still listed"
            elif not req.get("yes") and any(i not in live for i in ids): prob = "dry run reports an id that is not there"
        if prob:
            ctx.violation("C16 reply disagrees with a following read (%s)" % c, prob, {"trace": trace}); return True
    # read-only commands in --json mode, every few steps
    if ctx.cov["evaluations"] % 5 == 0:
        ids = [t["id"] for t in post["tasks"]][:2] + ["ZZZZZZ"]
        for argv in ([["--json", "list"], ["--json", "list", "--all"], ["--json", "list", "--ready"], ["--json", "list", "--epics"], ["--json", "where"],
                      ["--json", "list", "--ready", "--all"], ["--json", "list", "--epic", ids[0]], ["--json", "prune"], ["--json", "quickstart"]] +
                     [["--json", "show", i] for i in ids] + [["--json", "show", ids[0], "--short"]]):
            rr = st.exec(argv)
            ctx.count(1, key=("read", " ".join(a for a in argv if not ID_RE.match(a)), rr["exit"] == 0))
            if argv[-1] == "quickstart":
                continue      # documentation text; --json does not apply to it
            _, bad = shape(ctx, argv, rr, trace + [{"argv": argv, "stdin": None, "exit": rr["exit"]}], " ".join(argv[1:2]))
            if bad:
                return True
    return False


def identities(ctx, r):
    """agent identities are opaque text: with surrounding blanks, tabs, inner spaces — whatever a command records as the claimant, its reply names
    the same text, and so does the next read (claim <id>, claim, set with a claim, new with a claim)"""
    st = cmdrun.Store(ctx.ergo, ctx.go)
    trace = []
    try:
        def ex(argv, stdin=None):
            res = st.exec(argv, stdin); trace.append({"argv": argv, "stdin": None if stdin is None else stdin.decode(), "exit": res["exit"]}); return res
        for ident in (" opus@host", "opus@host ", "\topus", " a b ", "x\u00a0", "\u3000wide", "plain", "  two  "):
            ids = [json.loads(ex(["--json", "new", "task"], json.dumps({"title": "t%d" % i}).encode())["stdout"])["id"] for i in range(3)]
            cases = [("claim-id", ["--json", "--agent", ident, "claim", ids[0]], None),
                     ("claim", ["--json", "--agent", ident, "claim"], None),
                     ("set-claim", ["--json", "set", ids[2]], json.dumps({"claim": ident, "state": "doing"}).encode()),
                     ("set-agent", ["--json", "--agent", ident, "set", ids[2]], json.dumps({"state": "blocked"}).encode()),
                     ("new-claim", ["--json", "new", "task"], json.dumps({"title": "claimed at birth", "claim": ident, "state": "doing"}).encode())]
            for what, argv, stdin in cases:
                res = ex(argv, stdin)
                ctx.count(1, key=("identity", what, ident.strip() != ident, res["exit"] == 0))
                if res["exit"] != 0:
                    continue
                v, prob = one_json_value(res["stdout"].encode())
                if prob or not isinstance(v, dict) or not v.get("id"):
                    continue
                sh = ex(["--json", "show", v["id"]])
                if sh["exit"] != 0:
                    ctx.violation("C16 reply disagrees with a following read (%s)" % what, "reported id %s cannot be shown" % v["id"], {"trace": trace}); return
                sv = json.loads(sh["stdout"])
                said = v.get("agent_id", v.get("claimed_by"))
                if said is not None and said != sv.get("claimed_by", ""):
                    ctx.violation("C16 reply disagrees with a following read (%s)" % what, "the reply names the claimant %r, show --json says %r (identity given: %r)" % (said, sv.get("claimed_by"), ident),
                                  {"trace": trace}); return
    finally:
        st.close()


def run(ctx):
    identities(ctx, gen.Rng(ctx.seed * 1000003 + 1616))
    framework.check_facts(ctx, ctx.facts, ["stdout_sites"])
    r = gen.Rng(ctx.seed * 1000003 + 16)
    for h in range(25 if ctx.quick else 400):
        run_history(ctx, r.fork(), 30, WEIGHTS, oracle)
    # what a success value reports must be what the command did, also when another writer runs between any two of its steps: the reply of
    # every command in a two-process schedule is compared with its reply in the serial order that has the same exits and final state
    for i in range(8 if ctx.quick else 120):
        ka, kb = [(("prune",), ("close", "reopen")), (("claim_oldest", "claim_id"), ("claim_oldest", "set+state")), (("set+state", "set"), ("prune", "set+state")),
                  (("new+state", "new"), ("new", "prune")), (("plan",), ("new", "set")), (("prune",), ("close", "reopen", "new+state"))][i % 6]
        explore2.explore(ctx, "C16", r.fork(), kindsA=ka, kindsB=kb, max_points=(7 if ctx.quick else 40), state_cmds=10,
                         weights={"new_task": 35, "new_epic": 6, "set": 35, "claim_oldest": 8, "sequence": 10})
    # the same when a write to the log is refused or cut short (disk full, file size limit): exit 0 and a success value only if the work is in the log
    from . import c10
    for i in range(3 if ctx.quick else 40):
        c10.io_faults(ctx, r.fork(), prop="C16", torn=(i % 3 == 2))
    ctx.cov["rule"] = ("two-process schedules (A parked after each store call, B complete / holding the lock): replies = replies of the equivalent serial run; "
                       "every mutating command with --json in all input modes on generated states, plus the read commands; strict single-value parse of raw stdout; "
                       "failure ⇒ stderr non-empty and stdout empty or one error object; reply fields compared with the replay of the log right after")


def replay(ctx, doc):
    st = replay_trace(ctx, doc["replay"]["trace"])
    st.close()
    return 0
