"""C06 — state machine and claim invariants hold on every path."""
import json
from .. import common, framework, fndiff, cmdrun, gen, oracles, explore2
from ..histories import run_history, fieldset, replay_trace


def claim_class(req):
    d = req.get("json") or req.get("flags") or {}
    c = d.get("claim")
    s = d.get("state")
    return "claim=%s state=%s" % ("absent" if c is None else ("empty" if c == "" else "nonempty"), "absent" if s is None else s)


def oracle(ctx, st, req, agent, rec, trace):
    post, pg = rec["post"]["graph"], rec["pre"]["graph"]
    for bad in oracles.inv06(post):
        pt = oracles.task_of(pg, bad[1])
        sig = "C06 inv %s via %s %s pre=(%s,%s)" % (bad[0], req["cmd"], claim_class(req), pt["st"] if pt else "-", "claimed" if pt and pt["claimed_by"] else "unclaimed")
        ctx.violation(sig, "state/claim invariant broken: %s" % (bad,), {"trace": trace, "bad": bad})
        return True
    for (tid, a, b) in oracles.transitions(pg, post):
        if b not in oracles.DOC_TRANSITIONS.get(a, set()):
            sig = "C06 transition %s->%s accepted via %s %s" % (a, b, req["cmd"], claim_class(req))
            ctx.violation(sig, "transition %s → %s accepted for %s (not in the documented table)" % (a, b, tid), {"trace": trace})
            return True
    # a rejected request leaves the target untouched (commands that are one lock section; C10 owns the multi-section ones)
    if rec["exit"] != 0 and req["cmd"] in ("set", "claim") and "id" in req:
        a, b = oracles.task_of(pg, req["id"]), oracles.task_of(post, req["id"])
        has_result = (req.get("json") or {}).get("result_path") or req.get("flags", {}).get("result_path")
        if a is not None and not has_result and (b is None or oracles.observable(a) != oracles.observable(b)):
            ctx.violation("C06 rejected-but-changed via %s %s" % (req["cmd"], claim_class(req)), "rejected request changed the task", {"trace": trace})
            return True
    return False


WEIGHTS = {"new_task": 18, "new_epic": 3, "set": 50, "claim": 14, "claim_oldest": 8, "sequence": 3, "prune_yes": 1, "compact": 1, "plan": 2}


def probe_setev_diffs(ctx, diffs, oracle_fn=None):
    """the exhaustive decision table disagrees with the model on these requests: run each one for real — bring a fresh task to the request's
    pre-state through the CLI (when that pre-state is CLI-reachable), issue the same `set`, and let the property's oracle judge the result"""
    import json
    reach = {("todo", False): [], ("doing", True): [("claim",)], ("blocked", False): [("set", {"state": "blocked"})], ("blocked", True): [("claim",), ("set", {"state": "blocked"})],
             ("done", False): [("set", {"state": "done"})], ("canceled", False): [("set", {"state": "canceled"})], ("error", True): [("claim",), ("set", {"state": "error"})]}
    outs = common.model_batch([{"op": "replay", "tag": i, "events": d["req"]["events"], "pairs": [], "epic": ""} for i, d in enumerate(diffs)])
    seen = set()
    for d, o in zip(diffs, outs):
        g = o.get("graph") or {}
        t = next((x for x in g.get("tasks", []) if x["id"] == d["req"]["id"]), None)
        if not t or t["is_epic"]:
            continue
        key = (t["st"], t["claimed_by"] != "", common.canon(d["req"]["updates"]), d["req"]["agent"] != "")
        steps = reach.get((t["st"], t["claimed_by"] != ""))
        if steps is None or key in seen:
            continue
        seen.add(key)
        if len(seen) > 40:
            break
        st = cmdrun.Store(ctx.ergo, ctx.go)
        trace = []
        try:
            def ex(argv, stdin=None):
                rr = st.exec(argv, stdin)
                trace.append({"argv": argv, "stdin": None if stdin is None else stdin.decode(), "exit": rr["exit"]})
                return rr
            tid = json.loads(ex(["--json", "new", "task"], b'{"title":"t","body":"b"}')["stdout"])["id"]
            for sp in steps:
                if sp[0] == "claim":
                    ex(["--json", "--agent", "prev", "claim", tid])
                else:
                    ex(["--json", "--agent", "prev", "set", tid], json.dumps(sp[1]).encode())
            pre = st.graph()
            argv = ["--json"] + (["--agent", d["req"]["agent"]] if d["req"]["agent"] else []) + ["set", tid]
            rr = ex(argv, json.dumps(d["req"]["updates"]).encode())
            post = st.graph()
            req = {"cmd": "set", "id": tid, "piped": True, "body_stdin": False, "flags": {}, "json": d["req"]["updates"]}
            rec = {"exit": rr["exit"], "pre": pre, "post": post, "errclass": None, "changed": pre.get("n") != post.get("n"), "pre_n": pre.get("n"), "post_n": post.get("n")}
            ctx.count(1, key=("setev-probe", t["st"], t["claimed_by"] != "", common.canon(sorted(d["req"]["updates"]))))
            if "err" not in pre and "err" not in post and (oracle_fn or oracle)(ctx, st, req, d["req"]["agent"], rec, trace):
                return
        finally:
            st.close()


def born_with_state(ctx, r):
    """items whose state / claimant were given at creation (every input channel), then `compact`, then more commands: compaction re-writes the
    log from the graph — the pair (state, claimant) of every item must come through unchanged and satisfy the invariant"""
    st = cmdrun.Store(ctx.ergo, ctx.go, legacy=r.p(15))
    trace = []
    try:
        def ex(argv, stdin=None):
            res = st.exec(argv, stdin); trace.append({"argv": argv, "stdin": None if stdin is None else stdin.decode(), "exit": res["exit"]}); return res
        J = lambda d: json.dumps(d).encode()
        ex(["--json", "new", "task"], J({"title": "plain"}))
        for state, claim in (("doing", "ag-a"), ("blocked", "ag-b"), ("blocked", None), ("done", None), ("canceled", None), ("error", "ag-e"), (None, "ag-c")):
            d = {"title": "born %s/%s" % (state, claim)}
            if state: d["state"] = state
            if claim: d["claim"] = claim
            mode = r.pick(["json", "flags", "body-stdin"])
            if mode == "json":
                ex(["--json", "new", "task"], J(d))
            else:
                argv = ["--json", "new", "task", "--title", d["title"]] + (["--state", state] if state else []) + (["--claim", claim] if claim else [])
                ex(argv + (["--body-stdin"] if mode == "body-stdin" else []), b"body\n" if mode == "body-stdin" else None)
        before = st.graph()
        if "graph" not in before:
            return
        ex(["--json", "compact"])
        if r.p(50):
            ex(["--json", "compact"])
        after = st.graph()
        ctx.count(1, key=("born-with-state", len(before["graph"]["tasks"])))
        if "graph" not in after:
            ctx.violation("C06 store unreadable after compact", str(after.get("err"))[:200], {"trace": trace}); return
        for bad in oracles.inv06(after["graph"]):
            ctx.violation("C06 inv %s after compact" % bad[0], "state/claim invariant broken by compaction: %s" % (bad,), {"trace": trace, "bad": bad}); return
        b = {t["id"]: (t["st"], t["claimed_by"]) for t in before["graph"]["tasks"]}
        a = {t["id"]: (t["st"], t["claimed_by"]) for t in after["graph"]["tasks"]}
        if a != b:
            k = [i for i in b if a.get(i) != b[i]][0]
            ctx.violation("C06 state changed without a request (compact)", "item %s was %s and is %s after compact: no transition was asked for" % (k, b[k], a.get(k)), {"trace": trace}); return
    finally:
        st.close()


def run(ctx):
    framework.check_facts(ctx, ctx.facts, ["valid_transitions", "valid_states", "claim_required", "claim_forbidden", "clears_claim"])
    res = fndiff.run_stream(ctx.ev, ["fn-setev"])
    ctx.tie("T2-fn buildSetEvents", cases=res["cases"], exhaustive=True, classes=res["classes"], disagreements=len(res["diffs"]))
    ctx.count(res["cases"])
    for k in res["classes"]:
        ctx.distinct.add("setev:" + k)
    for d in res["diffs"][:3]:
        ctx.tie_broken("T2-fn buildSetEvents", {"first_difference": fndiff.first_difference(d["go"], d["model"]), "req": d["req"]})
    if res["diffs"]:
        probe_setev_diffs(ctx, res["diffs"])
    r = gen.Rng(ctx.seed * 1000003 + 6)
    # a claim/set whose write is cut short or fails: whatever stays in the log must still satisfy the invariant (no todo task with a claimant,
    # no doing task without one) and a failed request must have left the task alone
    from . import c10
    def inv_after_fault(g, tr):
        for bad in oracles.inv06(g):
            ctx.violation("C06 inv %s after a write that failed" % bad[0], "state/claim invariant broken after an interrupted/failed write: %s" % (bad,), {"trace": tr, "bad": bad})
            return True
        return False
    for i in range(4 if ctx.quick else 60):
        c10.io_faults(ctx, r.fork(), prop="C06", torn=(i % 2 == 1), post_oracle=inv_after_fault)
    # two processes moving the *same* task: each decision must be taken on the state the task has under the decider's lock — a transition or
    # claim rule validated against a snapshot read before the lock lets a forbidden move through (A parked before / inside / after its section)
    def post(g):
        bad = oracles.inv06(g)
        return ("inv %s" % bad[0][0], "state/claim invariant broken: %s" % (bad[0],)) if bad else None
    for i in range(5 if ctx.quick else 60):
        explore2.explore(ctx, "C06", r.fork(), kindsA=(("set_same",) if i % 3 != 2 else ("claim_id", "set+state")), kindsB=(("set_same",) if i % 3 != 2 else ("set+state", "reopen", "close")),
                         max_points=(6 if ctx.quick else 40), state_cmds=8, post_oracle=post)
    for i in range(3 if ctx.quick else 40):
        born_with_state(ctx, r.fork())
    for h in range(25 if ctx.quick else 400):
        run_history(ctx, r.fork(), 30, WEIGHTS, oracle)
    ctx.cov["rule"] = ("exhaustive buildSetEvents table (state × claimed × kind × field-presence × values × agent) model vs Go; "
                       "then seeded command histories through the real binary in json/flags/body-stdin modes; "
                       "distinct = (command, outcome class, input mode, field set)")
    ctx.assumptions += ["encoding/json strict decode classified by the real decoder", "timestamps/ids read back from the real events"]


def replay(ctx, doc):
    if explore2.is_schedule_replay(doc):
        return explore2.replay(ctx, doc, post_oracle=lambda g: (lambda bad: ("inv %s" % bad[0][0], str(bad[0])) if bad else None)(oracles.inv06(g)))
    st = replay_trace(ctx, doc["replay"]["trace"])
    try:
        bad = oracles.inv06(st.graph()["graph"])
        print("inv06 problems:", bad)
        return 1 if bad else 0
    finally:
        st.close()
