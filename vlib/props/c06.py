"""C06 — state machine and claim invariants hold on every path."""
from .. import common, framework, fndiff, cmdrun, gen, oracles
from ..histories import run_history, fieldset, replay_trace


def claim_class(req):
    d = req.get("json") or req.get("flags") or {}
    c = d.get("claim")
    s = d.get("state")
    return "claim=%s state=%s" % ("absent" if c is None else ("empty" if c == "" else "nonempty"), "absent" if s is None else s)


def oracle(ctx, st, req, agent, rec, trace):
    post, pg = rec["post"]["graph"], rec["pre"]["graph"]
    for bad in oracles.inv06(post):
        pt = oracles.task_of(pg, bad[1])
        sig = "C06 inv %s via %s %s pre=(%s,%s)" % (bad[0], req["cmd"], claim_class(req), pt["st"] if pt else "-", "claimed" if pt and pt["claimed_by"] else "unclaimed")
        ctx.violation(sig, "state/claim invariant broken: %s" % (bad,), {"trace": trace, "bad": bad})
        return True
    for (tid, a, b) in oracles.transitions(pg, post):
        if b not in oracles.DOC_TRANSITIONS.get(a, set()):
            sig = "C06 transition %s->%s accepted via %s %s" % (a, b, req["cmd"], claim_class(req))
            ctx.violation(sig, "transition %s → %s accepted for %s (not in the documented table)" % (a, b, tid), {"trace": trace})
            return True
    # a rejected request leaves the target untouched (commands that are one lock section; C10 owns the multi-section ones)
    if rec["exit"] != 0 and req["cmd"] in ("set", "claim") and "id" in req:
        a, b = oracles.task_of(pg, req["id"]), oracles.task_of(post, req["id"])
        has_result = (req.get("json") or {}).get("result_path") or req.get("flags", {}).get("result_path")
        if a is not None and not has_result and (b is None or oracles.observable(a) != oracles.observable(b)):
            ctx.violation("C06 rejected-but-changed via %s %s" % (req["cmd"], claim_class(req)), "rejected request changed the task", {"trace": trace})
            return True
    return False


WEIGHTS = {"new_task": 18, "new_epic": 3, "set": 50, "claim": 14, "claim_oldest": 8, "sequence": 3, "prune_yes": 1, "compact": 1, "plan": 2}


def run(ctx):
    framework.check_facts(ctx, ctx.facts, ["valid_transitions", "valid_states", "claim_required", "claim_forbidden", "clears_claim"])
    res = fndiff.run_stream(ctx.ev, ["fn-setev"])
    ctx.tie("T2-fn buildSetEvents", cases=res["cases"], exhaustive=True, classes=res["classes"], disagreements=len(res["diffs"]))
    ctx.count(res["cases"])
    for k in res["classes"]:
        ctx.distinct.add("setev:" + k)
    for d in res["diffs"][:3]:
        ctx.tie_broken("T2-fn buildSetEvents", {"first_difference": fndiff.first_difference(d["go"], d["model"]), "req": d["req"]})
    r = gen.Rng(ctx.seed * 1000003 + 6)
    for h in range(25 if ctx.quick else 400):
        run_history(ctx, r.fork(), 30, WEIGHTS, oracle)
    ctx.cov["rule"] = ("exhaustive buildSetEvents table (state × claimed × kind × field-presence × values × agent) model vs Go; "
                       "then seeded command histories through the real binary in json/flags/body-stdin modes; "
                       "distinct = (command, outcome class, input mode, field set)")
    ctx.assumptions += ["encoding/json strict decode classified by the real decoder", "timestamps/ids read back from the real events"]


def replay(ctx, doc):
    st = replay_trace(ctx, doc["replay"]["trace"])
    try:
        bad = oracles.inv06(st.graph()["graph"])
        print("inv06 problems:", bad)
        return 1 if bad else 0
    finally:
        st.close()
