"""C12 — state is a total function of the log; reads are pure; history only grows."""
import hashlib, json, os, re, subprocess
from .. import common, framework, fndiff, cmdrun, gen, oracles, crash, strace

READS = [["--json", "list"], ["--json", "list", "--all"], ["--json", "list", "--epics"], ["--json", "list", "--ready"], ["list", "--all"], ["list"], ["list", "--epics"],
         ["--json", "where"], ["--json", "prune"], ["prune"], ["quickstart"]]
PANIC = re.compile(r"(panic:|fatal error:|goroutine \d+ \[|runtime error)")


def storage_tie(ctx, seed, n, prop="C12"):
    p = subprocess.run([ctx.ev, "fn-storage", str(seed), str(n)], stdout=subprocess.PIPE, text=True)
    cases = [json.loads(l) for l in p.stdout.split("\n") if l]
    outs = common.model_batch([c["req"] for c in cases])
    nd, classes = 0, {}
    for c, o in zip(cases, outs):
        go = c["go"]
        k = go["read"].get("err", "ok"); classes[k] = classes.get(k, 0) + 1
        g = {"read": {a: b for a, b in go["read"].items() if a != "names_file"}, "after": go["after"], "read_after": {a: b for a, b in go["read_after"].items() if a != "names_file"},
             "class_mismatch": []}
        m = {"read": o["read"], "after": o["after"], "read_after": o["read_after"], "class_mismatch": o.get("class_mismatch")}
        uniq = len({common.canon(a["event"]) for a in c["req"]["append"]}) == len(c["req"]["append"])
        if common.canon(g) != common.canon(m) or (uniq and o["after"] != o["after_model"]) or "append_err" in go:
            nd += 1
            if nd <= 3:
                ctx.tie_broken("T2-fn readEvents/appendEvents (byte level)", {"first_difference": fndiff.first_difference(g, m), "append_err": go.get("append_err"),
                                                                                 "file_tail": bytes.fromhex(c["req"]["file"])[-160:].decode("utf-8", "replace")})
        if go["read"].get("err") == "bad_line" and not go["read"].get("names_file"):
            ctx.violation("%s parse error does not name the file" % prop, "readEvents' message for an invalid line does not start with the path", {"file_tail": bytes.fromhex(c["req"]["file"])[-160:].decode("utf-8", "replace")})
    ctx.tie("T2-fn readEvents/appendEvents (byte level)", cases=len(cases), classes=classes, disagreements=nd)
    ctx.count(len(cases))


def codec_tie(ctx, seed, n):
    """T2-fn: the line codec, byte level — real json.Marshal / json.Unmarshal / time.Parse vs ErgoModel.Codec / ErgoModel.Time."""
    res = fndiff.run_stream(ctx.ev, ["fn-codec", str(seed), str(n)])
    kinds = {}
    p = res.get("kinds", {})
    ctx.tie("T2-fn line codec (encodeEvent, classifyLine, time stamps; byte level)", cases=res["cases"], disagreements=len(res["diffs"]))
    ctx.count(res["cases"])
    for d in res["diffs"][:3]:
        req = d["req"]
        ctx.tie_broken("T2-fn line codec", {"first_difference": fndiff.first_difference(d["go"], d["model"]),
                                            "line": bytes.fromhex(req["line"]).decode("utf-8", "backslashreplace")[:400] if "line" in req else None,
                                            "req": {k: v for k, v in req.items() if k != "line"}})


def dir_state(st):
    out = {}
    for n in sorted(os.listdir(st.dir)):
        p = os.path.join(st.dir, n)
        out[n] = hashlib.sha256(open(p, "rb").read()).hexdigest() if os.path.isfile(p) else "dir"
    return out


def mutate(r, data):
    lines = data.split(b"\n")
    kind = r.pick(["none", "truncate-line", "truncate-byte", "bitflip", "conflict", "shuffle", "dup-line", "unknown-type", "wrong-types", "scalar-line", "crlf", "blank-lines", "no-final-nl", "huge", "dangling-edge", "dangling-edge"])
    if kind == "truncate-line" and len(lines) > 2:
        data = b"\n".join(lines[:1 + r.n(len(lines) - 1)]) + b"\n"
    elif kind == "truncate-byte" and len(data) > 2:
        data = data[:1 + r.n(len(data) - 1)]
    elif kind == "bitflip" and data:
        i = r.n(len(data)); data = data[:i] + bytes([data[i] ^ (1 << r.n(8))]) + data[i + 1:]
    elif kind == "conflict" and len(lines) > 2:
        i = 1 + r.n(len(lines) - 1)
        data = b"\n".join(lines[:i] + [b"<<<<<<< HEAD"] + lines[i:i + 1] + [b"=======", b">>>>>>> theirs"] + lines[i + 1:])
    elif kind == "shuffle" and len(lines) > 3:
        body = lines[:-1]; i, j = r.n(len(body)), r.n(len(body)); body[i], body[j] = body[j], body[i]; data = b"\n".join(body) + b"\n"
    elif kind == "dup-line" and len(lines) > 2:
        i = r.n(len(lines) - 1); data = b"\n".join(lines[:i + 1] + lines[i:])
    elif kind == "dangling-edge":
        # well-formed lines about items the log never created (the creating line was lost in a merge, an id was mistyped while resolving a conflict):
        # an edge to / from nowhere, a state, a claim, an epic assignment and a result for an unknown id, a task under an unknown epic
        ids = []
        for l in lines:
            try:
                e = json.loads(l)
                if e.get("type") == "new_task":
                    ids.append(e["data"]["id"])
            except Exception:
                pass
        T = "2026-01-01T00:00:00Z"
        live = r.pick(ids) if ids else "AAAAAA"
        extra = [{"type": "link", "ts": T, "data": {"from_id": live, "to_id": "NOSUCH", "type": "depends"}},
                 {"type": "link", "ts": T, "data": {"from_id": "NOWHER", "to_id": live, "type": "depends"}},
                 {"type": "state", "ts": T, "data": {"id": "NOSUCH", "state": "done", "ts": T}},
                 {"type": "claim", "ts": T, "data": {"id": "NOSUCH", "agent_id": "x", "ts": T}},
                 {"type": "epic", "ts": T, "data": {"id": live, "epic_id": "NOEPIC", "ts": T}},
                 {"type": "result", "ts": T, "data": {"task_id": "NOSUCH", "summary": "s", "path": "p", "sha256_at_attach": "0", "ts": T}},
                 {"type": "new_task", "ts": T, "data": {"id": "ORPHAN", "uuid": "u", "epic_id": "NOEPIC", "state": "todo", "title": "under an unknown epic", "body": "", "created_at": T}},
                 {"type": "link", "ts": T, "data": {"from_id": "ORPHAN", "to_id": "NOSUCH", "type": "depends"}}]
        k = 1 + r.n(len(extra))
        pick_ = [extra[r.n(len(extra))] for _ in range(k)] + extra[:1]
        if not data.endswith(b"\n") and data:
            data += b"\n"
        data += "".join(json.dumps(x, separators=(",", ":")) + "\n" for x in pick_).encode()
    elif kind == "unknown-type":
        data += b'{"type":"future_thing","ts":"2026-01-01T00:00:00Z","data":{"id":"AAAAAA","x":[1,2,{"y":null}]}}\n'
    elif kind == "wrong-types":
        data += r.pick([b'{"type":"state","ts":"x","data":{"id":5,"state":true,"ts":[]}}\n', b'{"type":"new_task","ts":1,"data":"str"}\n', b'{"type":"claim","data":null}\n',
                        b'{"type":"link","ts":"","data":{"from_id":"A","to_id":"B","type":7}}\n', b'{"type":"tombstone","ts":"","data":{"id":"AAAAAA","ts":"not a time"}}\n',
                        b'{"type":"result","ts":"","data":{"task_id":"AAAAAA","ts":"2026-13-45T00:00:00Z"}}\n', b'{"type":"new_task","ts":"","data":{"id":"","created_at":"2026-01-01T00:00:00Z"}}\n'])
    elif kind == "scalar-line":
        data += r.pick([b"null\n", b"42\n", b"[]\n", b'"str"\n', b"{}\n", b"true\n", b'{"type":null}\n', b"\x00\n", b"\xff\xfe\n"])
    elif kind == "crlf":
        data = data.replace(b"\n", b"\r\n")
    elif kind == "blank-lines":
        data = data.replace(b"\n", b"\n\n  \n", 2)
    elif kind == "no-final-nl":
        data = data.rstrip(b"\n")
    elif kind == "huge":
        data += b'{"type":"body","ts":"2026-01-01T00:00:00Z","data":{"id":"AAAAAA","body":"' + b"x" * (11 * 1024 * 1024) + b'","ts":"2026-01-01T00:00:00Z"}}\n'
    return kind, data


def total_and_deterministic(ctx, r):
    st, v, trace = crash.build_state(ctx, r, 6 + r.n(14), binary=ctx.ergo)
    try:
        kind, data = mutate(r, st.log_bytes())
        open(st.log_path(), "wb").write(data)
        ids = (v.tasks + v.epics)[:2] + ["ZZZZZZ"]
        cmds = READS + [["--json", "show", i] for i in ids] + [["show", ids[0]]]
        before = dir_state(st)
        reps = 3 if ctx.quick else 6
        for argv in cmds:
            outs = []
            for k in range(reps):
                rr = st.exec(argv, timeout=8)
                outs.append((rr["exit"], rr["stdout_raw"], rr["stderr"]))
                if rr.get("timeout"):
                    ctx.violation("C12 command hangs on log mutation %s" % kind, "%s did not terminate within 8 s" % argv, {"mutation": kind, "argv": argv, "log_tail": data[-300:].decode("utf-8", "replace")}); return
            ctx.count(1, key=(kind, " ".join(a for a in argv if a not in ids), outs[0][0] == 0))
            rc, so, se = outs[0]
            if rc not in (0, 1) or PANIC.search(se):
                ctx.violation("C12 crash on log mutation %s" % kind, "%s exited %s: %s" % (argv, rc, se[-300:]), {"mutation": kind, "argv": argv, "log_tail": data[-300:].decode("utf-8", "replace")}); return
            if rc == 1 and se.strip() == "":
                ctx.violation("C12 failure without message", "%s exited 1 silently" % argv, {"mutation": kind}); return
            if rc == 1 and ("invalid JSON in events log" in se or "git conflict markers in events log" in se):
                m = re.search(r"(\S+plans\.jsonl):(\d+): (?:invalid JSON|git conflict markers)", se)
                if not m or not os.path.samefile(m.group(1), st.log_path()):
                    ctx.violation("C12 parse error does not name file and line", se.strip()[:200], {"mutation": kind}); return
                ln = int(m.group(2)); phys = data.split(b"\n")
                bad_ok = False
                try:
                    json.loads(phys[ln - 1].strip() or b"x")
                    # valid JSON may still be an invalid Event (e.g. a number): accept non-object lines and objects with wrong field types
                    bad_ok = True
                except Exception:
                    bad_ok = True
                if ln < 1 or ln > len(phys):
                    ctx.violation("C12 parse error names a line that does not exist", se.strip()[:200], {"mutation": kind}); return
                # the line named must be the first one that is not an event (the byte-level model of readEvents says which)
                if kind != "huge" and len(data) < 2000000:
                    exp = ctx.model.ask({"op": "storage", "file": data.hex(), "classes": {}, "limit": 10 * 1024 * 1024, "append": []}).get("read", {})
                    if exp.get("err") == "bad_line" and exp.get("line") != ln:
                        ctx.violation("C12 parse error names the wrong line", "%s reports line %d; the first line of the log that is not an event is line %d: %r" %
                                      (" ".join(argv), ln, exp["line"], phys[exp["line"] - 1][:120].decode("utf-8", "replace")),
                                      {"mutation": kind, "argv": argv, "log": data.decode("utf-8", "replace") if len(data) < 6000 else None, "stderr": se.strip()[:300]}); return
            if any(o != outs[0] for o in outs[1:]):
                which = "stdout" if any(o[1] != so for o in outs[1:]) else "stderr/exit"
                ctx.violation("C12 nondeterministic output of %s" % " ".join(a for a in argv if a not in ids), "same log, same command, different %s across runs" % which,
                              {"mutation": kind, "argv": argv, "runs": [o[1].decode("utf-8", "replace")[:300] for o in outs[:3]]}); return
        after = dir_state(st)
        allowed = dict(before); allowed.setdefault("lock", hashlib.sha256(b"").hexdigest())
        if after != before and after != allowed:
            ctx.violation("C12 read-only command changed the store", "files before %s after %s" % (sorted(before), sorted(after)), {"mutation": kind}); return
    finally:
        st.close()


def dangling_references(ctx, r):
    """well-formed lines about items the log never created (the creating line was lost in a merge, an id mistyped while resolving a conflict): an
    edge from a ready task to nowhere, an edge from nowhere, a task under an unknown epic … every command still terminates with state or an error"""
    st, v, trace = crash.build_state(ctx, r, 6 + r.n(8), binary=ctx.ergo, weights={"new_task": 50, "new_epic": 10, "set": 20, "sequence": 20})
    try:
        g = st.graph()
        if "graph" not in g:
            return
        ready = oracles.ready_order(g["graph"], "")
        todo = [t["id"] for t in g["graph"]["tasks"] if not t["is_epic"]]
        if not todo:
            return
        live = ready[0] if ready else todo[0]
        T = "2026-01-01T00:00:00Z"
        kinds = {"edge to nowhere": [{"type": "link", "ts": T, "data": {"from_id": live, "to_id": "NOSUCH", "type": "depends"}}],
                 "edge from nowhere": [{"type": "link", "ts": T, "data": {"from_id": "NOWHER", "to_id": live, "type": "depends"}}],
                 "task under an unknown epic": [{"type": "new_task", "ts": T, "data": {"id": "ORPHAN", "uuid": "u", "epic_id": "NOEPIC", "state": "todo", "title": "orphan", "body": "", "created_at": T}},
                                                {"type": "link", "ts": T, "data": {"from_id": "ORPHAN", "to_id": "NOSUCH", "type": "depends"}}],
                 "moved to an unknown epic": [{"type": "epic", "ts": T, "data": {"id": live, "epic_id": "NOEPIC", "ts": T}}],
                 "epic edge to nowhere": [{"type": "new_epic", "ts": T, "data": {"id": "EPICXX", "uuid": "u", "epic_id": "", "state": "todo", "title": "e", "body": "", "created_at": T}},
                                          {"type": "link", "ts": T, "data": {"from_id": "EPICXX", "to_id": "NOEPIC", "type": "depends"}},
                                          {"type": "epic", "ts": T, "data": {"id": live, "epic_id": "EPICXX", "ts": T}}]}
        what = r.pick(sorted(kinds))
        blob = "".join(json.dumps(x, separators=(",", ":")) + "\n" for x in kinds[what])
        with open(st.log_path(), "ab") as f:
            f.write(blob.encode())
        trace = trace + [{"edit": "lines appended to the log (%s)" % what, "bytes": blob}]
        cmds = READS + [["--json", "show", live], ["show", live], ["--json", "list", "--epic", "EPICXX"], ["--json", "--agent", "probe", "claim"], ["--json", "compact"], ["--json", "list", "--all"]]
        for argv in cmds:
            rr = st.exec(argv, timeout=8)
            ctx.count(1, key=("dangling", what, " ".join(a for a in argv if a != live), rr["exit"] == 0))
            if rr.get("timeout") or rr["exit"] not in (0, 1) or PANIC.search(rr["stderr"]):
                ctx.violation("C12 crash on a log with a dangling reference (%s)" % what, "%s exited %s: %s" % (" ".join(argv), rr["exit"], rr["stderr"][-300:]),
                              {"trace": trace + [{"argv": argv, "stdin": None, "exit": rr["exit"]}]}); return
    finally:
        st.close()


def equal_created_at(ctx):
    """the hand-merged shape: two epics with the same created_at — listing order must still be a function of the log"""
    st = cmdrun.Store(ctx.ergo, ctx.go)
    try:
        lines = []
        for i, id_ in enumerate(["QAAAAA", "PBBBBB", "RCCCCC", "ADDDDD"]):
            lines.append(json.dumps({"type": "new_epic", "ts": "2026-01-01T00:00:00Z", "data": {"id": id_, "uuid": "u%d" % i, "epic_id": "", "state": "todo", "title": "E%d" % i, "body": "", "created_at": "2026-01-01T00:00:00Z"}}))
        open(st.log_path(), "w").write("\n".join(lines) + "\n")
        for argv in (["--json", "list", "--epics"], ["list", "--epics"]):
            outs = set()
            for k in range(10 if ctx.quick else 30):
                outs.add(st.exec(argv)["stdout"])
            ctx.count(1, key=("equal-created-at", " ".join(argv)))
            if len(outs) > 1:
                ctx.violation("C12 nondeterministic order of list --epics (equal created_at)", "%d different outputs for the same log" % len(outs),
                              {"log": lines, "argv": argv, "outputs": sorted(outs)[:2]}); return
        # validation message with several invalid fields
        outs = set()
        for k in range(10 if ctx.quick else 30):
            outs.add(st.exec(["new", "task"], b'{"title":"","body":" ","state":"bogus","result_path":"x"}')["stderr"])
        ctx.count(1, key="multi-invalid-message")
        if len(outs) > 1:
            ctx.violation("C12 nondeterministic error message (several invalid fields)", "%d different messages for the same input" % len(outs), {"outputs": sorted(outs)[:3]})
    finally:
        st.close()


def cyclic_log(ctx):
    """a merged log in which each branch recorded one direction of a dependency (the CLI refuses cycles, a merge does not): whatever the views do
    with the members of a cycle, they must do the same thing every time"""
    st = cmdrun.Store(ctx.ergo, ctx.go)
    try:
        T = "2026-01-01T00:00:0%dZ"
        lines = [json.dumps({"type": "new_epic", "ts": T % 0, "data": {"id": "EPICAA", "uuid": "ue", "epic_id": "", "state": "todo", "title": "E", "body": "", "created_at": T % 0}})]
        kids = ["KIDAA%d" % i for i in range(7)] + ["ORPHA%d" % i for i in range(6)]
        for i, k in enumerate(kids):
            lines.append(json.dumps({"type": "new_task", "ts": T % 1, "data": {"id": k, "uuid": "u" + k, "epic_id": "EPICAA" if k.startswith("KID") else "", "state": "todo", "title": "t " + k, "body": "", "created_at": T % 1}}))
        for grp in (kids[:7], kids[7:]):
            for i, k in enumerate(grp):      # a ring: each waits for the next, the last for the first
                lines.append(json.dumps({"type": "link", "ts": T % 2, "data": {"from_id": k, "to_id": grp[(i + 1) % len(grp)], "type": "depends"}}))
        open(st.log_path(), "w").write("\n".join(lines) + "\n")
        for argv in (["list"], ["list", "--all"], ["list", "--epic", "EPICAA"], ["show", "EPICAA"], ["--json", "show", "EPICAA"], ["--json", "list", "--all"], ["list", "--ready"]):
            outs = set()
            for k in range(12 if ctx.quick else 40):
                rr = st.exec(argv)
                outs.add((rr["exit"], rr["stdout"]))
            ctx.count(1, key=("cyclic-log", " ".join(argv)))
            if len(outs) > 1:
                ctx.violation("C12 nondeterministic output of %s (log with a dependency cycle)" % " ".join(argv), "%d different outputs for the same log" % len(outs),
                              {"log": lines, "argv": argv, "outputs": [o[1][:400] for o in sorted(outs)[:2]]}); return
    finally:
        st.close()


def history_grows(ctx, r):
    st = cmdrun.Store(ctx.ergo, ctx.go)
    v = gen.View()
    trace = []
    try:
        for i in range(30):
            req, agent = gen.gen_request(r, v)
            req = cmdrun.classify_raw(ctx.go, req)
            before = [json.loads(l) for l in st.log_bytes().split(b"\n") if l.strip()]
            rr = st.exec(cmdrun.argv_of(req, agent), cmdrun.stdin_of(req))
            trace.append({"argv": cmdrun.argv_of(req, agent), "stdin": (cmdrun.stdin_of(req) or b"").decode("utf-8", "replace"), "exit": rr["exit"]})
            after = [json.loads(l) for l in st.log_bytes().split(b"\n") if l.strip()]
            ctx.count(1, key=("grows", req["cmd"], rr["exit"] == 0))
            if req["cmd"] != "compact" and after[:len(before)] != before:
                ctx.violation("C12 earlier events changed by %s" % req["cmd"], "the log after the command does not start with the events recorded before it", {"trace": trace}); return
            g = st.graph()
            if "graph" in g:
                v.update(g["graph"])
    finally:
        st.close()


def big_last_line(ctx, r, prop="C12"):
    """a complete event line longer than the 64 KiB blocks the tail repair reads, whose final newline is missing (an editor, a merge, or
    a write torn at its very last byte): the next append has to keep it"""
    st = cmdrun.Store(ctx.ergo, ctx.go)
    trace = []
    try:
        st.exec(["--json", "new", "task"], b'{"title":"first"}')
        n = r.pick([66000, 70000, 131100, 140000, 200000])
        body = ("0123456789abcdef" * (n // 16 + 1))[:n]
        rr = st.exec(["--json", "new", "task"], json.dumps({"title": "big", "body": body}).encode())
        trace.append({"argv": ["--json", "new", "task"], "stdin": "{\"title\":\"big\",\"body\":<%d bytes of 0123456789abcdef…>}" % n, "exit": rr["exit"]})
        if rr["exit"] != 0:
            return
        big_id = json.loads(rr["stdout"])["id"]
        data = st.log_bytes()
        open(st.log_path(), "wb").write(data[:-1])
        trace.append({"edit": "final newline of the log removed (last line stays a complete event, %d bytes)" % len(data.rstrip(b"\n").split(b"\n")[-1])})
        before = [json.loads(l) for l in data.split(b"\n") if l.strip()]
        argv, stdin = r.pick([(["--json", "new", "task"], b'{"title":"next"}'), (["--json", "set", big_id], b'{"title":"renamed"}'), (["--json", "--agent", "a", "claim"], None)])
        rr = st.exec(argv, stdin)
        trace.append({"argv": argv, "stdin": None if stdin is None else stdin.decode(), "exit": rr["exit"]})
        ctx.count(1, key=("big-last-line", n > 131072, argv[1] if argv[1] != "--agent" else "claim"))
        raw = st.log_bytes()
        try:
            after = [json.loads(l) for l in raw.split(b"\n") if l.strip()]
        except Exception as e:
            ctx.violation("%s " % prop + "log unreadable after appending to a log whose last line lacked its newline", str(e)[:200], {"trace": trace}); return
        if after[:len(before)] != before:
            ctx.violation("%s " % prop + "earlier events changed by %s (big last line without newline)" % argv[1], "log was %d bytes / %d events, now %d bytes / %d events; the %d-byte last event is %s" %
                          (len(data), len(before), len(raw), len(after), n, "gone" if len(after) <= len(before) else "altered"), {"trace": trace}); return
        sh = st.exec(["--json", "show", big_id])
        if sh["exit"] != 0:
            ctx.violation("%s " % prop + "item shown before a mutation is gone after it", "show %s: %s" % (big_id, sh["stderr"].strip()[:120]), {"trace": trace}); return
    finally:
        st.close()


def read_programs(ctx):
    st = cmdrun.Store(ctx.ergo, ctx.go)
    try:
        st.exec(["--json", "new", "task"], b'{"title":"a"}')
        progs = {}
        for argv in READS + [["--json", "show", "ZZZZZZ"]]:
            rc, out, err, steps = strace.run(st, argv)
            prog = strace.summarize(steps)
            progs[" ".join(argv)] = prog
            ctx.count(1, key=("T3-read", " ".join(argv)))
            if any(s["call"] in ("write", "rename", "renameat", "renameat2", "ftruncate", "unlink", "unlinkat") and s["obj"] in ("log", "tmp", "tmp->log") for s in steps) or \
               any(s["call"] == "openat" and s["obj"] in ("log", "tmp") and any(f in ("O_WRONLY", "O_RDWR", "O_TRUNC", "O_APPEND") for f in s.get("flags", [])) for s in steps):
                ctx.violation("C12 read-only command writes the log (%s)" % " ".join(argv), "system calls: %s" % prog, {"argv": argv, "program": prog}); return
        ctx.tie("T3 read programs", **progs)
    finally:
        st.close()


def run(ctx):
    framework.check_facts(ctx, ctx.facts, ["map_ranges", "writer_calls", "replay_cases", "truncate_sites", "open_sites"])
    storage_tie(ctx, ctx.seed + 1200, 600 if ctx.quick else 8000)
    codec_tie(ctx, ctx.seed + 1250, 500 if ctx.quick else 12000)
    res = fndiff.run_stream(ctx.ev, ["fn-replay", str(ctx.seed + 1201), "1500" if ctx.quick else "20000"])
    ctx.tie("T2-fn replay (total on every event list)", cases=res["cases"], classes=res["classes"], disagreements=len(res["diffs"]))
    ctx.count(res["cases"])
    for d in res["diffs"][:3]:
        ctx.tie_broken("T2-fn replay", {"first_difference": fndiff.first_difference(d["go"], d["model"])})
    equal_created_at(ctx)
    cyclic_log(ctx)
    read_programs(ctx)
    r = gen.Rng(ctx.seed * 1000003 + 12)
    for i in range(5 if ctx.quick else 100):
        dangling_references(ctx, r.fork())
    for i in range(16 if ctx.quick else 300):
        total_and_deterministic(ctx, r.fork())
    for i in range(6 if ctx.quick else 80):
        history_grows(ctx, r.fork())
    for i in range(4 if ctx.quick else 40):
        big_last_line(ctx, r.fork())
    # "every mutation other than compact only extends the recorded history" — also when another process extends it meanwhile: `plan` publishes a whole
    # file; parked at every point on its way while an appending command completes, what it publishes must contain that command's lines
    from .. import explore2
    for i in range(2 if ctx.quick else 30):
        explore2.explore(ctx, "C12", r.fork(), kindsA=("plan",), kindsB=(("new", "set"), ("claim_oldest", "sequence", "new+state"))[i % 2], max_points=(7 if ctx.quick else 40),
                         state_cmds=6, with_stat=True, b_modes=("complete",))
    ctx.cov["rule"] = ("plan parked at every point against appending commands (what it publishes contains their lines); byte-level files (valid, torn, CRLF, junk, bit flips) → Go readEvents/appendEvents vs the Lean storage model incl. line numbers; CLI-built logs mutated 14 ways "
                       "(truncation at lines/bytes, bit flip, conflict markers, shuffles, duplicates, unknown types, wrong field types, scalar lines, CRLF, blank lines, missing final newline, 11 MB line) "
                       "× 15 read commands × 3–6 repetitions: exit 0/1 within 8 s, no panic text, message names file:line, byte-identical output, store files unchanged; hand-merged equal created_at; "
                       "strace of read commands; every mutation other than compact keeps earlier events as a prefix")
    ctx.assumptions += ["Go panics / runtime stack limits are only observed, not proved absent (totality of the *decision* is the Lean theorem)"]


def replay(ctx, doc):
    print(json.dumps(doc["replay"], indent=1)[:2000])
    return 0
