"""C18 — every command finds the same store, and init never hides data."""
import json, os, shutil, tempfile, itertools
from .. import explore2, common, framework, fndiff, cmdrun, gen, oracles


def mk_project(ctx, plans=True, events=False, lock=True):
    """root/proj with .ergo (files as requested) + nested project + sub dirs; returns (root, proj)"""
    root = os.path.realpath(tempfile.mkdtemp(prefix="ergo-verif-c18-"))
    proj = os.path.join(root, "proj")
    for d in ("proj/sub/deep", "proj/nested/x/y"):
        os.makedirs(os.path.join(root, d))
    st = cmdrun.Store(ctx.ergo, ctx.go, root=proj)
    st.exec(["--json", "new", "epic"], b'{"title":"E"}')
    st.exec(["--json", "new", "task"], b'{"title":"kept","body":"b"}')
    nst = cmdrun.Store(ctx.ergo, ctx.go, root=os.path.join(proj, "nested"))
    nst.exec(["--json", "new", "task"], b'{"title":"inner"}')
    # a project inside proj/sub (proj/sub itself has no .ergo): `proj/sub/inner/..` names proj/sub, whose store is proj/.ergo
    os.makedirs(os.path.join(proj, "sub/inner"))
    ist = cmdrun.Store(ctx.ergo, ctx.go, root=os.path.join(proj, "sub/inner"))
    ist.exec(["--json", "new", "task"], b'{"title":"innermost"}')
    # a project whose `.ergo` directory is there but still empty (`mkdir .ergo`, an init cut short): it is the nearest store for everything below it
    os.makedirs(os.path.join(proj, "bare/.ergo"))
    os.makedirs(os.path.join(proj, "bare/w"))
    # a project whose directory name itself ends in ".ergo" (a checkout called team.ergo), with a sub-directory; and a plain directory of such a
    # name without a store of its own: only a path component that *is* `.ergo` names a store directory
    os.makedirs(os.path.join(proj, "team.ergo/src"))
    tst = cmdrun.Store(ctx.ergo, ctx.go, root=os.path.join(proj, "team.ergo"))
    tst.exec(["--json", "new", "task"], b'{"title":"team"}')
    os.makedirs(os.path.join(proj, "notes.ergo"))
    st.markers = {st.dir: "kept", nst.dir: "inner", ist.dir: "innermost", tst.dir: "team", os.path.join(proj, "bare/.ergo"): None}
    d = st.dir
    data = open(os.path.join(d, "plans.jsonl"), "rb").read()
    if events:
        open(os.path.join(d, "events.jsonl"), "wb").write(data)
    if not plans:
        os.unlink(os.path.join(d, "plans.jsonl"))
    if not lock:
        os.unlink(os.path.join(d, "lock"))
    return root, proj, st


def spellings(cwd, target):
    """ways of naming `target` (a directory) when the process runs in `cwd`"""
    rel = os.path.relpath(target, cwd)
    out = [("abs", ["--dir", target]), ("abs/", ["--dir", target + "/"]), ("rel", ["--dir", rel])]
    if rel != ".":
        out.append(("rel/", ["--dir", rel + "/"]))
        out.append(("./rel", ["--dir", "./" + rel]))
    if cwd == target:
        out.append(("none", []))
    # spellings that are not clean: through a child directory and back (the child may itself be a project), `.` components, doubled slashes
    for c in sorted(os.listdir(target)):
        if os.path.isdir(os.path.join(target, c)) and c != ".ergo":
            out.append(("abs/child/..", ["--dir", target + "/" + c + "/.."]))
            out.append(("rel/child/..", ["--dir", (rel if rel != "." else ".") + "/" + c + "/.."]))
    out.append(("abs/.", ["--dir", target + "/."]))
    out.append(("abs//", ["--dir", target.replace("/", "//")]))
    return out


def expected_ergo(start):
    """nearest enclosing .ergo directory of an absolute directory (or the directory itself if it is a .ergo)"""
    cur = start
    while True:
        c = os.path.join(cur, ".ergo")
        if os.path.isdir(c):
            return c
        if os.path.dirname(cur) == cur:
            break
        cur = os.path.dirname(cur)
    if os.path.basename(start.rstrip("/")) == ".ergo" and os.path.isdir(start):
        return start.rstrip("/")
    return None


def snapshot_via(st, cwd, dirargs):
    r = st.exec(dirargs + ["--json", "list", "--all"], cwd=cwd)
    return (r["exit"], json.loads(r["stdout"]) if r["exit"] == 0 else r["stderr"].strip()[:120])


def discovery(ctx):
    root, proj, st = mk_project(ctx)
    try:
        cwds = [proj, os.path.join(proj, "sub"), os.path.join(proj, "sub/deep"), os.path.join(proj, "nested/x/y"), os.path.join(proj, "nested"), os.path.join(proj, "bare/w"),
                os.path.join(proj, "team.ergo"), os.path.join(proj, "notes.ergo")]
        targets = cwds + [os.path.join(proj, ".ergo"), os.path.join(proj, "nested/.ergo"), os.path.join(proj, "bare"), os.path.join(proj, "bare/.ergo"),
                          os.path.join(proj, "team.ergo/src"), os.path.join(proj, "team.ergo/.ergo")]
        for cwd in cwds:
            for target in targets:
                want_dir = expected_ergo(target)
                ref = None
                for name, dirargs in spellings(cwd, target):
                    w = st.exec(dirargs + ["--json", "where"], cwd=cwd)
                    ctx.count(1, key=("where", name, os.path.relpath(target, cwd).count("..") > 0, target.endswith(".ergo")))
                    trace = [{"cwd": cwd, "argv": dirargs + ["--json", "where"]}]
                    got = json.loads(w["stdout"])["ergo_dir"] if w["exit"] == 0 else None
                    if got != want_dir:
                        kind = "relative" if name in ("rel", "rel/", "./rel") else name
                        ctx.violation("C18 discovery differs for a %s --dir spelling" % kind,
                                      "cwd=%s --dir %s: found %s (%s), the nearest enclosing .ergo of that directory is %s" % (cwd, dirargs[1:] or "-", got, w["stderr"].strip()[:80], want_dir),
                                      {"trace": trace})
                        return
                    snap = snapshot_via(st, cwd, dirargs)
                    # every command, not only `where`: the listing is that of the store found (each store holds one task no other has)
                    if snap[0] == 0 and want_dir in st.markers:
                        titles = {t["title"] for t in snap[1]}
                        mine = st.markers[want_dir]
                        foreign = titles & {m for m in st.markers.values() if m and m != mine}
                        if foreign or (mine and mine not in titles):
                            ctx.violation("C18 a command operates on another store than `where` names", "cwd=%s --dir %s: `where` says %s, `list` shows the tasks %s" %
                                          (cwd, dirargs[1:] or "-", want_dir, sorted(titles)[:5]), {"trace": [{"cwd": cwd, "argv": dirargs + ["--json", "list", "--all"]}]})
                            return
                    elif snap[0] != 0 and want_dir:
                        ctx.violation("C18 a command finds no store where `where` finds one", "cwd=%s --dir %s: `where` says %s, `list` fails: %s" % (cwd, dirargs[1:] or "-", want_dir, snap[1]),
                                      {"trace": [{"cwd": cwd, "argv": dirargs + ["--json", "list", "--all"]}]})
                        return
                    if ref is None:
                        ref = snap
                    elif snap != ref:
                        ctx.violation("C18 listing differs across spellings", "same directory, different spelling, different store content", {"trace": trace})
                        return
        # a mutation through one spelling is visible through another
        sub = os.path.join(proj, "sub/deep")
        r = st.exec(["--dir", "..", "--json", "new", "task"], stdin=b'{"title":"via rel"}', cwd=sub)
        a = snapshot_via(st, proj, [])
        if r["exit"] != 0 or not any(t["title"] == "via rel" for t in (a[1] if a[0] == 0 else [])):
            ctx.violation("C18 mutation through a relative --dir lost", "new task via --dir .. from sub/deep: exit %s %s; not visible from the project root" % (r["exit"], r["stderr"].strip()[:100]),
                          {"trace": [{"cwd": sub, "argv": ["--dir", "..", "--json", "new", "task"]}]})
    finally:
        shutil.rmtree(root, ignore_errors=True)


def init_first(ctx):
    """`init` as the very first command on each layout (the lock file, which is not data, may be missing after a copy or clone), in every spelling"""
    for plans, events, lock in itertools.product([True, False], repeat=3):
        for spell in ("init", "init .", "init <abs>", "init from sub"):
            root, proj, st = mk_project(ctx, plans, events, lock)
            try:
                label = "plans=%s events=%s lock=%s" % (plans, events, lock)
                before = snapshot_via(st, proj, [])
                argv, cwd = {"init": (["--json", "init"], proj), "init .": (["--json", "init", "."], proj), "init <abs>": (["--json", "init", proj], root),
                             "init from sub": (["--json", "init", ".."], os.path.join(proj, "sub"))}[spell]
                for i in range(2):
                    ri = st.exec(argv, cwd=cwd)
                    after = snapshot_via(st, proj, [])
                    ctx.count(1, key=("init-first", label, spell, i))
                    if ri["exit"] != 0 or after != before:
                        shown = lambda sn: sn[1] if sn[0] != 0 else [t["title"] for t in sn[1]]
                        ctx.violation("C18 init changed what the store shows (%s)" % ("legacy events.jsonl only" if (events and not plans) else label),
                                      "`ergo %s` as the first command on a store with %s: exit %s; listing before %s, after %s" % (spell, label, ri["exit"], shown(before), shown(after)),
                                      {"layout": label, "trace": [{"argv": argv, "cwd": cwd}]}); return
            finally:
                shutil.rmtree(root, ignore_errors=True)


def file_layouts(ctx):
    for plans, events, lock in itertools.product([True, False], repeat=3):
        root, proj, st = mk_project(ctx, plans, events, lock)
        try:
            label = "plans=%s events=%s lock=%s" % (plans, events, lock)
            before = snapshot_via(st, proj, [])
            want_file = "plans.jsonl" if plans else ("events.jsonl" if events else "plans.jsonl")
            if (plans or events) and (before[0] != 0 or not any(t["title"] == "kept" for t in before[1])):
                ctx.violation("C18 existing log not read (%s)" % label, "list does not show the stored task: %s" % (before,), {"layout": label}); return
            # every mutating command writes the file every reader reads
            sizes = lambda: {n: os.path.getsize(os.path.join(st.dir, n)) if os.path.exists(os.path.join(st.dir, n)) else None for n in ("plans.jsonl", "events.jsonl")}
            s0 = sizes()
            r = st.exec(["--json", "new", "task"], b'{"title":"added"}')
            s1 = sizes()
            ctx.count(1, key=("layout-new", label))
            other = "events.jsonl" if want_file == "plans.jsonl" else "plans.jsonl"
            if r["exit"] != 0 or (s1[want_file] or 0) <= (s0[want_file] or 0) or s1[other] != s0[other]:
                ctx.violation("C18 write went to the wrong file (%s)" % label, "sizes before %s after %s, expected growth of %s only; exit %s %s" % (s0, s1, want_file, r["exit"], r["stderr"][:80]), {"layout": label}); return
            if not os.path.exists(os.path.join(st.dir, "lock")):
                ctx.violation("C18 lock not recreated (%s)" % label, "a mutating command ran without recreating the lock file", {"layout": label}); return
            mid = snapshot_via(st, proj, [])
            # init is idempotent and hides nothing
            for i in range(2):
                ri = st.exec(["--json", "init"], cwd=proj)
                after = snapshot_via(st, proj, [])
                ctx.count(1, key=("layout-init", label, i))
                if ri["exit"] != 0 or after != mid:
                    lost = [t["title"] for t in (mid[1] if mid[0] == 0 else [])]
                    ctx.violation("C18 init changed what the store shows (%s)" % ("legacy events.jsonl only" if (events and not plans) else label),
                                  "after `ergo init` on an existing store the listing changed: before %s, after %s" % (lost, after[1] if after[0] != 0 else [t["title"] for t in after[1]]),
                                  {"layout": label, "trace": [{"argv": ["--json", "init"], "cwd": proj}]}); return
            # a second store-level command after init still uses the same file
            st.exec(["--json", "new", "task"], b'{"title":"after init"}')
            s2 = sizes()
            if (s2[want_file] or 0) <= (s1[want_file] or 0):
                ctx.violation("C18 log file changed identity after init (%s)" % label, "sizes %s → %s" % (s1, s2), {"layout": label}); return
        finally:
            shutil.rmtree(root, ignore_errors=True)


def both_files_life(ctx):
    """both log names present (a migrated store that kept its legacy file): every command, through the whole life of the store — including
    the moment `prune` + `compact` leave plans.jsonl empty — reads and writes plans.jsonl and never looks at the other file"""
    root, proj, st = mk_project(ctx, True, True, True)
    try:
        ev_path = os.path.join(st.dir, "events.jsonl"); pl_path = os.path.join(st.dir, "plans.jsonl")
        ghost = {"type": "new_task", "ts": "2020-01-01T00:00:00Z", "data": {"id": "GHOST1", "uuid": "ug", "epic_id": "", "state": "todo", "title": "legacy ghost", "body": "", "created_at": "2020-01-01T00:00:00Z"}}
        open(ev_path, "ab").write((json.dumps(ghost) + "\n").encode())
        ev_bytes = open(ev_path, "rb").read()
        trace = [{"layout": "plans.jsonl and events.jsonl both present; events.jsonl holds an item (GHOST1) that plans.jsonl does not"}]
        def step(argv, stdin=None, cwd=None):
            rr = st.exec(argv, stdin, cwd=cwd or proj)
            trace.append({"argv": argv, "stdin": None if stdin is None else stdin.decode(), "exit": rr["exit"]})
            prob = None
            if open(ev_path, "rb").read() != ev_bytes:
                prob = "events.jsonl was modified"
            ls = st.exec(["--json", "list", "--all"], cwd=os.path.join(proj, "sub"))
            if ls["exit"] != 0:
                prob = prob or "list fails: %s" % ls["stderr"].strip()[:100]
            elif any(t["id"] == "GHOST1" for t in json.loads(ls["stdout"])):
                prob = prob or "list shows the item that exists only in events.jsonl (plans.jsonl is %d bytes)" % os.path.getsize(pl_path)
            ctx.count(1, key=("both-files", argv[1] if argv[0] == "--json" else argv[0], os.path.getsize(pl_path) == 0))
            if prob:
                ctx.violation("C18 commands switched log file while both exist", "after `%s`: %s" % (" ".join(argv), prob), {"trace": trace})
                return None
            return rr
        ls = json.loads(st.exec(["--json", "list", "--all"], cwd=proj)["stdout"])
        for t in ls:
            if step(["--json", "set", t["id"]], b'{"state":"done"}') is None: return
        for argv in (["--json", "--agent", "p", "prune", "--yes"], ["--json", "compact"], ["--json", "--agent", "p", "prune", "--yes"], ["--json", "compact"]):
            if step(argv) is None: return
        size0 = os.path.getsize(pl_path)
        rr = step(["--json", "new", "task"], b'{"title":"after the store was emptied"}')
        if rr is None: return
        if rr["exit"] != 0 or os.path.getsize(pl_path) <= size0:
            ctx.violation("C18 write went to the wrong file (both present, plans.jsonl emptied)", "new task: exit %s; plans.jsonl %d → %d bytes" % (rr["exit"], size0, os.path.getsize(pl_path)), {"trace": trace}); return
        step(["--json", "init"])
    finally:
        shutil.rmtree(root, ignore_errors=True)


def run(ctx):
    # `init` never hides data — also data that another process writes while init is on its way: init takes no lock, so on a store that has no log yet
    # it is parked after each of its calls while a writer runs to completion, and the other way round (the scenario of C02, where init is one of
    # the commands the quantifier names)
    from . import c02
    c02.init_races(ctx, gen.Rng(ctx.seed * 1000003 + 1818), prop="C18", layouts=("lock only", "bare", "legacy"))
    framework.check_facts(ctx, ctx.facts, ["log_name_uses"])
    res = fndiff.run_stream(ctx.ev, ["fn-path", str(ctx.seed + 1800), "1500" if ctx.quick else "20000"])
    ctx.tie("T2-fn Clean/Dir/Base/Join/resolveErgoDir", cases=res["cases"], disagreements=len(res["diffs"]))
    ctx.count(res["cases"])
    for d in res["diffs"][:3]:
        ctx.tie_broken("T2-fn path functions", {"first_difference": fndiff.first_difference(d["go"], d["model"]), "p": "".join(map(chr, d["req"]["p"])), "start": "".join(map(chr, d["req"]["start"]))})
    discovery(ctx)
    init_first(ctx)
    both_files_life(ctx)
    file_layouts(ctx)
    # a store whose log still has the old name, two processes: a writer that settled on a log *name* before it got the lock while `compact` or
    # `plan` rewrites the log in between — afterwards every command must still find one and the same store, with the writer's acknowledged item in it
    r = gen.Rng(ctx.seed * 1000003 + 18)
    for i in range(3 if ctx.quick else 40):
        explore2.explore(ctx, "C18", r.fork(), kindsA=(["new", "set+state", "claim_oldest", "sequence"][i % 4],), kindsB=("compact", "plan"),
                         max_points=(6 if ctx.quick else 40), state_cmds=6, legacy=True)
    ctx.cov["exhaustive"] = True
    ctx.cov["rule"] = ("directories whose names end in .ergo (team.ergo with its own store, notes.ergo without); every listing is that of the store `where` names; init ∥ writer on stores without a log; generated path strings → Go Clean/Dir/Base/Join/resolveErgoDir (real temp tree, chdir) vs model; then exhaustively: 5 working directories × 7 target directories "
                       "(project, nested project, sub-directories, the .ergo directories themselves) × every --dir spelling (none, absolute, trailing slash, relative, ./relative): "
                       "`where` must name the nearest enclosing .ergo and listings must agree; all 8 combinations of plans.jsonl/events.jsonl/lock present: reads, the file written, "
                       "lock re-creation, `init` twice")


def replay(ctx, doc):
    if explore2.is_schedule_replay(doc):
        return explore2.replay(ctx, doc)
    print(json.dumps(doc["replay"], indent=1)[:1500])
    return 0
