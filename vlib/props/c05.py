"""C05 — compact changes nothing a reader can see."""
import json, os, shutil
from .. import common, framework, fndiff, cmdrun, gen, oracles, explore2
from ..histories import run_history, replay_trace, mode_of, fieldset

WEIGHTS = {"new_task": 20, "new_epic": 6, "set": 34, "claim": 6, "claim_oldest": 8, "sequence": 10, "sequence_rm": 3, "plan": 4, "prune_yes": 4, "compact": 5}


def timeless(g):
    """observables minus clock readings (two runs of one history differ only there); claim order kept"""
    out = []
    for t in g["tasks"]:
        o = oracles.observable(t)
        for k in ("created_at", "updated_at", "claimed_at"):
            o.pop(k)
        o["results"] = [{k: v for k, v in r.items() if k not in ("at", "mtime")} for r in o["results"]]
        out.append(o)
    return {"tasks": out, "ready_order": oracles.ready_order(g)}


def twin_history(ctx, r, n_cmds, legacy=False, torn=False):
    """store A gets the history with compactions inserted; store B the same history without them.
    ids are made equal by giving both runs the same scripted RNG seed per command."""
    A = cmdrun.Store(ctx.ergo_verif, ctx.go, legacy=legacy)
    B = cmdrun.Store(ctx.ergo_verif, ctx.go, legacy=legacy)
    v = gen.View()
    trace = []
    try:
        for i in range(n_cmds):
            req, agent = gen.gen_request(r, v, WEIGHTS)
            req = cmdrun.classify_raw(ctx.go, req)
            env = {"VERIF_RAND": str(r.next() % (1 << 40))}
            argv, stdin = cmdrun.argv_of(req, agent), cmdrun.stdin_of(req)
            step = {"argv": argv, "stdin": None if stdin is None else stdin.decode("utf-8", "replace"), "env": env}
            trace.append(step)
            if req["cmd"] == "compact":
                before = A.graph()
                if torn and r.p(50):
                    ready = oracles.ready_order(before["graph"], "") if "graph" in before else []
                    if ready and r.p(50) and A.log_bytes().endswith(b"\n") and B.log_bytes().endswith(b"\n"):
                        # a `claim` killed inside its write: the claim line is whole, the state line that follows is cut — the task is todo and
                        # carries a claimant (readers show it that way; whatever compact writes must show the same)
                        ts = "2026-01-01T00:00:00Z"
                        blob = json.dumps({"type": "claim", "ts": ts, "data": {"id": ready[0], "agent_id": "cut-short", "ts": ts}}, separators=(",", ":")) + "\n" + \
                               '{"type":"state","ts":"%s","data":{"id":"%s","sta' % (ts, ready[0])
                        for S in (A, B):            # the twin without compactions has been through the same accident
                            with open(S.log_path(), "ab") as f:
                                f.write(blob.encode())
                        trace.insert(len(trace) - 1, {"edit": "lines appended to the log: a claim of %s whose write was cut inside the state line that follows (no newline)" % ready[0], "bytes": blob})
                    elif A.log_bytes().endswith(b"\n"):
                        frag = b'{"type":"state","ts":"2026-01-01T00:00:00Z","data":{"id":"X'
                        with open(A.log_path(), "ab") as f:
                            f.write(frag)   # a crash-torn tail
                        trace.insert(len(trace) - 1, {"edit": "torn fragment appended to the log, no newline", "bytes": frag.decode()})
                    before = A.graph()
                ra = A.exec(argv, stdin, env=env)
                after = A.graph()
                ctx.count(1, key=("compact", len(before.get("graph", {}).get("tasks", []))))
                if ra["exit"] != 0 or "err" in after or "err" in before:
                    ctx.violation("C05 compact failed", "compact exited %s: %s" % (ra["exit"], ra["stderr"][:200]), {"trace": trace}); return
                if oracles.obs_graph(before["graph"]) != oracles.obs_graph(after["graph"]) or sorted(map(tuple, before["graph"]["deps"])) != sorted(map(tuple, after["graph"]["deps"])):
                    d = fndiff.first_difference(oracles.obs_graph(before["graph"]), oracles.obs_graph(after["graph"]))
                    ctx.violation("C05 compact changed an observable", "observable data differs across compact: %s" % d, {"trace": trace}); return
                if oracles.ready_order(before["graph"]) != oracles.ready_order(after["graph"]):
                    ctx.violation("C05 compact changed the claim order", "claim order differs across compact", {"trace": trace}); return
                if set(before["graph"]["tombs"]) & {t["id"] for t in after["graph"]["tasks"]}:
                    ctx.violation("C05 compact revived a pruned id", "a pruned id is live after compact", {"trace": trace}); return
                # compact again: nothing changes (event content identical; envelope timestamps of links aside)
                ev1 = after["events"]
                A.exec(argv, stdin, env=env)
                ev2 = A.graph()["events"]
                if ev1 != ev2:
                    ctx.violation("C05 compact not idempotent", "second compact changed the log: %s" % fndiff.first_difference(ev1, ev2), {"trace": trace}); return
                # the model's compaction must equal the real one (T2-cmd for compact)
                m = ctx.model.ask({"op": "replay", "events": before["events"], "compact": True, "pairs": [], "epic": ""})
                if common.canon(m.get("compact")) != common.canon(ev1):
                    ctx.tie_broken("T2-cmd compact", {"first_difference": fndiff.first_difference(ev1, m.get("compact")), "trace": trace}); return
                continue
            ra = A.exec(argv, stdin, env=env)
            rb = B.exec(argv, stdin, env=env)
            ctx.count(1, key=(req["cmd"], ra["exit"] == 0, mode_of(req), fieldset(req)))
            ga, gb = A.graph(), B.graph()
            if "err" in ga or "err" in gb:
                ctx.violation("C05 store unreadable", "%s / %s" % (ga.get("err"), gb.get("err")), {"trace": trace}); return
            # compaction drops tombstones: docs/spec.md says a pruned id "may no longer be distinguishable from never existed" afterwards, so a
            # refusal may read `unknown …` where it read `pruned` — one class here (DESIGN §5, interpretation of C09); everything else must match
            def ecls(res):
                c = cmdrun.classify_stderr(res["stderr"])
                return "not-a-live-id" if c in ("pruned", "unknown_task", "unknown_id", "unknown_epic", "no_such_epic") else c
            if ra["exit"] != rb["exit"] or ecls(ra) != ecls(rb) or timeless(ga["graph"]) != timeless(gb["graph"]):
                d = fndiff.first_difference(timeless(ga["graph"]), timeless(gb["graph"]))
                ctx.violation("C05 command after compact behaves differently (%s)" % req["cmd"],
                              "with vs without earlier compaction: exit %s/%s, first difference %s" % (ra["exit"], rb["exit"], d), {"trace": trace}); return
            m = ctx.model.ask({"op": "replay", "events": ga["events"], "pairs": [], "epic": ""})
            v.update(m.get("graph"))
        ctx.sample({"history": [s.get("argv", s.get("edit")) for s in trace[:8]]}, cap=3)
    finally:
        A.close(); B.close()


def legacy_format(ctx, r):
    """a log in the legacy format — creation events without a title, the title being derived from the body when the log is read — under the legacy
    file name, with later body/state/claim events: compact must leave every observable as it was, and compacting again must change nothing"""
    st = cmdrun.Store(ctx.ergo, ctx.go, legacy=True)
    try:
        bodies = ["Title line\n\nrest of the body", "# heading\nmore", "only one line", "  padded first line  \nsecond", "\n\nblank lines first\nthen text", "é wide 日本 title\nbody",
                  "x" * 300 + "\nlong first line", "line one\r\nline two"]
        ts = lambda k: "2024-01-01T00:%02d:%02dZ" % (k // 60, k % 60)
        lines, ids, k = [], [], 1
        lines.append({"type": "new_epic", "ts": ts(k), "data": {"id": "EEEEEE", "uuid": "u-e", "epic_id": "", "state": "todo", "body": r.pick(bodies), "created_at": ts(k)}})
        for i in range(2 + r.n(4)):
            k += 1
            tid = "T%05d" % i
            ids.append(tid)
            lines.append({"type": "new_task", "ts": ts(k), "data": {"id": tid, "uuid": "u-%d" % i, "epic_id": r.pick(["", "EEEEEE"]), "state": "todo", "body": r.pick(bodies), "created_at": ts(k)}})
        for _ in range(r.n(5)):
            k += 1
            tid = r.pick(ids)
            kind = r.pick(["body", "state", "claim", "title"])
            if kind == "body": lines.append({"type": "body", "ts": ts(k), "data": {"id": tid, "body": r.pick(bodies), "ts": ts(k)}})
            elif kind == "title": lines.append({"type": "title", "ts": ts(k), "data": {"id": tid, "title": "an explicit title", "ts": ts(k)}})
            elif kind == "state": lines.append({"type": "state", "ts": ts(k), "data": {"id": tid, "state": r.pick(["blocked", "done", "canceled"]), "ts": ts(k)}})
            else:
                lines += [{"type": "claim", "ts": ts(k), "data": {"id": tid, "agent_id": "ag", "ts": ts(k)}}, {"type": "state", "ts": ts(k), "data": {"id": tid, "state": "doing", "ts": ts(k)}}]
        blob = "".join(json.dumps(l, separators=(",", ":")) + "\n" for l in lines)
        with open(st.log_path(), "w") as f:
            f.write(blob)
        trace = [{"store": "legacy log name events.jsonl"}, {"edit": "lines appended to the log: a hand-written log in the legacy format (no titles: they are derived from the bodies)", "bytes": blob}]
        before = st.graph()
        if "err" in before:
            ctx.violation("C05 store unreadable", "a legacy-format log does not load: %s" % before["err"][:200], {"trace": trace}); return
        for n in (1, 2):
            res = st.exec(["--json", "compact"])
            trace.append({"argv": ["--json", "compact"], "stdin": None})
            after = st.graph()
            ctx.count(1, key=("legacy-format", n, len(ids)))
            if res["exit"] != 0 or "err" in after:
                ctx.violation("C05 compact failed", "compact on a legacy-format log exits %s: %s" % (res["exit"], (res["stderr"] or after.get("err", ""))[:200]), {"trace": trace}); return
            if oracles.obs_graph(before["graph"]) != oracles.obs_graph(after["graph"]) or oracles.ready_order(before["graph"]) != oracles.ready_order(after["graph"]):
                ctx.violation("C05 compact changed an observable", "legacy-format log, compaction %d: %s" % (n, fndiff.first_difference(oracles.obs_graph(before["graph"]), oracles.obs_graph(after["graph"]))), {"trace": trace}); return
            if n == 2 and after["events"] != prev_events:
                ctx.violation("C05 compact not idempotent", "second compact of a legacy-format log changed the log: %s" % fndiff.first_difference(prev_events, after["events"]), {"trace": trace}); return
            prev_events = after["events"]
    finally:
        st.close()


def torn_claim_compact(ctx):
    """a `claim` killed inside its write — the claim line whole, the state line cut — on a task that never had a state event and on one that went
    blocked → todo before (compact then re-emits its state): readers show a todo task with a claimant, and after compact they must show the same"""
    for history in ("fresh", "was blocked", "was doing"):
        st = cmdrun.Store(ctx.ergo, ctx.go)
        trace = []
        try:
            def ex(argv, stdin=None):
                res = st.exec(argv, stdin); trace.append({"argv": argv, "stdin": None if stdin is None else stdin.decode(), "exit": res["exit"]}); return res
            t = json.loads(ex(["--json", "new", "task"], b'{"title":"half claimed"}')["stdout"])["id"]
            ex(["--json", "new", "task"], b'{"title":"another"}')
            if history == "was blocked":
                ex(["--json", "set", t], b'{"state":"blocked"}'); ex(["--json", "set", t], b'{"state":"todo"}')
            if history == "was doing":
                ex(["--json", "--agent", "first", "claim", t]); ex(["--json", "--agent", "first", "set", t], b'{"state":"todo"}')
            ts = "2031-01-01T00:00:00Z"
            blob = json.dumps({"type": "claim", "ts": ts, "data": {"id": t, "agent_id": "cut-short", "ts": ts}}, separators=(",", ":")) + "\n" + '{"type":"state","ts":"%s","data":{"id":"%s","sta' % (ts, t)
            with open(st.log_path(), "ab") as f:
                f.write(blob.encode())
            trace.append({"edit": "lines appended to the log: a claim of %s whose write was cut inside the state line that follows (no newline)" % t, "bytes": blob})
            before = st.graph()
            res = ex(["--json", "compact"])
            after = st.graph()
            ctx.count(1, key=("torn-claim-compact", history))
            if res["exit"] != 0 or "err" in after or "err" in before:
                ctx.violation("C05 compact failed", "compact exited %s: %s" % (res["exit"], res["stderr"][:200]), {"trace": trace}); return
            if oracles.obs_graph(before["graph"]) != oracles.obs_graph(after["graph"]):
                ctx.violation("C05 compact changed an observable", "half-written claim (%s): %s" % (history, fndiff.first_difference(oracles.obs_graph(before["graph"]), oracles.obs_graph(after["graph"]))), {"trace": trace}); return
            if oracles.ready_order(before["graph"]) != oracles.ready_order(after["graph"]):
                ctx.violation("C05 compact changed the claim order", "half-written claim (%s)" % history, {"trace": trace}); return
        finally:
            st.close()


def run(ctx):
    res = fndiff.run_stream(ctx.ev, ["fn-replay", str(ctx.seed + 500), "2000" if ctx.quick else "30000"])
    ctx.tie("T2-fn replay/compactEvents", cases=res["cases"], classes=res["classes"], disagreements=len(res["diffs"]))
    ctx.count(res["cases"])
    for d in res["diffs"][:3]:
        ctx.tie_broken("T2-fn replay/compactEvents", {"first_difference": fndiff.first_difference(d["go"], d["model"]), "req": d["req"]})
    r = gen.Rng(ctx.seed * 1000003 + 5)
    n = 14 if ctx.quick else 250
    for h in range(n):
        twin_history(ctx, r.fork(), 40, legacy=(h % 5 == 4), torn=(h % 3 == 2))
    torn_claim_compact(ctx)
    for i in range(4 if ctx.quick else 60):
        legacy_format(ctx, r.fork())
    # compact against a concurrent writer: what it writes must be the collapse of the log as it is *under its lock* — a writer that commits
    # between compact's read and its rewrite must not be undone (two-process schedules, compact parked before / inside / after its lock section)
    for i in range(2 if ctx.quick else 30):
        explore2.explore(ctx, "C05", r.fork(), kindsA=("compact",), kindsB=("set+state", "new", "claim_oldest", "set", "reopen", "sequence"),
                         max_points=(6 if ctx.quick else 40), state_cmds=8, legacy=(i % 3 == 2))
    # compact's rewrite when a write, fsync or rename fails or a write is cut short: it must fail and leave the old log, never a shorter one
    from . import c10
    for i in range(3 if ctx.quick else 40):
        c10.io_faults(ctx, r.fork(), prop="C05", torn=(i % 3 == 2), only=("compact",))
    ctx.cov["rule"] = ("random event lists → Go compactEvents∘replayEvents vs model; twin stores driven by one seeded history with scripted RNG, compact inserted at random "
                       "points in one of them (legacy file name and torn tails included): observables, claim order, pruned ids, idempotence, later commands compared")


def replay(ctx, doc):
    if explore2.is_schedule_replay(doc):
        return explore2.replay(ctx, doc)
    return 0
