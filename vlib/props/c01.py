"""C01 — a ready task is handed to at most one claimant."""
import json, os, tempfile
from .. import common, framework, fndiff, cmdrun, gen, oracles, strace, crash, sched, explore2

CLAIM_PROGRAM = ['open(lock,O_RDONLY)', 'flock(LOCK_EX|LOCK_NB)', 'open(log,O_RDONLY)', 'read(log)', 'close(log)', 'open(log,O_APPEND|O_CREAT|O_RDWR)',
                 'read(log)', 'write(log)', 'close(log)', 'flock(LOCK_UN)', 'close(lock)']


def graph_of_prefix(ctx, lines):
    f = tempfile.NamedTemporaryFile(prefix="ergo-prefix-", suffix=".jsonl", delete=False)
    f.write(b"".join(lines)); f.close()
    try:
        return ctx.go.graph(f.name)
    finally:
        os.unlink(f.name)


def audit_log(ctx, st, pre_bytes, results, agents, epic, trace):
    """from the final log: every winner was handed the head of the ready list of the log just before its claim line"""
    data = st.log_bytes()
    if not pre_bytes.endswith(b"\n"):
        # the store ended in the fragment of a killed writer: the first claimer that writes drops it (the fragments injected are never whole events)
        pre_bytes = pre_bytes[:pre_bytes.rfind(b"\n") + 1]
        if not any(r_["exit"] == 0 and json.loads(r_["stdout"]).get("status") != "no_ready" for r_ in results):
            return False          # nobody wrote: the fragment is still there and there is nothing to audit
    if not data.startswith(pre_bytes):
        ctx.violation("C01 log rewritten during claims", "the log no longer starts with its previous content", {"trace": trace}); return True
    lines = data.splitlines(keepends=True)
    n_pre = len(pre_bytes.splitlines())
    winners = {}
    for res, ag in zip(results, agents):
        if res["exit"] == 0:
            out = json.loads(res["stdout"])
            if out.get("status") != "no_ready":
                winners[ag] = out["id"]
        elif "lock busy" not in res["stderr"]:
            ctx.violation("C01 claim failed otherwise", "claim exited %s: %s" % (res["exit"], res["stderr"].strip()[:160]), {"trace": trace}); return True
    if len(set(winners.values())) != len(winners):
        ctx.violation("C01 one task handed to two claimants", "winners: %s" % winners, {"trace": trace}); return True
    i = n_pre
    seen = {}
    while i < len(lines):
        ev = json.loads(lines[i])
        if ev["type"] == "claim":
            ag, tid = ev["data"]["agent_id"], ev["data"]["id"]
            g = graph_of_prefix(ctx, lines[:i])
            want = oracles.ready_order(g["graph"], epic)
            if not want or want[0] != tid:
                ctx.violation("C01 claimed task was not the oldest ready one when the claim took effect", "agent %s got %s, ready list then: %s" % (ag, tid, want[:3]), {"trace": trace}); return True
            nxt = json.loads(lines[i + 1]) if i + 1 < len(lines) else {}
            if nxt.get("type") != "state" or nxt["data"]["id"] != tid or nxt["data"]["state"] != "doing":
                ctx.violation("C01 claim line not followed by its state line", "line %d" % (i + 1), {"trace": trace}); return True
            seen[ag] = tid
            i += 2
        else:
            i += 1
    if seen != winners:
        ctx.violation("C01 replies and log disagree", "replies say %s, the log says %s" % (winners, seen), {"trace": trace}); return True
    final = st.graph()["graph"]
    for ag, tid in winners.items():
        k = oracles.task_of(final, tid)
        if not k or k["st"] != "doing" or k["claimed_by"] != ag:
            ctx.violation("C01 winner's task not doing/claimed by it", "%s → %s is %s" % (ag, tid, k and (k["st"], k["claimed_by"])), {"trace": trace}); return True
    for res, ag in zip(results, agents):
        if res["exit"] == 0 and json.loads(res["stdout"]).get("status") == "no_ready":
            # nothing ready at *some* instant inside its lifetime: with all claims appended, the ready list at the end must lack … at least be consistent:
            pass
    return False


def parked_schedules(ctx, r, big=0, torn=False, skew=False):
    base, v, trace = crash.build_state(ctx, r, 6 + r.n(8), weights={"new_task": 50, "new_epic": 8, "set": 14, "sequence": 14, "plan": 6}, big=big, torn=torn)
    try:
        if skew and not torn:
            crash.add_skewed_history(base, r, trace)
        pre = base.graph()
        if "err" in pre:
            return
        epic = r.pick(v.epics) if v.epics and r.p(30) else ""
        eargs = ["--epic", epic] if epic else []
        rc, _, _, steps = strace.run(crash.clone(base), ["--json", "--agent", "probe", "claim"] + eargs)
        prog = strace.summarize(steps)
        ready = oracles.ready_order(pre["graph"], epic)
        sh = strace.shape(ctx.model, steps)
        ctx.count(1, key=("T3-shape", tuple(sh["abstract"])))
        # on a clean log the program is known call for call; on a torn one it also carries the tail repair — in both cases it must be a lock section
        # in the sense of ErgoModel.Program.writerOK (everything that changes the log after a read, inside the lock, one write to the live file)
        if ready and (not sh["writer"] or (not torn and prog != CLAIM_PROGRAM)):
            ctx.tie_broken("T3 claim program", {"observed": prog, "expected": CLAIM_PROGRAM, "writerOK": sh["writer"], "abstract": sh["abstract"]}); 
        pts = strace.kill_points(steps)
        for k in range(2, len(pts)):          # from just after the flock to just before the unlock returns
            c = crash.clone(base)
            pk = None
            try:
                pre_bytes = c.log_bytes()
                pk = sched.Parked(c, ["--json", "--agent", "A", "claim"] + eargs, None, pts[k - 1])
                if not pk.parked:
                    pk.wait(5); pk = None
                    continue
                holding = sched.holds_lock(pk.steps_at_park)      # from A's own trace: see sched.Parked
                at = strace.summarize(pk.steps_at_park)[-1:]
                rb = c.exec(["--json", "--agent", "B", "claim"] + eargs, timeout=10)
                step = {"schedule": "A parked after its call %d (%s); B runs; A resumes" % (len(pk.steps_at_park), at), "epic": epic}
                ctx.count(1, key=("parked", (at or ["-"])[0], holding, bool(ready), bool(epic)))
                if rb.get("timeout"):
                    ctx.violation("C01 claim blocks waiting for the lock", "B did not return within 10 s while A held the lock", {"trace": trace + [step]}); return
                if holding and not (rb["exit"] == 1 and "lock busy" in rb["stderr"]):
                    pk._reached()          # read A's trace once more: if it shows the unlock by now, A was not where we thought (see sched.Parked)
                    if not sched.holds_lock(pk.steps_at_park):
                        ctx.count(1, key=("skipped: parked outside the locked region",)); pk.resume(); pk = None
                        continue
                    ctx.violation("C01 second claimer not refused while the lock is held", "A parked after %s holding the lock; B: exit %s %s %s" % (at, rb["exit"], rb["stdout"].strip()[:80], rb["stderr"].strip()[:80]),
                                  {"trace": trace + [step]}); return
                ra = pk.resume(); pk = None
                if ra.get("tracer_error"):      # strace itself failed: the run says nothing about ergo
                    ctx.count(1, key=("skipped: tracer error",)); continue
                if audit_log(ctx, c, pre_bytes, [ra, rb], ["A", "B"], epic, trace + [step]):
                    return
            finally:
                if pk is not None:
                    pk.kill()
                c.close()
    finally:
        base.close()


def free_running(ctx, r, torn=False, skew=False):
    base, v, trace = crash.build_state(ctx, r, 8 + r.n(10), weights={"new_task": 60, "new_epic": 6, "set": 10, "sequence": 12, "plan": 6}, torn=torn)
    try:
        if skew and not torn:
            crash.add_skewed_history(base, r, trace)
        n = 2 + r.n(5)
        pre_bytes = base.log_bytes()
        agents = ["ag%d" % i for i in range(n)]
        results = sched.run_concurrently(base, [(["--json", "--agent", a, "claim"], None) for a in agents])
        ctx.count(1, key=("free", n, sum(1 for x in results if x["exit"] == 0)))
        audit_log(ctx, base, pre_bytes, results, agents, "", trace + [{"schedule": "%d claimers started together" % n}])
    finally:
        base.close()


def ready_set_shifts(ctx, prop="C01"):
    """the ready set changes between a claimer's start and its lock: OLD (the oldest task) waits for DEP, YOUNG is ready; the claimer is parked after
    each of its calls, `set DEP done` runs meanwhile (OLD becomes ready, and is older than YOUNG), the claimer goes on.  Whoever's lines come second
    in the log decided on a store that held the other's: a claim recorded after the release of OLD must have taken OLD.  And the mirror image: the
    only ready task is taken away (closed) meanwhile while another one becomes ready — the claimer must get that one, not `no ready`/the closed one."""
    for variant in ("older task becomes ready", "candidate closed, another becomes ready"):
        st = cmdrun.Store(ctx.ergo_verif, ctx.go)
        trace = []
        def do(argv, stdin, rand):
            env = {"VERIF_RAND": str(rand)}
            rr = st.exec(argv, stdin, env=env)
            trace.append({"argv": argv, "stdin": None if stdin is None else stdin.decode(), "env": env})
            return rr
        try:
            old = json.loads(do(["--json", "new", "task"], b'{"title":"OLD (waits for DEP)"}', 101)["stdout"])["id"]
            young = json.loads(do(["--json", "new", "task"], b'{"title":"YOUNG"}', 102)["stdout"])["id"]
            dep = json.loads(do(["--json", "new", "task"], b'{"title":"DEP"}', 103)["stdout"])["id"]
            do(["--json", "--agent", "ag-P1", "claim", dep], None, 104)
            do(["--json", "sequence", dep, old], None, 105)
            J = lambda d: {"piped": True, "body_stdin": False, "flags": {}, "json": d}
            reqA = {"cmd": "claim_oldest", "epic": ""}
            if variant == "older task becomes ready":
                reqB = dict(cmd="set", id=dep, **J({"title": "P1 DEP finished", "state": "done"}))
            else:
                # YOUNG (the only candidate) is canceled and DEP finished in one go is not one command: cancel YOUNG here, OLD stays blocked —
                # then the claimer must answer `no ready`, and never hand out the canceled task
                reqB = dict(cmd="set", id=young, **J({"title": "P1 YOUNG canceled", "state": "canceled"}))
            cmds = [(reqA, "ag-P0", {"VERIF_RAND": "201"}), (reqB, "ag-P1", {"VERIF_RAND": "202"})]
            if explore2.explore_fixed(ctx, prop, st, cmds, trace, labels=("claim_oldest", "set (%s)" % variant), with_stat=True, b_modes=("complete", "hold_read")) == "violation":
                return
        finally:
            st.close()


def run(ctx):
    import os
    os.environ["GOGC"] = "1"      # stress the Go runtime: collections (and finalizers) inside every lock section
    framework.check_facts(ctx, ctx.facts, ["with_lock", "lock_sites", "writer_calls", "open_sites"])
    res = fndiff.run_stream(ctx.ev, ["fn-replay", str(ctx.seed + 100), "1200" if ctx.quick else "20000"])
    ctx.tie("T2-fn readyTasks (what claim selects)", cases=res["cases"], disagreements=len(res["diffs"]))
    ctx.count(res["cases"])
    for d in res["diffs"][:3]:
        ctx.tie_broken("T2-fn readyTasks", {"first_difference": fndiff.first_difference(d["go"], d["model"])})
    r = gen.Rng(ctx.seed * 1000003 + 1)
    for i in range(4 if ctx.quick else 60):
        parked_schedules(ctx, r.fork(), big=(250 if i % 2 == 0 else 0), torn=(i % 4 == 3), skew=(i % 4 == 1))      # large logs make the Go runtime collect inside the lock section
    for i in range(12 if ctx.quick else 300):
        free_running(ctx, r.fork(), torn=(i % 3 == 1), skew=(i % 3 == 2))          # every third on a log that ends in the fragment of a killed writer
    # a claimer against every other kind of writer (compact and plan replace the log file, prune and set change what is ready), also on a
    # store whose log still has the legacy name: the claim must land in the log every reader reads, and the reply must be true
    for i in range(6 if ctx.quick else 120):
        kb = [("compact",), ("plan", "prune"), ("set+state", "close", "reopen"), ("compact", "claim_oldest"), ("new", "sequence"), ("compact", "plan")][i % 6]
        explore2.explore(ctx, "C01", r.fork(), kindsA=("claim_oldest",), kindsB=kb, max_points=(7 if ctx.quick else 40), state_cmds=8, legacy=(i % 2 == 0),
                         weights={"new_task": 60, "new_epic": 6, "set": 14, "sequence": 14, "plan": 6})
    ready_set_shifts(ctx, "C01")
    # the other way round: a command that replaces the whole log (plan, compact) is on its way while a claimer completes — the claim it did not see
    # when it started must be in the file it publishes
    for i in range(2 if ctx.quick else 40):
        explore2.explore(ctx, "C01", r.fork(), kindsA=(("plan",), ("compact",))[i % 2], kindsB=("claim_oldest",), max_points=(7 if ctx.quick else 40), state_cmds=8,
                         weights={"new_task": 70, "new_epic": 6, "set": 10, "sequence": 14}, with_stat=True, b_modes=("complete",))
    # two claimers on a store whose lock file is missing (re-created on demand) or whose log ends in a killed writer's fragment (repaired by the first writer)
    for i in range(4 if ctx.quick else 60):
        explore2.explore(ctx, "C01", r.fork(), kindsA=("claim_oldest",), kindsB=("claim_oldest",), max_points=(7 if ctx.quick else 40), state_cmds=8,
                         weights={"new_task": 70, "new_epic": 6, "set": 10, "sequence": 14}, missing_lock=(i % 2 == 0), torn=(i % 2 == 1), with_stat=(i % 2 == 0), b_modes=("complete", "hold", "hold_read"))
    ctx.cov["rule"] = ("the ready set shifting while a claimer is on its way to the lock (OLD waits for DEP, YOUNG ready; claimer parked at every call while DEP is finished / YOUNG canceled), plan and compact parked at every point against a claimer, commit order = order of the batches in the log; claim ∥ compact/plan/prune/set two-process schedules (also on a legacy-named log) with serial-equivalence and reply oracles; real `claim` processes: claimer A parked (strace SIGSTOP) after each of its system calls between lock and unlock, claimer B run meanwhile (must get `lock busy`, promptly), "
                       "A resumed; and 2–6 claimers started together under the OS scheduler; audit from the final log: each winner got the head of the ready list of the log prefix before "
                       "its claim line, claim+state lines adjacent, no task twice, replies = log, winners doing/claimed; claim's system-call program compared with the expected one")
    ctx.assumptions += ["flock(2) mutual exclusion on one host; strace does not change the order of a process's own calls"]


def replay(ctx, doc):
    print(json.dumps(doc["replay"], indent=1)[:2000])
    return 0
