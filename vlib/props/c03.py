"""C03 — a killed process never bricks the store or loses acknowledged work."""
import json, os
from .. import common, framework, fndiff, cmdrun, gen, oracles, strace, crash


def strip_times(evs):
    return [{k: v for k, v in e.items() if k not in ("ts", "at", "mtime")} for e in evs]


def one_script(ctx, r, depth, big=0):
    st, v, trace = crash.build_state(ctx, r, 5 + r.n(8), big=big)
    try:
        for d in range(depth):
            g0 = st.graph()
            if "err" in g0:
                ctx.violation("C03 store unreadable", "log does not load: %s" % g0["err"][:200], {"trace": trace}); return
            v.update(g0["graph"])
            if r.p(70):
                label, argv, stdin = crash.multi_event_command(r, v)
            else:
                req, agent = gen.gen_request(r, v, {"new_task": 40, "set": 40, "sequence": 20})
                req = cmdrun.classify_raw(ctx.go, req)
                label, argv, stdin = req["cmd"], cmdrun.argv_of(req, agent), cmdrun.stdin_of(req)
            env = {"VERIF_RAND": str(r.next() % (1 << 40))}
            # what the command would do if it ran to completion (twin)
            twin = crash.clone(st)
            try:
                rc, _, _, steps = strace.run(twin, argv, stdin, env=env)
                gt = twin.graph()
                twin_bytes = twin.log_bytes()
            finally:
                twin.close()
            if rc != 0 or "err" in gt or not steps:
                continue
            pre_events = g0["events"]
            own = gt["events"][len(pre_events):] if gt["events"][:len(pre_events)] == pre_events else gt["events"]
            pre_len = len(st.log_bytes())
            appended = twin_bytes[:pre_len] == st.log_bytes() and len(twin_bytes) > pre_len
            step = {"argv": argv, "stdin": None if stdin is None else stdin.decode("utf-8", "replace"), "env": env}
            if appended and r.p(55):
                # a write(2) cut short: the log holds only the first k bytes of what the command wrote
                own_bytes = twin_bytes[pre_len:]
                nls = [i for i, b in enumerate(own_bytes) if b == 10]
                # also right before the end of a line: the fragment then ends in the `}` that closes the payload (it looks finished and is not), or
                # is a whole line that lacks only its newline
                near = [p - 1 for p in nls if p - 1 > 0] + [p for p in nls if 0 < p < len(own_bytes) - 1]
                k = r.pick(([1, 2, len(own_bytes) - 1, 1 + r.n(len(own_bytes) - 1)] + near[-2:] + ([r.pick(near)] if near else [])) if len(own_bytes) > 2 else [1])
                with open(st.log_path(), "wb") as f:
                    f.write(twin_bytes[:pre_len + k])
                step["torn_after_bytes"] = k
                fault = "tear"
            else:
                pts = strace.kill_points(steps)
                k = 1 + r.n(len(pts))
                strace.kill_at(st, argv, stdin, pts[k - 1], env=env)
                step["kill_point"] = list(pts[k - 1]); step["kill_before_call"] = k
                fault = "kill"
            trace.append(step)
            ctx.count(1, key=(label, fault, d))
            # 1. reads still work
            prob = crash.reads_ok(st)
            if prob:
                ctx.violation("C03 reads fail after %s in %s" % (fault, label), prob, {"trace": trace}); return
            g1 = st.graph()
            # 2. everything acknowledged before the crash is still there; only the interrupted command's own events may be missing
            e1 = g1["events"]
            if label not in ("compact",) and e1[:len(pre_events)] != pre_events:
                if not (label == "plan" and strip_times(e1[:len(pre_events)]) == strip_times(pre_events)):
                    ctx.violation("C03 acknowledged events lost after %s in %s" % (fault, label), "the log no longer starts with the events recorded before the crash", {"trace": trace}); return
            if label == "compact" and crash.timeless(g1["graph"]) != crash.timeless(g0["graph"]):
                ctx.violation("C03 acknowledged work lost after %s in compact" % fault, str(fndiff.first_difference(crash.timeless(g0["graph"]), crash.timeless(g1["graph"])))[:300], {"trace": trace}); return
            extra = e1[len(pre_events):] if label != "compact" else []
            if strip_times(extra) != strip_times(own[:len(extra)]):
                ctx.violation("C03 foreign events after %s in %s" % (fault, label), "events appeared that the interrupted command would not have written", {"trace": trace}); return
            # 3. a later mutation succeeds, takes effect, and the store stays readable
            # (a rewrite first, one time in three: compact/plan go through plans.jsonl.tmp, which the crashed command may have left behind)
            if r.p(34):
                rw = r.pick([{"argv": ["--json", "compact"], "stdin": None}, {"argv": ["--json", "plan"], "stdin": json.dumps({"title": "p%d" % d, "tasks": [{"title": "only"}]})}])
                rw["env"] = {"VERIF_RAND": str(r.next() % (1 << 40))}
                rr = st.exec(rw["argv"], None if rw["stdin"] is None else rw["stdin"].encode(), env=rw["env"])
                trace.append(rw)
                prob = crash.reads_ok(st)
                gx = st.graph()
                if rr["exit"] != 0 or prob or "err" in gx:
                    ctx.violation("C03 store bricked by a rewrite (%s) after %s" % (rw["argv"][1], fault) if (prob or "err" in gx) else "C03 mutation fails after %s in %s" % (fault, label),
                                  prob or gx.get("err", "") [:200] or "%s exits %s: %s" % (rw["argv"][1], rr["exit"], rr["stderr"].strip()[:200]), {"trace": trace}); return
                if any(not oracles.task_of(gx["graph"], t["id"]) for t in g1["graph"]["tasks"]):
                    ctx.violation("C03 items lost by the mutation after %s" % fault, "items visible after the crash disappeared with the %s that followed" % rw["argv"][1], {"trace": trace}); return
                # (a write cut inside a batch may have left half a command — a claim line without its state line: C03 allows that, it is not a state
                #  any command sequence produces, and what `compact` makes of it is not this property's business: compare only CLI-reachable states)
                if rw["argv"][1] == "compact" and not oracles.inv06(g1["graph"]) and crash.timeless(gx["graph"]) != crash.timeless(g1["graph"]):
                    ctx.violation("C03 compact after %s changed what the store shows" % fault, str(fndiff.first_difference(crash.timeless(g1["graph"]), crash.timeless(gx["graph"])))[:300], {"trace": trace}); return
                g1 = gx
            nxt = {"argv": ["--json", "new", "task"], "stdin": json.dumps({"title": "after crash %d" % d}), "env": {"VERIF_RAND": str(r.next() % (1 << 40))}}
            rr = st.exec(nxt["argv"], nxt["stdin"].encode(), env=nxt["env"])
            trace.append(nxt)
            if rr["exit"] != 0:
                ctx.violation("C03 mutation fails after %s in %s" % (fault, label), "new task exits %s: %s" % (rr["exit"], rr["stderr"].strip()[:200]), {"trace": trace}); return
            nid = json.loads(rr["stdout"])["id"]
            prob = crash.reads_ok(st)
            g2 = st.graph()
            if prob or "err" in g2 or not oracles.task_of(g2["graph"], nid):
                ctx.violation("C03 store bricked by a mutation after %s" % fault if (prob or "err" in g2) else "C03 later mutation not visible",
                              prob or g2.get("err", "the task created after the crash is not listed")[:200], {"trace": trace}); return
            if any(oracles.task_of(g1["graph"], t["id"]) and not oracles.task_of(g2["graph"], t["id"]) for t in g1["graph"]["tasks"]):
                ctx.violation("C03 items lost by the mutation after %s" % fault, "items visible after the crash disappeared with the next mutation", {"trace": trace}); return
        ctx.sample({"script": [{k: s[k] for k in s if k != "env"} for s in trace[-6:]]}, cap=3)
    finally:
        st.close()


def stale_tmp(ctx, r):
    """plan / compact killed at every call from the first write of plans.jsonl.tmp on (the temporary file is left behind, complete or not); then a
    rewrite whose content is shorter than that leftover, then an append: nothing of the leftover may end up in the log"""
    base, v, trace = crash.build_state(ctx, r, 8 + r.n(6), weights={"new_task": 40, "set": 45, "sequence": 10, "new_epic": 5})
    try:
        g0 = base.graph()
        if "err" in g0:
            return
        big_plan = json.dumps({"title": "big plan", "tasks": [{"title": "step %d" % i, "body": "words " * 40} for i in range(25)]}).encode()
        for label, argv, stdin in (("plan", ["--json", "plan"], big_plan), ("compact", ["--json", "compact"], None)):
            env = {"VERIF_RAND": str(r.next() % (1 << 40))}
            twin = crash.clone(base)
            try:
                rc, _, _, steps = strace.run(twin, argv, stdin, env=env)
            finally:
                twin.close()
            pts = strace.kill_points(steps)
            first = next((i for i, s_ in enumerate(steps) if s_["obj"] == "tmp"), None)
            if rc != 0 or first is None:
                continue
            for k in range(first + 1, len(pts) + 1):
                c = crash.clone(base)
                try:
                    strace.kill_at(c, argv, stdin, pts[k - 1], env=env)
                    t2 = trace + [{"argv": argv, "stdin": None if stdin is None else "<plan of 25 tasks>", "env": env, "kill_point": list(pts[k - 1]), "kill_before_call": k}]
                    ctx.count(1, key=("stale-tmp", label, strace.summarize(steps[:k])[-1] if k > 1 else "-"))
                    g1 = c.graph()
                    if "err" in g1 or crash.reads_ok(c):
                        ctx.violation("C03 reads fail after kill in %s" % label, crash.reads_ok(c) or g1.get("err", "")[:200], {"trace": t2}); return
                    # everything acknowledged before the kill is still in effect: a rewrite publishes with one rename or not at all
                    lost = [t["id"] for t in g0["graph"]["tasks"] if not oracles.task_of(g1["graph"], t["id"])]
                    if lost or (label == "compact" and crash.timeless(g1["graph"]) != crash.timeless(g0["graph"])):
                        ctx.violation("C03 acknowledged work lost after kill in %s" % label,
                                      "killed before its call %d (%s): %s" % (k, strace.summarize(steps[:k])[-1] if k > 1 else "-", ("items %s are gone" % lost[:5]) if lost else
                                                                              str(fndiff.first_difference(crash.timeless(g0["graph"]), crash.timeless(g1["graph"])))[:300]), {"trace": t2}); return
                    rr = c.exec(["--json", "compact"])
                    t2.append({"argv": ["--json", "compact"], "stdin": None})
                    prob = crash.reads_ok(c)
                    g2 = c.graph()
                    if rr["exit"] != 0 or prob or "err" in g2:
                        ctx.violation("C03 store bricked by a rewrite (compact) after kill" if (prob or "err" in g2) else "C03 mutation fails after kill in %s" % label,
                                      prob or g2.get("err", "")[:200] or "compact exits %s: %s" % (rr["exit"], rr["stderr"].strip()[:200]), {"trace": t2}); return
                    if crash.timeless(g2["graph"]) != crash.timeless(g1["graph"]):
                        ctx.violation("C03 compact after kill changed what the store shows", "leftover of the killed %s surfaced: %s" % (label, str(fndiff.first_difference(crash.timeless(g1["graph"]), crash.timeless(g2["graph"])))[:300]),
                                      {"trace": t2}); return
                    rr = c.exec(["--json", "new", "task"], b'{"title":"after"}')
                    t2.append({"argv": ["--json", "new", "task"], "stdin": '{"title":"after"}'})
                    prob = crash.reads_ok(c)
                    if rr["exit"] != 0 or prob:
                        ctx.violation("C03 store bricked by a mutation after kill", prob or rr["stderr"].strip()[:200], {"trace": t2}); return
                finally:
                    c.close()
    finally:
        base.close()


def plan_after_tear(ctx):
    """a writer killed in the middle of a line, and the *next* mutating command is `plan` (it publishes a whole new file: nothing has repaired the tail
    before it) or `compact`: reads, a later mutation and the old items must all still be there"""
    from ..histories import TORN_FRAGMENTS
    for frag in TORN_FRAGMENTS[:3]:
        for argv, stdin in ((["--json", "plan"], b'{"title":"P","tasks":[{"title":"a"},{"title":"b","after":["a"]}]}'), (["--json", "compact"], None)):
            st = cmdrun.Store(ctx.ergo, ctx.go)
            trace = []
            try:
                def ex(a, s_=None):
                    res = st.exec(a, s_); trace.append({"argv": a, "stdin": None if s_ is None else s_.decode(), "exit": res["exit"]}); return res
                kept = json.loads(ex(["--json", "new", "task"], b'{"title":"acknowledged before the crash"}')["stdout"])["id"]
                with open(st.log_path(), "ab") as f:
                    f.write(frag)
                trace.append({"edit": "torn fragment appended to the log, no newline", "bytes": frag.decode("utf-8", "replace")})
                res = ex(argv, stdin)
                ctx.count(1, key=("rewrite-after-tear", argv[1], len(frag)))
                prob = crash.reads_ok(st)
                g = st.graph()
                if res["exit"] != 0 or prob or "err" in g:
                    ctx.violation("C03 store bricked by a rewrite (%s) after tear" % argv[1] if (prob or "err" in g) else "C03 mutation fails after tear in %s" % argv[1],
                                  prob or g.get("err", "")[:200] or "%s exits %s: %s" % (argv[1], res["exit"], res["stderr"].strip()[:160]), {"trace": trace}); return
                if not oracles.task_of(g["graph"], kept):
                    ctx.violation("C03 acknowledged work lost after tear in %s" % argv[1], "the task created before the crash is gone", {"trace": trace}); return
                nxt = ex(["--json", "new", "task"], b'{"title":"after"}')
                prob = crash.reads_ok(st)
                if nxt["exit"] != 0 or prob:
                    ctx.violation("C03 store bricked by a mutation after tear", prob or nxt["stderr"].strip()[:200], {"trace": trace}); return
            finally:
                st.close()


def run(ctx):
    framework.check_facts(ctx, ctx.facts, ["with_lock", "writer_calls", "truncate_sites", "open_sites"])
    r = gen.Rng(ctx.seed * 1000003 + 3)
    for i in range(16 if ctx.quick else 250):
        # every third script runs on a log spanning several 64 KiB blocks (the tail repair scans backwards in blocks)
        one_script(ctx, r.fork(), 3 if ctx.quick else 5, big=([0, 0, 130, 0, 0, 260][i % 6]))
    plan_after_tear(ctx)
    for i in range(2 if ctx.quick else 25):
        stale_tmp(ctx, r.fork())
    # the byte-level writer (tail repair + append) against the Lean storage model, incl. lines longer than the 64 KiB scan block
    from . import c12
    c12.storage_tie(ctx, ctx.seed + 300, 300 if ctx.quick else 4000, prop="C03")
    c12.codec_tie(ctx, ctx.seed + 350, 300 if ctx.quick else 8000)
    for i in range(3 if ctx.quick else 30):
        c12.big_last_line(ctx, r.fork(), prop="C03")
    ctx.cov["rule"] = ("a killed compact/plan compared with the state before it (a rewrite publishes with one rename or not at all); tears right before each line end of the batch; seeded pre-states; alternating (mutating command interrupted by SIGKILL before a random system call | its write cut short at a byte offset) and "
                       "further commands, depth 3 (quick) / 5; after every fault: list/show succeed, earlier events intact, only the interrupted command's events may be "
                       "missing, the next mutation succeeds and is visible, reads succeed after it; distinct = (command, fault kind, depth)")
    ctx.assumptions += ["a killed write(2) leaves a prefix of its buffer", "flock released on death; rename atomic", "process death only (no power loss)"]


def replay(ctx, doc):
    st = cmdrun.Store(ctx.ergo_verif, ctx.go)
    try:
        for step in doc["replay"]["trace"]:
            stdin = None if step.get("stdin") is None else step["stdin"].encode()
            if "torn_after_bytes" in step:
                pre = st.log_bytes()
                st.exec(step["argv"], stdin, env=step.get("env"))
                full = st.log_bytes()
                open(st.log_path(), "wb").write(full[:len(pre) + step["torn_after_bytes"]])
                print("torn:", " ".join(step["argv"]), "kept", step["torn_after_bytes"], "bytes")
            elif "kill_point" in step:
                strace.kill_at(st, step["argv"], stdin, tuple(step["kill_point"]), env=step.get("env"))
                print("killed:", " ".join(step["argv"]), step["kill_point"])
            else:
                r = st.exec(step["argv"], stdin, env=step.get("env"))
                print(" ".join(step["argv"]), "⇒", r["exit"], r["stderr"].strip()[:150])
        prob = crash.reads_ok(st)
        print("reads:", prob or "ok")
        return 1 if prob else 0
    finally:
        st.close()
