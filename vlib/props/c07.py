"""C07 — the dependency graph stays acyclic, same-kind and between live items."""
import json
from .. import common, framework, fndiff, cmdrun, gen, oracles, explore2
from ..histories import run_history, replay_trace

WEIGHTS = {"new_task": 16, "new_epic": 8, "set": 10, "sequence": 36, "sequence_rm": 8, "plan": 8, "prune_yes": 7, "compact": 3, "claim_oldest": 2, "malformed": 2}


def gen_fn(r, v, weights):
    req, agent = gen.gen_request(r, v, weights)
    # ≥ 30 % of sequence requests try to close a cycle or mix kinds
    if req["cmd"] == "sequence" and req["args"] and req["args"][0] != "rm" and r.p(35):
        edges = [(t["id"], d) for t in v.by_id.values() for d in t.get("deps", [])]
        if edges:
            a, b = r.pick(edges)          # a depends on b (sequence b a); ask for "sequence a b" to close the loop
            req["args"] = [a, b] if r.p(70) else [a, r.pick(v.tasks or [a]), b]
    return req, agent


def strip(t):
    return dict(t, deps=[], rdeps=[], ready=False, blocked=False, updated_at="0")


def oracle(ctx, st, req, agent, rec, trace):
    pg, post = rec["pre"]["graph"], rec["post"]["graph"]
    for bad in oracles.inv07(post):
        ctx.violation("C07 %s via %s" % (bad[0], req["cmd"]), "dependency invariant broken: %s" % (bad,), {"trace": trace, "bad": bad})
        return True
    if req["cmd"] == "sequence" and rec["exit"] == 0:
        pre_e = {tuple(e) for e in pg["deps"]}; post_e = {tuple(e) for e in post["deps"]}
        a = req["args"]
        if a[0] == "rm":
            want = pre_e - {(a[2], a[1])}
        else:
            want = pre_e | {(a[i + 1], a[i]) for i in range(len(a) - 1)}
        if post_e != want:
            ctx.violation("C07 sequence effect %s" % ("rm" if a[0] == "rm" else "add"),
                          "edges after %s are %s, expected %s" % (a, sorted(post_e), sorted(want)), {"trace": trace})
            return True
        if oracles.obs_graph({"tasks": [strip(t) for t in pg["tasks"]]}) != oracles.obs_graph({"tasks": [strip(t) for t in post["tasks"]]}):
            ctx.violation("C07 sequence touched items", "sequence changed something other than edges", {"trace": trace})
            return True
    return False


def dense_dags(ctx, r):
    """a handful of tasks and many `sequence a b` requests in random directions: reconvergent shapes (several paths between two tasks, shared
    prerequisites) in every id order.  Each answer is compared with a path search over the edges accepted so far: a request that would close a
    cycle is refused and nothing else is; the graph invariants are re-checked on the real store after every step."""
    st = cmdrun.Store(ctx.ergo, ctx.go)
    trace = []
    try:
        def ex(argv, stdin=None):
            res = st.exec(argv, stdin); trace.append({"argv": argv, "stdin": None if stdin is None else stdin.decode(), "exit": res["exit"]}); return res
        ids = [json.loads(ex(["--json", "new", "task"], json.dumps({"title": "t%d" % i}).encode())["stdout"])["id"] for i in range(4 + r.n(4))]
        waits = set()          # (x, y): x waits for y
        def reaches(x, y):
            seen, todo = set(), [x]
            while todo:
                n = todo.pop()
                if n == y:
                    return True
                if n in seen:
                    continue
                seen.add(n)
                todo += [b for (a, b) in waits if a == n]
            return False
        for _ in range(6 * len(ids)):
            a, b = r.pick(ids), r.pick(ids)
            res = ex(["--json", "sequence", a, b])          # b waits for a
            closes = a == b or reaches(a, b)
            ctx.count(1, key=("dense-dag", len(ids), closes, res["exit"] == 0))
            if res["exit"] == 0 and closes:
                ctx.violation("C07 an edge that closes a cycle was accepted", "sequence %s %s accepted although %s already waits (transitively) for %s" % (a, b, a, b), {"trace": trace}); return
            if res["exit"] != 0 and not closes:
                ctx.violation("C07 an edge that closes no cycle was refused", "sequence %s %s: exit %s %s" % (a, b, res["exit"], res["stderr"].strip()[:120]), {"trace": trace}); return
            if res["exit"] == 0:
                waits.add((b, a))
            g = st.graph()
            bad = oracles.inv07(g["graph"]) if "graph" in g else [("unreadable", g.get("err"))]
            if bad:
                ctx.violation("C07 %s via sequence" % (bad[0][0] if isinstance(bad[0], (list, tuple)) else bad[0]), "dependency invariant broken: %s" % (bad[:3],), {"trace": trace}); return
        # and every request that would close a cycle in the graph reached, one after the other (each is refused, so the graph stays as it is)
        for a in ids:
            for b in ids:
                if a == b or not reaches(a, b):
                    continue
                res = ex(["--json", "sequence", a, b])
                ctx.count(1, key=("dense-dag closing edge", len(ids), res["exit"] == 0))
                if res["exit"] == 0:
                    ctx.violation("C07 an edge that closes a cycle was accepted", "sequence %s %s accepted although %s already waits (transitively) for %s" % (a, b, a, b), {"trace": trace}); return
    finally:
        st.close()


def padded_references(ctx):
    """plans whose `after` entries differ from a task title only by blanks around them (and titles that carry such blanks themselves): whatever the
    command decides, every edge it records joins two items of the plan — never an item that does not exist"""
    docs = []
    for pad in (" Schema", "Schema ", "\tSchema", " Schema  ", "Schema\n"):
        docs.append({"title": "padded reference %r" % pad, "tasks": [{"title": "Schema"}, {"title": "Migrate", "after": [pad]}]})
    docs.append({"title": "padded title", "tasks": [{"title": " Schema "}, {"title": "Migrate", "after": ["Schema"]}]})
    docs.append({"title": "padded title, exact reference", "tasks": [{"title": " Schema "}, {"title": "Migrate", "after": [" Schema "]}]})
    docs.append({"title": "two references, one padded", "tasks": [{"title": "Schema"}, {"title": "Index"}, {"title": "Migrate", "after": ["Index", "Schema "]}]})
    for doc in docs:
        st = cmdrun.Store(ctx.ergo, ctx.go)
        trace = []
        try:
            st.exec(["--json", "new", "task"], b'{"title":"already there"}')
            req = {"cmd": "plan", "plan": doc}
            rec = cmdrun.run_and_compare(st, ctx.model, cmdrun.classify_raw(ctx.go, req), "")
            trace.append({"argv": cmdrun.argv_of(req, ""), "stdin": json.dumps(doc, ensure_ascii=False), "exit": rec["exit"]})
            ctx.count(1, key=("padded-reference", doc["title"], rec["exit"] == 0))
            if "err" in rec["pre"] or "err" in rec["post"]:
                ctx.violation("C07 store unreadable after plan", str(rec["post"].get("err"))[:200], {"trace": trace}); return
            if rec["diff"]:
                ctx.tie_broken("T2-cmd (plan with padded references)", {"diff": rec["diff"], "trace": trace})
            if oracle(ctx, st, req, "", rec, trace):
                return
        finally:
            st.close()


def run(ctx):
    res = fndiff.run_stream(ctx.ev, ["fn-replay", str(ctx.seed + 700), "1500" if ctx.quick else "20000"])
    ctx.tie("T2-fn replay/hasCycle", cases=res["cases"], classes=res["classes"], disagreements=len(res["diffs"]))
    ctx.count(res["cases"])
    for d in res["diffs"][:3]:
        ctx.tie_broken("T2-fn replay/hasCycle", {"first_difference": fndiff.first_difference(d["go"], d["model"]), "req": d["req"]})
    r = gen.Rng(ctx.seed * 1000003 + 7)
    for h in range(25 if ctx.quick else 400):
        run_history(ctx, r.fork(), 40, WEIGHTS, oracle, gen_fn=gen_fn)
    padded_references(ctx)
    for i in range(8 if ctx.quick else 150):
        dense_dags(ctx, r.fork())
    # the cycle test and the write must see the same log: sequence ∥ sequence asking for the two directions of one edge (and sequence ∥ any
    # other writer) on the real binary, A parked before / inside / after its lock section; the graph must stay acyclic in every schedule
    framework.check_facts(ctx, ctx.facts, ["lock_sites", "writer_calls", "with_lock", "sections"])
    def post(g):
        bad = oracles.inv07(g)
        return ("dependency graph invariant broken (%s)" % (bad[0][0] if isinstance(bad[0], (list, tuple)) else bad[0]), str(bad[:3])) if bad else None
    for i in range(6 if ctx.quick else 120):
        ka, kb = (("seq_opposed",), ("seq_opposed",)) if i % 3 != 2 else (("sequence",), ("sequence", "prune", "plan"))
        explore2.explore(ctx, "C07", r.fork(), kindsA=ka, kindsB=kb, max_points=(7 if ctx.quick else 40), state_cmds=8, post_oracle=post,
                         weights={"new_task": 60, "new_epic": 5, "set": 10, "sequence": 20})
    ctx.cov["rule"] = ("dense random DAGs of 4–7 tasks: every `sequence` answer compared with a path search, then every closing edge of the graph reached must be refused; two-process schedules sequence ∥ sequence (opposite directions of one edge) with the acyclicity post-oracle; random event lists → Go replayEvents/hasCycle vs model; seeded histories of link/unlink/prune/plan with ≥30% cycle-closing or "
                       "mixed-kind attempts; oracle: DFS acyclicity + kind + liveness + deps/rdeps mirror + exact edge effect of sequence")


def replay(ctx, doc):
    st = replay_trace(ctx, doc["replay"]["trace"])
    try:
        bad = oracles.inv07(st.graph()["graph"])
        print("inv07 problems:", bad)
        return 1 if bad else 0
    finally:
        st.close()
