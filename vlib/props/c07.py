"""C07 — the dependency graph stays acyclic, same-kind and between live items."""
import json
from .. import common, framework, fndiff, cmdrun, gen, oracles, explore2
from ..histories import run_history, replay_trace

WEIGHTS = {"new_task": 16, "new_epic": 8, "set": 10, "sequence": 36, "sequence_rm": 8, "plan": 8, "prune_yes": 7, "compact": 3, "claim_oldest": 2, "malformed": 2}


def gen_fn(r, v, weights):
    req, agent = gen.gen_request(r, v, weights)
    # ≥ 30 % of sequence requests try to close a cycle or mix kinds
    if req["cmd"] == "sequence" and req["args"] and req["args"][0] != "rm" and r.p(35):
        edges = [(t["id"], d) for t in v.by_id.values() for d in t.get("deps", [])]
        if edges:
            a, b = r.pick(edges)          # a depends on b (sequence b a); ask for "sequence a b" to close the loop
            req["args"] = [a, b] if r.p(70) else [a, r.pick(v.tasks or [a]), b]
    return req, agent


def strip(t):
    return dict(t, deps=[], rdeps=[], ready=False, blocked=False, updated_at="0")


def oracle(ctx, st, req, agent, rec, trace):
    pg, post = rec["pre"]["graph"], rec["post"]["graph"]
    for bad in oracles.inv07(post):
        ctx.violation("C07 %s via %s" % (bad[0], req["cmd"]), "dependency invariant broken: %s" % (bad,), {"trace": trace, "bad": bad})
        return True
    if req["cmd"] == "sequence" and rec["exit"] == 0:
        pre_e = {tuple(e) for e in pg["deps"]}; post_e = {tuple(e) for e in post["deps"]}
        a = req["args"]
        if a[0] == "rm":
            want = pre_e - {(a[2], a[1])}
        else:
            want = pre_e | {(a[i + 1], a[i]) for i in range(len(a) - 1)}
        if post_e != want:
            ctx.violation("C07 sequence effect %s" % ("rm" if a[0] == "rm" else "add"),
                          "edges after %s are %s, expected %s" % (a, sorted(post_e), sorted(want)), {"trace": trace})
            return True
        if oracles.obs_graph({"tasks": [strip(t) for t in pg["tasks"]]}) != oracles.obs_graph({"tasks": [strip(t) for t in post["tasks"]]}):
            ctx.violation("C07 sequence touched items", "sequence changed something other than edges", {"trace": trace})
            return True
    return False


def run(ctx):
    res = fndiff.run_stream(ctx.ev, ["fn-replay", str(ctx.seed + 700), "1500" if ctx.quick else "20000"])
    ctx.tie("T2-fn replay/hasCycle", cases=res["cases"], classes=res["classes"], disagreements=len(res["diffs"]))
    ctx.count(res["cases"])
    for d in res["diffs"][:3]:
        ctx.tie_broken("T2-fn replay/hasCycle", {"first_difference": fndiff.first_difference(d["go"], d["model"]), "req": d["req"]})
    r = gen.Rng(ctx.seed * 1000003 + 7)
    for h in range(25 if ctx.quick else 400):
        run_history(ctx, r.fork(), 40, WEIGHTS, oracle, gen_fn=gen_fn)
    # the cycle test and the write must see the same log: sequence ∥ sequence asking for the two directions of one edge (and sequence ∥ any
    # other writer) on the real binary, A parked before / inside / after its lock section; the graph must stay acyclic in every schedule
    framework.check_facts(ctx, ctx.facts, ["lock_sites", "writer_calls", "with_lock", "sections"])
    def post(g):
        bad = oracles.inv07(g)
        return ("dependency graph invariant broken (%s)" % (bad[0][0] if isinstance(bad[0], (list, tuple)) else bad[0]), str(bad[:3])) if bad else None
    for i in range(6 if ctx.quick else 120):
        ka, kb = (("seq_opposed",), ("seq_opposed",)) if i % 3 != 2 else (("sequence",), ("sequence", "prune", "plan"))
        explore2.explore(ctx, "C07", r.fork(), kindsA=ka, kindsB=kb, max_points=(7 if ctx.quick else 40), state_cmds=8, post_oracle=post,
                         weights={"new_task": 60, "new_epic": 5, "set": 10, "sequence": 20})
    ctx.cov["rule"] = ("two-process schedules sequence ∥ sequence (opposite directions of one edge) with the acyclicity post-oracle; random event lists → Go replayEvents/hasCycle vs model; seeded histories of link/unlink/prune/plan with ≥30% cycle-closing or "
                       "mixed-kind attempts; oracle: DFS acyclicity + kind + liveness + deps/rdeps mirror + exact edge effect of sequence")


def replay(ctx, doc):
    st = replay_trace(ctx, doc["replay"]["trace"])
    try:
        bad = oracles.inv07(st.graph()["graph"])
        print("inv07 problems:", bad)
        return 1 if bad else 0
    finally:
        st.close()
