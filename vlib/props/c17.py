"""C17 — titles and bodies come back exactly as they went in."""
import json
from .. import common, framework, fndiff, cmdrun, gen, oracles

GO_SPACE = set([0x20, 0x09, 0x0A, 0x0B, 0x0C, 0x0D, 0x85, 0xA0, 0x1680, 0x2028, 0x2029, 0x202F, 0x205F, 0x3000] + list(range(0x2000, 0x200B)))


def go_trim(s):
    a, b = 0, len(s)
    while a < b and ord(s[a]) in GO_SPACE: a += 1
    while b > a and ord(s[b - 1]) in GO_SPACE: b -= 1
    return s[a:b]


SPECIALS = ['"', "\\", "/", "<", ">", "&", "\n", "\r", "\t", "\b", "\f", "\x00", "\x01", "\x1f", "\x7f", "\x80", "\x85", "\xa0", "é", "̀", "́",
            " ", " ", "​", " ", " ", " ", "　", "﻿", "�", "￿", "퟿", "", "\U00010000", "\U0001F600",
            "\U0010FFFF", "日", "本", " ", "a", "Z", "0", "'", "`", "$", "%", "{", "}", "[", "]", ":", ",", "#", "\v"]


EDGE = ["\ufeff", "\n", "\r\n", "\r", " ", "\t", "\u00a0", "\u2028", "\u200b", "{", "[", '"', "#", "\x1f", "\x7f", "\ufffd", "\U0001F600", "\u0301", "\\", "\ufeff\ufeff", "\n\n"]


def gen_text(r, for_argv=False, maxlen=40):
    n = 1 + r.n(maxlen)
    out = []
    for _ in range(n):
        if r.p(70):
            c = r.pick(SPECIALS)
        else:
            cp = r.n(0x110000)
            c = "A" if 0xD800 <= cp <= 0xDFFF else chr(cp)
        if for_argv and c == "\x00":
            c = "N"
        out.append(c)
    # the two ends are where readers strip things (byte-order mark, newline, spaces, a JSON-looking first byte): force them often
    if r.p(35):
        out.insert(0, r.pick(EDGE))
    if r.p(35):
        out.append(r.pick(EDGE))
    return "".join(out)


def one_round(ctx, r, st, ids, epic, big=False, force=None, pre_trace=None):
    trace = list(pre_trace or [])
    def ex(argv, stdin=None):
        rr = st.exec(argv, stdin, timeout=60)
        trace.append({"argv": argv if sum(len(a) for a in argv) < 400 else argv[:3] + ["…"], "stdin": None if stdin is None else stdin.decode("utf-8", "replace")[:300], "exit": rr["exit"]})
        return rr
    def show(i):
        rr = st.exec(["--json", "show", i], timeout=60)
        v = json.loads(rr["stdout"])
        return v.get("epic", v) if isinstance(v.get("epic"), dict) else v
    mode = r.weighted([("new-json", 20), ("new-flags", 12), ("new-bodystdin", 10), ("set-json", 20), ("set-flags", 12), ("set-bodystdin", 8), ("plan", 10), ("epic-json", 8), ("epic-bodystdin", 5)])
    argv_mode = mode in ("new-flags", "set-flags", "new-bodystdin", "set-bodystdin", "epic-bodystdin")
    title = gen_text(r, for_argv=argv_mode)
    body = gen_text(r, for_argv=(mode in ("new-flags", "set-flags")), maxlen=((25000 if mode in ("new-flags", "set-flags") else 300000) if big else 120))
    if force:
        mode, title, body = force
    if go_trim(title) == "" or title.startswith("-"):
        title = "t" + title
    if go_trim(body) == "" or body.startswith("-"):
        body = "b" + body
    want_t, want_b, tid = title, body, None
    if mode == "new-json":
        # sometimes with the fields that make `new` record follow-up events (state, claim) right after the creation event
        extra = r.pick([{}, {}, {"state": "blocked"}, {"claim": "ag"}, {"state": "doing", "claim": "ag"}, {"state": "done"}])
        rr = ex(["--json", "new", "task"], json.dumps(dict({"title": title, "body": body}, **extra), ensure_ascii=r.p(50)).encode())
    elif mode == "epic-json":
        rr = ex(["--json", "new", "epic"], json.dumps({"title": title, "body": body}, ensure_ascii=r.p(50)).encode())
    elif mode == "new-flags":
        extra = r.pick([[], [], ["--state", "blocked"], ["--claim", "ag"]])
        rr = ex(["--json", "new", "task", "--title", title, "--body", body] + extra); want_t = go_trim(title)
    elif mode == "new-bodystdin":
        extra = r.pick([[], [], ["--state", "blocked"], ["--claim", "ag"]])
        rr = ex(["--json", "new", "task", "--title", title, "--body-stdin"] + extra, body.encode()); want_t = go_trim(title)
    elif mode == "epic-bodystdin":
        rr = ex(["--json", "new", "epic", "--title", title, "--body-stdin"], body.encode()); want_t = go_trim(title)
    elif mode == "set-json":
        tid = r.pick(ids); rr = ex(["--json", "set", tid], json.dumps({"title": title, "body": body}, ensure_ascii=r.p(50)).encode()); want_t = go_trim(title)
    elif mode == "set-flags":
        tid = r.pick(ids); rr = ex(["--json", "set", tid, "--title", title, "--body", body]); want_t = go_trim(title)
    elif mode == "set-bodystdin":
        tid = r.pick(ids); rr = ex(["--json", "set", tid, "--title", title, "--body-stdin"], body.encode()); want_t = go_trim(title)
    else:
        t2 = gen_text(r) + "2"
        doc = {"title": title, "body": body, "tasks": [{"title": "x" + t2, "body": body}, {"title": "y" + title, "after": ["x" + t2]}]}
        rr = ex(["--json", "plan"], json.dumps(doc, ensure_ascii=r.p(50)).encode())
    ctx.count(1, key=(mode, len(body) > 1000, any(ord(c) > 0xFFFF for c in title + body[:200]), any(ord(c) < 32 for c in title + body[:200])))
    if rr["exit"] != 0:
        ctx.violation("C17 valid text rejected (%s)" % mode, "exit %s: %s" % (rr["exit"], rr["stderr"].strip()[:200]), {"trace": trace, "title_cps": [ord(c) for c in title][:80]})
        return False
    out = json.loads(rr["stdout"])
    checks = []
    if mode == "plan":
        checks = [(out["epic"]["id"], title, body), (out["tasks"][0]["id"], doc["tasks"][0]["title"], body), (out["tasks"][1]["id"], doc["tasks"][1]["title"], "")]
    else:
        tid = tid or out["id"]
        checks = [(tid, want_t, want_b)]
        if tid not in ids and mode not in ("epic-json", "epic-bodystdin"):
            ids.append(tid)
    if r.p(30):
        ex(["--json", "compact"])
        if r.p(30):
            ex(["--json", "compact"])
    for (i, wt, wb) in checks:
        s = show(i)
        if s["title"] != wt or s["body"] != wb:
            which = "title" if s["title"] != wt else "body"
            got, want = (s["title"], wt) if which == "title" else (s["body"], wb)
            k = next((j for j in range(min(len(got), len(want))) if got[j] != want[j]), min(len(got), len(want)))
            ctx.violation("C17 %s altered (%s)" % (which, mode), "%s differs at character %d: stored %r, supplied %r" % (which, k, got[max(0, k - 3):k + 4], want[max(0, k - 3):k + 4]),
                          {"trace": trace, "want_cps": [ord(c) for c in want][:120], "got_cps": [ord(c) for c in got][:120]})
            return False
    return True


def exec_tty(st, argv, typed, timeout=20):
    """run a command with a terminal as stdin: `typed` is what the user types, then Ctrl-D at the start of a line (end of input)"""
    import pty, subprocess, os, termios, select, time
    m, sl = pty.openpty()
    attrs = termios.tcgetattr(sl); attrs[3] = attrs[3] & ~termios.ECHO; termios.tcsetattr(sl, termios.TCSANOW, attrs)
    p = subprocess.Popen([st.bin, *argv], cwd=st.root, stdin=sl, stdout=subprocess.PIPE, stderr=subprocess.PIPE)
    os.close(sl)
    try:
        os.write(m, typed if typed.endswith(b"\n") else typed + b"\n")
        os.write(m, b"\x04")
        try:
            out, err = p.communicate(timeout=timeout)
        except subprocess.TimeoutExpired:
            p.kill(); out, err = p.communicate()
            return {"exit": -9, "stdout": "", "stderr": "TIMEOUT"}
    finally:
        os.close(m)
    return {"exit": p.returncode, "stdout": out.decode("utf-8", "replace"), "stderr": err.decode("utf-8", "replace")}


def terminal_stdin(ctx, st):
    """--body-stdin with a terminal as stdin (the body typed, ended with Ctrl-D), alone and together with other field flags, on `set` and on the
    two creating commands: the item ends up exactly as when the same bytes arrive through a pipe"""
    def show(i):
        v = json.loads(st.exec(["--json", "show", i])["stdout"])
        v = v.get("epic", v) if isinstance(v.get("epic"), dict) else v
        return {k: v.get(k) for k in ("title", "body", "state")}
    body = b"typed on a terminal: first line\nsecond line \xc3\xa9\xe2\x82\xac\n"
    for extra in ([], ["--title", "title given with the body"], ["--state", "blocked"], ["--title", "both", "--state", "blocked"]):
        pair = []
        for channel in ("pipe", "terminal"):
            tid = json.loads(st.exec(["--json", "new", "task"], b'{"title":"before","body":"first draft of the body"}')["stdout"])["id"]
            argv = ["--json", "set", tid, "--body-stdin"] + extra
            res = st.exec(argv, body) if channel == "pipe" else exec_tty(st, argv, body)
            ctx.count(1, key=("terminal-stdin", "set", channel, " ".join(extra[::2])))
            pair.append((res["exit"], show(tid), argv))
        if pair[0][:2] != pair[1][:2]:
            ctx.violation("C17 body altered (set --body-stdin typed on a terminal%s)" % (" with " + " ".join(extra[::2]) if extra else ""),
                          "the same bytes through a pipe give exit %s and %s; typed on a terminal (Ctrl-D) exit %s and %s" % (pair[0][0], json.dumps(pair[0][1])[:200], pair[1][0], json.dumps(pair[1][1])[:200]),
                          {"trace": [{"argv": ["--json", "new", "task"], "stdin": '{"title":"before","body":"first draft of the body"}'},
                                     {"argv": pair[1][2], "stdin_typed_on_a_terminal": body.decode(), "then": "Ctrl-D"}]}); return False
    for kind in ("task", "epic"):
        pair = []
        for channel in ("pipe", "terminal"):
            argv = ["--json", "new", kind, "--title", "created with a typed body", "--body-stdin"]
            res = st.exec(argv, body) if channel == "pipe" else exec_tty(st, argv, body)
            ctx.count(1, key=("terminal-stdin", "new " + kind, channel))
            nid = json.loads(res["stdout"])["id"] if res["exit"] == 0 else None
            pair.append((res["exit"], show(nid) if nid else None, argv))
        if pair[0][:2] != pair[1][:2]:
            ctx.violation("C17 body altered (new %s --body-stdin typed on a terminal)" % kind,
                          "through a pipe: exit %s %s; on a terminal: exit %s %s" % (pair[0][0], json.dumps(pair[0][1])[:200], pair[1][0], json.dumps(pair[1][1])[:200]),
                          {"trace": [{"argv": pair[1][2], "stdin_typed_on_a_terminal": body.decode(), "then": "Ctrl-D"}]}); return False
    return True


def run(ctx):
    res = fndiff.run_stream(ctx.ev, ["fn-json", str(ctx.seed + 1700), "3000" if ctx.quick else "30000"])
    ctx.tie("T2-fn json string codec / TrimSpace", cases=res["cases"], disagreements=len(res["diffs"]))
    ctx.count(res["cases"])
    for d in res["diffs"][:3]:
        ctx.tie_broken("T2-fn json codec", {"first_difference": fndiff.first_difference(d["go"], d["model"]), "s": d["req"]["s"][:40], "lit": d["req"]["lit"][:60]})
    if not ctx.quick:
        res = fndiff.run_stream(ctx.ev, ["fn-json", "0", "0", "all"])
        ctx.tie("T2-fn json codec, every code point", cases=res["cases"], exhaustive=True, disagreements=len(res["diffs"]))
        ctx.count(res["cases"])
        for d in res["diffs"][:3]:
            ctx.tie_broken("T2-fn json codec (all code points)", {"first_difference": fndiff.first_difference(d["go"], d["model"]), "s": d["req"]["s"][:40]})
    from . import c12
    c12.codec_tie(ctx, ctx.seed + 1750, 400 if ctx.quick else 10000)
    r = gen.Rng(ctx.seed * 1000003 + 17)
    st = cmdrun.Store(ctx.ergo, ctx.go)
    try:
        ids = [json.loads(st.exec(["--json", "new", "task"], b'{"title":"seed"}')["stdout"])["id"]]
        # every edge character first and last in the body (and inside the title), through every input channel
        for mode in ("new-json", "new-json", "new-flags", "new-bodystdin", "set-json", "set-flags", "set-bodystdin", "epic-json", "epic-bodystdin", "plan"):
            for e in EDGE:
                if not one_round(ctx, r, st, ids, None, force=(mode, "t" + e + "x", e + "mid" + e)):
                    return
                if len(ids) > 30:
                    ids[:] = ids[-10:]
        # titles made only of characters a terminal shows nothing for (zero-width, combining, control, soft hyphen): they are not white space, so
        # they are titles like any other — stored, and given back, as they are; the body next to them stays whole
        for mode in ("new-json", "set-json", "plan", "new-flags", "epic-json"):
            for inv in ("\u200b", "\u200d", "\u200e\u200f", "\u0301", "\x07", "\u2060", "\ufeff", "\u00ad", "\x1b", "\u200b\u0301\u200c", "\U000e0001"):
                if not one_round(ctx, r, st, ids, None, force=(mode, inv, "first line\nsecond line")):
                    return
                if len(ids) > 30:
                    ids[:] = ids[-10:]
        # a body read from stdin in chunks: 2-, 3- and 4-byte characters lying across every likely chunk boundary
        for mode in ("new-bodystdin", "set-bodystdin", "epic-bodystdin"):
            for boundary in ((4096, 65536, 131072) if ctx.quick else (512, 4096, 8192, 32768, 65536, 131072, 262144)):
                ch = r.pick(["é", "€", "\U0001F600", "日"])
                body = "".join("a" * (boundary - off) + ch + "b" * 7 for off in (1, 2, 3))[: boundary + 64] + "a" * (boundary - 70) + ch * 40 + "tail"
                if not one_round(ctx, r, st, ids, None, force=(mode, "chunk %d" % boundary, body)):
                    return
        if not terminal_stdin(ctx, st):
            return
        # the log carries a title and a body for the item stamped by a clock that runs ahead (a collaborator's lines merged in): the text supplied
        # *now* is what the next read returns — which text an item has follows from the order of the lines, not from their stamps
        import datetime
        for mode in ("set-json", "set-flags", "set-bodystdin"):
            tid = json.loads(st.exec(["--json", "new", "task"], b'{"title":"edited on two machines","body":"first"}')["stdout"])["id"]
            f = (datetime.datetime.now(datetime.timezone.utc) + datetime.timedelta(minutes=61)).strftime("%Y-%m-%dT%H:%M:%S.%f000Z")
            blob = "".join(json.dumps(l, separators=(",", ":")) + "\n" for l in (
                {"type": "title", "ts": f, "data": {"id": tid, "title": "collaborator's title", "ts": f}},
                {"type": "body", "ts": f, "data": {"id": tid, "body": "collaborator's body", "ts": f}}))
            with open(st.log_path(), "ab") as fh:
                fh.write(blob.encode())
            pt = [{"argv": ["--json", "new", "task"], "stdin": '{"title":"edited on two machines","body":"first"}'},
                  {"edit": "lines appended to the log: title and body of the new task as rewritten by a collaborator whose clock runs an hour ahead", "bytes": blob}]
            if not one_round(ctx, r, st, [tid], None, force=(mode, "title given now", "body given now\nsecond line"), pre_trace=pt):
                return
        n = 120 if ctx.quick else 2500
        for i in range(n):
            if not one_round(ctx, r, st, ids, None, big=(i % 60 == 7)):
                break
            if len(ids) > 30:
                ids[:] = ids[-10:]
    finally:
        st.close()
    ctx.cov["rule"] = ("--body-stdin typed on a terminal (pty, Ctrl-D) alone and with --title/--state on set, new task, new epic = the same bytes through a pipe; edits after a collaborator's lines stamped ahead; generated strings over all planes (controls incl. NUL where the channel allows, quotes, backslashes, HTML characters, U+2028/9, combining marks, astral, "
                       "every Go white-space character; bodies up to 300 KB) → Go json.Marshal (both HTML modes)/Unmarshal/TrimSpace vs the Lean codec; then the same kind of text through "
                       "new/set/plan in json, flags and --body-stdin modes, read back with show --json, also after compact; thorough adds every single code point")
    ctx.assumptions += ["Go string ⇄ list of Unicode scalar values for valid UTF-8", "NUL cannot be passed in argv (flags mode excludes it)"]


def replay(ctx, doc):
    print(json.dumps(doc["replay"], indent=1)[:2000])
    return 0
