"""C14 — every task's epic reference names a live epic."""
from .. import common, framework, fndiff, cmdrun, gen, oracles
from ..histories import run_history, fieldset, replay_trace, mode_of

WEIGHTS = {"new_task": 30, "new_epic": 10, "set": 30, "claim_oldest": 3, "sequence": 3, "plan": 5, "prune_yes": 10, "compact": 5, "prune": 2, "malformed": 2}


def oracle(ctx, st, req, agent, rec, trace):
    post = rec["post"]["graph"]
    for bad in oracles.inv14(post):
        sig = "C14 %s via %s" % (bad[0], req["cmd"])
        ctx.violation(sig, "task %s has epic_id %s which is not a live epic (%s)" % (bad[1], bad[2], bad[0]), {"trace": trace, "bad": bad})
        return True
    return False


def gen_fn(r, v, weights):
    """bias set/new towards carrying an epic argument of every class"""
    req, agent = gen.gen_request(r, v, weights)
    if req["cmd"] in ("new_task", "set") and "stdin_raw" not in req and r.p(60):
        eid, cls = gen.some_id(r, v, "epic")
        if r.p(10):
            eid = ""
        if req.get("json") is not None:
            req["json"]["epic"] = eid
        elif eid != "":
            req.setdefault("flags", {})["epic"] = eid
    return req, agent


def run(ctx):
    r = gen.Rng(ctx.seed * 1000003 + 14)
    for h in range(25 if ctx.quick else 400):
        run_history(ctx, r.fork(), 35, WEIGHTS, oracle, gen_fn=gen_fn)
    ctx.cov["rule"] = ("seeded histories of new/set/plan/prune/compact with the epic argument drawn from {live epic, live task, unknown, pruned, empty} "
                       "in all three input modes; distinct = (command, outcome class, input mode, field set)")


def replay(ctx, doc):
    st = replay_trace(ctx, doc["replay"]["trace"])
    try:
        bad = oracles.inv14(st.graph()["graph"])
        print("inv14 problems:", bad)
        return 1 if bad else 0
    finally:
        st.close()
