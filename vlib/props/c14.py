"""C14 — every task's epic reference names a live epic."""
import json
from .. import common, framework, fndiff, cmdrun, gen, oracles, explore2
from ..histories import run_history, fieldset, replay_trace, mode_of

WEIGHTS = {"new_task": 30, "new_epic": 10, "set": 30, "claim_oldest": 3, "sequence": 3, "plan": 5, "prune_yes": 10, "compact": 5, "prune": 2, "malformed": 2}


def oracle(ctx, st, req, agent, rec, trace):
    post = rec["post"]["graph"]
    for bad in oracles.inv14(post):
        sig = "C14 %s via %s" % (bad[0], req["cmd"])
        ctx.violation(sig, "task %s has epic_id %s which is not a live epic (%s)" % (bad[1], bad[2], bad[0]), {"trace": trace, "bad": bad})
        return True
    return False


def gen_fn(r, v, weights):
    """bias set/new towards carrying an epic argument of every class"""
    req, agent = gen.gen_request(r, v, weights)
    if req["cmd"] in ("new_task", "set") and "stdin_raw" not in req and r.p(60):
        eid, cls = gen.some_id(r, v, "epic")
        if r.p(10):
            eid = ""
        elif v.epics and r.p(12):
            # the id of a live epic with blanks around it is not that id: accepted or refused, what is recorded must name a live epic
            eid = r.pick([" %s", "%s ", "%s\n", "\t%s ", " %s "]) % r.pick(v.epics)
        if req.get("json") is not None:
            req["json"]["epic"] = eid
        elif eid != "":
            req.setdefault("flags", {})["epic"] = eid
    return req, agent


def epic_moves(ctx, r):
    """tasks moved from epic to epic, the emptied epics pruned, the log compacted (compaction writes items in id order, so an assignment can come
    to stand before the creation of the epic it names): every task keeps the epic it was last given, and that epic is live"""
    import json
    st = cmdrun.Store(ctx.ergo, ctx.go)
    trace = []
    def ex(argv, stdin=None):
        rr = st.exec(argv, stdin)
        trace.append({"argv": argv, "stdin": None if stdin is None else stdin.decode(), "exit": rr["exit"]})
        return rr
    try:
        want = {}
        for i in range(5 + r.n(4)):
            e1 = json.loads(ex(["--json", "new", "epic"], b'{"title":"from"}')["stdout"])["id"]
            t = json.loads(ex(["--json", "new", "task"], json.dumps({"title": "t%d" % i, "epic": e1}).encode())["stdout"])["id"]
            e2 = json.loads(ex(["--json", "new", "epic"], b'{"title":"to"}')["stdout"])["id"]
            if r.p(80):
                ex(["--json", "set", t], json.dumps({"epic": e2}).encode()); want[t] = e2
            else:
                ex(["--json", "set", t], b'{"epic":""}'); want[t] = ""
            if r.p(30):
                # the task was created on a machine whose clock runs ahead (logs merged through git): its creation time is later than the move
                lines = st.log_bytes().split(b"\n")
                for li, ln in enumerate(lines):
                    if b'"type":"new_task"' in ln and ('"id":"%s"' % t).encode() in ln:
                        ev = json.loads(ln)
                        ev["ts"] = "2031-01-01T00:00:00Z"; ev["data"]["created_at"] = "2031-01-01T00:00:00Z"
                        lines[li] = json.dumps(ev, separators=(",", ":"), ensure_ascii=False).encode()
                open(st.log_path(), "wb").write(b"\n".join(lines))
                trace.append({"edit": "creation time of task %s rewritten to 2031 (a writer with a fast clock)" % t})
            if r.p(60):
                ex(["--json", "--agent", "p", "prune", "--yes"])
            if r.p(50):
                ex(["--json", "compact"])
            for final in (False, True):
                if final:
                    if i % 3 != 2:
                        break
                    ex(["--json", "--agent", "p", "prune", "--yes"]); ex(["--json", "compact"]); ex(["--json", "compact"])
                g = st.graph()
                if "err" in g:
                    ctx.violation("C14 store unreadable", g["err"][:200], {"trace": trace}); return
                ctx.count(1, key=("epic-moves", final))
                bad = oracles.inv14(g["graph"])
                if bad:
                    ctx.violation("C14 %s via %s" % (bad[0][0], "compact" if trace[-1]["argv"][-1] == "compact" else trace[-1]["argv"][1]), "task %s has epic_id %s which is not a live epic" % (bad[0][1], bad[0][2]), {"trace": trace}); return
                for tid, e in want.items():
                    k = oracles.task_of(g["graph"], tid)
                    if k and k["epic_id"] != e:
                        ctx.violation("C14 a task's epic changed without a command changing it", "task %s was last assigned to %r, the store says %r (after %s)" % (tid, e, k["epic_id"], " ".join(trace[-1]["argv"])), {"trace": trace}); return
    finally:
        st.close()


def unterminated_last_event(ctx, r):
    """the log's last line is a complete event whose final newline is missing (a write cut one byte short; an editor or a merge dropping the
    last newline): readers accept that line, so every writer must keep it — an epic that validation saw must still be there after the append"""
    st = cmdrun.Store(ctx.ergo, ctx.go, legacy=r.p(20))
    trace = []
    try:
        def ex(argv, stdin=None):
            res = st.exec(argv, stdin); trace.append({"argv": argv, "stdin": None if stdin is None else stdin.decode(), "exit": res["exit"]}); return res
        t0 = json.loads(ex(["--json", "new", "task"], b'{"title":"loose task"}')["stdout"])["id"]
        for k in range(r.n(3)):
            ex(["--json", "new", "task"], json.dumps({"title": "filler %d" % k}).encode())
        e = json.loads(ex(["--json", "new", "epic"], b'{"title":"the epic"}')["stdout"])["id"]
        data = st.log_bytes()
        if not data.endswith(b"\n"):
            return
        with open(st.log_path(), "wb") as f:
            f.write(data[:-1])
        trace.append({"edit": "final newline of the log removed (the last line, the new_epic event, is complete)"})
        kind = r.pick(["new", "set", "new-flags", "plan-then-new"])
        if kind == "new":
            ex(["--json", "new", "task"], json.dumps({"title": "child", "epic": e}).encode())
        elif kind == "set":
            ex(["--json", "set", t0], json.dumps({"epic": e}).encode())
        elif kind == "new-flags":
            ex(["--json", "new", "task", "--title", "child", "--epic", e])
        else:
            ex(["--json", "new", "task"], json.dumps({"title": "child", "epic": e, "state": "blocked"}).encode())
        ctx.count(1, key=("unterminated-last-event", kind))
        g = st.graph()
        if "err" in g:
            ctx.violation("C14 store unreadable", g["err"][:200], {"trace": trace}); return
        bad = oracles.inv14(g["graph"])
        if bad:
            ctx.violation("C14 task refers to an epic that is not live (%s)" % bad[0][0], "task %s has epic_id %s; the epic's line was the last of the log and lacked only its newline" % (bad[0][1], bad[0][2]),
                          {"trace": trace}); return
    finally:
        st.close()


def every_open_state_keeps_its_epic(ctx):
    """an epic whose only child is in each of the six states, then `prune --yes` (and the dry run before it): the epic goes exactly when the child
    is done or canceled — a child in todo, doing, blocked *or error* keeps it, so no task is ever left pointing at a pruned epic"""
    for state in ("todo", "doing", "blocked", "error", "done", "canceled"):
        st = cmdrun.Store(ctx.ergo, ctx.go)
        trace = []
        try:
            def ex(argv, stdin=None):
                res = st.exec(argv, stdin); trace.append({"argv": argv, "stdin": None if stdin is None else stdin.decode(), "exit": res["exit"]}); return res
            e = json.loads(ex(["--json", "new", "epic"], b'{"title":"the epic"}')["stdout"])["id"]
            t = json.loads(ex(["--json", "new", "task"], json.dumps({"title": "only child", "epic": e}).encode())["stdout"])["id"]
            if state in ("doing", "error", "done"):
                ex(["--json", "--agent", "w", "claim", t])
            if state not in ("todo", "doing"):
                ex(["--json", "--agent", "w", "set", t], json.dumps({"state": state}).encode())
            dry = ex(["--json", "prune"])
            res = ex(["--json", "prune", "--yes"])
            ctx.count(1, key=("only-child", state))
            g = st.graph()
            if "err" in g:
                ctx.violation("C14 store unreadable", g["err"][:200], {"trace": trace}); return
            bad = oracles.inv14(g["graph"])
            if bad:
                ctx.violation("C14 %s via prune" % bad[0][0], "task %s (state %s) has epic_id %s, which prune --yes removed" % (bad[0][1], state, bad[0][2]), {"trace": trace, "bad": bad[0]}); return
            live = {x["id"] for x in g["graph"]["tasks"]}
            want_gone = state in ("done", "canceled")
            if (e in live) == want_gone or (t in live) == want_gone:
                ctx.violation("C14 prune took the wrong set (only child %s)" % state, "after prune --yes: epic %s, child %s; expected both %s" %
                              ("live" if e in live else "gone", "live" if t in live else "gone", "gone" if want_gone else "live"), {"trace": trace}); return
        finally:
            st.close()


def run(ctx):
    every_open_state_keeps_its_epic(ctx)
    r = gen.Rng(ctx.seed * 1000003 + 14)
    for i in range(4 if ctx.quick else 60):
        unterminated_last_event(ctx, r.fork())
    for h in range(25 if ctx.quick else 400):
        run_history(ctx, r.fork(), 35, WEIGHTS, oracle, gen_fn=gen_fn)
    for i in range(4 if ctx.quick else 60):
        epic_moves(ctx, r.fork())
    rr_ = fndiff.run_stream(ctx.ev, ["fn-replay", str(ctx.seed + 1401), "1500" if ctx.quick else "20000"])
    ctx.tie("T2-fn replay/compactEvents (epic assignments in any order, any timestamps)", cases=rr_["cases"], disagreements=len(rr_["diffs"]))
    ctx.count(rr_["cases"])
    for d in rr_["diffs"][:3]:
        ctx.tie_broken("T2-fn replay/compactEvents", {"first_difference": fndiff.first_difference(d["go"], d["model"])})
    # the reference is checked in one lock section and the epic pruned in another process: every schedule of prune ∥ (new|set under an
    # empty epic) and of (new|set under an epic) ∥ prune on the real binary, A parked before / inside / after its lock section
    framework.check_facts(ctx, ctx.facts, ["lock_sites", "writer_calls", "with_lock", "sections"])
    def post(g):
        bad = oracles.inv14(g)
        return ("task refers to an epic that is not live (%s)" % bad[0][0], "task %s has epic_id %s" % (bad[0][1], bad[0][2])) if bad else None
    W = {"new_task": 25, "new_epic": 30, "set": 20, "claim_oldest": 3, "sequence": 5, "plan": 2}
    for i in range(6 if ctx.quick else 120):
        a, b = (("prune",), ("new_in_epic", "set_epic")) if i % 3 != 2 else (("new_in_epic", "set_epic"), ("prune",))
        explore2.explore(ctx, "C14", r.fork(), kindsA=a, kindsB=b, max_points=(7 if ctx.quick else 40), state_cmds=8, post_oracle=post, weights=W)
    ctx.cov["rule"] = ("two-process schedules prune ∥ new/set-under-an-empty-epic (A parked after each of its store system calls; B runs to completion or holds the lock); "
                       "seeded histories of new/set/plan/prune/compact with the epic argument drawn from {live epic, live task, unknown, pruned, empty} "
                       "in all three input modes; distinct = (command, outcome class, input mode, field set)")


def replay(ctx, doc):
    st = replay_trace(ctx, doc["replay"]["trace"])
    try:
        bad = oracles.inv14(st.graph()["graph"])
        print("inv14 problems:", bad)
        return 1 if bad else 0
    finally:
        st.close()
