"""C10 — a command that fails changes nothing."""
from .. import common, framework, fndiff, cmdrun, gen, oracles, explore2
from ..histories import run_history, fieldset, replay_trace, mode_of

WEIGHTS = {"new_task": 26, "new_epic": 6, "set": 30, "claim": 6, "claim_oldest": 4, "sequence": 16, "sequence_rm": 3, "plan": 5,
           "prune_yes": 2, "compact": 1, "malformed": 6}


def oracle(ctx, st, req, agent, rec, trace):
    if rec["exit"] != 0:
        if rec["changed"] or oracles.obs_graph(rec["pre"]["graph"]) != oracles.obs_graph(rec["post"]["graph"]):
            residue = "log-grew" if rec["post_n"] != rec["pre_n"] else "changed"
            n_args = len(req.get("args", []))
            shape = {"new_task": "new-task", "set": "set", "sequence": "sequence/chain>=3" if n_args >= 3 else "sequence"}.get(req["cmd"], req["cmd"])
            sig = "C10 %s fields={%s} fails(%s) residue=%s" % (shape, fieldset(req), rec["errclass"], residue)
            ctx.violation(sig, "%s exited %s (%s) but the store changed" % (req["cmd"], rec["exit"], rec["errclass"]), {"trace": trace})
            return True
    return False


def gen_fn(r, v, weights):
    """bias towards requests that fail late: multi-field requests whose last part is refused"""
    req, agent = gen.gen_request(r, v, weights)
    if req["cmd"] == "new_task" and req.get("json") is not None and r.p(40):
        req["json"].setdefault("title", "t")
        req["json"]["state"] = r.pick(["error", "doing", "done", "blocked"])
        if r.p(50):
            agent = ""
    if req["cmd"] == "set" and req.get("json") is not None and r.p(25):
        req["json"]["state"] = r.pick(gen.STATES)
        req["json"]["title"] = r.pick(gen.TITLES)
    if req["cmd"] == "sequence" and req["args"] and req["args"][0] != "rm" and r.p(40) and len(v.tasks) >= 2:
        a, b = r.pick(v.tasks), r.pick(v.tasks)
        req["args"] = [a, b, r.pick([a, "ZZZZZZ", r.pick(v.tasks)])]
    return req, agent


def run(ctx):
    import os
    os.environ["GOGC"] = "1"      # stress the Go runtime: collections (and finalizers) inside every lock section
    framework.check_facts(ctx, ctx.facts, ["sections"])
    r = gen.Rng(ctx.seed * 1000003 + 10)
    for h in range(30 if ctx.quick else 500):
        run_history(ctx, r.fork(), 35, WEIGHTS, oracle, gen_fn=gen_fn)
    # failure in the presence of another process: A parked before / inside / after its lock section, B holds the lock when A goes on
    for i in range(5 if ctx.quick else 120):
        explore2.explore(ctx, "C10", r.fork(), kindsA=(["claim_id", "set", "set+state", "new+state", "sequence"][i % 5],), kindsB=("new", "set", "claim_oldest"),
                         b_modes=("hold", "complete"), max_points=(5 if ctx.quick else 40))
    ctx.cov["rule"] = ("seeded histories biased to failing commands (every validation class × command × multi-field shape); oracle: exit≠0 ⇒ log bytes and "
                       "observable graph identical; distinct = (command, outcome class, input mode, field set)")


def replay(ctx, doc):
    st = replay_trace(ctx, doc["replay"]["trace"][:-1])
    try:
        before = st.log_bytes()
        last = doc["replay"]["trace"][-1]
        r = st.exec(last["argv"], None if last.get("stdin") is None else last["stdin"].encode())
        print(" ".join(last["argv"]), "⇒ exit", r["exit"], r["stderr"].strip()[:160], "| log changed:", before != st.log_bytes())
        return 1 if (r["exit"] != 0 and before != st.log_bytes()) else 0
    finally:
        st.close()
