"""C10 — a command that fails changes nothing."""
import json
from .. import common, framework, fndiff, cmdrun, gen, oracles, explore2, crash, strace
from ..histories import run_history, fieldset, replay_trace, mode_of

WEIGHTS = {"new_task": 26, "new_epic": 6, "set": 30, "claim": 6, "claim_oldest": 4, "sequence": 16, "sequence_rm": 3, "plan": 5,
           "prune_yes": 2, "compact": 1, "malformed": 6}


def oracle(ctx, st, req, agent, rec, trace):
    if rec["exit"] != 0:
        if rec["changed"] or oracles.obs_graph(rec["pre"]["graph"]) != oracles.obs_graph(rec["post"]["graph"]):
            residue = "log-grew" if rec["post_n"] != rec["pre_n"] else "changed"
            n_args = len(req.get("args", []))
            shape = {"new_task": "new-task", "set": "set", "sequence": "sequence/chain>=3" if n_args >= 3 else "sequence"}.get(req["cmd"], req["cmd"])
            sig = "C10 %s fields={%s} fails(%s) residue=%s" % (shape, fieldset(req), rec["errclass"], residue)
            ctx.violation(sig, "%s exited %s (%s) but the store changed" % (req["cmd"], rec["exit"], rec["errclass"]), {"trace": trace})
            return True
    return False


def gen_fn(r, v, weights):
    """bias towards requests that fail late: multi-field requests whose last part is refused"""
    req, agent = gen.gen_request(r, v, weights)
    if req["cmd"] == "new_task" and req.get("json") is not None and r.p(40):
        req["json"].setdefault("title", "t")
        req["json"]["state"] = r.pick(["error", "doing", "done", "blocked"])
        if r.p(50):
            agent = ""
    if req["cmd"] == "set" and req.get("json") is not None and r.p(25):
        req["json"]["state"] = r.pick(gen.STATES)
        req["json"]["title"] = r.pick(gen.TITLES)
    if req["cmd"] == "sequence" and req["args"] and req["args"][0] != "rm" and r.p(40) and len(v.tasks) >= 2:
        a, b = r.pick(v.tasks), r.pick(v.tasks)
        req["args"] = [a, b, r.pick([a, "ZZZZZZ", r.pick(v.tasks)])]
    return req, agent


def io_faults(ctx, r, prefer_big=False, prop="C10", torn=False, post_oracle=None, only=None):
    """the command's k-th (and every later) write / fsync / rename on the store's files returns an error (disk full, I/O error) instead of being
    carried out: a command that then exits non-zero must have left the store as it was; one that exits 0 must have done all of its work"""
    base, v, trace = crash.build_state(ctx, r, 8 + r.n(6), weights={"new_task": 50, "set": 30, "sequence": 10, "new_epic": 10})
    try:
        if torn:
            # the log ends in the fragment of an earlier killed writer (longer than a typical event line, so offsets measured before and after
            # the repair differ by more than one line)
            frag = b'{"type":"body","ts":"2026-01-01T00:00:00Z","data":{"id":"QQQQQQ","body":"' + b"torn " * (30 + r.n(60))
            with open(base.log_path(), "ab") as f:
                f.write(frag)
            trace = trace + [{"edit": "torn fragment appended to the log, no newline", "bytes": frag.decode()}]
        g0 = base.graph()
        if "err" in g0:
            return
        v.update(g0["graph"])
        label, argv, stdin = crash.multi_event_command(r, v)
        for _ in range(200):         # a particular command kind was asked for
            if not only or label in only:
                break
            label, argv, stdin = crash.multi_event_command(r, v)
        for _ in range(40):          # a batch larger than any buffer the writer may use
            if not prefer_big or "big-body" in label:
                break
            label, argv, stdin = crash.multi_event_command(r, v)
        env = {"VERIF_RAND": str(r.next() % (1 << 40))}
        twin = crash.clone(base)
        try:
            rc, _, _, steps = strace.run(twin, argv, stdin, env=env)
            after = twin.graph()
        finally:
            twin.close()
        if rc != 0 or "err" in after:
            return
        before_obs, after_obs = crash.timeless(g0["graph"]), crash.timeless(after["graph"])
        # only faults at or before the command's commit point (its single write to the log, or the rename of the rewritten file): a failing
        # directory fsync *after* the rename is reported by ergo as an error although the new log is in place — durability, not atomicity
        for call, errno, ks in (("write", "ENOSPC", (1, 2, 3)), ("write", "EIO", (1, 2)), ("fsync", "EIO", (1,)), ("rename,renameat,renameat2", "EACCES", (1,))):
            names = call.split(",")
            n = sum(1 for s_ in steps if s_["call"] in names)
            for k in [k for k in ks if k <= max(n, 1) + 1]:
                c = crash.clone(base)
                try:
                    rc2, out2, err2, st2 = strace.run(c, argv, stdin, env=env, extra=["-e", "inject=%s:error=%s:when=%d+" % (call, errno, k)])
                    step = {"argv": argv if sum(len(a) for a in argv) < 300 else argv[:3] + ["…"], "stdin": None if stdin is None else stdin.decode("utf-8", "replace")[:300], "env": env,
                            "fault": "every %s on the store's files from its %d-th on returns %s (strace -e inject=%s:error=%s:when=%d+)" % (call, k, errno, call, errno, k)}
                    ctx.count(1, key=("io-fault", label, names[0], errno, k, rc2 == 0))
                    g = c.graph()
                    prob = crash.reads_ok(c)
                    if "err" in g or prob:
                        ctx.violation(prop + " store unreadable after a failed %s (%s %s)" % (label, names[0], errno), prob or g.get("err", "")[:200], {"trace": trace + [step]}); return
                    obs = crash.timeless(g["graph"])
                    if rc2 != 0 and obs != before_obs:
                        ctx.violation(prop + " a command that failed on an I/O error changed the store (%s, %s %s)" % (label, names[0], errno),
                                      "exit %s (%s); the store differs from before: %s" % (rc2, err2.strip().splitlines()[-1][:120] if err2.strip() else "", str(fndiff.first_difference(before_obs, obs))[:300]),
                                      {"trace": trace + [step]}); return
                    if rc2 == 0 and obs != after_obs:
                        ctx.violation(prop + " a command reported success although its write failed (%s, %s %s)" % (label, names[0], errno),
                                      "exit 0; the store differs from a complete run: %s" % str(fndiff.first_difference(after_obs, obs))[:300], {"trace": trace + [step]}); return
                finally:
                    c.close()
        # a write cut short at a byte offset (file-size limit = what a full disk does in the middle of a write): the kernel writes the first
        # bytes, the next attempt fails, the command exits non-zero — and must not leave its first lines behind
        import subprocess, os as _os
        pre_size = len(base.log_bytes()) - (len(frag) if torn else 0)      # the writer drops the fragment before it appends
        twin = crash.clone(base)
        try:
            twin.exec(argv, stdin, env=env)
            full = len(twin.log_bytes())
        finally:
            twin.close()
        grow = full - pre_size
        cuts = sorted({pre_size + 1, pre_size + max(2, grow // 2), pre_size + max(1, grow - 1)}) if grow > 2 else []
        if label in ("plan", "compact"):
            cuts = sorted({max(1, full // 2), max(1, full - 1)})
        for limit in cuts:
            c = crash.clone(base)
            try:
                e = dict(_os.environ); e.update(env)
                pr = subprocess.run(["prlimit", "--fsize=%d" % limit, c.bin] + argv, cwd=c.root, input=stdin, stdin=(subprocess.DEVNULL if stdin is None else None),
                                    capture_output=True, env=e, timeout=30)
                step = {"argv": argv if sum(len(a) for a in argv) < 300 else argv[:3] + ["…"], "stdin": None if stdin is None else stdin.decode("utf-8", "replace")[:300], "env": env,
                        "fault": "file size limit %d bytes (log was %d, the command writes %d): prlimit --fsize=%d ergo …" % (limit, pre_size, grow, limit)}
                ctx.count(1, key=("short-write", label, pr.returncode == 0))
                g = c.graph()
                prob = crash.reads_ok(c)
                if "err" in g or prob:
                    ctx.violation(prop + " store unreadable after a write cut short (%s)" % label, prob or g.get("err", "")[:200], {"trace": trace + [step]}); return
                obs = crash.timeless(g["graph"])
                if post_oracle and post_oracle(g["graph"], trace + [step]):
                    return
                if pr.returncode != 0 and obs != before_obs:
                    ctx.violation(prop + " a command that failed on a short write changed the store (%s)" % label,
                                  "exit %s (%s); the store differs from before: %s" % (pr.returncode, pr.stderr.decode("utf-8", "replace").strip()[-100:], str(fndiff.first_difference(before_obs, obs))[:300]),
                                  {"trace": trace + [step]}); return
                if pr.returncode == 0 and obs != after_obs:
                    ctx.violation(prop + " a command reported success although its write was cut short (%s)" % label, str(fndiff.first_difference(after_obs, obs))[:300], {"trace": trace + [step]}); return
            finally:
                c.close()
    finally:
        base.close()


def rewrites_on_skewed_logs(ctx, r):
    """`compact` and `plan` (the commands that publish a whole new file) on logs whose stamps are not in line order — a collaborator's lines stamped ahead,
    then work done here: whatever a command checks about its own result, it either reports success or has changed nothing"""
    st = cmdrun.Store(ctx.ergo, ctx.go, legacy=r.p(20))
    trace = []
    try:
        def ex(argv, stdin=None, agent="w"):
            res = st.exec(argv, stdin); trace.append({"argv": argv, "stdin": None if stdin is None else stdin.decode(), "exit": res["exit"]}); return res
        ids = [json.loads(ex(["--json", "new", "task"], json.dumps({"title": "t%d" % i}).encode())["stdout"])["id"] for i in range(2 + r.n(2))]
        crash.add_skewed_history(st, r, trace, max_tasks=2)
        from ..histories import skew_edit
        skew_edit(st, r, trace)
        # work done here, with this machine's (earlier) clock: the last state of the task carries an older stamp than lines before it
        ex(["--json", "--agent", "w", "claim", ids[0]])
        ex(["--json", "--agent", "w", "set", ids[0]], b'{"state":"done"}')
        if len(ids) > 2:
            ex(["--json", "--agent", "w", "set", ids[1]], b'{"title":"retitled here","state":"blocked"}')
        if r.p(50):
            ex(["--json", "--agent", "w", "prune", "--yes"])
        for argv, stdin in ((["--json", "compact"], None), (["--json", "plan"], b'{"title":"P","tasks":[{"title":"a"},{"title":"b","after":["a"]}]}'), (["--json", "compact"], None)):
            before_bytes, before = st.log_bytes(), st.graph()
            res = ex(argv, stdin)
            after_bytes, after = st.log_bytes(), st.graph()
            ctx.count(1, key=("rewrite on a skewed log", argv[1], res["exit"] == 0))
            if "err" in after:
                ctx.violation("C10 store unreadable after %s on a log with stamps out of line order" % argv[1], after["err"][:200], {"trace": trace}); return
            if res["exit"] != 0 and (after_bytes != before_bytes or ("graph" in before and oracles.obs_graph(before["graph"]) != oracles.obs_graph(after["graph"]))):
                ctx.violation("C10 %s fails(%s) residue=%s" % (argv[1], cmdrun.classify_stderr(res["stderr"]) or "other", "log-rewritten" if after_bytes != before_bytes else "changed"),
                              "%s exited %s (%s) but the store changed" % (argv[1], res["exit"], res["stderr"].strip()[:160]), {"trace": trace}); return
    finally:
        st.close()


def run(ctx):
    from . import c11
    c11.input_tie(ctx, ctx.seed + 1000, 300 if ctx.quick else 20000)
    import os
    os.environ["GOGC"] = "1"      # stress the Go runtime: collections (and finalizers) inside every lock section
    framework.check_facts(ctx, ctx.facts, ["sections"])
    r = gen.Rng(ctx.seed * 1000003 + 10)
    for h in range(30 if ctx.quick else 500):
        run_history(ctx, r.fork(), 35, WEIGHTS, oracle, gen_fn=gen_fn)
    for i in range(4 if ctx.quick else 60):
        rewrites_on_skewed_logs(ctx, r.fork())
    # failure in the presence of another process: A parked before / inside / after its lock section, B holds the lock when A goes on
    for i in range(5 if ctx.quick else 120):
        explore2.explore(ctx, "C10", r.fork(), kindsA=(["claim_id", "set", "set+state", "new+state", "sequence"][i % 5],), kindsB=("new", "set", "claim_oldest"),
                         b_modes=("hold", "complete"), max_points=(5 if ctx.quick else 40))
    for i in range(6 if ctx.quick else 120):
        io_faults(ctx, r.fork(), prefer_big=(i % 2 == 0), torn=(i % 3 == 2))
    # …and, every time, an appending multi-event command on a log that ends in a long fragment (the offset a failed append goes back to is that of
    # the file *after* the tail repair)
    for only in (("set{title,body,state}", "set flags{title,state,claim}"), ("claim-oldest", "claim-id", "new-task{state,claim}")):
        io_faults(ctx, r.fork(), torn=True, only=only)
    ctx.cov["rule"] = ("compact / plan / compact on logs whose stamps are not in line order (exit≠0 ⇒ nothing changed); injected I/O errors (write/fsync/rename/ftruncate returning ENOSPC/EIO/EACCES from the k-th call on) on multi-event commands: exit≠0 ⇒ store as before, exit 0 ⇒ complete; "
                       "seeded histories biased to failing commands (every validation class × command × multi-field shape); oracle: exit≠0 ⇒ log bytes and "
                       "observable graph identical; distinct = (command, outcome class, input mode, field set)")


def replay(ctx, doc):
    st = replay_trace(ctx, doc["replay"]["trace"][:-1])
    try:
        before = st.log_bytes()
        last = doc["replay"]["trace"][-1]
        r = st.exec(last["argv"], None if last.get("stdin") is None else last["stdin"].encode())
        print(" ".join(last["argv"]), "⇒ exit", r["exit"], r["stderr"].strip()[:160], "| log changed:", before != st.log_bytes())
        return 1 if (r["exit"] != 0 and before != st.log_bytes()) else 0
    finally:
        st.close()
