"""C11 — plan creates the whole described graph or nothing."""
import json
from .. import common, framework, fndiff, cmdrun, gen, oracles, explore2
from ..histories import run_history, replay_trace

WEIGHTS = {"new_task": 12, "new_epic": 4, "set": 12, "sequence": 6, "plan": 50, "prune_yes": 4, "compact": 3, "claim_oldest": 3, "malformed": 6}


def spec_valid(p):
    """independent restatement of the documented plan rules"""
    def blank(s): return s is None or s.strip() == ""        # Python's strip covers Go's unicode.IsSpace set for the strings generated here
    if not isinstance(p, dict) or blank(p.get("title")): return False
    if "body" in p and p["body"] is not None and p["body"].strip() == "": return False
    tasks = p.get("tasks") or []
    if not tasks: return False
    titles = []
    for t in tasks:
        if blank(t.get("title")): return False
        if "body" in t and t["body"] is not None and t["body"].strip() == "": return False
        titles.append(t["title"])
    if len(set(titles)) != len(titles): return False
    edges = []
    for t in tasks:
        for a in t.get("after") or []:
            if a.strip() == "" or a == t["title"] or a not in titles: return False
            edges.append((t["title"], a))
    return oracles.find_cycle(edges) is None


def oracle(ctx, st, req, agent, rec, trace):
    if req["cmd"] != "plan":
        return False
    pg, post = rec["pre"]["graph"], rec["post"]["graph"]
    doc = req.get("plan")
    if rec["exit"] != 0:
        if rec["changed"]:
            ctx.violation("C11 rejected plan wrote", "plan exited %s but the log changed" % rec["exit"], {"trace": trace}); return True
        if doc is not None and "stdin_raw" not in req and spec_valid(doc):
            ctx.violation("C11 valid plan rejected (%s)" % rec["errclass"], "a payload satisfying every documented rule was rejected", {"trace": trace}); return True
        return False
    if doc is None or not spec_valid(doc):
        ctx.violation("C11 invalid plan accepted", "plan accepted a payload that breaks a documented rule", {"trace": trace}); return True
    out = json.loads(rec["stdout"])
    old = {t["id"] for t in pg["tasks"]}
    new = [t for t in post["tasks"] if t["id"] not in old]
    eid = out["epic"]["id"]
    ids = [t["id"] for t in out["tasks"]]
    problems = []
    if sorted(t["id"] for t in new) != sorted([eid] + ids): problems.append("created set ≠ reported ids")
    e = oracles.task_of(post, eid)
    if not e or not e["is_epic"] or e["title"] != doc["title"] or e["body"] != (doc.get("body") or ""): problems.append("epic fields")
    for i, (t_in, t_out) in enumerate(zip(doc["tasks"], out["tasks"])):
        k = oracles.task_of(post, t_out["id"])
        if not k or k["is_epic"] or k["st"] != "todo" or k["claimed_by"] != "" or k["epic_id"] != eid: problems.append("task %d state/epic" % i)
        elif k["title"] != t_in["title"] or k["body"] != (t_in.get("body") or "") or t_out["title"] != t_in["title"]: problems.append("task %d text" % i)
    if len(out["tasks"]) != len(doc["tasks"]): problems.append("task count")
    created = [int(oracles.task_of(post, i)["created_at"]) for i in ids if oracles.task_of(post, i)]
    if created != sorted(created): problems.append("creation order")
    t2i = {t["title"]: o["id"] for t, o in zip(doc["tasks"], out["tasks"])}
    want_edges = {(t2i[t["title"]], t2i[a]) for t in doc["tasks"] for a in (t.get("after") or [])}
    got_edges = {tuple(x) for x in post["deps"]} - {tuple(x) for x in pg["deps"]}
    rep_edges = {(x["from_id"], x["to_id"]) for x in out["edges"]}
    if got_edges != want_edges or rep_edges != want_edges: problems.append("edges")
    # nothing that existed before is altered (ready/blocked of old items cannot change either: new items are fresh)
    for t in pg["tasks"]:
        if oracles.observable(t) != oracles.observable(oracles.task_of(post, t["id"]) or {"id": None, **{k: None for k in t}}):
            problems.append("old item %s altered" % t["id"]); break
    if problems:
        ctx.violation("C11 plan effect: " + problems[0], "plan result disagrees with the payload/reply: %s" % problems, {"trace": trace}); return True
    return False


def run(ctx):
    r = gen.Rng(ctx.seed * 1000003 + 11)
    for h in range(25 if ctx.quick else 400):
        run_history(ctx, r.fork(), 30, WEIGHTS, oracle)
    # plan rewrites the whole log: it must build on the log as it is *inside* its lock section.  Every schedule of plan ∥ another writer on the
    # real binary (plan parked before the lock, inside, after), judged by serial equivalence: nothing the other writer recorded may be lost
    framework.check_facts(ctx, ctx.facts, ["lock_sites", "writer_calls", "with_lock", "sections"])
    for i in range(5 if ctx.quick else 100):
        kb = [("new", "new+state"), ("set", "set+state", "reopen"), ("claim_oldest", "claim_id"), ("sequence", "new_in_epic"), ("plan", "prune", "compact")][i % 5]
        explore2.explore(ctx, "C11", r.fork(), kindsA=("plan",), kindsB=kb, max_points=(7 if ctx.quick else 40), state_cmds=6)
    ctx.cov["rule"] = ("two-process schedules plan ∥ writer (plan parked after each of its store system calls; the other runs to completion or holds the lock): serial equivalence; "
                       "seeded plan documents (DAGs and non-DAGs up to 6 tasks, duplicate/self/dangling/blank after, blank or missing fields, unknown keys, two values) "
                       "applied to pre-existing stores; oracle: independent validity spec ⇔ accepted; reply ⊆ next read; one epic + n todo tasks; edges; old items untouched")


def replay(ctx, doc):
    st = replay_trace(ctx, doc["replay"]["trace"])
    st.close()
    return 0
