"""C11 — plan creates the whole described graph or nothing."""
import json
from .. import common, framework, fndiff, cmdrun, gen, oracles, explore2
from ..histories import run_history, replay_trace

WEIGHTS = {"new_task": 12, "new_epic": 4, "set": 12, "sequence": 6, "plan": 50, "prune_yes": 4, "compact": 3, "claim_oldest": 3, "malformed": 6}


def spec_valid(p):
    """independent restatement of the documented plan rules"""
    def blank(s): return s is None or s.strip() == ""        # Python's strip covers Go's unicode.IsSpace set for the strings generated here
    if not isinstance(p, dict) or blank(p.get("title")): return False
    if "body" in p and p["body"] is not None and p["body"].strip() == "": return False
    tasks = p.get("tasks") or []
    if not tasks: return False
    titles = []
    for t in tasks:
        if blank(t.get("title")): return False
        if "body" in t and t["body"] is not None and t["body"].strip() == "": return False
        titles.append(t["title"])
    if len(set(titles)) != len(titles): return False
    edges = []
    for t in tasks:
        for a in t.get("after") or []:
            if a.strip() == "" or a == t["title"] or a not in titles: return False
            edges.append((t["title"], a))
    return oracles.find_cycle(edges) is None


def oracle(ctx, st, req, agent, rec, trace):
    if req["cmd"] != "plan":
        return False
    pg, post = rec["pre"]["graph"], rec["post"]["graph"]
    doc = req.get("plan")
    if rec["exit"] != 0:
        if rec["changed"]:
            ctx.violation("C11 rejected plan wrote", "plan exited %s but the log changed" % rec["exit"], {"trace": trace}); return True
        if doc is not None and "stdin_raw" not in req and spec_valid(doc):
            ctx.violation("C11 valid plan rejected (%s)" % rec["errclass"], "a payload satisfying every documented rule was rejected", {"trace": trace}); return True
        return False
    if doc is None or not spec_valid(doc):
        ctx.violation("C11 invalid plan accepted", "plan accepted a payload that breaks a documented rule", {"trace": trace}); return True
    out = json.loads(rec["stdout"])
    old = {t["id"] for t in pg["tasks"]}
    new = [t for t in post["tasks"] if t["id"] not in old]
    eid = out["epic"]["id"]
    ids = [t["id"] for t in out["tasks"]]
    problems = []
    if sorted(t["id"] for t in new) != sorted([eid] + ids): problems.append("created set ≠ reported ids")
    e = oracles.task_of(post, eid)
    if not e or not e["is_epic"] or e["title"] != doc["title"] or e["body"] != (doc.get("body") or ""): problems.append("epic fields")
    for i, (t_in, t_out) in enumerate(zip(doc["tasks"], out["tasks"])):
        k = oracles.task_of(post, t_out["id"])
        if not k or k["is_epic"] or k["st"] != "todo" or k["claimed_by"] != "" or k["epic_id"] != eid: problems.append("task %d state/epic" % i)
        elif k["title"] != t_in["title"] or k["body"] != (t_in.get("body") or "") or t_out["title"] != t_in["title"]: problems.append("task %d text" % i)
    if len(out["tasks"]) != len(doc["tasks"]): problems.append("task count")
    created = [int(oracles.task_of(post, i)["created_at"]) for i in ids if oracles.task_of(post, i)]
    if created != sorted(created): problems.append("creation order")
    t2i = {t["title"]: o["id"] for t, o in zip(doc["tasks"], out["tasks"])}
    want_edges = {(t2i[t["title"]], t2i[a]) for t in doc["tasks"] for a in (t.get("after") or [])}
    got_edges = {tuple(x) for x in post["deps"]} - {tuple(x) for x in pg["deps"]}
    rep_edges = {(x["from_id"], x["to_id"]) for x in out["edges"]}
    if got_edges != want_edges or rep_edges != want_edges: problems.append("edges")
    # nothing that existed before is altered (ready/blocked of old items cannot change either: new items are fresh)
    for t in pg["tasks"]:
        if oracles.observable(t) != oracles.observable(oracles.task_of(post, t["id"]) or {"id": None, **{k: None for k in t}}):
            problems.append("old item %s altered" % t["id"]); break
    if problems:
        ctx.violation("C11 plan effect: " + problems[0], "plan result disagrees with the payload/reply: %s" % problems, {"trace": trace}); return True
    return False


def sized_doc(kind, size, tag):
    """a valid stdin document of exactly `size` bytes (as compact JSON)"""
    def mk(fill):
        if kind == "plan":
            return {"title": "Framing " + tag, "body": "b" + fill, "tasks": [{"title": "one " + tag}, {"title": "two " + tag, "after": ["one " + tag]}]}
        return {"title": "Framing " + tag, "body": "b" + fill}
    base = len(json.dumps(mk(""), separators=(",", ":")))
    return json.dumps(mk("x" * max(0, size - base)), separators=(",", ":")).encode()


def framing(ctx, r):
    """stdin must hold exactly one JSON value: a second value, or any other text, after it — immediately, after a long run of white space, or just
    past whatever amount the reader happens to take in at a time — is refused with nothing written; white space alone after it is fine"""
    st = cmdrun.Store(ctx.ergo, ctx.go)
    trace = []
    try:
        tid = json.loads(st.exec(["--json", "new", "task"], b'{"title":"target"}')["stdout"])["id"]
        sizes = [300, 511, 512, 513, 1024, 1535, 1536, 1537, 2048, 3583, 3584, 3585, 4096, 7679, 7680, 7681, 8192, 16384, 65536]
        gaps = [0, 1, 100, 212, 400, 511, 512, 1000, 1536, 4000, 4096, 9000, 70000]
        for n in range(14 if ctx.quick else 160):
            kind = r.pick(["plan", "plan", "new", "set"])
            argv = {"plan": ["--json", "plan"], "new": ["--json", "new", "task"], "set": ["--json", "set", tid]}[kind]
            doc = sized_doc(kind, r.pick(sizes) if r.p(60) else 200 + r.n(9000), "n%d" % n)
            gap = (r.pick([b" ", b"\n", b"\t", b"\r\n"]) * (r.pick(gaps) if r.p(70) else r.n(9000)))[:70000]
            tail = r.pick([b'{"title":"second"}', b'{}', b'[]', b'1', b'"x"', b'null', b'x', b'}', b'{"title":"second","tasks":[{"title":"t"}]}', b""])
            stdin = doc + gap + tail
            pre = st.log_bytes()
            res = st.exec(argv, stdin)
            step = {"argv": argv, "stdin_shape": "one valid %s document of %d bytes, then %d bytes of white space, then %r" % (kind, len(doc), len(gap), tail.decode()),
                    "stdin": stdin.decode() if len(stdin) < 3000 else None, "exit": res["exit"]}
            trace.append(step)
            ctx.count(1, key=("framing", kind, len(doc) in sizes, len(gap) > 0, tail.decode()[:8], res["exit"] == 0))
            changed = st.log_bytes() != pre
            if tail and res["exit"] == 0:
                ctx.violation("C11 several values on stdin accepted (%s)" % kind, "the payload holds a complete document followed by %r (after %d bytes of white space; first document %d bytes) and was accepted: "
                              "the first value was applied and the rest dropped silently" % (tail.decode(), len(gap), len(doc)), {"trace": trace[-3:]}); return
            if tail and changed:
                ctx.violation("C11 rejected payload wrote", "exit %s but the log changed" % res["exit"], {"trace": trace[-3:]}); return
            if not tail and res["exit"] != 0:
                ctx.violation("C11 valid payload rejected (trailing white space)", "a single valid document followed only by white space was rejected: %s" % res["stderr"].strip()[:160], {"trace": trace[-3:]}); return
    finally:
        st.close()


def input_tie(ctx, seed, n):
    """T2-fn: the JSON documents on stdin, byte level — the real ParseTaskInput / ParsePlanInput (os.Stdin redirected) vs ErgoModel.Input"""
    res = fndiff.run_stream(ctx.ev, ["fn-input", str(seed), str(n)])
    ctx.tie("T2-fn stdin documents (ParseTaskInput / ParsePlanInput: unknown keys, folded keys, duplicates, null, wrong types, several values)", cases=res["cases"], disagreements=len(res["diffs"]))
    ctx.count(res["cases"])
    for d in res["diffs"][:3]:
        ctx.tie_broken("T2-fn stdin documents", {"first_difference": fndiff.first_difference(d["go"], d["model"]), "kind": d["req"]["kind"],
                                                 "doc": bytes.fromhex(d["req"]["doc"]).decode("utf-8", "backslashreplace")[:400]})


def confusable(ctx, r):
    """every family of confusable titles (titles that collide when glued with a separator, differ only in case or surrounding blanks, are prefixes
    of one another) × every separator, each on a small store of its own through the real binary and the model, under this property's oracle"""
    cases = [(sep, "glue") for sep in gen.CONFUSABLE_SEPS] + [(None, "case"), (None, "prefix")]
    for k in range(len(cases) if ctx.quick else 120):
        sep, fam = cases[k % len(cases)]
        doc = gen.gen_confusable_plan(r, sep=sep, fam=fam)
        st = cmdrun.Store(ctx.ergo, ctx.go)
        trace = []
        try:
            st.exec(["--json", "new", "task"], b'{"title":"already there"}')
            req = {"cmd": "plan", "plan": doc}
            rec = cmdrun.run_and_compare(st, ctx.model, cmdrun.classify_raw(ctx.go, req), "")
            trace.append({"argv": cmdrun.argv_of(req, ""), "stdin": json.dumps(doc, ensure_ascii=False), "exit": rec["exit"]})
            ctx.count(1, key=("confusable", doc["title"], rec["exit"] == 0))
            if "err" in rec["pre"] or "err" in rec["post"]:
                continue
            if rec["diff"]:
                ctx.tie_broken("T2-cmd (confusable plan)", {"diff": rec["diff"], "trace": trace})
            if oracle(ctx, st, req, "", rec, trace):
                return
        finally:
            st.close()


def run(ctx):
    r = gen.Rng(ctx.seed * 1000003 + 11)
    confusable(ctx, r.fork())
    input_tie(ctx, ctx.seed + 1100, 600 if ctx.quick else 30000)
    framing(ctx, r.fork())
    for h in range(25 if ctx.quick else 400):
        run_history(ctx, r.fork(), 30, WEIGHTS, oracle)
    # plan rewrites the whole log: it must build on the log as it is *inside* its lock section.  Every schedule of plan ∥ another writer on the
    # real binary (plan parked before the lock, inside, after), judged by serial equivalence: nothing the other writer recorded may be lost
    framework.check_facts(ctx, ctx.facts, ["lock_sites", "writer_calls", "with_lock", "sections"])
    for i in range(5 if ctx.quick else 100):
        kb = [("new", "new+state"), ("set", "set+state", "reopen"), ("claim_oldest", "claim_id"), ("sequence", "new_in_epic"), ("plan", "prune", "compact")][i % 5]
        explore2.explore(ctx, "C11", r.fork(), kindsA=("plan",), kindsB=kb, max_points=(7 if ctx.quick else 40), state_cmds=6)
    # the rewrite plan does (temporary file, fsync, rename) when the operating system refuses or cuts short a write: plan must then fail and the
    # old log stay — a swallowed error would rename a truncated file over everything that was recorded before
    from . import c10
    for i in range(3 if ctx.quick else 40):
        c10.io_faults(ctx, r.fork(), prop="C11", torn=(i % 3 == 2), only=("plan",))
    ctx.cov["rule"] = ("two-process schedules plan ∥ writer (plan parked after each of its store system calls; the other runs to completion or holds the lock): serial equivalence; "
                       "seeded plan documents (DAGs and non-DAGs up to 6 tasks, duplicate/self/dangling/blank after, blank or missing fields, unknown keys, two values) "
                       "applied to pre-existing stores; oracle: independent validity spec ⇔ accepted; reply ⊆ next read; one epic + n todo tasks; edges; old items untouched")


def replay(ctx, doc):
    st = replay_trace(ctx, doc["replay"]["trace"])
    st.close()
    return 0
