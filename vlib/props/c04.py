"""C04 — multi-event commands are all-or-nothing across process death."""
import json
from .. import common, framework, fndiff, cmdrun, gen, oracles, strace, crash


def prune_state(ctx, r):
    """a store in which `prune --yes` has every kind of thing to do at once: finished tasks inside an epic (which empties it), a finished orphan,
    an epic that is empty already, next to live work that must stay"""
    st = cmdrun.Store(ctx.ergo_verif, ctx.go)
    trace = []
    def ex(argv, stdin=None):
        env = {"VERIF_RAND": str(r.next() % (1 << 40))}
        rr = st.exec(argv, stdin, env=env)
        trace.append({"argv": argv, "stdin": None if stdin is None else stdin.decode(), "env": env})
        return json.loads(rr["stdout"]) if rr["exit"] == 0 and rr["stdout"].strip().startswith("{") else {}
    e1 = ex(["--json", "new", "epic"], b'{"title":"all finished"}').get("id")
    ex(["--json", "new", "epic"], b'{"title":"empty"}')
    e3 = ex(["--json", "new", "epic"], b'{"title":"still active"}').get("id")
    for i in range(2 + r.n(3)):
        t = ex(["--json", "new", "task"], json.dumps({"title": "f%d" % i, "epic": e1}).encode()).get("id")
        ex(["--json", "set", t], json.dumps({"state": r.pick(["done", "canceled"])}).encode())
    t = ex(["--json", "new", "task"], b'{"title":"orphan done"}').get("id")
    ex(["--json", "set", t], b'{"state":"done"}')
    ex(["--json", "new", "task"], json.dumps({"title": "live", "epic": e3}).encode())
    t = ex(["--json", "new", "task"], json.dumps({"title": "done in active", "epic": e3}).encode()).get("id")
    ex(["--json", "set", t], b'{"state":"done"}')
    v = gen.View(st.graph().get("graph"))
    return st, v, trace


def one_instance(ctx, r, big=0, prepared=None, legacy=False, only=None, tail=None):
    # (a legacy-named store is built without plan/compact: the rewriting command under test must be the first one to meet the old name)
    base, v, trace = prepared if prepared else crash.build_state(ctx, r, 8 + r.n(10), big=big, legacy=legacy,
                                                                 **({"weights": {"new_task": 34, "new_epic": 8, "set": 30, "claim_oldest": 6, "sequence": 12, "prune_yes": 2}} if legacy else {}))
    try:
        if tail:
            # what an earlier killed writer (or a hand edit) left at the end of the log: a complete last event without its newline, or a torn fragment.
            # The command under test first repairs that tail; the repair must be as invisible as the rest when the command is killed after it.
            data = base.log_bytes()
            if not data.endswith(b"\n"):
                return
            frag = b'{"type":"state","ts":"2026-01-01T00:00:00Z","data":{"id":"'
            with open(base.log_path(), "wb") as f:
                f.write(data[:-1] if tail == "unterminated" else data + frag)
            trace = trace + [{"edit": "final newline of the log removed (the last line stays a complete event)"} if tail == "unterminated" else
                             {"edit": "torn fragment appended to the log, no newline", "bytes": frag.decode()}]
        label, argv, stdin = ("prune--yes(tasks+epics)", ["--json", "--agent", "p", "prune", "--yes"], None) if prepared else crash.multi_event_command(r, v)
        for _ in range(200):
            if prepared or not only or label in only:
                break
            label, argv, stdin = crash.multi_event_command(r, v)
        env = {"VERIF_RAND": str(r.next() % (1 << 40))}
        pre = base.graph()
        if "err" in pre:
            return
        done = crash.clone(base)
        try:
            rc, out, err, steps = strace.run(done, argv, stdin, env=env)
            post = done.graph()
        finally:
            done.close()
        if rc != 0 or "err" in post:
            return
        new_events = len(post["events"]) - len(pre["events"]) if label != "compact" else len(post["events"])
        ctx.tie("T3 programs", **{label: strace.summarize(steps)})
        n = len(steps)
        pre_o, post_o = crash.timeless(pre["graph"]), crash.timeless(post["graph"])
        points = strace.kill_points(steps)
        for k in range(1, n + 1):
            c = crash.clone(base)
            try:
                rc2, _, _, ran = strace.kill_at(c, argv, stdin, points[k - 1], env=env)
                g = c.graph()
                ctx.count(1, key=(label, k, "events=%d" % new_events))
                step = {"argv": argv, "stdin": None if stdin is None else stdin.decode(), "env": env, "kill_before_call": k, "kill_point": list(points[k - 1]),
                        "calls_run": strace.summarize(ran)}
                if "err" in g:
                    ctx.violation("C04 store unreadable after kill in %s" % label, "after a kill before call %d the log does not load: %s" % (k, g["err"][:200]),
                                  {"trace": trace + [step]})
                    return
                o = crash.timeless(g["graph"])
                if o == pre_o or o == post_o:
                    # …and it stays that way: the next command that takes the lock (a dry-run prune: it writes nothing) must not "finish" or
                    # "undo" the interrupted one from what it left lying around (a temporary file, a repaired tail)
                    c.exec(["--json", "prune"])
                    g2 = c.graph()
                    if "err" in g2 or crash.timeless(g2["graph"]) != o:
                        ctx.violation("C04 the state after a kill in %s is changed by the next command that takes the lock" % label,
                                      "kill before call %d/%d; a dry-run prune afterwards: %s" % (k, n, g2.get("err", "")[:120] or fndiff.first_difference(o, crash.timeless(g2["graph"]))),
                                      {"trace": trace + [step, {"argv": ["--json", "prune"], "stdin": None}]})
                        return
                if o != pre_o and o != post_o:
                    nxt = strace.summarize(steps)[len(strace.summarize(ran)):][:1]
                    d = fndiff.first_difference(post_o, o)
                    ctx.violation("C04 %s half applied (kill between two write(2) calls)" % label if nxt == ["write(log)"] else "C04 %s half applied" % label,
                                  "kill before call %d/%d (%s): state is neither before nor after the command; vs after: %s" % (k, n, nxt, d),
                                  {"trace": trace + [step]})
                    return
            finally:
                c.close()
        ctx.sample({"command": label, "argv": argv, "kill_points": n, "program": strace.summarize(steps)}, cap=8)
        return "swept" if (not only or label in only) else None
    finally:
        base.close()


def run(ctx):
    framework.check_facts(ctx, ctx.facts, ["with_lock", "lock_sites", "writer_calls", "open_sites"])
    r = gen.Rng(ctx.seed * 1000003 + 4)
    for i in range(22 if ctx.quick else 300):
        one_instance(ctx, r.fork(), big=(130 if i % 7 == 3 else 0))
    for i in range(1 if ctx.quick else 10):
        rr = r.fork()
        one_instance(ctx, rr, prepared=prune_state(ctx, rr))
    # a store whose log still has the old name: the commands that rewrite the log (and every other) killed before each of their calls
    for i in range(3 if ctx.quick else 40):
        one_instance(ctx, r.fork(), legacy=True, only=(("compact",), ("plan",), None)[i % 3])
    for i in range(4 if ctx.quick else 40):
        one_instance(ctx, r.fork(), tail=("unterminated", "torn")[i % 2])
    # a multi-event append larger than 64 KiB (a body of 80–150 KB together with claim and state): however the writer buffers, a kill leaves all or nothing
    for _ in range(8):          # (drawn again when the store at hand has no task the command is valid for)
        if one_instance(ctx, r.fork(), only=("set{big-body,claim,state}",)) == "swept" or ctx.violations:
            break
    # rewrites of a log of several hundred KB: the temporary file is written in many write(2) calls, a kill between two of them leaves half a file behind
    for i in range(2 if ctx.quick else 12):
        one_instance(ctx, r.fork(), big=130, only=(("plan",), ("compact",))[i % 2])
    ctx.cov["rule"] = ("after every kill a dry-run prune (takes the lock, writes nothing) must leave the state as it was; kill sweeps on logs with an unterminated last line / a torn fragment and on rewrites of logs of several hundred KB; for generated CLI-reachable pre-states × multi-event commands (claim, claim <id>, multi-field set, create-with-state/claim, sequence chain, prune --yes, plan, compact): "
                       "SIGKILL injected with strace before every one of the command's system calls on the store's files; observable state (clock readings aside) must equal "
                       "the state before or the state after (twin run with the same scripted RNG); distinct = (command, kill point, events recorded)")
    ctx.assumptions += ["kernel: flock released on death; rename atomic; a write(2) not entered leaves no bytes", "kills are at system-call boundaries (mid-write tears are C03)"]


def replay(ctx, doc):
    st = cmdrun.Store(ctx.ergo_verif, ctx.go)
    try:
        tr = doc["replay"]["trace"]
        from .. import histories
        after_kill = []
        while tr and "kill_point" not in tr[-1]:
            after_kill.insert(0, tr[-1]); tr = tr[:-1]
        for step in tr[:-1]:
            if "argv" not in step:
                histories.apply_edit(st, step); continue
            st.exec(step["argv"], None if step.get("stdin") is None else step["stdin"].encode(), env=step.get("env"))
        last = tr[-1]
        before = crash.timeless(st.graph()["graph"])
        rc, _, _, ran = strace.kill_at(st, last["argv"], None if last.get("stdin") is None else last["stdin"].encode(), tuple(last["kill_point"]), env=last.get("env"))
        g = st.graph()
        print("killed before call", last["kill_before_call"], "ran:", strace.summarize(ran))
        print("state changed:", crash.timeless(g["graph"]) != before)
        print(json.dumps([(t["id"], t["st"], t["claimed_by"]) for t in g["graph"]["tasks"]]))
        for step in after_kill:
            st.exec(step["argv"], None if step.get("stdin") is None else step["stdin"].encode(), env=step.get("env"))
            g3 = st.graph()
            print("after", step["argv"], ": state changed again:", "err" in g3 or crash.timeless(g3["graph"]) != crash.timeless(g["graph"]))
        return 0
    finally:
        st.close()
