"""C04 — multi-event commands are all-or-nothing across process death."""
import json
from .. import common, framework, fndiff, cmdrun, gen, oracles, strace, crash


def one_instance(ctx, r, big=0):
    base, v, trace = crash.build_state(ctx, r, 8 + r.n(10), big=big)
    try:
        label, argv, stdin = crash.multi_event_command(r, v)
        env = {"VERIF_RAND": str(r.next() % (1 << 40))}
        pre = base.graph()
        if "err" in pre:
            return
        done = crash.clone(base)
        try:
            rc, out, err, steps = strace.run(done, argv, stdin, env=env)
            post = done.graph()
        finally:
            done.close()
        if rc != 0 or "err" in post:
            return
        new_events = len(post["events"]) - len(pre["events"]) if label != "compact" else len(post["events"])
        ctx.tie("T3 programs", **{label: strace.summarize(steps)})
        n = len(steps)
        pre_o, post_o = crash.timeless(pre["graph"]), crash.timeless(post["graph"])
        points = strace.kill_points(steps)
        for k in range(1, n + 1):
            c = crash.clone(base)
            try:
                rc2, _, _, ran = strace.kill_at(c, argv, stdin, points[k - 1], env=env)
                g = c.graph()
                ctx.count(1, key=(label, k, "events=%d" % new_events))
                step = {"argv": argv, "stdin": None if stdin is None else stdin.decode(), "env": env, "kill_before_call": k, "kill_point": list(points[k - 1]),
                        "calls_run": strace.summarize(ran)}
                if "err" in g:
                    ctx.violation("C04 store unreadable after kill in %s" % label, "after a kill before call %d the log does not load: %s" % (k, g["err"][:200]),
                                  {"trace": trace + [step]})
                    return
                o = crash.timeless(g["graph"])
                if o != pre_o and o != post_o:
                    nxt = strace.summarize(steps)[len(strace.summarize(ran)):][:1]
                    d = fndiff.first_difference(post_o, o)
                    ctx.violation("C04 %s half applied (kill between two write(2) calls)" % label if nxt == ["write(log)"] else "C04 %s half applied" % label,
                                  "kill before call %d/%d (%s): state is neither before nor after the command; vs after: %s" % (k, n, nxt, d),
                                  {"trace": trace + [step]})
                    return
            finally:
                c.close()
        ctx.sample({"command": label, "argv": argv, "kill_points": n, "program": strace.summarize(steps)}, cap=8)
    finally:
        base.close()


def run(ctx):
    framework.check_facts(ctx, ctx.facts, ["with_lock", "lock_sites", "writer_calls"])
    r = gen.Rng(ctx.seed * 1000003 + 4)
    for i in range(22 if ctx.quick else 300):
        one_instance(ctx, r.fork(), big=(130 if i % 7 == 3 else 0))
    ctx.cov["rule"] = ("for generated CLI-reachable pre-states × multi-event commands (claim, claim <id>, multi-field set, create-with-state/claim, sequence chain, prune --yes, plan, compact): "
                       "SIGKILL injected with strace before every one of the command's system calls on the store's files; observable state (clock readings aside) must equal "
                       "the state before or the state after (twin run with the same scripted RNG); distinct = (command, kill point, events recorded)")
    ctx.assumptions += ["kernel: flock released on death; rename atomic; a write(2) not entered leaves no bytes", "kills are at system-call boundaries (mid-write tears are C03)"]


def replay(ctx, doc):
    st = cmdrun.Store(ctx.ergo_verif, ctx.go)
    try:
        tr = doc["replay"]["trace"]
        for step in tr[:-1]:
            st.exec(step["argv"], None if step.get("stdin") is None else step["stdin"].encode(), env=step.get("env"))
        last = tr[-1]
        before = crash.timeless(st.graph()["graph"])
        rc, _, _, ran = strace.kill_at(st, last["argv"], None if last.get("stdin") is None else last["stdin"].encode(), tuple(last["kill_point"]), env=last.get("env"))
        g = st.graph()
        print("killed before call", last["kill_before_call"], "ran:", strace.summarize(ran))
        print("state changed:", crash.timeless(g["graph"]) != before)
        print(json.dumps([(t["id"], t["st"], t["claimed_by"]) for t in g["graph"]["tasks"]]))
        return 0
    finally:
        st.close()
