"""C13 — readers never fail or see garbage while writers are active."""
import json, os
from .. import common, framework, fndiff, cmdrun, gen, oracles, strace, crash, sched


def reader_view(st):
    """what a reader sees right now (list --json --all + --epics + show of one id); problem string if it fails"""
    a = st.exec(["--json", "list", "--all"]); e = st.exec(["--json", "list", "--epics"])
    if a["exit"] != 0 or e["exit"] != 0:
        return None, "list exits %s/%s: %s" % (a["exit"], e["exit"], (a["stderr"] + e["stderr"]).strip()[:200])
    items = json.loads(a["stdout"]) + json.loads(e["stdout"])
    view = sorted((i["id"], i["state"], i.get("claimed_by", ""), i["title"], i.get("epic_id", "")) for i in items)
    return view, None


def graph_view(g):
    return sorted((t["id"], t["st"], t["claimed_by"], t["title"], t["epic_id"]) for t in g["tasks"])


def one_writer(ctx, r, symlink=False):
    base, v, trace = crash.build_state(ctx, r, 5 + r.n(8))
    try:
        label, argv, stdin = crash.multi_event_command(r, v)
        if symlink:
            # one plan shared between several checkouts: `.ergo/plans.jsonl` is a symbolic link to a file kept elsewhere.  Readers open whatever the
            # name leads to, so the file behind the link may never be emptied or rewritten in place either
            os.makedirs(os.path.join(base.root, "shared"), exist_ok=True)
            os.rename(os.path.join(base.dir, "plans.jsonl"), os.path.join(base.root, "shared", "plans.jsonl"))
            os.symlink(os.path.join("..", "shared", "plans.jsonl"), os.path.join(base.dir, "plans.jsonl"))
            trace = trace + [{"edit": ".ergo/plans.jsonl moved to shared/plans.jsonl and replaced by a symbolic link to it"}]
            for _ in range(200):
                if label in ("compact", "plan") or (label.startswith("claim") and r.p(20)):
                    break
                label, argv, stdin = crash.multi_event_command(r, v)
        env = {"VERIF_RAND": str(r.next() % (1 << 40))}
        pre = base.graph()
        done = crash.clone(base)
        try:
            rc, _, _, steps = strace.run(done, argv, stdin, env=env)
            post = done.graph()
        finally:
            done.close()
        if rc != 0 or "err" in pre or "err" in post:
            return
        if any(s_["call"] == "ftruncate" and s_["obj"] == "log" for s_ in steps):
            ctx.tie_broken("T3 writer never shrinks the live log in place", {"writer": label, "program": strace.summarize(steps)})
        allowed = [graph_view(pre["graph"]), graph_view(post["graph"])]
        pts = strace.kill_points(steps)
        ks = list(range(1, len(pts))) if not ctx.quick else sorted(set([1, 2] + [i for i, s in enumerate(steps, 1) if s["call"] in ("write", "renameat", "rename", "fsync", "flock", "openat")]))
        for k in ks:
            if k >= len(pts):
                continue
            c = crash.clone(base)
            pk = None
            try:
                pk = sched.Parked(c, argv, stdin, pts[k - 1], env=env)
                if not pk.parked:
                    pk.wait(5); pk = None
                    continue
                view, prob = reader_view(c)
                sh = None
                ran = strace.summarize(pk.steps_at_park)       # the writer's own trace: where it really is (see sched.Parked)
                ctx.count(1, key=(label, ran[-1] if ran else "-", len(ran)))
                step = {"argv": argv, "stdin": None if stdin is None else stdin.decode(), "env": env, "parked_after_call": len(pk.steps_at_park), "calls_run": ran}
                if prob:
                    ctx.violation("C13 reader fails while %s is in progress" % label, "writer parked after call %d (%s): %s" % (k, step["calls_run"][-1:], prob), {"trace": trace + [step]})
                    return
                if view not in allowed:
                    ctx.violation("C13 reader sees a state the store never passed through (%s)" % label,
                                  "writer parked after call %d (%s): the listing is neither the state before nor the state after the command" % (k, step["calls_run"][-1:]),
                                  {"trace": trace + [step], "seen": view[:6]})
                    return
                res = pk.resume(); pk = None
                if res.get("tracer_error"):      # strace itself failed: the run says nothing about ergo
                    ctx.count(1, key=("skipped: tracer error",)); continue
                if res["exit"] != 0:
                    ctx.tie_broken("sched", {"what": "parked writer did not finish cleanly", "exit": res["exit"], "stderr": res["stderr"][:200]})
                    return
            finally:
                if pk is not None:
                    pk.kill()
                c.close()
        ctx.sample({"writer": label, "parked_points": len(ks), "program": strace.summarize(steps)}, cap=6)
    finally:
        base.close()


def one_reader(ctx, r, legacy=False, writer=None, reader=None, torn=None, frag=None):
    """the converse schedule: a *reader* is parked after each of its own calls on the log (open, every read, close), a writer runs to completion
    meanwhile, the reader goes on — it must succeed and show the state before or after that writer.  Half of the stores end in the torn
    fragment of a killed writer (which the reader skips and the writer repairs)."""
    base, v, trace = crash.build_state(ctx, r, 5 + r.n(8), legacy=legacy)
    calls = strace.CALLS + "," + strace.STAT_CALLS       # the reader is also parked right after it has looked at the log's names
    try:
        torn = r.p(55) if torn is None else torn
        if torn:
            frag = frag or r.pick([b'{"type":"state","ts":"2026-01-01T00:00:00Z","data":{"id":"', b'{"type":"new_task","ts":"2026-01-01T00:00:00.5Z","data":{"id":"QQQQQQ","uuid":"u","title":"half', b'{'])
            with open(base.log_path(), "ab") as f:
                f.write(frag)
            trace = trace + [{"edit": "torn fragment of a killed writer appended to the log (no newline): %r" % frag[:40]}]
        pre = base.graph()
        if "err" in pre:
            return
        v.update(pre["graph"])
        label, wargv, wstdin = crash.multi_event_command(r, v) if r.p(60) else ("new-task", ["--json", "new", "task"], b'{"title":"w"}')
        if legacy:
            label, wargv, wstdin = r.pick([("compact", ["--json", "compact"], None), ("plan", ["--json", "plan"], b'{"title":"P","tasks":[{"title":"a"}]}')])
        if writer is not None:
            label, wargv, wstdin = writer
        wenv = {"VERIF_RAND": str(r.next() % (1 << 40))}
        done = crash.clone(base)
        try:
            wr = done.exec(wargv, wstdin, env=wenv)
            post = done.graph()
        finally:
            done.close()
        if wr["exit"] != 0 or "err" in post:
            return
        some_id = r.pick(v.tasks) if v.tasks else "ZZZZZZ"
        rargv = r.pick([["--json", "list", "--all"], ["--json", "list", "--all"], ["--json", "show", some_id], ["list", "--all"]])
        if reader is not None:
            rargv = reader
        def view_of(res, g=None):
            if rargv[:3] == ["--json", "list", "--all"]:
                return sorted((i["id"], i["state"], i.get("claimed_by", ""), i["title"], i.get("epic_id", "")) for i in json.loads(res["stdout"]))
            if rargv[1] == "show":
                x = json.loads(res["stdout"]); x = x.get("epic", x) if isinstance(x.get("epic"), dict) else x
                return (x["id"], x["state"], x["claimed_by"], x["title"], x["body"], tuple(x["deps"] or []))
            return None
        refs = []
        for g_ in (base, None):
            t = crash.clone(base)
            try:
                if g_ is None:
                    t.exec(wargv, wstdin, env=wenv)
                rr = t.exec(rargv)
                refs.append(view_of(rr) if rr["exit"] == 0 else ("exit", rr["exit"]))
            finally:
                t.close()
        if reader is not None and refs[0] == []:
            return "empty"          # nothing to tell apart from an unreadable log: the caller draws another store
        solo = crash.clone(base)
        try:
            rc, _, _, rsteps = strace.run(solo, rargv, calls=calls)
        finally:
            solo.close()
        if rc != 0 and rargv[1] != "show":
            ctx.violation("C13 reader fails on a store with a torn tail" if torn else "C13 reader fails", "%s exits %s" % (rargv, rc), {"trace": trace}); return
        pts = strace.kill_points(rsteps)
        for k in range(1, len(pts) + 1):
            c = crash.clone(base)
            pk = None
            try:
                pk = sched.Parked(c, rargv, None, pts[k - 1], calls=calls)
                if not pk.parked:
                    pk.wait(5); pk = None
                    continue
                at = (strace.summarize(pk.steps_at_park) or ["-"])[-1]
                wres = c.exec(wargv, wstdin, env=wenv)
                res = pk.resume(); pk = None
                if res.get("tracer_error"):
                    ctx.count(1, key=("skipped: tracer error",)); continue
                step = {"reader": rargv, "reader_parked_after": at, "its_calls_so_far": len(res["steps"]), "writer": wargv if sum(len(a) for a in wargv) < 300 else wargv[:3] + ["…"],
                        "writer_stdin": None if wstdin is None else wstdin.decode("utf-8", "replace")[:200], "writer_env": wenv, "writer_exit": wres["exit"]}
                ctx.count(1, key=("reader-parked", rargv[1] if rargv[0] == "--json" else "list(human)", at, label, torn))
                if res["exit"] != refs[0][1] if isinstance(refs[0], tuple) and refs[0][:1] == ("exit",) else res["exit"] != 0:
                    ctx.violation("C13 reader fails while %s runs (reader parked mid-read%s)" % (label, ", torn tail" if torn else ""),
                                  "%s parked after %s, writer ran, reader resumed: exit %s %s" % (" ".join(rargv), at, res["exit"], res["stderr"].strip()[:200]), {"trace": trace + [step]}); return
                if res["exit"] == 0 and view_of(res) is not None and view_of(res) not in refs:
                    ctx.violation("C13 reader sees a state the store never passed through (reader parked mid-read, %s)" % label,
                                  "%s parked after %s: output is neither the state before nor after the writer" % (" ".join(rargv), at), {"trace": trace + [step]}); return
            finally:
                if pk is not None:
                    pk.kill()
                c.close()
    finally:
        base.close()


def reader_shape(ctx):
    st = cmdrun.Store(ctx.ergo, ctx.go)
    try:
        st.exec(["--json", "new", "task"], b'{"title":"a"}')
        for argv in (["--json", "list", "--all"], ["--json", "show", "ZZZZZZ"], ["list"]):
            rc, _, _, steps = strace.run(st, argv)
            prog = strace.summarize(steps)
            ctx.count(1, key=("T3-reader", " ".join(argv)))
            sh = strace.shape(ctx.model, steps)
            if not sh["reader"] or any(s["call"] == "flock" for s in steps) or [p for p in prog if p.startswith("open(log")] != ["open(log,O_RDONLY)"]:
                ctx.tie_broken("T3 reader shape", {"argv": argv, "program": prog, "expected": "no flock; the log opened exactly once, read-only"})
        ctx.tie("T3 reader shape", program=prog)
    finally:
        st.close()


def run(ctx):
    rs = gen.Rng(ctx.seed * 1000003 + 1313)
    for i in range(2 if ctx.quick else 30):
        one_writer(ctx, rs.fork(), symlink=True)
    import os
    os.environ["GOGC"] = "1"      # stress the Go runtime: collections (and finalizers) inside every lock section
    framework.check_facts(ctx, ctx.facts, ["with_lock", "lock_sites", "writer_calls", "truncate_sites", "open_sites"])
    reader_shape(ctx)
    r = gen.Rng(ctx.seed * 1000003 + 13)
    for i in range(7 if ctx.quick else 120):
        one_writer(ctx, r.fork())
    # every rewriting command against a parked reader, on both layouts of the store — enumerated, not drawn
    for legacy in (True, False):
        for writer in (("compact", ["--json", "compact"], None), ("plan", ["--json", "plan"], b'{"title":"P","tasks":[{"title":"a"}]}')):
            for _ in range(6):
                if one_reader(ctx, r.fork(), legacy=legacy, writer=writer, reader=["--json", "list", "--all"]) != "empty":
                    break
    # a reader in the middle of a log that ends in a killed writer's fragment, while a command that appends several lines repairs that tail and writes:
    # the bytes the reader has already seen must stay what they were (the fragment is dropped by replacing the file, never by cutting it in place)
    # (with fragments of two lengths that are no prefix of what the writer appends: a one-byte `{` would, glued to the rest of a line, read as that line)
    for writer, frag in ((("claim-oldest", ["--json", "--agent", "w", "claim"], None), b'{"type":"state","ts":"2026-01-01T00:00:00Z","data":{"id":"'),
                         (("new-task{state}", ["--json", "--agent", "w", "new", "task"], b'{"title":"w","state":"doing"}'), b'{"type":"body","ts":"2026-01-01T00:00:00.5Z","data":{"id":"QQQQQQ","body":"half a bo')):
        for _ in range(6):
            if one_reader(ctx, r.fork(), writer=writer, reader=["--json", "list", "--all"], torn=True, frag=frag) != "empty":
                break
    for i in range(4 if ctx.quick else 100):
        one_reader(ctx, r.fork(), legacy=(i % 3 == 2))
    ctx.cov["rule"] = ("readers parked at each of their calls on a torn log while claim / new task{state} repair the tail and append, and on both store layouts while plan / compact publish a new file (enumerated); readers parked after each of their own calls on the log (open/read/close) while a writer runs to completion, on logs with and without a torn tail; "
                       "for generated pre-states × writer kinds (claim, set, create-with-state, sequence chain, prune --yes, plan, compact): the real writer is parked (strace SIGSTOP injection) "
                       "right after each of its system calls on the store (quick: after every open/flock/write/fsync/rename), `list --json --all/--epics` run meanwhile must succeed and show "
                       "exactly the state before or after the command; then the writer is resumed and must finish; reader programs traced (no flock, log opened once read-only)")
    ctx.assumptions += ["one write(2) of a batch is seen by a concurrent reader entirely or not at all (page-cache atomicity of a single append on a local file system)"]


def replay(ctx, doc):
    print(json.dumps(doc["replay"], indent=1)[:2000])
    return 0
