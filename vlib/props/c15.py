"""C15 — accepted plans can always make progress."""
import json
from .. import common, framework, fndiff, cmdrun, gen, oracles, explore2, crash
from ..histories import run_history, replay_trace

WEIGHTS = {"new_task": 24, "new_epic": 12, "set": 22, "sequence": 34, "plan": 4, "prune_yes": 2, "claim_oldest": 2}


def gen_fn(r, v, weights):
    """two-level graphs: tasks inside epics, task edges crossing epics, epic→epic edges; states kept to todo/done/canceled"""
    req, agent = gen.gen_request(r, v, weights)
    if req["cmd"] == "new_task" and req.get("json") is not None and "stdin_raw" not in req:
        req["json"].pop("state", None); req["json"].pop("claim", None)
        req["json"].setdefault("title", "t")
        if v.epics and r.p(75):
            req["json"]["epic"] = r.pick(v.epics)
    if req["cmd"] == "set":
        tid = req.get("id")
        req = {"cmd": "set", "id": tid, "piped": True, "body_stdin": False, "flags": {},
               "json": r.weighted([({"state": "done"}, 30), ({"state": "canceled"}, 10), ({"state": "todo"}, 30),
                                   ({"epic": r.pick(v.epics) if v.epics else ""}, 30)])}
    if req["cmd"] == "sequence" and r.p(45) and len(v.epics) >= 2 and getattr(v, "epic_edges", True):
        req["args"] = [r.pick(v.epics), r.pick(v.epics)]
    elif req["cmd"] == "sequence" and req.get("args") and req["args"][0] != "rm" and r.p(40):
        # try to close a loop through work that already exists (finished tasks included: they can be reopened)
        edges = [(t["id"], d) for t in v.by_id.values() if not t["is_epic"] for d in t.get("deps", [])]
        if edges:
            a, b = r.pick(edges)
            req["args"] = [a, b]
    return req, agent


def oracle(ctx, st, req, agent, rec, trace):
    g = rec["post"]["graph"]
    tasks = [t for t in g["tasks"] if not t["is_epic"]]
    wedges = oracles.waits_edges(g)
    cyc = oracles.find_cycle([(a, b) for a, b, _ in wedges])
    premises = any(t["st"] == "todo" for t in tasks) and not any(t["st"] in ("doing", "blocked", "error") for t in tasks)
    stuck = premises and not oracles.ready_order(g)
    if cyc or stuck:
        kinds = {k for a, b, k in wedges if a in (cyc or []) and b in (cyc or [])}
        own = [(a, b) for a, b, k in wedges if k == "own"]
        task_level = oracles.find_cycle(own)
        epic_level = oracles.find_cycle([tuple(e) for e in g["deps"] if oracles.task_of(g, e[0]) and oracles.task_of(g, e[0])["is_epic"]])
        if task_level or epic_level:
            sig = "C15 same-level dependency cycle"          # would also be a C07 violation
        elif cyc:
            sig = "C15 cross-level wait cycle: task-edge(Ea→Eb) + epic-path(Eb⇝Ea)"
        else:
            sig = "C15 stuck without a wait cycle"
        if stuck:
            # confirm on the real binary: claim must not say no_ready
            c = st.exec(["--json", "--agent", "probe", "claim"])
            says = c["stdout"].strip()
            what = "at least one task is todo, none doing/blocked/error, yet `claim` answers %s; wait cycle %s" % (says[:80], cyc)
        else:
            what = "the effective waits-for relation has a cycle %s (kinds %s)" % (cyc, sorted(kinds))
        ctx.violation(sig, what, {"trace": trace, "cycle": cyc})
        return True
    return False


def witness(ctx):
    """the four-command witness of the recorded finding, replayed on the real binary every run"""
    st = cmdrun.Store(ctx.ergo, ctx.go)
    try:
        trace = []
        def ex(argv, stdin=None):
            r = st.exec(argv, stdin); trace.append({"argv": argv, "stdin": None if stdin is None else stdin.decode(), "exit": r["exit"]}); return r
        e1 = json.loads(ex(["--json", "new", "epic"], b'{"title":"E1"}')["stdout"])["id"]
        e2 = json.loads(ex(["--json", "new", "epic"], b'{"title":"E2"}')["stdout"])["id"]
        t1 = json.loads(ex(["--json", "new", "task"], json.dumps({"title": "T1", "epic": e1}).encode())["stdout"])["id"]
        t2 = json.loads(ex(["--json", "new", "task"], json.dumps({"title": "T2", "epic": e2}).encode())["stdout"])["id"]
        ex(["--json", "sequence", t2, t1])       # T1 depends on T2
        ex(["--json", "sequence", e1, e2])       # E2 depends on E1
        ctx.count(1, key="witness-W6")
        rec = {"post": {"graph": st.graph()["graph"]}}
        oracle(ctx, st, {"cmd": "witness"}, "", rec, trace)
    finally:
        st.close()


def unterminated_unlink(ctx, r):
    """an edge was removed and the removal is the log's last line, complete but without its newline; the opposite edge is then asked for. The cycle
    check reads the removal — so must whatever is written next: if the writer drops that line, both directions are in the log and nothing is ready"""
    st = cmdrun.Store(ctx.ergo, ctx.go, legacy=r.p(20))
    trace = []
    try:
        def ex(argv, stdin=None):
            res = st.exec(argv, stdin); trace.append({"argv": argv, "stdin": None if stdin is None else stdin.decode(), "exit": res["exit"]}); return res
        ids = [json.loads(ex(["--json", "new", "task"], json.dumps({"title": "t%d" % i}).encode())["stdout"])["id"] for i in range(2 + r.n(3))]
        a, b = ids[0], ids[1]
        ex(["--json", "sequence", a, b])
        for x in ids[2:]:
            ex(["--json", "sequence", b, x])
        ex(["--json", "sequence", "rm", a, b])
        data = st.log_bytes()
        if data.endswith(b"\n"):
            open(st.log_path(), "wb").write(data[:-1])
            trace.append({"edit": "final newline of the log removed (the last line, the unlink event, is complete)"})
        ex(["--json", "sequence", b, a])
        ctx.count(1, key=("unterminated-unlink", len(ids)))
        g = st.graph()
        if "err" in g:
            ctx.violation("C15 store unreadable", g["err"][:200], {"trace": trace}); return
        oracle(ctx, st, {"cmd": "sequence"}, "", {"post": g}, trace)
    finally:
        st.close()


def clock_steps_back(ctx, r):
    """the log carries an earlier claim and release of the only task, stamped by a clock that runs ahead (a merged log; this machine's clock set
    back): claim → hand back → claim again, checking after every step that a todo task with nothing in its way is handed out.  What a task is
    follows from the order of the lines, never from how their stamps compare."""
    st = cmdrun.Store(ctx.ergo, ctx.go, legacy=r.p(20))
    trace = []
    try:
        def ex(argv, stdin=None):
            res = st.exec(argv, stdin); trace.append({"argv": argv, "stdin": None if stdin is None else stdin.decode(), "exit": res["exit"]}); return res
        tid = json.loads(ex(["--json", "new", "task"], b'{"title":"the only task"}')["stdout"])["id"]
        crash.add_skewed_history(st, r, trace, max_tasks=1)
        for step in (["--json", "--agent", "bob", "claim"], ["--json", "--agent", "bob", "set", tid], ["--json", "--agent", "carol", "claim"]):
            res = ex(step, b'{"state":"todo"}' if step[-2] == "set" else None)
            ctx.count(1, key=("clock-steps-back", step[3] if step[3] != "set" else "release"))
            g = st.graph()
            if "err" in g:
                ctx.violation("C15 store unreadable", g["err"][:200], {"trace": trace}); return
            t = oracles.task_of(g["graph"], tid)
            if step[-1] == "claim" and (res["exit"] != 0 or t["st"] != "doing" or t["claimed_by"] != step[2]):
                ctx.violation("C15 a ready task is not handed out (claim after an earlier claim-and-release stamped ahead)",
                              "`claim` by %s exits %s and prints %s; the task is %s, claimed by %r" % (step[2], res["exit"], res["stdout"].strip()[:100], t["st"], t["claimed_by"]), {"trace": trace}); return
            if oracle(ctx, st, {"cmd": step[3]}, step[2], {"post": g}, trace):
                return
    finally:
        st.close()


def run(ctx):
    witness(ctx)
    rr = gen.Rng(ctx.seed * 1000003 + 1515)
    for i in range(3 if ctx.quick else 30):
        unterminated_unlink(ctx, rr.fork())
    for i in range(2 if ctx.quick else 20):
        clock_steps_back(ctx, rr.fork())
    # progress also depends on what `set`/`new` record: a todo task that ends up carrying a claimant is never ready and is not "held" either.
    # The exhaustive decision table of buildSetEvents against the model, and every disagreement run on the real binary under this property's oracle
    res = fndiff.run_stream(ctx.ev, ["fn-setev"])
    ctx.tie("T2-fn buildSetEvents", cases=res["cases"], exhaustive=True, disagreements=len(res["diffs"]))
    ctx.count(res["cases"])
    for d in res["diffs"][:3]:
        ctx.tie_broken("T2-fn buildSetEvents", {"first_difference": fndiff.first_difference(d["go"], d["model"]), "req": d["req"]})
    if res["diffs"]:
        from . import c06
        c06.probe_setev_diffs(ctx, res["diffs"], oracle_fn=oracle)
    r = gen.Rng(ctx.seed * 1000003 + 15)
    for h in range(25 if ctx.quick else 400):
        # two histories in three never ask for an epic→epic edge: without those the recorded cross-level finding cannot arise (C15_partial_no_epic_edges),
        # so the history is not cut short by it and other ways of getting stuck stay visible
        allow = (h % 3 == 0)
        def gf(r_, v_, w_, allow=allow):
            v_.epic_edges = allow
            return gen_fn(r_, v_, w_)
        run_history(ctx, r.fork(), 40, WEIGHTS, oracle, gen_fn=gf)
    # two agents asking for the two directions of one edge at the same time: whichever comes second must be refused — a cycle check done on a
    # snapshot read before the lock lets both through and the two tasks wait for each other for ever
    def post(g):
        cyc = oracles.find_cycle([(a, b) for a, b, k in oracles.waits_edges(g) if k == "own"])
        return ("same-level dependency cycle", "the waits-for relation has the cycle %s: no task on it can ever become ready" % (cyc,)) if cyc else None
    W2 = {"new_task": 60, "set": 20, "sequence": 20}
    for i in range(3 if ctx.quick else 40):
        explore2.explore(ctx, "C15", r.fork(), kindsA=("seq_opposed",), kindsB=("seq_opposed",), max_points=(6 if ctx.quick else 40), state_cmds=6, post_oracle=post, weights=W2)
    ctx.cov["rule"] = ("claim → hand back → claim on a task whose log carries an earlier claim-and-release stamped ahead; two-level graphs (2–4 epics, tasks inside them, task edges crossing epics, epic→epic edges, epic moves), states driven to todo/done/canceled; "
                       "oracle: cycle search in the effective waits-for relation + premises ⇒ claim must not answer no_ready")


def replay(ctx, doc):
    if explore2.is_schedule_replay(doc):
        return explore2.replay(ctx, doc)
    st = replay_trace(ctx, doc["replay"]["trace"])
    try:
        g = st.graph()["graph"]
        cyc = oracles.find_cycle([(a, b) for a, b, _ in oracles.waits_edges(g)])
        print("wait cycle:", cyc, "ready:", oracles.ready_order(g))
        return 1 if cyc else 0
    finally:
        st.close()
