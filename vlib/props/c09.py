"""C09 — prune removes exactly finished work; pruned ids are gone for good."""
import base64, json, os
from .. import common, framework, fndiff, cmdrun, gen, oracles, explore2
from ..histories import run_history, replay_trace

WEIGHTS = {"new_task": 22, "new_epic": 6, "set": 30, "claim": 4, "claim_oldest": 4, "sequence": 10, "sequence_rm": 2, "plan": 4,
           "prune": 6, "prune_yes": 9, "compact": 3}


class Tracker:
    def __init__(self):
        self.pruned = set()      # ids reported pruned and not yet physically forgotten by a compact
        self.ever = set()


def make_oracle(tr):
    def oracle(ctx, st, req, agent, rec, trace):
        pg, post = rec["pre"]["graph"], rec["post"]["graph"]
        if req["cmd"] == "prune" and rec["exit"] == 0:
            want = oracles.prune_policy(pg)
            try:
                got = json.loads(rec["stdout"])["pruned_ids"] or []
            except Exception:
                got = None
            if got != want:
                ctx.violation("C09 prune set differs from policy (%s)" % ("apply" if req.get("yes") else "dry-run"),
                              "prune reported %s, policy says %s" % (got, want), {"trace": trace})
                return True
            live_after = {t["id"] for t in post["tasks"]}
            if req.get("yes"):
                if live_after != {t["id"] for t in pg["tasks"]} - set(want):
                    ctx.violation("C09 prune --yes removed a different set", "live ids after prune are not (before − policy set)", {"trace": trace})
                    return True
                tr.pruned |= set(want); tr.ever |= set(want)
            elif rec["changed"]:
                ctx.violation("C09 dry-run wrote", "prune without --yes changed the log", {"trace": trace})
                return True
        # permanence: nothing pruned is ever live again, nor an edge endpoint, nor re-issued (until compact forgets the tombstone)
        live = {t["id"] for t in post["tasks"]}
        back = live & tr.pruned
        if back:
            ctx.violation("C09 pruned id live again via %s" % req["cmd"], "pruned id(s) %s are live again" % sorted(back), {"trace": trace})
            return True
        for a, b in post["deps"]:
            if a in tr.pruned or b in tr.pruned:
                ctx.violation("C09 edge to pruned id", "edge %s→%s mentions a pruned id" % (a, b), {"trace": trace})
                return True
        if req["cmd"] == "compact" and rec["exit"] == 0:
            tr.pruned = set()   # docs/spec.md: after compact a pruned id is indistinguishable from "never existed"
        # commands naming a pruned id must fail and change nothing
        named = [req.get("id")] + list(req.get("args", []))
        if any(x in tr.pruned for x in named if x) and (rec["exit"] == 0 or rec["changed"]):
            ctx.violation("C09 command on pruned id accepted via %s" % req["cmd"], "a command naming a pruned id succeeded or wrote", {"trace": trace})
            return True
        return False
    return oracle


def id_bytes(id6):
    """4 random bytes whose shortID is the given 6-character id"""
    b = base64.b32decode(id6 + "AA")     # 8 chars → 5 bytes; the id is the first 30 bits
    return b[:4]


def fresh_id_probe(ctx):
    """scripted RNG: the next draw equals a pruned id (tombstone still in the log) — must not be issued"""
    st = cmdrun.Store(ctx.ergo_verif, ctx.go)
    try:
        trace = []
        def ex(argv, stdin=None, env=None):
            r = st.exec(argv, stdin, env=env)
            trace.append({"argv": argv, "stdin": None if stdin is None else stdin.decode(), "exit": r["exit"], "env": env or {}})
            return r
        r = ex(["--json", "new", "task"], b'{"title":"victim"}', env={"VERIF_RAND": "7"})
        vid = json.loads(r["stdout"])["id"]
        ex(["--json", "set", vid], b'{"state":"done"}')
        ex(["--json", "prune", "--yes"])
        script = (id_bytes(vid) + bytes(16)).hex()
        r = ex(["--json", "new", "task"], b'{"title":"reborn?"}', env={"VERIF_RAND_SCRIPT": script, "VERIF_RAND": "9"})
        ctx.count(1, key="fresh-id-probe:new")
        out = json.loads(r["stdout"]) if r["exit"] == 0 else {}
        g = st.graph()["graph"]
        ok = True
        if r["exit"] == 0 and out.get("id") == vid:
            ctx.violation("C09 pruned id re-issued by new (tombstone still in log)", "new task was given the pruned id %s; the item does not exist afterwards" % vid, {"trace": trace})
            ok = False
        elif r["exit"] == 0 and not oracles.task_of(g, out.get("id")):
            ctx.violation("C09 created item missing", "new task reported id %s but no such item exists" % out.get("id"), {"trace": trace})
            ok = False
        # same for plan
        script = (id_bytes(vid) + bytes(16) + id_bytes(vid) + bytes(16)).hex()
        r = ex(["--json", "plan"], b'{"title":"P","tasks":[{"title":"a"}]}', env={"VERIF_RAND_SCRIPT": script, "VERIF_RAND": "11"})
        ctx.count(1, key="fresh-id-probe:plan")
        if r["exit"] == 0:
            out = json.loads(r["stdout"])
            ids = [out["epic"]["id"]] + [t["id"] for t in out["tasks"]]
            if vid in ids:
                ctx.violation("C09 pruned id re-issued by plan (tombstone still in log)", "plan was given the pruned id %s" % vid, {"trace": trace})
                ok = False
        ctx.tie("fresh-id probe (scripted crypto/rand)", ran=True, clean=ok)
    finally:
        st.close()


def merged_orders(ctx, r):
    """a pruned id stays gone whatever order a hand merge leaves the lines in: the tombstones first, the creating lines repeated after them,
    the whole pruning branch ahead of the other one — no listing shows the item again, prune does not offer it again, nothing can be put under it"""
    st = cmdrun.Store(ctx.ergo, ctx.go)
    trace = []
    try:
        def ex(argv, stdin=None):
            res = st.exec(argv, stdin); trace.append({"argv": argv, "stdin": None if stdin is None else stdin.decode(), "exit": res["exit"]}); return res
        J = lambda d: json.dumps(d).encode()
        e1 = json.loads(ex(["--json", "new", "epic"], J({"title": "finished epic"}))["stdout"])["id"]
        c1 = json.loads(ex(["--json", "new", "task"], J({"title": "child", "epic": e1}))["stdout"])["id"]
        e2 = json.loads(ex(["--json", "new", "epic"], J({"title": "emptied epic"}))["stdout"])["id"]
        t1 = json.loads(ex(["--json", "new", "task"], J({"title": "loose, canceled"}))["stdout"])["id"]
        keep = json.loads(ex(["--json", "new", "task"], J({"title": "still open"}))["stdout"])["id"]
        ex(["--json", "set", c1], J({"state": "done"}))
        ex(["--json", "set", t1], J({"state": "canceled"}))
        if r.p(50):
            ex(["--json", "sequence", t1, keep])
        ex(["--json", "--agent", "p", "prune", "--yes"])
        g = st.graph()
        if "graph" not in g:
            return
        gone = sorted(g["graph"].get("tombs", []))
        if not gone:
            return
        lines = st.log_bytes().split(b"\n")[:-1]
        tomb = [l for l in lines if json.loads(l)["type"] == "tombstone"]
        creates = [l for l in lines if json.loads(l)["type"] in ("new_task", "new_epic") and json.loads(l)["data"]["id"] in gone]
        rest = [l for l in lines if l not in tomb]
        order = r.pick(["tombstones first", "creating lines repeated after the tombstones", "creating lines moved after the tombstones", "everything about the pruned items after the tombstones"])
        if order == "tombstones first":
            new = tomb + rest
        elif order == "creating lines repeated after the tombstones":
            new = lines + creates
        elif order == "creating lines moved after the tombstones":
            new = [l for l in lines if l not in creates] + creates
        else:
            about = [l for l in rest if (json.loads(l).get("data") or {}).get("id") in gone or (json.loads(l).get("data") or {}).get("task_id") in gone]
            new = [l for l in rest if l not in about] + tomb + about
        with open(st.log_path(), "wb") as f:
            f.write(b"\n".join(new) + b"\n")
        trace.append({"edit": "log rewritten as a hand merge would leave it: %s" % order, "pruned": gone})
        ctx.count(1, key=("merged-order", order))
        def check(when):
            for argv in (["--json", "list", "--all"], ["--json", "list", "--epics"], ["--json", "list"]):
                out = st.exec(argv)
                if out["exit"] != 0:
                    return      # a log the tool refuses to read shows nothing: not this property's business
                seen = {x.get("id") for x in json.loads(out["stdout"] or "[]")} & set(gone)
                if seen:
                    ctx.violation("C09 pruned item is back (%s)" % order, "%s lists %s %s, pruned earlier in this log" % (" ".join(argv), sorted(seen), when), {"trace": trace}); return True
            dry = st.exec(["--json", "prune"])
            if dry["exit"] == 0 and set(json.loads(dry["stdout"]).get("pruned_ids") or []) & set(gone):
                ctx.violation("C09 prune offers a pruned item again (%s)" % order, "dry run names %s %s" % (sorted(set(json.loads(dry["stdout"]).get("pruned_ids")) & set(gone)), when), {"trace": trace}); return True
            return False
        if check("after the merge"):
            return
        for pe in [x for x in gone if x in (e1, e2)][:1]:
            res = ex(["--json", "new", "task"], J({"title": "under a pruned epic", "epic": pe}))
            if res["exit"] == 0:
                ctx.violation("C09 pruned epic accepts a child (%s)" % order, "new task with epic=%s (pruned) exited 0" % pe, {"trace": trace}); return
        ex(["--json", "compact"])
        check("after compact")
    finally:
        st.close()


def edge_between_prunes(ctx):
    """a pruned id's edges no longer block — whenever they were recorded: a first prune (the log now holds a tombstone), *then* an edge A → P, then P
    is finished and pruned: A's dependencies must not name P any more, before and after a compact"""
    st = cmdrun.Store(ctx.ergo, ctx.go)
    trace = []
    try:
        def ex(argv, stdin=None):
            res = st.exec(argv, stdin); trace.append({"argv": argv, "stdin": None if stdin is None else stdin.decode(), "exit": res["exit"]}); return res
        new = lambda title: json.loads(ex(["--json", "new", "task"], json.dumps({"title": title}).encode())["stdout"])["id"]
        first = new("finished early")
        ex(["--json", "set", first], b'{"state":"canceled"}')
        ex(["--json", "--agent", "p", "prune", "--yes"])
        a, p_, q = new("A waits"), new("P will be pruned"), new("Q stays")
        ex(["--json", "sequence", p_, a]); ex(["--json", "sequence", q, a])
        ex(["--json", "set", p_], b'{"state":"canceled"}')
        ex(["--json", "--agent", "p", "prune", "--yes"])
        for phase in ("after the second prune", "after compact"):
            g = st.graph()
            ctx.count(1, key=("edge-between-prunes", phase))
            if "err" in g:
                ctx.violation("C09 store unreadable", g["err"][:200], {"trace": trace}); return
            sh = json.loads(st.exec(["--json", "show", a])["stdout"])
            deps = sh.get("deps") or []
            bad = oracles.inv07(g["graph"])
            if p_ in deps or [e for e in g["graph"]["deps"] if p_ in e] or bad:
                ctx.violation("C09 a pruned id's edge still there (recorded between two prunes)", "%s: show %s lists deps %s; pruned id %s; graph edges %s %s" %
                              (phase, a, deps, p_, [e for e in g["graph"]["deps"] if p_ in e], bad[:1] if bad else ""), {"trace": trace}); return
            if q not in deps:
                ctx.violation("C09 prune removed an edge of a live item", "%s: show %s lists deps %s, the live prerequisite %s is missing" % (phase, a, deps, q), {"trace": trace}); return
            ex(["--json", "compact"])
    finally:
        st.close()


def legacy_prune(ctx):
    """`prune --yes` on a store whose log still has the legacy name: exactly the finished items go, everything else stays where every command finds it"""
    st = cmdrun.Store(ctx.ergo, ctx.go, legacy=True)
    trace = [{"store": "legacy log name events.jsonl"}]
    try:
        def ex(argv, stdin=None):
            res = st.exec(argv, stdin); trace.append({"argv": argv, "stdin": None if stdin is None else stdin.decode(), "exit": res["exit"]}); return res
        new = lambda kind, d: json.loads(ex(["--json", "new", kind], json.dumps(d).encode())["stdout"])["id"]
        e = new("epic", {"title": "epic with an open child"})
        keep = [new("task", {"title": "open child", "epic": e}), new("task", {"title": "loose todo"})]
        gone = [new("task", {"title": "finished child", "epic": e}), new("task", {"title": "canceled"})]
        ex(["--json", "set", gone[0]], b'{"state":"done"}'); ex(["--json", "set", gone[1]], b'{"state":"canceled"}')
        dry = ex(["--json", "prune"])
        res = ex(["--json", "--agent", "p", "prune", "--yes"])
        ctx.count(1, key=("legacy-prune",))
        g = st.graph()
        if res["exit"] != 0 or "err" in g:
            ctx.violation("C09 prune fails on a legacy-named store", (res["stderr"] or g.get("err", ""))[:200], {"trace": trace}); return
        live = {t["id"] for t in g["graph"]["tasks"]}
        listed = {i["id"] for i in json.loads(st.exec(["--json", "list", "--all"])["stdout"])}
        if not set(keep + [e]) <= live or set(gone) & live or not set(keep) <= listed:
            ctx.violation("C09 prune took the wrong set (legacy-named store)", "live after prune --yes: %s; expected %s to stay and %s to go; list --all shows %s" %
                          (sorted(live), sorted(keep + [e]), sorted(gone), sorted(listed)), {"trace": trace}); return
        if sorted(os.listdir(st.dir)) != sorted(set(os.listdir(st.dir)) - {"plans.jsonl"}) and "events.jsonl" in os.listdir(st.dir):
            ctx.violation("C09 prune wrote to another log file than the one the store uses", "files in .ergo: %s" % sorted(os.listdir(st.dir)), {"trace": trace}); return
    finally:
        st.close()


def run(ctx):
    edge_between_prunes(ctx)
    legacy_prune(ctx)
    framework.check_facts(ctx, ctx.facts, ["lock_sites", "writer_calls", "with_lock"])
    import os
    os.environ["GOGC"] = "1"      # stress the Go runtime: collections (and finalizers) inside every lock section
    res = fndiff.run_stream(ctx.ev, ["fn-replay", str(ctx.seed + 900), "1500" if ctx.quick else "20000"])
    ctx.tie("T2-fn replay/prune/tombstones", cases=res["cases"], classes=res["classes"], disagreements=len(res["diffs"]))
    ctx.count(res["cases"])
    for d in res["diffs"][:3]:
        ctx.tie_broken("T2-fn replay", {"first_difference": fndiff.first_difference(d["go"], d["model"]), "req": d["req"]})
    fresh_id_probe(ctx)
    r = gen.Rng(ctx.seed * 1000003 + 9)
    for i in range(8 if ctx.quick else 100):
        merged_orders(ctx, r.fork())
    for h in range(20 if ctx.quick else 300):
        run_history(ctx, r.fork(), 40, WEIGHTS, make_oracle(Tracker()))
    # prune against a concurrent writer that reopens / adds work: the set removed must be the policy's set for the log prune decided on
    for i in range(4 if ctx.quick else 100):
        explore2.explore(ctx, "C09", r.fork(), kindsA=("prune",), kindsB=(("reopen",) if i % 4 != 3 else ("new", "set+state")), max_points=(6 if ctx.quick else 40), state_cmds=16)
    ctx.cov["rule"] = ("random event lists (tombstones in any position) model vs Go replay/selectPruneTargets; scripted-RNG probe that the next id "
                       "drawn equals a pruned id; seeded histories with prune/compact/re-use attempts; distinct = (command, outcome, mode, fields)")


def replay(ctx, doc):
    st = cmdrun.Store(ctx.ergo_verif, ctx.go)
    try:
        for step in doc["replay"]["trace"]:
            r = st.exec(step["argv"], None if step.get("stdin") is None else step["stdin"].encode(), env=step.get("env"))
            print(" ".join(step["argv"]), "⇒ exit", r["exit"], r["stdout"].strip()[:120], r["stderr"].strip()[:120])
        return 0
    finally:
        st.close()
