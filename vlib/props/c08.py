"""C08 — ready/blocked mean what the manual says; claim takes the oldest ready task."""
import json
from .. import common, framework, fndiff, cmdrun, gen, oracles
from ..histories import run_history, replay_trace

WEIGHTS = {"new_task": 20, "new_epic": 8, "set": 26, "claim": 5, "claim_oldest": 14, "sequence": 18, "sequence_rm": 2, "plan": 3, "prune_yes": 3, "compact": 1}


def check_graph(ctx, graph, trace, where):
    for t in graph["tasks"]:
        if t["is_epic"]:
            continue
        rs, bs = oracles.ready_spec(graph, t), oracles.blocked_spec(graph, t)
        if t["ready"] != rs or t["blocked"] != bs:
            ctx.violation("C08 flag mismatch ready=%s/%s blocked=%s/%s st=%s" % (t["ready"], rs, t["blocked"], bs, t["st"]),
                          "%s: item %s reported ready=%s blocked=%s, manual says ready=%s blocked=%s" % (where, t["id"], t["ready"], t["blocked"], rs, bs),
                          {"trace": trace, "item": t["id"]})
            return True
    return False


def oracle(ctx, st, req, agent, rec, trace):
    pg, post = rec["pre"]["graph"], rec["post"]["graph"]
    if check_graph(ctx, post, trace, "after " + req["cmd"]):
        return True
    if req["cmd"] == "claim_oldest" and rec["exit"] == 0:
        want = oracles.ready_order(pg, req.get("epic", ""))
        out = json.loads(rec["stdout"])
        if out.get("status") == "no_ready":
            if want:
                ctx.violation("C08 claim says no_ready but ready set non-empty", "ready set was %s" % want, {"trace": trace})
                return True
        else:
            if not want or out.get("id") != want[0]:
                ctx.violation("C08 claim did not take the oldest ready task", "claim returned %s, oldest ready is %s" % (out.get("id"), want[:1]), {"trace": trace})
                return True
            k = oracles.task_of(post, out["id"])
            if k is None or k["is_epic"] or k["st"] != "doing" or k["claimed_by"] != agent:
                ctx.violation("C08 claim result not doing/claimed", "after claim the task is %s" % (k and (k["st"], k["claimed_by"]),), {"trace": trace})
                return True
    if ctx.cov["evaluations"] % 7 == 0:
        lr = st.exec(["--json", "list", "--ready"])
        if lr["exit"] == 0:
            got = sorted(t["id"] for t in json.loads(lr["stdout"]))
            want = sorted(oracles.ready_order(post))
            if got != want:
                ctx.violation("C08 list --ready differs from the ready set", "list --ready shows %s, ready set is %s" % (got, want), {"trace": trace})
                return True
        la = st.exec(["--json", "list", "--all"])
        if la["exit"] == 0:
            for it in json.loads(la["stdout"]):
                k = oracles.task_of(post, it["id"])
                if k and (it["ready"] != oracles.ready_spec(post, k) or it["blocked"] != oracles.blocked_spec(post, k)):
                    ctx.violation("C08 list --json flag mismatch", "list --json --all flags for %s differ from the manual's meaning" % it["id"], {"trace": trace})
                    return True
    return False


def run(ctx):
    res = fndiff.run_stream(ctx.ev, ["fn-replay", str(ctx.seed + 800), "2500" if ctx.quick else "40000"])
    ctx.tie("T2-fn isReady/isBlocked/readyTasks", cases=res["cases"], classes=res["classes"], disagreements=len(res["diffs"]))
    ctx.count(res["cases"])
    for d in res["diffs"][:3]:
        ctx.tie_broken("T2-fn isReady/isBlocked/readyTasks", {"first_difference": fndiff.first_difference(d["go"], d["model"]), "req": d["req"]})
    # exhaustive small scope: two epics (E2 may depend on E1), E1's children in every state, a todo child of E2 (claimed or not,
    # depending or not on an orphan task in every state, possibly pruned) — model vs Go, and the manual's definition on Go's answer
    import subprocess
    p = subprocess.run([ctx.ev, "fn-ready-enum"], stdout=subprocess.PIPE, text=True)
    cases = [json.loads(l) for l in p.stdout.split("\n") if l]
    outs = common.model_batch([c["req"] for c in cases])
    nd = 0
    for c, o in zip(cases, outs):
        go = c["go"]
        mo = {k: v for k, v in o.items() if k not in ("tag", "compact")}
        if common.canon(go) != common.canon(mo):
            nd += 1
            if nd <= 2:
                ctx.tie_broken("T2-fn ready/blocked (exhaustive small scope)", {"first_difference": fndiff.first_difference(go, mo)})
        g = go.get("graph")
        if g:
            ctx.count(1, key=("enum", tuple((t["st"], t["claimed_by"] != "") for t in g["tasks"]), len(g["deps"])))
            ev_trace = [{"hand_written_log": [e for e in c["req"]["events"]]}]
            if check_graph(ctx, g, ev_trace, "small-scope log"):
                break
            want = oracles.ready_order(g, c["req"]["epic"])
            if go["ready_order"] != want:
                ctx.violation("C08 claim order differs from (created_at, id) over the ready set", "readyTasks gives %s, the manual's definition %s" % (go["ready_order"], want), {"trace": ev_trace})
                break
    ctx.tie("T2-fn ready/blocked (exhaustive small scope)", cases=len(cases), exhaustive=True, disagreements=nd)
    r = gen.Rng(ctx.seed * 1000003 + 8)
    for h in range(25 if ctx.quick else 400):
        run_history(ctx, r.fork(), 40, WEIGHTS, oracle)
    # "ready at the instant the claim takes effect": the ready set shifts while a claimer is on its way to the lock (two-process schedules, every park point)
    from . import c01
    c01.ready_set_shifts(ctx, "C08")
    ctx.cov["rule"] = ("random event lists (incl. hand-merged shapes) → Go isReady/isBlocked/readyTasks vs model; seeded histories; oracle recomputes the manual's "
                       "definition from states/epics/edges and compares flags, list --ready, the claimed id and no_ready")


def replay(ctx, doc):
    st = replay_trace(ctx, doc["replay"]["trace"])
    try:
        g = st.graph()["graph"]
        return 1 if check_graph(ctx, g, [], "replay") or ctx.violations else 0
    finally:
        st.close()
