"""C19 — the human list is a complete, well-formed picture of the same state."""
import fcntl, json, os, pty, re, struct, subprocess, termios
from .. import common, framework, fndiff, cmdrun, gen, oracles

ANSI = re.compile(r"\x1b\[[0-9;]*m")
ID_AT_END = re.compile(r"([A-Z2-7]{6})$")
TITLES = ["plain title", "日本語のタイトルはとても長いのでここで切られるはずです", "é" * 21, "ü" * 40, "a" * 150, "wide ＡＢＣ fullwidth", "emoji 😀😀😀 party " * 3, "mixed 日本 and ascii " * 4,
          "short", "x", "tab\tinside", "quote\" <b>", "combining é́ marks", "trailing space ", "汉字" * 30, "ｆｕｌｌ" * 10]
AGENTS = ["ag", "エージェント", "agent-with-a-very-long-name@some-host.example.org", "é" * 15, "😀bot"]


def vis(s):
    """display width as go-runewidth computes it for single-rune clusters (East Asian wide/fullwidth = 2, combining = 0)"""
    import unicodedata
    w = 0
    for ch in s:
        if unicodedata.combining(ch) or ch in "​‌‍" or ord(ch) < 32 or ord(ch) == 0x7f:
            continue
        w += 2 if unicodedata.east_asian_width(ch) in ("W", "F") else 1
    return w


def run_list(st, args, width=None):
    """human-mode list; on a pty of the given width, or on a pipe (80 columns, no colour)"""
    if width is None:
        r = st.exec(["-q", "list", *args])
        return r["exit"], r["stdout_raw"], r["stderr"]
    m, s = pty.openpty()
    fcntl.ioctl(s, termios.TIOCSWINSZ, struct.pack("HHHH", 50, width, 0, 0))
    attrs = termios.tcgetattr(s); attrs[1] = attrs[1] & ~termios.OPOST; termios.tcsetattr(s, termios.TCSANOW, attrs)
    p = subprocess.Popen([st.bin, "-q", "list", *args], cwd=st.root, stdin=subprocess.DEVNULL, stdout=s, stderr=subprocess.PIPE)
    os.close(s)
    out = b""
    while True:
        try:
            chunk = os.read(m, 65536)
        except OSError:
            break
        if not chunk:
            break
        out += chunk
    os.close(m)
    _, err = p.communicate()
    return p.returncode, out, err.decode("utf-8", "replace")


class Rec:
    """a store that remembers the commands that built it (the replay of a finding)"""
    def __init__(self, ctx):
        self.st = cmdrun.Store(ctx.ergo, ctx.go); self.cmds = []
    def exec(self, argv, stdin=None, **kw):
        r = self.st.exec(argv, stdin, **kw)
        if argv[:1] != ["list"] and argv[1:2] != ["list"]:
            self.cmds.append({"argv": argv, "stdin": None if stdin is None else stdin.decode("utf-8", "replace"), "exit": r["exit"]})
        return r
    def __getattr__(self, k):
        return getattr(self.st, k)


def profile_store(ctx):
    """one epic per profile: every child finished except one child in state s (s = todo, doing, blocked, error), an epic with only finished
    children, an empty epic; the default view must show each unfinished task once, under its epic"""
    st = Rec(ctx)
    def new(kind, d):
        return json.loads(st.exec(["--json", "new", kind], json.dumps(d).encode())["stdout"])["id"]
    for s in ("todo", "doing", "blocked", "error", None):
        e = new("epic", {"title": "epic-%s" % s})
        kids = [new("task", {"title": "k%d-%s" % (i, s), "epic": e}) for i in range(3)]
        st.exec(["--json", "set", kids[0]], b'{"state":"done"}')
        st.exec(["--json", "set", kids[1]], b'{"state":"canceled"}')
        if s in ("doing", "error"):
            st.exec(["--json", "--agent", "ag", "claim", kids[2]])
        if s in ("blocked", "error"):
            st.exec(["--json", "--agent", "ag", "set", kids[2]], json.dumps({"state": s}).encode())
        if s is None:
            st.exec(["--json", "set", kids[2]], b'{"state":"done"}')
        if s == "doing":
            # a result attached to the task in progress: `list` prints an auxiliary `→ file://…` line under its row (not an item row)
            os.makedirs(os.path.join(st.root, "out"), exist_ok=True)
            with open(os.path.join(st.root, "out", "report é.txt"), "w") as f:
                f.write("evidence")
            st.exec(["--json", "--agent", "ag", "set", kids[2]], json.dumps({"result_path": "out/report é.txt", "result_summary": "half way"}).encode())
    new("epic", {"title": "empty epic"})
    return st


def epic_dep_store(ctx):
    """epic-level dependencies in each condition: satisfied because everything in the prerequisite is finished, satisfied because the prerequisite
    is empty, not satisfied; the dependent epics hold todo tasks (one of them also waiting for a sibling)"""
    st = Rec(ctx)
    def new(kind, d):
        return json.loads(st.exec(["--json", "new", kind], json.dumps(d).encode())["stdout"])["id"]
    for cond in ("finished", "empty", "open"):
        a = new("epic", {"title": "prerequisite (%s)" % cond})
        if cond != "empty":
            ka = [new("task", {"title": "pre %d %s" % (i, cond), "epic": a}) for i in range(2)]
            st.exec(["--json", "set", ka[0]], b'{"state":"done"}')
            st.exec(["--json", "set", ka[1]], json.dumps({"state": "canceled" if cond == "finished" else "blocked"}).encode())
        b = new("epic", {"title": "dependent (%s)" % cond})
        kb = [new("task", {"title": "dep %d %s" % (i, cond), "epic": b}) for i in range(3)]
        st.exec(["--json", "sequence", kb[0], kb[1]])
        st.exec(["--json", "sequence", a, b])
    return st


def half_claim_store(ctx):
    """what a `claim` killed inside its write leaves: the claim line is whole, the state line is lost — a todo task that carries a claimant (not ready,
    not in progress).  It is the only open task: every --ready view is empty and has to say so"""
    st = Rec(ctx)
    def new(kind, d):
        return json.loads(st.exec(["--json", "new", kind], json.dumps(d).encode())["stdout"])["id"]
    e = new("epic", {"title": "epic with a half-claimed task"})
    a = new("task", {"title": "claimed, still todo", "epic": e})
    b = new("task", {"title": "finished", "epic": e})
    st.exec(["--json", "set", b], b'{"state":"done"}')
    ts = "2026-01-01T00:00:00Z"
    blob = json.dumps({"type": "claim", "ts": ts, "data": {"id": a, "agent_id": "cut-short", "ts": ts}}, separators=(",", ":")) + "\n" + '{"type":"state","ts":"%s","data":{"id":"%s","sta' % (ts, a)
    with open(st.log_path(), "ab") as f:
        f.write(blob.encode())
    st.cmds.append({"edit": "lines appended to the log: a claim of %s whose write was cut inside the state line that follows (no newline)" % a, "bytes": blob})
    return st


def blocker_store(ctx, r):
    """blocked tasks whose own title takes up 30–70 columns, blocked by tasks with titles of 3–40 columns (ASCII and wide characters): the row has
    to fit the title, the `⧗ blocker` annotation and the id column whatever the proportions"""
    st = Rec(ctx)
    def new(kind, d):
        return json.loads(st.exec(["--json", "new", kind], json.dumps(d).encode())["stdout"])["id"]
    e = new("epic", {"title": "layout"})
    # a grid, not a draw: every own-title length against a short, a medium and a long blocker title
    for k, (n1, n2) in enumerate((a, b) for a in (30, 44, 52, 59, 70) for b in (3, 13, 28)):
        n1 += r.n(3)
        fill = r.pick(["x", "w", "日", "é"])
        blocker = new("task", {"title": ("blocker " + fill * 60)[:n2], "epic": e if k % 2 else ""})
        blocked = new("task", {"title": ("a task with a long descriptive title " + fill * 80)[:n1], "epic": e if k % 2 else ""})
        st.exec(["--json", "sequence", blocker, blocked])
    return st


def build_store(ctx, r):
    st = Rec(ctx)
    epics, tasks = [], []
    for i in range(r.n(4)):
        epics.append(json.loads(st.exec(["--json", "new", "epic"], json.dumps({"title": r.pick(TITLES)}).encode())["stdout"])["id"])
    for i in range(2 + r.n(9)):
        d = {"title": r.pick(TITLES)}
        if epics and r.p(60):
            d["epic"] = r.pick(epics)
        tasks.append(json.loads(st.exec(["--json", "new", "task"], json.dumps(d).encode())["stdout"])["id"])
    for i in range(r.n(8)):
        a, b = r.pick(tasks), r.pick(tasks)
        st.exec(["--json", "sequence", a, b])
    if len(epics) >= 2 and r.p(50):
        st.exec(["--json", "sequence", epics[0], epics[1]])
    for t in tasks:
        c = r.n(100)
        if c < 20: st.exec(["--json", "--agent", r.pick(AGENTS), "claim", t])
        elif c < 35: st.exec(["--json", "set", t], b'{"state":"done"}')
        elif c < 42: st.exec(["--json", "set", t], b'{"state":"canceled"}')
        elif c < 50: st.exec(["--json", "set", t], b'{"state":"blocked"}')
        elif c < 56: st.exec(["--json", "--agent", r.pick(AGENTS), "set", t], b'{"state":"error"}')
    if len(epics) >= 2 and r.p(45):
        # an epic-level dependency that is *satisfied*: B waits for A, and everything in A is finished (or A is empty) — B's own tasks are then
        # ready like any others and every view has to show them as such
        st.exec(["--json", "sequence", epics[0], epics[1]])
        g = st.graph()
        if "graph" in g:
            for t in g["graph"]["tasks"]:
                if not t["is_epic"] and t["epic_id"] == epics[0] and t["st"] not in ("done", "canceled"):
                    st.exec(["--json", "set", t["id"]], json.dumps({"state": "canceled" if t["st"] == "error" else "done"}).encode())
    return st


def check_view(ctx, st, g, args, width, trace):
    rc, raw, err = run_list(st, args, width)
    W = width or 80
    name = "list " + " ".join(args)
    info = {"argv": ["list"] + args, "width": W, "pty": width is not None}
    try:
        text = raw.decode("utf-8")
    except UnicodeDecodeError as e:
        ctx.violation("C19 output is not valid UTF-8", "%s at width %d: %s near %r" % (name, W, e.reason, raw[max(0, e.start - 12):e.start + 6]), {"trace": trace + [info]}); return True
    if rc != 0:
        ctx.violation("C19 list fails", "%s exits %s: %s" % (name, rc, err[:160]), {"trace": trace + [info]}); return True
    lines = [ANSI.sub("", l.rstrip("\r")) for l in text.split("\n")]
    by = {t["id"]: t for t in g["tasks"]}
    live_tasks = [t for t in g["tasks"] if not t["is_epic"]]
    rows, current_epic = [], None
    for ln in lines:
        if ln.strip() == "" or "→ file://" in ln:
            continue
        m = ID_AT_END.search(ln)
        if not m or m.group(1) not in by:
            continue            # summary / empty-state sentence
        rid = m.group(1)
        rows.append(rid)
        t = by[rid]
        is_child = ln.lstrip(" │").startswith(("├", "└"))
        if t["is_epic"]:
            current_epic = rid
        base_w = (2 if is_child else 0) + (3 if t["is_epic"] else 2)
        if W >= base_w + 12:
            if vis(ln) != W - 2:
                ctx.violation("C19 row width", "%s at width %d: row for %s is %d columns wide, expected %d: %r" % (name, W, rid, vis(ln), W - 2, ln[:90]), {"trace": trace + [info]}); return True
            if vis(ln[:-6]) != W - 8:
                ctx.violation("C19 id column", "%s at width %d: id of %s does not start in column %d" % (name, W, rid, W - 8), {"trace": trace + [info]}); return True
        if not t["is_epic"]:
            want_child = t["epic_id"] != ""
            if is_child != want_child or (want_child and current_epic != t["epic_id"]):
                ctx.violation("C19 tree structure", "%s: row of %s %s a tree glyph / sits under %s, its epic is %r" % (name, rid, "has" if is_child else "lacks", current_epic, t["epic_id"]),
                              {"trace": trace + [info]}); return True
        elif is_child:
            ctx.violation("C19 tree structure", "%s: epic %s rendered as a child row" % (name, rid), {"trace": trace + [info]}); return True
    if len(rows) != len(set(rows)):
        dup = [x for x in rows if rows.count(x) > 1][:1]
        nl = any("\n" in by[x]["title"] for x in dup)
        ctx.violation("C19 item on two rows" + (" (newline in title)" if nl else ""), "%s: %s appears on %d rows" % (name, dup, rows.count(dup[0])), {"trace": trace + [info]}); return True
    shown_tasks = {x for x in rows if not by[x]["is_epic"]}
    if args == ["--all"]:
        want = set(by)
        if set(rows) != want:
            ctx.violation("C19 --all does not show every live item once", "missing %s extra %s" % (sorted(want - set(rows)), sorted(set(rows) - want)), {"trace": trace + [info]}); return True
    elif args == []:
        active = {t["id"] for t in live_tasks if t["st"] not in ("done", "canceled")}
        if not active <= shown_tasks:
            ctx.violation("C19 default view misses an active task", "missing %s" % sorted(active - shown_tasks), {"trace": trace + [info]}); return True
    elif args == ["--ready"]:
        ready = set(oracles.ready_order(g))
        if shown_tasks != ready:
            ctx.violation("C19 --ready does not show exactly the ready tasks", "shown %s ready %s" % (sorted(shown_tasks), sorted(ready)), {"trace": trace + [info]}); return True
    if "--ready" in args and not shown_tasks and not any(s_ in text for s_ in ("No ready tasks.", "No ready tasks in this epic.", "No tasks in this epic.", "No tasks.")):
        ctx.violation("C19 empty view prints nothing", "%s shows no task and none of the documented sentences: %r" % (name, text[:160]), {"trace": trace + [info]}); return True
    if not rows:
        sentences = ("No tasks.", "No ready tasks.", "No active tasks.", "No epics.", "No tasks in this epic.", "No ready tasks in this epic.")
        if not any(s in text for s in sentences) and (args != [] or live_tasks):
            ctx.violation("C19 empty view prints nothing", "%s printed no row and none of the documented sentences: %r" % (name, text[:120]), {"trace": trace + [info]}); return True
    return False


def summary_check(ctx, st, g, trace):
    """counts printed by the summary line = tasks per bucket in the view's scope"""
    views = [(["--all"], "all", None), ([], "active", None), (["--ready"], "ready", None)]
    # the same three views scoped to an epic: the counts are those of the epic's own tasks, each judged in the *whole* graph (an epic that waits
    # for another epic has no ready task, whatever the scoped view leaves out)
    for e in [t["id"] for t in g["tasks"] if t["is_epic"]][:6]:
        # (the tree of one epic lists all of its tasks, finished ones included, with or without --all: that is the view's scope)
        views += [(["--epic", e, "--all"], "all", e), (["--epic", e], "all", e), (["--epic", e, "--ready"], "ready", e)]
    for args, scope, epic in views:
        r = st.exec(["list", *args])          # not quiet: summary included
        text = ANSI.sub("", r["stdout"])
        m = re.findall(r"(\d+) (ready|in progress|blocked|error|done|canceled)", text.split("\n\n")[-1] if "\n\n" in text else text)
        got = {k: int(n) for n, k in m}
        tasks = [t for t in g["tasks"] if not t["is_epic"] and (epic is None or t.get("epic_id") == epic)]
        def bucket(t):
            if t["st"] == "todo": return "ready" if oracles.ready_spec(g, t) else "blocked"
            return {"doing": "in progress", "blocked": "blocked", "error": "error", "done": "done", "canceled": "canceled"}[t["st"]]
        if scope == "active": tasks = [t for t in tasks if t["st"] not in ("done", "canceled")]
        if scope == "ready": tasks = [t for t in tasks if oracles.ready_spec(g, t)]
        want = {}
        for t in tasks:
            want[bucket(t)] = want.get(bucket(t), 0) + 1
        ctx.count(1, key=("summary", scope, epic is not None, tuple(sorted(want))))
        if tasks and got and got != want and not (scope == "ready" and not tasks):
            ctx.violation("C19 summary counts (%s view%s)" % (scope, ", one epic" if epic else ""), "printed %s, tasks per bucket %s" % (got, want), {"trace": trace + [{"argv": ["list"] + args}]}); return True
    return False


def special_cases(ctx):
    st = cmdrun.Store(ctx.ergo, ctx.go)
    try:
        a = json.loads(st.exec(["--json", "new", "task"], json.dumps({"title": "é" * 21}).encode())["stdout"])["id"]
        b = json.loads(st.exec(["--json", "new", "task"], json.dumps({"title": "waits"}).encode())["stdout"])["id"]
        st.exec(["--json", "sequence", a, b])
        nl = json.loads(st.exec(["--json", "new", "task"], json.dumps({"title": "first line\nsecond line"}).encode())["stdout"])["id"]
        g = st.graph()["graph"]
        trace = [{"setup": "task with a 21×'é' title blocking another; task whose title contains a newline"}]
        ctx.count(1, key="special:multibyte-blocker+newline")
        for w in (None, 60, 100):
            if check_view(ctx, st, g, ["--all"], w, trace):
                return
    finally:
        st.close()


def run(ctx):
    res = fndiff.run_stream(ctx.ev, ["fn-render", str(ctx.seed + 1900), "1500" if ctx.quick else "20000"])
    ctx.tie("T2-fn formatTreeLine/truncateToWidth/abbreviate/buildListRoots/topoSort/computeStats", cases=res["cases"], disagreements=len(res["diffs"]))
    ctx.count(res["cases"])
    for d in res["diffs"][:3]:
        ctx.tie_broken("T2-fn render", {"first_difference": fndiff.first_difference(d["go"], d["model"]), "width": d["req"]["width"]})
    special_cases(ctx)
    r = gen.Rng(ctx.seed * 1000003 + 19)
    widths = [None, 14, 16, 20, 40, 80, 132, 240]
    for h in range(9 if ctx.quick else 80):
        st = profile_store(ctx) if h == 0 else epic_dep_store(ctx) if h == 1 else blocker_store(ctx, r.fork()) if h == 2 else half_claim_store(ctx) if h == 3 else build_store(ctx, r.fork())
        try:
            g = st.graph()["graph"]
            trace = list(st.cmds)
            stop = False
            epics_ = [t["id"] for t in g["tasks"] if t["is_epic"]][:2]
            for args in [[], ["--all"], ["--ready"], ["--epics"]] + [["--epic", e_, "--ready"] for e_ in epics_]:
                for w in (widths if not ctx.quick else ([None, 60, 80, 100, 132] if h == 2 else [None, r.pick([14, 15, 16, 17, 20, 24]), r.pick([40, 60, 80]), r.pick([100, 132, 240])])):
                    ctx.count(1, key=(" ".join(args), w))
                    if check_view(ctx, st, g, args, w, trace):
                        stop = True; break
                if stop: break
            if not stop:
                summary_check(ctx, st, g, trace)
        finally:
            st.close()
    ctx.cov["rule"] = ("summary counts also for --epic E views; a store whose only open task is todo-with-claimant (torn claim): every --ready view prints its sentence; a result line under a row; generated cells × widths → Go formatTreeLine/truncateToWidth/abbreviate and replayed graphs → buildListRoots rows/topoSort/computeStats vs the Lean model; "
                       "real `list` (default, --all, --ready, --epics) on a pty of widths 14…240 and on a pipe, for stores with wide/combining/multi-byte titles and agent names, blockers, "
                       "epic dependencies: UTF-8 validity, row width = W−2 and id column (for W ≥ prefix+icon+12), one row per item, glyphs/nesting, view membership, summary counts, empty sentences")
    ctx.assumptions += ["display width as go-runewidth computes it; result-URL lines (`→ file://…`) are not item rows", "what a terminal does with zero-width/ambiguous characters is outside the check"]


def replay(ctx, doc):
    print(json.dumps(doc["replay"], indent=1)[:2000])
    return 0
