"""C02 — concurrent commands are serializable; acknowledged writes are never lost."""
import json, os
from .. import common, framework, fndiff, cmdrun, gen, oracles, strace, crash, sched, explore2

KINDS = {"new_task": 22, "set": 22, "claim": 8, "claim_oldest": 10, "sequence": 12, "sequence_rm": 4, "plan": 8, "prune_yes": 6, "compact": 4, "new_epic": 4}


def pick_cmd(ctx, r, v, tag):
    req, agent = gen.gen_request(r, v, KINDS)
    req = cmdrun.classify_raw(ctx.go, req)
    if req["cmd"] in ("new_task", "new_epic") and req.get("json"):
        req["json"]["title"] = "%s %s" % (tag, req["json"].get("title") or "t")
    return req, (agent or "ag-" + tag)


def lines_valid(data):
    if data and not data.endswith(b"\n"):
        return "log does not end in a newline"
    for i, l in enumerate(data.split(b"\n")[:-1], 1):
        try:
            json.loads(l)
        except Exception:
            return "line %d is not a JSON value: %r" % (i, l[:80])
    return None


def parked_pairs(ctx, r, big=0):
    base, v, trace = crash.build_state(ctx, r, 8 + r.n(8), big=big)
    try:
        reqA, agA = pick_cmd(ctx, r, v, "A")
        reqB, agB = pick_cmd(ctx, r, v, "B")
        envA = {"VERIF_RAND": str(r.next() % (1 << 40))}; envB = {"VERIF_RAND": str(r.next() % (1 << 40))}
        argvA, stdinA = cmdrun.argv_of(reqA, agA), cmdrun.stdin_of(reqA)
        argvB, stdinB = cmdrun.argv_of(reqB, agB), cmdrun.stdin_of(reqB)
        solo = crash.clone(base)
        try:
            rcA, _, _, steps = strace.run(solo, argvA, stdinA, env=envA)
            afterA = solo.graph()
        finally:
            solo.close()
        held = [i for i, s in enumerate(steps, 1) if any(x["call"] == "flock" and "LOCK_EX" in x.get("flags", []) and x["ret"] == "0" for x in steps[:i])
                and not any(x["call"] == "flock" and "LOCK_UN" in x.get("flags", []) for x in steps[:i])]
        if not held:
            return
        pts = strace.kill_points(steps)
        for k in ([held[0], held[len(held) // 2], held[-1]] if ctx.quick else held):
            c = crash.clone(base)
            pk = None
            try:
                pk = sched.Parked(c, argvA, stdinA, pts[k - 1], env=envA)
                if not pk.parked:
                    pk.wait(5); pk = None
                    continue
                if not sched.holds_lock(pk.steps_at_park):     # stopped later than addressed (see sched.Parked): not a "lock held" schedule
                    ctx.count(1, key=("skipped: parked outside the locked region",)); pk.resume(); pk = None
                    continue
                before = c.log_bytes()
                rb = c.exec(argvB, stdinB, env=envB, timeout=10)
                mid = c.log_bytes()
                step = {"A": argvA, "A_stdin": (stdinA or b"").decode("utf-8", "replace")[:200], "B": argvB, "B_stdin": (stdinB or b"").decode("utf-8", "replace")[:200],
                        "schedule": "A parked after %s holding the lock; B runs; A resumes" % (strace.summarize(pk.steps_at_park)[-1:],)}
                ctx.count(1, key=(reqA["cmd"], reqB["cmd"], strace.summarize(pk.steps_at_park)[-1]))
                if rb.get("timeout"):
                    ctx.violation("C02 command blocks waiting for the lock (%s)" % reqB["cmd"], "B did not return within 10 s", {"trace": trace + [step]}); return
                pre_lock_fail = rb["exit"] != 0 and "lock busy" not in rb["stderr"]     # validation errors happen before the lock
                if not pre_lock_fail and not (rb["exit"] == 1 and "lock busy" in rb["stderr"]):
                    pk._reached()          # read A's trace once more: if it shows the unlock by now, A was not where we thought (see sched.Parked)
                    if not sched.holds_lock(pk.steps_at_park):
                        ctx.count(1, key=("skipped: parked outside the locked region",)); pk.resume(); pk = None
                        continue
                    ctx.violation("C02 second writer admitted while the lock is held (%s ∥ %s)" % (reqA["cmd"], reqB["cmd"]),
                                  "B: exit %s %s" % (rb["exit"], (rb["stdout"] + rb["stderr"]).strip()[:120]), {"trace": trace + [step]}); return
                if mid != before:
                    ctx.violation("C02 a failed command wrote (%s)" % reqB["cmd"], "B exited %s but the log changed while A held the lock" % rb["exit"], {"trace": trace + [step]}); return
                ra = pk.resume(); pk = None
                if ra.get("tracer_error"):      # strace itself failed: the run says nothing about ergo
                    ctx.count(1, key=("skipped: tracer error",)); continue
                if ra["exit"] == -9:
                    # the harness gave up waiting for the resumed process and killed it (a lost SIGCONT / ptrace hiccup on a loaded machine): no verdict.
                    # (a command that really blocks on the lock is caught above: B runs untraced with a 10 s limit)
                    ctx.count(1, key=("skipped: resumed process did not finish, killed by the harness",)); continue
                g = c.graph()
                bad = lines_valid(c.log_bytes())
                if bad or "err" in g:
                    ctx.violation("C02 log is not whole JSON lines", bad or g.get("err", "")[:200], {"trace": trace + [step]}); return
                if (ra["exit"] == 0) != (rcA == 0) or ("graph" in afterA and crash.timeless(g["graph"]) != crash.timeless(afterA["graph"])):
                    ctx.violation("C02 outcome differs from running the successful command alone (%s)" % reqA["cmd"],
                                  "A alone: exit %s; A with a refused B in between: exit %s; state differs: %s" % (rcA, ra["exit"], fndiff.first_difference(crash.timeless(afterA["graph"]), crash.timeless(g["graph"]))),
                                  {"trace": trace + [step]}); return
            finally:
                if pk is not None:
                    pk.kill()
                c.close()
    finally:
        base.close()


def marked_cmd(r, v, i, used_pairs):
    """a command whose every write is attributable to process i (unique agent / title marker / edge)"""
    tag = "P%d" % i
    ag = "ag-" + tag
    todo = [t for t in v.tasks if v.by_id[t]["st"] == "todo"]
    kinds = [("new", 25), ("new+state", 10), ("claim_oldest", 20), ("prune", 6)]
    if v.tasks:
        kinds += [("set", 25), ("claim_id", 10)]
    if len(v.tasks) >= 2:
        kinds += [("sequence", 12)]
    k = r.weighted(kinds)
    if k == "new":
        return {"cmd": "new_task", "piped": True, "body_stdin": False, "flags": {}, "json": {"title": tag + " new", "body": "b"}}, ag
    if k == "new+state":
        return {"cmd": "new_task", "piped": True, "body_stdin": False, "flags": {}, "json": {"title": tag + " new", "state": r.pick(["doing", "blocked", "done"])}}, ag
    if k == "set":
        d = {"title": tag + " retitled"}
        if r.p(50):
            d["state"] = r.pick(gen.STATES)
        return {"cmd": "set", "id": r.pick(v.tasks), "piped": True, "body_stdin": False, "flags": {}, "json": d}, ag
    if k == "claim_id":
        return {"cmd": "claim", "id": r.pick(todo or v.tasks)}, ag
    if k == "claim_oldest":
        return {"cmd": "claim_oldest", "epic": ""}, ag
    if k == "prune":
        return {"cmd": "prune", "yes": True}, ag
    for _ in range(10):
        a, b = r.pick(v.tasks), r.pick(v.tasks)
        if a != b and (a, b) not in used_pairs and (b, a) not in used_pairs:
            used_pairs.add((a, b))
            return {"cmd": "sequence", "args": [a, b]}, ag
    return {"cmd": "claim_oldest", "epic": ""}, ag


def owner_of(ev, cmds):
    d = ev["data"]
    for i, (req, ag, _) in enumerate(cmds):
        tag = "P%d" % i
        if ev["type"] in ("new_task", "new_epic", "title") and str(d.get("title", "")).startswith(tag + " "): return i
        if ev["type"] in ("claim", "tombstone") and d.get("agent_id") == ag: return i
        if ev["type"] == "link" and req["cmd"] == "sequence" and [d.get("to_id"), d.get("from_id")] == req["args"]: return i
    return None


def free_mix(ctx, r):
    """several self-identifying commands started together; equivalent to the successful ones run one at a time in log order"""
    import subprocess, tempfile
    base, v, trace = crash.build_state(ctx, r, 8 + r.n(8))
    try:
        n = 2 + r.n(4)
        used = set()
        cmds = []
        for i in range(n):
            req, ag = marked_cmd(r, v, i, used)
            cmds.append((req, ag, {"VERIF_RAND": str(r.next() % (1 << 40))}))
        twin = crash.clone(base)
        try:
            pre = base.log_bytes()
            procs = []
            for req, ag, env in cmds:
                e = dict(os.environ); e.update(env)
                stdin = cmdrun.stdin_of(req)
                f = None
                if stdin is not None:
                    f = tempfile.TemporaryFile(); f.write(stdin); f.seek(0)
                procs.append(subprocess.Popen([base.bin, *cmdrun.argv_of(req, ag)], cwd=base.root, stdin=(f or subprocess.DEVNULL), stdout=subprocess.PIPE, stderr=subprocess.PIPE, env=e))
            results = []
            for p in procs:
                so, se = p.communicate(timeout=30)
                results.append({"exit": p.returncode, "stdout": so.decode("utf-8", "replace"), "stderr": se.decode("utf-8", "replace")})
            step = {"concurrent": [cmdrun.argv_of(q, a) + ([json.dumps(q["json"])] if q.get("json") else []) for q, a, _ in cmds], "exits": [x["exit"] for x in results]}
            ctx.count(1, key=("free", tuple(sorted(q["cmd"] for q, _, _ in cmds)), tuple(x["exit"] == 0 for x in results)))
            data = base.log_bytes()
            bad = lines_valid(data)
            if bad or not data.startswith(pre):
                ctx.violation("C02 log is not whole JSON lines / earlier bytes overwritten", bad or "prefix changed", {"trace": trace + [step]}); return
            evs = [json.loads(l) for l in data[len(pre):].split(b"\n")[:-1]]
            # one write per command: a batch is a maximal run of lines with one envelope timestamp
            batches = []
            for ev in evs:
                if batches and batches[-1][0] == ev["ts"]:
                    batches[-1][1].append(ev)
                else:
                    batches.append((ev["ts"], [ev]))
            order = []
            for ts, group in batches:
                owners = {owner_of(ev, cmds) for ev in group} - {None}
                if len(owners) != 1:
                    ctx.violation("C02 two writers' lines interleave" if len(owners) > 1 else "C02 unattributable lines in the log",
                                  "a batch of lines written at %s belongs to writers %s" % (ts, sorted(owners)), {"trace": trace + [step], "batch": group}); return
                o = owners.pop()
                if o in order:
                    ctx.violation("C02 a writer's lines are split", "writer P%d wrote two separate batches" % o, {"trace": trace + [step]}); return
                if results[o]["exit"] != 0:
                    ctx.violation("C02 a failed command contributed", "P%d exited %s but its lines are in the log" % (o, results[o]["exit"]), {"trace": trace + [step]}); return
                order.append(o)
            rest = [i for i in range(n) if results[i]["exit"] == 0 and i not in order]       # acknowledged without writing (no_ready, empty prune)
            for i in range(n):
                if results[i]["exit"] != 0 and "lock busy" not in results[i]["stderr"] and cmdrun.classify_stderr(results[i]["stderr"]) is None:
                    ctx.violation("C02 unexplained failure", results[i]["stderr"][:200], {"trace": trace + [step]}); return
            # serial twin: acknowledged writers in log order; the ones that wrote nothing are tried at every position implicitly by running them last
            for i in order + rest:
                req, ag, env = cmds[i]
                rt = twin.exec(cmdrun.argv_of(req, ag), cmdrun.stdin_of(req), env=env)
                if rt["exit"] != 0 and i in order:
                    ctx.violation("C02 no serial order explains the outcome", "P%d succeeded concurrently but fails in the serial order given by the log (%s)" % (i, rt["stderr"].strip()[:100]),
                                  {"trace": trace + [step]}); return
            ga, gt = base.graph(), twin.graph()
            if "err" in ga or "err" in gt:
                ctx.violation("C02 store unreadable after concurrent commands", str((ga.get("err"), gt.get("err")))[:300], {"trace": trace + [step]}); return
            ta, tt = crash.timeless(ga["graph"]), crash.timeless(gt["graph"])
            if ta != tt and not rest:
                ctx.violation("C02 concurrent result differs from the serial run of the acknowledged commands",
                              "first difference (serial vs concurrent): %s; exits %s" % (fndiff.first_difference(tt, ta), step["exits"]), {"trace": trace + [step]}); return
        finally:
            twin.close()
    finally:
        base.close()


def init_races(ctx, r, prop="C02", layouts=None):
    """`init` is one of the commands C02 quantifies over: on every layout of `.ergo/` (log and lock present or not, legacy name) it is
    parked after each of its calls on the store's names (stat calls included: it looks, then acts) while a writer runs to completion,
    and the other way round.  Whatever was acknowledged must be in effect afterwards: the items of the final store are those of a
    twin on which only the writer ran (init adds and hides nothing), and the log is whole lines."""
    calls = strace.CALLS + "," + strace.STAT_CALLS
    def layout(name):
        st = cmdrun.Store(ctx.ergo, ctx.go, legacy=(name == "legacy"))
        if name in ("two-tasks", "legacy", "two-tasks, no lock"):
            st.exec(["--json", "new", "task"], b'{"title":"kept 1"}')
            st.exec(["--json", "new", "task"], b'{"title":"kept 2","state":"blocked"}')
        if name in ("lock only", "bare"):
            os.unlink(st.log_path())
        if name in ("bare", "two-tasks, no lock"):
            os.unlink(os.path.join(st.dir, "lock"))
        return st
    def view(st):
        a = st.exec(["--json", "list", "--all"])
        if a["exit"] != 0:
            return ("list fails", a["exit"], a["stderr"].strip()[:200])
        return sorted((i["kind"], i["title"], i["state"]) for i in json.loads(a["stdout"]))
    writers = [("new-task", ["--json", "new", "task"], b'{"title":"acknowledged"}'),
               ("plan", ["--json", "plan"], b'{"title":"P","tasks":[{"title":"p1"},{"title":"p2","after":["p1"]}]}'),
               ("compact", ["--json", "compact"], None)]
    for name in (layouts or ("lock only", "bare", "two-tasks", "legacy", "two-tasks, no lock")):
        base = layout(name)
        try:
            for wname, wargv, wstdin in writers:
                twin = crash.clone(base)
                try:
                    tw = twin.exec(wargv, wstdin)
                    want = view(twin)
                finally:
                    twin.close()
                if tw["exit"] != 0:
                    continue
                for who in ("init parked", "writer parked"):
                    solo = crash.clone(base)
                    try:
                        aargv = ["init", solo.root] if who == "init parked" else wargv
                        _, _, _, steps = strace.run(solo, aargv, None if who == "init parked" else wstdin, calls=calls)
                    finally:
                        solo.close()
                    if who == "init parked":
                        # T3: init takes no lock, so its program must be harmless at every point of every other program: nothing written, truncated,
                        # renamed or removed; a missing file created without O_TRUNC (Program.readerOK; C02_init_between_any_two_calls_changes_nothing)
                        sh = strace.shape(ctx.model, steps)
                        ctx.tie_tally("T3 init program (Program.readerOK)", " ".join(strace.summarize(steps)))
                        if not sh["reader"]:
                            ctx.tie_broken("T3 init program (%s)" % name, {"program": strace.summarize(steps),
                                           "expected": "no lock, no write, no truncation: missing files created with O_CREAT and without O_TRUNC"})
                    pts = strace.kill_points(steps)
                    for pt in pts:
                        c = crash.clone(base)
                        pk = None
                        try:
                            aargv, astdin = (["init", c.root], None) if who == "init parked" else (wargv, wstdin)
                            bargv, bstdin = (wargv, wstdin) if who == "init parked" else (["init", c.root], None)
                            pk = sched.Parked(c, aargv, astdin, pt, calls=calls)
                            if not pk.parked:
                                pk.wait(5); pk = None
                                continue
                            at = (strace.summarize(pk.steps_at_park) or ["-"])[-1]
                            rb = c.exec(bargv, bstdin, timeout=10)
                            ra = pk.resume(); pk = None
                            if ra.get("tracer_error") or ra["exit"] == -9:
                                ctx.count(1, key=("skipped: tracer",)); continue
                            ctx.count(1, key=("init-race", name, wname, who, at))
                            rw, ri = (rb, ra) if who == "init parked" else (ra, rb)
                            step = {"layout of .ergo/": name, "A (parked after %s)" % at: aargv[:1] + ["<dir>"] if who == "init parked" else aargv, "B (runs to completion meanwhile)": bargv[:1] + ["<dir>"] if who != "init parked" else bargv,
                                    "writer_stdin": (wstdin or b"").decode(), "writer_exit": rw["exit"], "writer_stderr": rw["stderr"].strip()[:200], "init_exit": ri["exit"]}
                            if rb.get("timeout"):
                                ctx.violation(prop + " command blocks (init ∥ %s)" % wname, "B did not return within 10 s", {"trace": [step]}); return
                            busy = rw["exit"] == 1 and "lock busy" in rw["stderr"]
                            got = view(c)
                            lp = c.log_bytes()
                            if lp and not lp.endswith(b"\n"):
                                ctx.violation(prop + " log does not end in a newline after init ∥ %s" % wname, "layout %s, %s after %s" % (name, who, at), {"trace": [step]}); return
                            if rw["exit"] == 0 and got != want:
                                ctx.violation(prop + " acknowledged write lost: init ∥ %s (%s)" % (wname, name),
                                              "%s after %s; the writer exited 0, afterwards the store shows %s instead of %s" % (who, at, json.dumps(got)[:300], json.dumps(want)[:300]), {"trace": [step]}); return
                            if not busy and rw["exit"] != 0 and cmdrun.classify_stderr(rw["stderr"]) is None:
                                ctx.violation(prop + " writer fails beside init (%s, %s)" % (wname, name), "%s after %s: exit %s %s" % (who, at, rw["exit"], rw["stderr"].strip()[:200]), {"trace": [step]}); return
                            if ri["exit"] != 0:
                                ctx.violation(prop + " init fails beside a writer (%s, %s)" % (wname, name), "%s after %s: exit %s %s" % (who, at, ri["exit"], ri["stderr"].strip()[:200]), {"trace": [step]}); return
                        finally:
                            if pk is not None:
                                pk.kill()
                            c.close()
        finally:
            base.close()


def finish_then_prune(ctx):
    """a command that finishes a task, parked after each of its calls, while `prune --yes` runs to completion, and the same with `claim <id>` against a
    `set` that takes the task away: exits, final state and replies must be those of the two commands run one after the other in the order of their
    lines in the log (a reply built from a read after the unlock would speak about a store the other command has already changed)"""
    J = lambda d: {"piped": True, "body_stdin": False, "flags": {}, "json": d}
    for variant in ("set done ∥ prune", "claim <id> ∥ set canceled"):
        st = cmdrun.Store(ctx.ergo_verif, ctx.go)
        trace = []
        def do(argv, stdin, rand):
            env = {"VERIF_RAND": str(rand)}
            rr = st.exec(argv, stdin, env=env)
            trace.append({"argv": argv, "stdin": None if stdin is None else stdin.decode(), "env": env})
            return rr
        try:
            x = json.loads(do(["--json", "new", "task"], b'{"title":"X"}', 301)["stdout"])["id"]
            do(["--json", "new", "task"], b'{"title":"another"}', 302)
            if variant == "set done ∥ prune":
                do(["--json", "--agent", "ag-P0", "claim", x], None, 303)
                cmds = [(dict(cmd="set", id=x, **J({"title": "P0 finished", "state": "done"})), "ag-P0", {"VERIF_RAND": "311"}),
                        ({"cmd": "prune", "yes": True}, "ag-P1", {"VERIF_RAND": "312"})]
            else:
                cmds = [({"cmd": "claim", "id": x}, "ag-P0", {"VERIF_RAND": "311"}),
                        (dict(cmd="set", id=x, **J({"title": "P1 canceled", "state": "canceled"})), "ag-P1", {"VERIF_RAND": "312"})]
            if explore2.explore_fixed(ctx, "C02", st, cmds, trace, labels=tuple(variant.split(" ∥ ")), with_stat=False, b_modes=("complete",)) == "violation":
                return
        finally:
            st.close()


def run(ctx):
    import os
    os.environ["GOGC"] = "1"      # stress the Go runtime: collections (and finalizers) inside every lock section
    framework.check_facts(ctx, ctx.facts, ["with_lock", "lock_sites", "writer_calls", "sections", "open_sites"])
    # T3: every mutating command kind: one exclusive non-blocking lock around read…write, nothing after unlock but the optional reply read
    st = cmdrun.Store(ctx.ergo, ctx.go)
    try:
        a = json.loads(st.exec(["--json", "new", "task"], b'{"title":"a"}')["stdout"])["id"]
        b = json.loads(st.exec(["--json", "new", "task"], b'{"title":"b"}')["stdout"])["id"]
        progs = {}
        for name, argv, stdin in [("new", ["--json", "new", "task"], b'{"title":"c","state":"blocked"}'), ("set", ["--json", "set", a], b'{"title":"x","state":"done"}'),
                                  ("claim-id", ["--json", "--agent", "k", "claim", b], None), ("claim", ["--json", "--agent", "k", "claim"], None),
                                  ("sequence", ["--json", "sequence", a, b], None), ("plan", ["--json", "plan"], b'{"title":"P","tasks":[{"title":"t"}]}'),
                                  ("prune", ["--json", "prune", "--yes"], None), ("prune-dry", ["--json", "prune"], None), ("compact", ["--json", "compact"], None)]:
            rc, _, _, steps = strace.run(st, argv, stdin)
            prog = strace.summarize(steps); progs[name] = prog
            ctx.count(1, key=("T3-writer", name))
            lok, toks, end = strace.lock_program_ok(ctx.model, steps)
            ctx.count(1, key=("T3-lock automaton", name, " ".join(toks))); ctx.tie_tally("T3 lock automaton (LockFile.acquireOK)", " ".join(toks))
            if not lok:
                ctx.tie_broken("T3 lock acquisition " + name, {"lock_calls": toks, "automaton_ends_in": end, "expected": "open+ flock+ unlock (LockFile.next)"})
            locks = [s for s in steps if s["call"] == "flock"]
            ok = (len(locks) == 2 and sorted(locks[0].get("flags", [])) == ["LOCK_EX", "LOCK_NB"] and locks[1].get("flags") == ["LOCK_UN"])
            i_lock = steps.index(locks[0]) if locks else 0; i_un = steps.index(locks[1]) if len(locks) > 1 else len(steps)
            writes = [i for i, s in enumerate(steps) if s["call"] in ("write", "rename", "renameat", "renameat2", "ftruncate") and s["obj"] in ("log", "tmp", "tmp->log")]
            reads = [i for i, s in enumerate(steps) if s["call"] in ("read", "pread64") and s["obj"] == "log"]
            ok = ok and all(i_lock < i < i_un for i in writes) and (not writes or any(i_lock < i < writes[0] for i in reads))
            appends = [s for s in steps if s["call"] == "openat" and s["obj"] == "log" and "O_APPEND" in s.get("flags", [])]
            if any(s["call"] == "write" and s["obj"] == "log" for s in steps):
                ok = ok and len(appends) == 1 and sum(1 for s in steps if s["call"] == "write" and s["obj"] == "log") == 1
            sh = strace.shape(ctx.model, steps)
            ok = ok and sh["writer"] and (sh["abstract"][-1:] == ["unlock"])
            if not ok:
                ctx.tie_broken("T3 writer program " + name, {"program": prog, "expected": "flock(LOCK_EX|LOCK_NB) … read(log) … one write / tmp+rename … flock(LOCK_UN), all writes inside"})
        ctx.tie("T3 writer programs", **progs)
        # the same on a store whose lock file is missing: it is created in place (writerOK forbids giving the lock's name to another file:
        # ErgoProofs C02_lock_file_keeps_its_identity)
        for name, argv, stdin in [("new", ["--json", "new", "task"], b'{"title":"d"}'), ("claim", ["--json", "--agent", "k2", "claim"], None), ("compact", ["--json", "compact"], None)]:
            try:
                os.unlink(os.path.join(st.dir, "lock"))
            except OSError:
                pass
            rc, _, _, steps = strace.run(st, argv, stdin, calls=strace.CALLS + "," + strace.STAT_CALLS)
            sh = strace.shape(ctx.model, steps)
            ctx.count(1, key=("T3-writer, lock file missing", name))
            if rc == 0 and not sh["writer"]:
                ctx.tie_broken("T3 writer program %s (lock file missing)" % name, {"program": strace.summarize(steps), "expected": "the lock file created in place, then the usual lock section"})
            # the calls on the lock file follow the automaton of ErgoModel.LockFile (C02_one_process_inside_whatever_the_lock_file speaks about its runs)
            ok, toks, end = strace.lock_program_ok(ctx.model, steps)
            ctx.count(1, key=("T3-lock automaton, lock file missing", name, " ".join(toks))); ctx.tie_tally("T3 lock automaton (LockFile.acquireOK)", " ".join(toks))
            if not ok:
                ctx.tie_broken("T3 lock acquisition %s (lock file missing)" % name, {"lock_calls": toks, "automaton_ends_in": end,
                               "expected": "open- stat- creat open+ flock+ unlock (LockFile.next)"})
    finally:
        st.close()
    init_races(ctx, gen.Rng(ctx.seed * 1000003 + 202))
    finish_then_prune(ctx)
    r = gen.Rng(ctx.seed * 1000003 + 2)
    for i in range(7 if ctx.quick else 150):
        parked_pairs(ctx, r.fork(), big=(400 if i % 3 == 1 else 0))
    for i in range(14 if ctx.quick else 400):
        free_mix(ctx, r.fork())
    # two-process schedules with A parked before, inside and after its lock section
    a_kinds = ["compact", "plan", "prune", "claim_oldest", "sequence", "set+state", "new+state", "claim_id"]
    for i in range(8 if ctx.quick else 200):
        # every fourth on a log of several hundred KB: with GOGC=1 the runtime collects (and runs finalizers) inside the lock section
        explore2.explore(ctx, "C02", r.fork(), kindsA=(a_kinds[i % len(a_kinds)],), kindsB=("new", "set", "reopen", "claim_oldest", "set+state"),
                         max_points=(5 if ctx.quick else 40), big=(400 if i % 4 == 1 else 0))
    # any writer against the two commands that replace the log file, on a store whose log still has the legacy name: the name a writer
    # resolved before it got the lock must still be the log when it writes
    for i in range(4 if ctx.quick else 80):
        explore2.explore(ctx, "C02", r.fork(), kindsA=(["new", "set+state", "claim_oldest", "sequence", "plan", "compact", "prune", "claim_id"][i % 8],), kindsB=("compact", "plan"),
                         max_points=(5 if ctx.quick else 40), legacy=True, b_modes=("complete",))
    # two writers of every kind on a store whose log ends in a killed writer's fragment (the first to write replaces the file) or whose lock file is missing
    rt = gen.Rng(ctx.seed * 1000003 + 203)
    for i in range(4 if ctx.quick else 80):
        ka = (["new", "set+state", "claim_oldest", "new+state", "sequence", "prune"][i % 6],)
        kb = ("new", "new+state") if i % 2 == 0 else ("new", "set", "claim_oldest", "new+state")
        explore2.explore(ctx, "C02", rt.fork(), kindsA=ka, kindsB=kb, max_points=(8 if ctx.quick else 40), state_cmds=8,
                         torn=(i % 3 != 2), missing_lock=(i % 3 == 2), with_stat=(i % 3 == 2))
    # an acknowledged write is in the log: when the operating system refuses or cuts short the write (ENOSPC, EIO, file size limit), the command
    # must not report success — the next command would decide on a state its predecessor was told it had changed
    from . import c10
    rf = gen.Rng(ctx.seed * 1000003 + 202)
    for i in range(3 if ctx.quick else 40):
        c10.io_faults(ctx, rf.fork(), prop="C02", torn=(i % 3 == 2))
    ctx.cov["rule"] = ("init ∥ writer on five layouts of .ergo/ (log and lock present or not, legacy name) with either one parked after each of its calls (stat calls included): acknowledged work in effect afterwards; every process's calls on the lock file through the automaton of ErgoModel.LockFile; system-call programs of every writer kind (one exclusive non-blocking flock; the log read after it and before the single write / tmp+rename; unlock last); pairs of "
                       "generated commands A ∥ B with A parked (strace SIGSTOP) at first/middle/last (thorough: every) point while holding the lock: B must fail fast with lock busy and write nothing, "
                       "A's outcome must equal A alone; 2–5 commands started together: whole JSON lines, no interleaving, and the final state equals the acknowledged commands run one at "
                       "a time in log order on a twin store with the same scripted RNG")
    ctx.assumptions += ["flock(2) semantics of a local file system on one host", "O_APPEND writes land at end of file"]


def replay(ctx, doc):
    print(json.dumps(doc["replay"], indent=1)[:2500])
    return 0
