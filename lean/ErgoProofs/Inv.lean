/-
  ErgoProofs.Inv — the invariant every CLI-reachable store satisfies, and the environment assumptions
  (clock readings never run backwards, ids are not empty) under which it is preserved.
-/
import ErgoProofs.Lemmas.Compact
import ErgoProofs.Lemmas.ReplayInv
import ErgoProofs.Lemmas.SetTask
import ErgoProofs.Lemmas.Reach
namespace Ergo

/-- every clock reading stored in an item -/
def Task.times (t : Task) : List Time :=
  [t.createdAt, t.updatedAt, t.lastState, t.lastClaim, t.lastTitle, t.lastBody, t.lastEpic] ++ t.results.map (·.time)

/-- everything the property theorems need of a store, in one invariant (stated on the raw replay `replayRaw`) -/
structure AllInv (g : Graph) : Prop where
  ok    : GraphOK g
  epic0 : ∀ t ∈ g.tasks, t.isEpic = true → t.lastEpic = 0
  i06   : Inv06 g
  i07   : Inv07 g
  i14   : Inv14 g
  ids   : ∀ t ∈ g.tasks, t.id ≠ ""

/-- what is assumed of the environment of one command run on store `g`: the RNG never yields the empty id, and the
    clock readings it takes are positive and not earlier than any reading already stored (no power-loss / clock-step model) -/
structure EnvOK (g : Graph) (env : Env) : Prop where
  ids_ne : ∀ i ∈ env.ids, i ≠ ""
  enough : env.times ≠ []
  pos    : ∀ n ∈ env.times, 0 < n
  later  : ∀ t ∈ g.tasks, ∀ x ∈ t.times, ∀ n ∈ env.times, x ≤ n

/-- one lock section keeps the invariant (the proof obligation per section kind) -/
def SecStepOK (sec : Sec) : Prop :=
  ∀ (log : List Event) (g : Graph) (env : Env) (w : Write) (out : SecOut),
    replayRaw log = .ok g → AllInv g → EnvOK g env → runSec log env sec = .ok (w, out) →
    ∃ g', replayRaw (applyWrite log w) = .ok g' ∧ AllInv g'

/-- logs produced from the empty store by any sequence of commands whose environments satisfy `EnvOK` -/
inductive ReachOK : List Event → Prop where
  | init : ReachOK []
  | step {log : List Event} {g : Graph} (env : Env) (req : Request) :
      ReachOK log → replayRaw log = .ok g → EnvOK g env → ReachOK (runCmd log env req).log

/-- with non-blank titles the legacy-title pass is the identity -/
theorem migrate_id_of_ok {g : Graph} (h : GraphOK g) : migrate g = g := by
  have : g.tasks.map migrateTask = g.tasks := by
    have hh : ∀ t ∈ g.tasks, migrateTask t = t := by
      intro t ht
      have := (h.tasks t ht).titled
      simp [migrateTask, this]
    calc g.tasks.map migrateTask = g.tasks.map id := List.map_congr_left (by simpa using hh)
      _ = g.tasks := List.map_id _
  cases g
  simp only [migrate] at *
  simp [this]

theorem replay_eq_raw {log : List Event} {g : Graph} (hr : replayRaw log = .ok g) (h : GraphOK g) : replay log = .ok g := by
  simp [replay, hr, Except.map, migrate_id_of_ok h]

end Ergo
