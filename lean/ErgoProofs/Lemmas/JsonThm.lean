/-
  WP12 — C17: titles and bodies come back exactly as they went in.
  Definitions: ErgoModel/Json.lean (hexDigit, u4, encodeChar, encodeBody, encodeString, hexVal, hex4, scalarOf, lowSurrogate?,
  decodeBody, decodeString), ErgoModel/Text.lean (isSpace, trimLeft, trimRight, trimSpaceL, isBlankL).
  Strings are `List Char`; Lean's `Char` is a Unicode scalar value, i.e. exactly "valid Unicode text".
-/
import ErgoModel.Json
import ErgoModel.Text
namespace Ergo.Json

theorem decodeBody_cons_raw (c : Char) (r : List Char) (hc : c ≠ '\\') :
    decodeBody (c :: r) = if c == '"' || c.toNat < 32 then none else (decodeBody r).map (c :: ·) := by
  rw [decodeBody.eq_def]
  split
  · simp_all
  · simp_all
  · rename_i h; injection h with h1 h2; subst h1; subst h2; rfl

theorem decodeBody_quote (r : List Char) : decodeBody ('\\' :: '"' :: r) = (decodeBody r).map ('"' :: ·) := by
  rw [decodeBody.eq_def]; rfl
theorem decodeBody_bs (r : List Char) : decodeBody ('\\' :: '\\' :: r) = (decodeBody r).map ('\\' :: ·) := by
  rw [decodeBody.eq_def]; rfl
theorem decodeBody_b (r : List Char) : decodeBody ('\\' :: 'b' :: r) = (decodeBody r).map (Char.ofNat 8 :: ·) := by
  rw [decodeBody.eq_def]; rfl
theorem decodeBody_f (r : List Char) : decodeBody ('\\' :: 'f' :: r) = (decodeBody r).map (Char.ofNat 12 :: ·) := by
  rw [decodeBody.eq_def]; rfl
theorem decodeBody_n (r : List Char) : decodeBody ('\\' :: 'n' :: r) = (decodeBody r).map (Char.ofNat 10 :: ·) := by
  rw [decodeBody.eq_def]; rfl
theorem decodeBody_r (r : List Char) : decodeBody ('\\' :: 'r' :: r) = (decodeBody r).map (Char.ofNat 13 :: ·) := by
  rw [decodeBody.eq_def]; rfl
theorem decodeBody_t (r : List Char) : decodeBody ('\\' :: 't' :: r) = (decodeBody r).map (Char.ofNat 9 :: ·) := by
  rw [decodeBody.eq_def]; rfl

theorem decodeBody_u (a b c d : Char) (r : List Char) (n : Nat) (h : hex4 a b c d = some n) (hn : n < 0xD800) : decodeBody ('\\' :: 'u' :: a :: b :: c :: d :: r) = (decodeBody r).map (Char.ofNat n :: ·) := by
  rw [decodeBody.eq_def]
  simp only [h]
  have : ¬ (55296 ≤ n ∧ n < 56320) := by omega
  simp only [this, if_false, scalarOf]
  rw [if_pos (Or.inl hn)]

theorem hexVal_hexDigit : ∀ d : Fin 16, hexVal (hexDigit d.val) = some d.val := by decide

theorem hexDigit_ge : ∀ d : Fin 16, 32 ≤ (hexDigit d.val).toNat := by decide

theorem hex4_u4 (n : Nat) (hn : n < 65536) :
    hex4 (hexDigit (n / 4096 % 16)) (hexDigit (n / 256 % 16)) (hexDigit (n / 16 % 16)) (hexDigit (n % 16)) = some n := by
  have h1 := hexVal_hexDigit ⟨n / 4096 % 16, by omega⟩
  have h2 := hexVal_hexDigit ⟨n / 256 % 16, by omega⟩
  have h3 := hexVal_hexDigit ⟨n / 16 % 16, by omega⟩
  have h4 := hexVal_hexDigit ⟨n % 16, by omega⟩
  simp only at h1 h2 h3 h4
  simp only [hex4, h1, h2, h3, h4, bind, Option.bind, pure]
  congr 1; omega

theorem decodeBody_u4 (c : Char) (r : List Char) (hn : c.toNat < 0xD800) :
    decodeBody (u4 c.toNat ++ r) = (decodeBody r).map (c :: ·) := by
  have := decodeBody_u _ _ _ _ r c.toNat (hex4_u4 c.toNat (by omega)) hn
  rw [Char.ofNat_toNat] at this
  exact this

theorem char_eq_of_toNat (c : Char) (n : Nat) (h : c.toNat = n) : c = Char.ofNat n := by
  subst h; exact (Char.ofNat_toNat c).symm

theorem decodeBody_encodeChar (esc : Bool) (c : Char) (r : List Char) :
    decodeBody (encodeChar esc c ++ r) = (decodeBody r).map (c :: ·) := by
  unfold encodeChar
  simp only
  split
  · rename_i h; have := eq_of_beq h; subst this; exact decodeBody_quote r
  split
  · rename_i h; have := eq_of_beq h; subst this; exact decodeBody_bs r
  split
  · rename_i h; have := char_eq_of_toNat c 8 (eq_of_beq h); subst this; exact decodeBody_b r
  split
  · rename_i h; have := char_eq_of_toNat c 12 (eq_of_beq h); subst this; exact decodeBody_f r
  split
  · rename_i h; have := char_eq_of_toNat c 10 (eq_of_beq h); subst this; exact decodeBody_n r
  split
  · rename_i h; have := char_eq_of_toNat c 13 (eq_of_beq h); subst this; exact decodeBody_r r
  split
  · rename_i h; have := char_eq_of_toNat c 9 (eq_of_beq h); subst this; exact decodeBody_t r
  split
  · rename_i h; exact decodeBody_u4 c r (by omega)
  split
  · rename_i h
    apply decodeBody_u4
    simp only [Bool.and_eq_true, Bool.or_eq_true, beq_iff_eq] at h
    rcases h.2 with (h | h) | h <;> subst h <;> decide
  split
  · rename_i h
    apply decodeBody_u4
    simp only [Bool.or_eq_true, beq_iff_eq] at h
    omega
  · rename_i h1 h2 _ _ _ _ _ h3 _ _
    have h1' : c ≠ '"' := by simpa using h1
    have h2' : c ≠ '\\' := by simpa using h2
    show decodeBody (c :: r) = _
    rw [decodeBody_cons_raw c r h2']
    have : ¬ ((c == '"' || decide (c.toNat < 32)) = true) := by
      simp [h1', h3]
    rw [if_neg this]

theorem decodeBody_encodeBody (esc : Bool) (s : List Char) : decodeBody (encodeBody esc s) = some s := by
  induction s with
  | nil => simp [encodeBody, decodeBody]
  | cons c s ih =>
    unfold encodeBody at *
    rw [List.flatMap_cons, decodeBody_encodeChar, ih]; rfl

/-- every valid Unicode text survives encode → decode, with or without HTML escaping -/
theorem decode_encode (esc : Bool) (s : List Char) : decodeString (encodeString esc s) = some s := by
  unfold encodeString decodeString
  show (match '\"' :: (encodeBody esc s ++ ['\"']) with
    | '\"' :: rest =>
      match rest.reverse with
      | '\"' :: revBody => decodeBody revBody.reverse
      | x => none
    | x => none) = some s
  simp only [List.reverse_append, List.reverse_cons, List.reverse_nil, List.nil_append, List.singleton_append, List.reverse_reverse]
  exact decodeBody_encodeBody esc s

theorem u4_ge (n : Nat) : ∀ c ∈ u4 n, 32 ≤ c.toNat := by
  intro c hc
  simp only [u4, List.mem_cons, List.not_mem_nil, or_false] at hc
  rcases hc with h | h | h | h | h | h <;> subst h
  · decide
  · decide
  · exact hexDigit_ge ⟨n / 4096 % 16, by omega⟩
  · exact hexDigit_ge ⟨n / 256 % 16, by omega⟩
  · exact hexDigit_ge ⟨n / 16 % 16, by omega⟩
  · exact hexDigit_ge ⟨n % 16, by omega⟩

theorem encodeChar_ge (esc : Bool) (x : Char) : ∀ c ∈ encodeChar esc x, 32 ≤ c.toNat := by
  unfold encodeChar
  simp only
  repeat' split
  all_goals first
    | exact u4_ge _
    | (intro c hc
       simp only [List.mem_cons, List.not_mem_nil, or_false] at hc
       first
         | (rcases hc with h | h <;> subst h <;> decide)
         | (subst hc; omega))

/-- the encoded literal contains no control character (in particular no raw newline or carriage return),
    so it can never split a JSONL line -/
theorem encode_no_control (esc : Bool) (s : List Char) : ∀ c ∈ encodeString esc s, 32 ≤ c.toNat := by
  intro c hc
  simp only [encodeString, encodeBody, List.mem_cons, List.mem_append, List.mem_flatMap, List.not_mem_nil, or_false] at hc
  rcases hc with (h | ⟨x, _, h⟩) | h
  · subst h; decide
  · exact encodeChar_ge esc x c h
  · subst h; decide

/-- escaping HTML-significant characters changes the bytes, not the text -/
theorem decode_encode_html_agree (s : List Char) :
    decodeString (encodeString true s) = decodeString (encodeString false s) := by
  rw [decode_encode, decode_encode]

/-- encoding is injective: different texts never collide in the log -/
theorem encodeString_injective (esc : Bool) (s t : List Char) (h : encodeString esc s = encodeString esc t) : s = t := by
  have := congrArg decodeString h
  rw [decode_encode, decode_encode] at this
  exact Option.some.inj this
end Ergo.Json

namespace Ergo.Text

theorem dropWhile_head_not (p : Char → Bool) (l : List Char) (c : Char) (h : (l.dropWhile p).head? = some c) : p c = false := by
  have := List.head?_dropWhile_not p l
  rw [h] at this; exact this

theorem dropWhile_id (p : Char → Bool) (l : List Char) (h : ∀ c, l.head? = some c → p c = false) : l.dropWhile p = l := by
  cases l with
  | nil => rfl
  | cons a l => simp [h a rfl]

theorem mem_takeWhile_imp (p : Char → Bool) (l : List Char) (c : Char) (h : c ∈ l.takeWhile p) : p c = true := by
  induction l with
  | nil => simp at h
  | cons a l ih =>
    rw [List.takeWhile_cons] at h
    split at h
    · rcases List.mem_cons.1 h with h | h
      · subst h; assumption
      · exact ih h
    · simp at h

theorem dropWhile_nil_of_all (p : Char → Bool) (l : List Char) (h : l.all p = true) : l.dropWhile p = [] := by
  induction l with
  | nil => rfl
  | cons a l ih =>
    simp only [List.all_cons, Bool.and_eq_true] at h
    rw [List.dropWhile_cons, if_pos h.1]; exact ih h.2

theorem trimRight_append (t : List Char) : t = trimRight t ++ (t.reverse.takeWhile isSpace).reverse := by
  unfold trimRight
  rw [← List.reverse_append, List.takeWhile_append_dropWhile, List.reverse_reverse]

theorem trimRight_head (t : List Char) (c : Char) (h : (trimRight t).head? = some c) : t.head? = some c := by
  have := trimRight_append t
  rw [this]
  cases h' : trimRight t with
  | nil => rw [h'] at h; cases h
  | cons a l => rw [h'] at h; simpa using h

/-- the documented alteration of titles given by flag or by `set`: surrounding whitespace goes, nothing else -/
theorem trimSpaceL_spec (s : List Char) :
    ∃ pre suf, s = pre ++ trimSpaceL s ++ suf ∧ (∀ c ∈ pre, isSpace c = true) ∧ (∀ c ∈ suf, isSpace c = true) ∧
      (∀ c, (trimSpaceL s).head? = some c → isSpace c = false) ∧ (∀ c, (trimSpaceL s).getLast? = some c → isSpace c = false) := by
  refine ⟨s.takeWhile isSpace, ((trimLeft s).reverse.takeWhile isSpace).reverse, ?_, ?_, ?_, ?_, ?_⟩
  · unfold trimSpaceL
    rw [List.append_assoc, ← trimRight_append, trimLeft, List.takeWhile_append_dropWhile]
  · intro c hc; exact mem_takeWhile_imp _ _ _ hc
  · intro c hc; rw [List.mem_reverse] at hc; exact mem_takeWhile_imp _ _ _ hc
  · intro c hc
    exact dropWhile_head_not isSpace s c (trimRight_head _ c hc)
  · intro c hc
    unfold trimSpaceL trimRight at hc
    rw [List.getLast?_reverse] at hc
    exact dropWhile_head_not _ _ c hc

/-- text without surrounding whitespace is not altered at all -/
theorem trimSpaceL_id (s : List Char) (h1 : ∀ c, s.head? = some c → isSpace c = false)
    (h2 : ∀ c, s.getLast? = some c → isSpace c = false) : trimSpaceL s = s := by
  unfold trimSpaceL trimLeft trimRight
  rw [dropWhile_id _ s h1, dropWhile_id _ s.reverse (by rw [List.head?_reverse]; exact h2), List.reverse_reverse]

theorem trimSpaceL_idem (s : List Char) : trimSpaceL (trimSpaceL s) = trimSpaceL s := by
  obtain ⟨_, _, _, _, _, h1, h2⟩ := trimSpaceL_spec s
  exact trimSpaceL_id _ h1 h2

theorem isBlankL_iff_trim_nil (s : List Char) : isBlankL s = true ↔ trimSpaceL s = [] := by
  unfold isBlankL
  constructor
  · intro h
    have : s.dropWhile isSpace = [] := dropWhile_nil_of_all _ _ h
    simp [trimSpaceL, trimLeft, trimRight, this]
  · intro h
    obtain ⟨pre, suf, hs, hp, hsf, _, _⟩ := trimSpaceL_spec s
    rw [h] at hs
    rw [hs, List.all_eq_true]
    intro c hc
    simp only [List.append_nil, List.mem_append] at hc
    rcases hc with hc | hc
    · exact hp c hc
    · exact hsf c hc
end Ergo.Text
