/-
  WP20c — objects of the line codec: the scanner delimits the members of an encoded object exactly (`members_encoded`,
  `parseTop_encObj`), encoded values are skipped exactly with any continuation (`Val`), and field lookup on the members found
  (`strFold_*`, `getRaw_cons`).
-/
import ErgoProofs.Lemmas.CodecStr
open Ergo Ergo.Storage
namespace Ergo.Codec

/-- the raw (escaped, UTF-8) text of a string between its quotes -/
def rawOf (s : String) : Bytes := utf8Enc (Json.encodeBody true s.toList)

theorem encStr_eq (s : String) : encStr s = 34 :: (rawOf s ++ [34]) := by
  simp only [encStr, Json.encodeString, rawOf, utf8Enc_cons, utf8Enc_append]
  rw [(by decide : String.utf8EncodeChar '"' = [34])]
  simp [utf8Enc, (by decide : String.utf8EncodeChar '"' = [34])]

theorem unquote_rawOf (s : String) : unquote (rawOf s) = s.toList := by
  simp [unquote, rawOf, utf8DecLossy_encoded, Json.decodeBody_encodeBody]

theorem strVal_encStr (s : String) : strVal (encStr s) = s := by
  simp [strVal, encStr_eq, unquote_rawOf]

theorem valKind_encStr (s : String) : valKind (encStr s) = .str := by simp [valKind, encStr_eq]

theorem isWs_false_of_ge (b : UInt8) (h : 33 ≤ b) : isWs b = false := by
  have := UInt8.le_iff_toNat_le.1 h
  simp only [isWs, decide_eq_false_iff_not, not_or]
  refine ⟨?_, ?_, ?_, ?_⟩ <;> (intro h0; subst h0; simp at this)

theorem skipWs_cons_of (b : UInt8) (r : Bytes) (h : isWs b = false) : skipWs (b :: r) = b :: r := by simp [skipWs, h]

/-- a value text that starts with a non-space byte and that the scanner skips exactly, with any continuation, given enough fuel -/
structure Val (f0 d : Nat) (v : Bytes) : Prop where
  start : ∃ b t, v = b :: t ∧ isWs b = false
  skip : ∀ f, f0 ≤ f → ∀ rest, skipValue f d (v ++ rest) = some rest

theorem val_encStr (s : String) (d : Nat) : Val 1 d (encStr s) := by
  refine ⟨⟨34, rawOf s ++ [34], encStr_eq s, by decide⟩, ?_⟩
  intro f hf rest
  obtain ⟨f, rfl⟩ : ∃ k, f = k + 1 := ⟨f - 1, by omega⟩
  rw [encStr_eq]
  simp only [List.cons_append, List.append_assoc, skipValue]
  have := scanStr_encoded s.toList rest
  simp only [rawOf, List.singleton_append] at this ⊢
  simp [this]

theorem consumed_eq (v tail : Bytes) : (v ++ tail).take ((v ++ tail).length - tail.length) = v := by
  simp

/-- the encoded members `"k1":v1,"k2":v2,…` -/
def encMembers (kvs : List (String × Bytes)) : Bytes := joinComma (kvs.map fun kv => encStr kv.1 ++ 58 :: kv.2)

theorem encMembers_cons_cons (a b : String × Bytes) (r : List (String × Bytes)) :
    encMembers (a :: b :: r) = encStr a.1 ++ 58 :: a.2 ++ 44 :: encMembers (b :: r) := by
  simp [encMembers, joinComma]

theorem encMembers_single (a : String × Bytes) : encMembers [a] = encStr a.1 ++ 58 :: a.2 := by simp [encMembers, joinComma]

theorem members_step (f d : Nat) (k : String) (v tail : Bytes) (f0 : Nat) (hv : Val f0 d v) (hf : f0 ≤ f) (e : UInt8) (r4 : Bytes)
    (ht : tail = e :: r4) (he : isWs e = false) :
    members (f + 1) d (encStr k ++ 58 :: v ++ tail) =
      (if e = 44 then (members f d r4).map fun p => ((rawOf k, v) :: p.1, p.2)
       else if e = 125 then some ([(rawOf k, v)], r4) else none) := by
  obtain ⟨b, t, hbt, hb⟩ := hv.start
  rw [encStr_eq]
  simp only [List.cons_append, List.append_assoc, members]
  rw [skipWs_cons_of 34 _ (by decide)]
  simp only [ne_eq, not_true_eq_false, if_false]
  have hs := scanStr_encoded k.toList (58 :: (v ++ tail))
  simp only [rawOf, List.singleton_append, List.cons_append, List.nil_append] at hs ⊢
  rw [hs]
  simp only
  rw [skipWs_cons_of 58 _ (by decide)]
  simp only [ne_eq, not_true_eq_false, if_false]
  have hsw : skipWs (v ++ tail) = v ++ tail := by rw [hbt]; exact skipWs_cons_of b _ hb
  rw [hsw, hv.skip f hf tail]
  simp only [consumed_eq]
  rw [ht, skipWs_cons_of e _ he]

theorem members_encoded (d f0 : Nat) (kvs : List (String × Bytes)) (hne : kvs ≠ []) (hv : ∀ kv ∈ kvs, Val f0 d kv.2) (f : Nat) (hf : f0 ≤ f)
    (rest : Bytes) :
    members (f + kvs.length) d (encMembers kvs ++ 125 :: rest) = some (kvs.map fun kv => (rawOf kv.1, kv.2), rest) := by
  induction kvs with
  | nil => exact absurd rfl hne
  | cons a r ih =>
    cases r with
    | nil =>
      rw [encMembers_single]
      have := members_step f d a.1 a.2 (125 :: rest) f0 (hv a (by simp)) hf 125 rest rfl (by decide)
      simpa using this
    | cons b r' =>
      rw [encMembers_cons_cons]
      have hstep := members_step (f + (b :: r').length) d a.1 a.2 (44 :: (encMembers (b :: r') ++ 125 :: rest)) f0 (hv a (by simp)) (by omega) 44 _ rfl (by decide)
      have ih' := ih (by simp) (fun kv hk => hv kv (by simp [hk]))
      simp only [List.length_cons, List.append_assoc, List.cons_append] at hstep ih' ⊢
      rw [show f + (r'.length + 1 + 1) = f + (r'.length + 1) + 1 by omega, hstep, ih']
      simp


theorem encMembers_head (kvs : List (String × Bytes)) (hne : kvs ≠ []) : ∃ t, encMembers kvs = 34 :: t := by
  cases kvs with
  | nil => exact absurd rfl hne
  | cons a r =>
    cases r with
    | nil => exact ⟨_, by rw [encMembers_single, encStr_eq]; rfl⟩
    | cons b r' => exact ⟨_, by rw [encMembers_cons_cons, encStr_eq]; rfl⟩

theorem encObj_eq (kvs : List (String × Bytes)) : encObj kvs = 123 :: (encMembers kvs ++ [125]) := rfl

theorem val_encObj (d f0 : Nat) (kvs : List (String × Bytes)) (hne : kvs ≠ []) (hv : ∀ kv ∈ kvs, Val f0 d kv.2) :
    Val (f0 + kvs.length + 1) (d + 1) (encObj kvs) := by
  refine ⟨⟨123, _, encObj_eq kvs, by decide⟩, ?_⟩
  intro f hf rest
  obtain ⟨g, rfl⟩ : ∃ g, f = (g + kvs.length) + 1 := ⟨f - kvs.length - 1, by omega⟩
  obtain ⟨t, ht⟩ := encMembers_head kvs hne
  have hm := members_encoded d f0 kvs hne hv g (by omega) rest
  rw [encObj_eq]
  simp only [List.cons_append, List.append_assoc, List.singleton_append, skipValue]
  rw [ht] at hm ⊢
  simp only [List.cons_append] at hm ⊢
  rw [skipWs_cons_of 34 _ (by decide)]
  simp [hm]

theorem FUEL_ge (n : Nat) (h : n ≤ 1000) : n ≤ FUEL := by unfold FUEL; omega

/-- `json.Unmarshal` sees the members of an encoded object -/
theorem parseTop_encObj (f0 : Nat) (kvs : List (String × Bytes)) (hne : kvs ≠ []) (hv : ∀ kv ∈ kvs, Val f0 (DEPTH - 1) kv.2)
    (hf : f0 + kvs.length ≤ 1000) :
    parseTop (encObj kvs) = .obj (kvs.map fun kv => (rawOf kv.1, kv.2)) := by
  obtain ⟨t, ht⟩ := encMembers_head kvs hne
  obtain ⟨g, hg⟩ : ∃ g, FUEL = g + kvs.length := ⟨FUEL - kvs.length, by have := FUEL_ge _ hf; omega⟩
  have hm := members_encoded (DEPTH - 1) f0 kvs hne hv g (by have := FUEL_ge _ hf; omega) []
  rw [← hg, ht] at hm
  rw [encObj_eq, ht]
  simp only [parseTop, List.cons_append]
  rw [skipWs_cons_of 123 _ (by decide)]
  simp only [if_true]
  rw [skipWs_cons_of 34 _ (by decide)]
  simp only [(by decide : (34 : UInt8) ≠ 125), if_false]
  simp only [List.cons_append] at hm
  rw [hm]; simp [skipWs]

/-- the members of an encoded object, and nothing after it, as the top-level scan finds them (used for prefixes) -/
theorem members_encObj_tail (f0 : Nat) (kvs : List (String × Bytes)) (hne : kvs ≠ []) (hv : ∀ kv ∈ kvs, Val f0 (DEPTH - 1) kv.2)
    (hf : f0 + kvs.length ≤ 1000) :
    members FUEL (DEPTH - 1) (encMembers kvs ++ [125]) = some (kvs.map fun kv => (rawOf kv.1, kv.2), []) := by
  obtain ⟨g, hg⟩ : ∃ g, FUEL = g + kvs.length := ⟨FUEL - kvs.length, by have := FUEL_ge _ hf; omega⟩
  have hm := members_encoded (DEPTH - 1) f0 kvs hne hv g (by have := FUEL_ge _ hf; omega) []
  rw [← hg] at hm; exact hm


/-! ### field lookup -/
def foldKey (s : String) : List Char := s.toList.map foldChar

theorem keyMatches_rawOf (k name : String) : keyMatches (rawOf k) name = decide (foldKey k = foldKey name) := by
  unfold keyMatches foldKey; rw [unquote_rawOf]

def strStep (name : String) (acc : Option String) (m : Bytes × Bytes) : Option String :=
  match acc with
  | none => none
  | some cur =>
    if keyMatches m.1 name then
      match valKind m.2 with
      | .str => some (strVal m.2)
      | .null => some cur
      | .other => none
    else some cur

theorem getStr_eq (ms : List (Bytes × Bytes)) (name : String) : getStr ms name = ms.foldl (strStep name) (some "") := rfl

theorem strFold_nil (name : String) (acc : Option String) : ([] : List (Bytes × Bytes)).foldl (strStep name) acc = acc := rfl

theorem strFold_str (name k s : String) (cur : String) (ms : List (Bytes × Bytes)) :
    ((rawOf k, encStr s) :: ms).foldl (strStep name) (some cur) =
      ms.foldl (strStep name) (some (if foldKey k = foldKey name then s else cur)) := by
  simp only [List.foldl_cons, strStep, keyMatches_rawOf, valKind_encStr, strVal_encStr]
  by_cases h : foldKey k = foldKey name <;> simp [h]

theorem strFold_skip (name k : String) (v : Bytes) (cur : String) (ms : List (Bytes × Bytes)) (h : foldKey k ≠ foldKey name) :
    ((rawOf k, v) :: ms).foldl (strStep name) (some cur) = ms.foldl (strStep name) (some cur) := by
  simp [List.foldl_cons, strStep, keyMatches_rawOf, h]

theorem getRaw_cons (name k : String) (v : Bytes) (acc : Option Bytes) (ms : List (Bytes × Bytes)) :
    ((rawOf k, v) :: ms).foldl (fun acc m => if keyMatches m.1 name then some m.2 else acc) acc =
      ms.foldl (fun acc m => if keyMatches m.1 name then some m.2 else acc) (if foldKey k = foldKey name then some v else acc) := by
  simp only [List.foldl_cons, keyMatches_rawOf]
  by_cases h : foldKey k = foldKey name <;> simp [h]

example (ty ts : String) (raw : Bytes) :
    getStr [(rawOf "type", encStr ty), (rawOf "ts", encStr ts), (rawOf "data", raw)] "type" = some ty := by
  rw [getStr_eq, strFold_str, strFold_str, strFold_skip _ _ _ _ _ (by decide)]
  simp [strFold_nil, (by decide : foldKey "type" = foldKey "type"), (by decide : foldKey "ts" ≠ foldKey "type")]

end Ergo.Codec
