/-
  WP9 — the invariant `AllInv` (ErgoProofs/Inv.lean) is kept by the lock sections that create an item or update one item:
  `Sec.create`, `Sec.update`, `Sec.claimOldest`  (ErgoModel/Cli.lean `Sec`, ErgoModel/Exec.lean `runSec`,
  ErgoModel/Command.lean `secCreate`, `secUpdate`, `updateEvents`, `resultEvent`, `buildSetEvents`, `secClaimOldest`).
-/
import ErgoProofs.Inv
import ErgoProofs.Lemmas.StepUpdateSec
namespace Ergo

theorem secStep_update (id : Id) (r : SetReq) : SecStepOK (.update id r) := by
  intro log g env w out hr h henv hrun
  simp only [runSec, replay_eq_raw hr h.ok] at hrun
  cases hs : secUpdate g id r env.agent env.po env.now with
  | error x => simp [hs, Except.map] at hrun
  | ok w' =>
    simp only [hs, Except.map] at hrun
    injection hrun with hrun
    injection hrun with hw _
    subst hw
    obtain ⟨htomb, t, evs, hfind, hu, rfl⟩ := secUpdate_ok hs
    obtain ⟨htm, htid⟩ := (Graph.find?_iff h.ok.wf id t).1 hfind
    have hnow := env_now_mem henv
    obtain ⟨hgood, hinv⟩ := updateEvents_task hu (h.i06 t htm)
    rw [htid] at hgood
    obtain ⟨h1, h2⟩ := updates_AllInv (R := EpicRef g) h hfind htomb (henv.pos _ hnow)
      (fun x hx => henv.later t htm x hx _ hnow) (fun _ hx => hx) (h.i14 t htm).2 hgood hinv
    refine ⟨_, ?_, h2⟩
    simp only [applyWrite]
    rw [replayRaw_append, hr]
    exact h1

theorem secStep_create (isEpic : Bool) (epicId title body : String) (follow : SetReq)
    (htitle : Text.isBlank title = false) : SecStepOK (.create isEpic epicId title body follow) := by
  intro log g env w out hr h henv hrun
  simp only [runSec, replay_eq_raw hr h.ok] at hrun
  generalize env.uuids.headD "" = uuid at hrun
  cases hs : secCreate g isEpic epicId title body follow env.ids uuid env.agent env.po env.now with
  | error x => rw [hs] at hrun; simp [Except.map] at hrun
  | ok p =>
    obtain ⟨w', id⟩ := p
    rw [hs] at hrun
    simp only [Except.map] at hrun
    injection hrun with hrun
    injection hrun with hw _
    subst hw
    obtain ⟨hepic, htail⟩ := secCreate_ok hs
    obtain ⟨hidmem, htaken, more, rfl, hmore⟩ := createTail_ok htail
    have hnow := env_now_mem henv
    have hpos := henv.pos _ hnow
    have hidne : id ≠ "" := henv.ids_ne id hidmem
    simp only [Graph.taken, Bool.or_eq_false_iff] at htaken
    obtain ⟨htomb, hhas⟩ := htaken
    generalize heid : (if isEpic = true then "" else epicId) = eid at *
    let x := freshTask isEpic id uuid eid title body env.now
    let g1 : Graph := { g with tasks := g.tasks ++ [x] }
    have hap : applyEvent g (Event.newItem isEpic id uuid eid .todo title body (some env.now)) = .ok g1 := by
      simp [applyEvent, htomb, hhas, g1, x, freshTask]
    have hxinv : TaskInv x := ⟨fun _ => ⟨rfl, rfl⟩, fun _ => ⟨rfl, rfl⟩⟩
    have hxE : x.isEpic = true → x.epicId = "" := by
      intro hE
      have hE' : isEpic = true := hE
      show eid = ""
      rw [← heid, hE']; rfl
    have hxR : x.isEpic = false → EpicRef g x.epicId := by
      intro hE
      have hE' : isEpic = false := hE
      show EpicRef g eid
      rw [← heid, hE']
      by_cases he : epicId = ""
      · left; simp [he]
      · obtain ⟨e, hf, heE⟩ := hepic hE' he
        right
        exact ⟨e, List.mem_of_find?_eq_some hf, by simpa using List.find?_some hf, heE⟩
    have h1 : AllInv g1 := AllInv_append (x := x) h hhas htomb hidne (freshTask_TaskOK hpos htitle) hxinv (fun _ => rfl) hxE hxR
    simp only [applyWrite]
    rw [replayRaw_append, hr]
    simp only [Except.bind, List.foldlM_cons, hap, bind]
    rcases hmore with rfl | hu
    · exact ⟨g1, rfl, h1⟩
    · obtain ⟨hgood, hinv⟩ := updateEvents_task hu hxinv
      have hfind : g1.find? id = some x := (Graph.find?_iff h1.ok.wf id x).2 ⟨by simp [g1], rfl⟩
      obtain ⟨h2, h3⟩ := updates_AllInv (R := EpicRef g) h1 hfind htomb hpos
        (by intro y hy
            simp only [Task.times, x, freshTask, List.map_nil, List.append_nil, List.mem_cons, List.not_mem_nil, or_false] at hy
            rcases hy with rfl | rfl | rfl | rfl | rfl | rfl | rfl <;> simp)
        (by intro z hz
            rcases hz with rfl | ⟨e, he, h1', h2'⟩
            · exact Or.inl rfl
            · exact Or.inr ⟨e, List.mem_append_left _ he, h1', h2'⟩)
        hxR hgood hinv
      exact ⟨_, h2, h3⟩

/-- `claim` (oldest ready): `--agent` is required to be non-empty before the lock is taken (`sectionOf`) -/
theorem secStep_claimOldest (epic : Id) :
    ∀ (log : List Event) (g : Graph) (env : Env) (w : Write) (out : SecOut),
      env.agent ≠ "" → replayRaw log = .ok g → AllInv g → EnvOK g env → runSec log env (.claimOldest epic) = .ok (w, out) →
      ∃ g', replayRaw (applyWrite log w) = .ok g' ∧ AllInv g' := by
  intro log g env w out hag hr h henv hrun
  simp only [runSec, replay_eq_raw hr h.ok, secClaimOldest] at hrun
  cases hrd : readyTasks g epic with
  | nil => simp [hrd, Except.map] at hrun
  | cons t rest =>
    simp only [hrd, Except.map] at hrun
    injection hrun with hrun
    injection hrun with hw _
    subst hw
    have hmem : t ∈ readyTasks g epic := by rw [hrd]; simp
    obtain ⟨htm, hE, hready, -⟩ := (mem_readyTasks g epic t).1 hmem
    have hwf := h.ok.wf
    have hfind : g.find? t.id = some t := (Graph.find?_iff hwf t.id t).2 ⟨htm, rfl⟩
    have htomb : g.tombed t.id = false := (Graph.tombed_false_iff g t.id).2 (hwf.live_not_tombed t htm)
    have hnow := env_now_mem henv
    unfold isReady at hready
    simp only [Bool.and_eq_true, beq_iff_eq] at hready
    obtain ⟨⟨⟨hst, hcl⟩, -⟩, -⟩ := hready
    obtain ⟨h1, h2⟩ := updates_AllInv (R := EpicRef g) (now := env.now)
      (evs := [Event.claim t.id env.agent (some env.now), Event.state t.id .doing (some env.now)])
      h hfind htomb (henv.pos _ hnow)
      (fun x hx => henv.later t htm x hx _ hnow) (fun _ hx => hx) (h.i14 t htm).2
      (by intro e he
          simp only [List.mem_cons, List.not_mem_nil, or_false] at he
          rcases he with rfl | rfl <;> exact ⟨rfl, rfl⟩)
      (by simp only [List.foldl, stepTask]
          exact TaskInv_task hE rfl (by simpa [docClaimOk, St.clearsClaim] using hag))
    refine ⟨_, ?_, h2⟩
    simp only [applyWrite]
    rw [replayRaw_append, hr]
    exact h1

end Ergo
