/-
  WP20g — every event any command writes is one the line codec reads back as it was (`runCmd_wf`): the events of all sections
  other than `compact` carry the section's clock reading and a state that came through `St.ofString` or is a literal; `compact`
  writes what a graph replayed from well-formed events holds (`replay_wf`, `compactEvents_wf`).
-/
import ErgoProofs.Lemmas.CodecThm
import ErgoModel.Exec
open Ergo Ergo.Storage Ergo.Codec
namespace Ergo.Codec

/-! ### states that map back to themselves -/
theorem ofString_other (s : String) (h1 : s ≠ "todo") (h2 : s ≠ "doing") (h3 : s ≠ "done") (h4 : s ≠ "blocked") (h5 : s ≠ "canceled")
    (h6 : s ≠ "error") : St.ofString s = .other s := by
  unfold St.ofString; split <;> simp_all

theorem stOk_ofString (s : String) : StOk (St.ofString s) := by
  unfold StOk
  by_cases h1 : s = "todo"
  · subst h1; rfl
  by_cases h2 : s = "doing"
  · subst h2; rfl
  by_cases h3 : s = "done"
  · subst h3; rfl
  by_cases h4 : s = "blocked"
  · subst h4; rfl
  by_cases h5 : s = "canceled"
  · subst h5; rfl
  by_cases h6 : s = "error"
  · subst h6; rfl
  rw [ofString_other s h1 h2 h3 h4 h5 h6]
  simp only [St.toString]
  exact ofString_other s h1 h2 h3 h4 h5 h6

theorem stOk_lit : StOk .todo ∧ StOk .doing ∧ StOk .done ∧ StOk .blocked ∧ StOk .canceled ∧ StOk .error := by
  refine ⟨?_, ?_, ?_, ?_, ?_, ?_⟩ <;> rfl

def AllWf (l : List Event) : Prop := ∀ e ∈ l, Wf e

theorem allWf_nil : AllWf [] := by intro e he; cases he
theorem allWf_append {a b : List Event} (ha : AllWf a) (hb : AllWf b) : AllWf (a ++ b) := by
  intro e he; rcases List.mem_append.1 he with h | h
  · exact ha e h
  · exact hb e h
theorem allWf_cons {e : Event} {l : List Event} (he : Wf e) (hl : AllWf l) : AllWf (e :: l) := by
  intro x hx; rcases List.mem_cons.1 hx with rfl | h
  · exact he
  · exact hl x h
theorem allWf_single {e : Event} (he : Wf e) : AllWf [e] := allWf_cons he allWf_nil

/-! ### what the sections other than compact write -/
theorem stOk_doing : StOk .doing := rfl
theorem stOk_todo : StOk .todo := rfl

/-- close a goal `AllWf evs` from `h : <section code> = .ok evs`: split the code, discard the error branches, read off the events -/
macro "wf_cases" h:ident hn:ident : tactic => `(tactic| (
  repeat' ((try simp only at $h:ident); split at $h:ident)
  all_goals first
    | (cases $h:ident; done)
    | (simp only [Except.ok.injEq, pure, Except.pure] at $h:ident; subst $h:ident
       simp [AllWf, Wf, TimeOk, $hn:ident, stOk_ofString, stOk_doing, stOk_todo])))

theorem evTitle_wf (id : Id) (now : Time) (hn : now < maxT) (o : Option String) (evs : List Event) (h : evTitle id now o = .ok evs) : AllWf evs := by
  unfold evTitle at h; wf_cases h hn

theorem evBody_wf (id : Id) (now : Time) (hn : now < maxT) (o : Option String) : AllWf (evBody id now o) := by
  cases o <;> simp [evBody, AllWf, Wf, TimeOk, hn]

theorem evEpic_wf (t : Task) (now : Time) (hn : now < maxT) (o : Option String) (evs : List Event) (h : evEpic t now o = .ok evs) : AllWf evs := by
  unfold evEpic at h; wf_cases h hn

theorem evClaim_wf (t : Task) (sg : Bool) (now : Time) (hn : now < maxT) (o : Option String) (evs : List Event)
    (h : evClaim t sg now o = .ok evs) : AllWf evs := by
  unfold evClaim at h; wf_cases h hn

theorem evState_wf (t : Task) (c : Option String) (now : Time) (hn : now < maxT) (o : Option String) (evs : List Event)
    (h : evState t c now o = .ok evs) : AllWf evs := by
  unfold evState at h; simp only at h; wf_cases h hn

theorem evTrail_wf (t : Task) (c : Option String) (sg : Bool) (now : Time) (hn : now < maxT) (evs : List Event)
    (h : evTrail t c sg now = .ok evs) : AllWf evs := by
  unfold evTrail at h; wf_cases h hn


theorem buildSetEvents_wf (t : Task) (u : Updates) (agent : String) (now : Time) (hn : now < maxT) (evs : List Event)
    (h : buildSetEvents t u agent now = .ok evs) : AllWf evs := by
  unfold buildSetEvents at h
  simp only [bind, Except.bind, pure, Except.pure] at h
  cases hc : implicitClaim t u agent with
  | error e => simp [hc] at h
  | ok claim =>
    cases h1 : evTitle t.id now u.title with
    | error e => simp [hc, h1] at h
    | ok e1 =>
      cases h3 : evEpic t now u.epic with
      | error e => simp [hc, h1, h3] at h
      | ok e3 =>
        cases h4 : evClaim t u.state.isSome now claim with
        | error e => simp [hc, h1, h3, h4] at h
        | ok e4 =>
          cases h5 : evState t claim now u.state with
          | error e => simp [hc, h1, h3, h4, h5] at h
          | ok e5 =>
            cases h6 : evTrail t claim u.state.isSome now with
            | error e => simp [hc, h1, h3, h4, h5, h6] at h
            | ok e6 =>
              simp [hc, h1, h3, h4, h5, h6] at h
              subst h
              intro e he
              simp only [List.mem_append] at he
              rcases he with he | he | he | he | he | he
              · exact evTitle_wf _ _ hn _ _ h1 e he
              · exact evBody_wf _ _ hn _ e he
              · exact evEpic_wf _ _ hn _ _ h3 e he
              · exact evClaim_wf _ _ _ hn _ _ h4 e he
              · exact evState_wf _ _ _ hn _ _ h5 e he
              · exact evTrail_wf _ _ _ _ hn _ h6 e he

theorem resultEvent_wf (t : Task) (s : String) (po : PathOutcome) (now : Time) (hn : now < maxT) (e : Event)
    (h : resultEvent t s po now = .ok e) : Wf e := by
  unfold resultEvent at h
  simp only [bind, Except.bind, pure, Except.pure, throw, throwThe, MonadExceptOf.throw] at h
  repeat' ((try simp only at h); split at h)
  all_goals first
    | (cases h; done)
    | (simp only [Except.ok.injEq] at h; subst h; exact hn)

theorem updateEvents_wf (g : Graph) (t : Task) (r : SetReq) (agent : String) (po : PathOutcome) (now : Time) (hn : now < maxT)
    (evs : List Event) (h : updateEvents g t r agent po now = .ok evs) : AllWf evs := by
  have A : ∀ s v, Except.map (fun e => [e]) (resultEvent t s po now) = .ok v → AllWf v := by
    intro s v h0
    cases hr : resultEvent t s po now with
    | error e => simp [hr, Except.map] at h0
    | ok e => simp [hr, Except.map] at h0; subst h0; exact allWf_single (resultEvent_wf _ _ _ _ hn _ hr)
  have B : ∀ v, buildSetEvents t r.u agent now = .ok v → AllWf v := fun v hv => buildSetEvents_wf _ _ _ _ hn _ hv
  unfold updateEvents at h
  simp only [bind, Except.bind, pure, Except.pure, throw, throwThe, MonadExceptOf.throw] at h
  repeat' ((try simp only at h); split at h)
  all_goals first
    | (cases h; done)
    | (simp only [Except.ok.injEq] at h; subst h
       first
         | exact allWf_append (A _ _ (by assumption)) (B _ (by assumption))
         | exact A _ _ (by assumption)
         | exact allWf_append allWf_nil (B _ (by assumption))
         | exact allWf_nil
         | exact B _ (by assumption))


def _root_.Ergo.Write.events : Write → List Event
  | .append evs => evs
  | .replace evs => evs

theorem secUpdate_wf (g : Graph) (id : Id) (r : SetReq) (agent : String) (po : PathOutcome) (now : Time) (hn : now < maxT) (w : Write)
    (h : secUpdate g id r agent po now = .ok w) : AllWf w.events := by
  unfold secUpdate at h
  simp only [bind, Except.bind, pure, Except.pure, throw, throwThe, MonadExceptOf.throw] at h
  repeat' ((try simp only at h); split at h)
  all_goals first
    | (cases h; done)
    | (rename_i t _
       cases hu : updateEvents g t r agent po now with
       | error e => simp [hu, Except.map] at h
       | ok evs => simp [hu, Except.map] at h; subst h; exact updateEvents_wf _ _ _ _ _ _ hn _ hu)

theorem secCreate_wf (g : Graph) (isEpic : Bool) (epicId title body : String) (follow : SetReq) (ids : List Id) (uuid agent : String)
    (po : PathOutcome) (now : Time) (hn : now < maxT) (w : Write) (i : Id)
    (h : secCreate g isEpic epicId title body follow ids uuid agent po now = .ok (w, i)) : AllWf w.events := by
  have U : ∀ t v, updateEvents g t follow agent po now = .ok v → AllWf v := fun t v hv => updateEvents_wf _ _ _ _ _ _ hn _ hv
  unfold secCreate at h
  simp only [bind, Except.bind, pure, Except.pure, throw, throwThe, MonadExceptOf.throw] at h
  repeat' ((try simp only at h); split at h)
  all_goals first
    | (cases h; done)
    | (simp only [Except.ok.injEq, Prod.mk.injEq] at h; obtain ⟨rfl, rfl⟩ := h
       first
         | exact allWf_cons (by simp [Wf, TimeOk, hn, stOk_todo]) (U _ _ (by assumption))
         | exact allWf_cons (by simp [Wf, TimeOk, hn, stOk_todo]) allWf_nil)

theorem linkEvents_wf (g : Graph) (un : Bool) (edges : List (Id × Id)) (evs : List Event) (h : linkEvents g un edges = .ok evs) : AllWf evs := by
  induction edges generalizing g evs with
  | nil => simp [linkEvents] at h; subst h; exact allWf_nil
  | cons e rest ih =>
    obtain ⟨f, t⟩ := e
    simp only [linkEvents, bind, Except.bind, pure, Except.pure] at h
    cases hc : linkCheck g un f t with
    | error e => simp [hc] at h
    | ok _ =>
      simp only [hc] at h
      split at h
      · cases h
      · rename_i v hv
        simp only [Except.ok.injEq] at h; subst h
        exact allWf_cons (by cases un <;> simp [Wf]) (ih _ _ hv)

theorem secLinks_wf (g : Graph) (un : Bool) (edges : List (Id × Id)) (w : Write) (h : secLinks g un edges = .ok w) : AllWf w.events := by
  unfold secLinks at h
  cases hl : linkEvents g un edges with
  | error e => simp [hl, Except.map] at h
  | ok evs => simp [hl, Except.map] at h; subst h; exact linkEvents_wf _ _ _ _ hl

theorem secClaimOldest_wf (g : Graph) (epic agent : String) (now : Time) (hn : now < maxT) (w : Write) (t : Task)
    (h : secClaimOldest g epic agent now = .ok (w, t)) : AllWf w.events := by
  unfold secClaimOldest at h
  split at h
  · cases h
  · simp only [Except.ok.injEq, Prod.mk.injEq] at h; obtain ⟨rfl, rfl⟩ := h
    exact allWf_cons (by simp [Wf, TimeOk, hn]) (allWf_single (by simp [Wf, TimeOk, hn, stOk_doing]))

theorem secPrune_wf (g : Graph) (apply : Bool) (agent : String) (now : Time) (hn : now < maxT) : AllWf (secPrune g apply agent now).1.events := by
  unfold secPrune
  simp only [Write.events]
  split
  · intro e he; simp only [List.mem_map] at he; obtain ⟨i, _, rfl⟩ := he; simp [Wf, TimeOk, hn]
  · exact allWf_nil


/-! ### the graph a well-formed log replays to, and what compaction writes from it -/
structure TaskWf (t : Task) : Prop where
  st : StOk t.st
  cSt : StOk t.cSt
  createdAt : t.createdAt < maxT
  updatedAt : t.updatedAt < maxT
  lastState : t.lastState < maxT
  lastClaim : t.lastClaim < maxT
  lastTitle : t.lastTitle < maxT
  lastBody : t.lastBody < maxT
  lastEpic : t.lastEpic < maxT
  results : ∀ r ∈ t.results, r.time < maxT

def GraphWf (g : Graph) : Prop := ∀ t ∈ g.tasks, TaskWf t

theorem maxT_pos : 0 < maxT := by decide

theorem maxTime_lt {a b : Time} (ha : a < maxT) (hb : b < maxT) : maxTime a b < maxT := by
  unfold maxTime; split <;> assumption

theorem graphWf_update (g : Graph) (id : Id) (f : Task → Task) (hg : GraphWf g) (hf : ∀ k, TaskWf k → TaskWf (f k)) :
    GraphWf (g.update id f) := by
  intro t ht
  simp only [Graph.update, List.mem_map] at ht
  obtain ⟨k, hk, rfl⟩ := ht
  split
  · exact hf k (hg k hk)
  · exact hg k hk

theorem withLive_wf (g : Graph) (id : Id) (ts : Option Time) (f : Task → Time → Task) (hg : GraphWf g) (hts : TimeOk ts)
    (hf : ∀ k t, TaskWf k → t < maxT → TaskWf (f k t)) (g' : Graph) (h : withLive g id ts f = .ok g') : GraphWf g' := by
  unfold withLive at h
  split at h
  · simp at h; subst h; exact hg
  · split at h
    · simp at h; subst h; exact hg
    · cases ts with
      | none => simp at h
      | some t =>
        simp at h; subst h
        exact graphWf_update g id _ hg fun k hk => hf k t hk hts

theorem applyEvent_wf (g : Graph) (e : Event) (hg : GraphWf g) (he : Wf e) (g' : Graph) (h : applyEvent g e = .ok g') : GraphWf g' := by
  cases e with
  | newItem isEpic id uuid epicId st title body cat =>
    obtain ⟨hst, hc⟩ := he
    simp only [applyEvent] at h
    split at h
    · simp at h; subst h; exact hg
    · split at h
      · cases h
      · cases cat with
        | none => simp at h
        | some c =>
          simp at h; subst h
          intro t ht
          simp only [List.mem_append, List.mem_singleton] at ht
          rcases ht with ht | rfl
          · exact hg t ht
          · exact ⟨hst, hst, hc, hc, maxT_pos, maxT_pos, maxT_pos, maxT_pos, maxT_pos, by intro r hr; cases hr⟩
  | state id st ts =>
    obtain ⟨hst, hts⟩ := he
    refine withLive_wf g id ts _ hg hts ?_ g' h
    intro k t hk ht
    exact ⟨hst, hk.cSt, hk.createdAt, maxTime_lt hk.updatedAt ht, ht, hk.lastClaim, hk.lastTitle, hk.lastBody, hk.lastEpic, hk.results⟩
  | claim id a ts =>
    refine withLive_wf g id ts _ hg he ?_ g' h
    intro k t hk ht
    exact ⟨hk.st, hk.cSt, hk.createdAt, hk.updatedAt, hk.lastState, ht, hk.lastTitle, hk.lastBody, hk.lastEpic, hk.results⟩
  | unclaim id =>
    simp only [applyEvent] at h
    split at h
    · simp at h; subst h; exact hg
    · simp at h; subst h
      exact graphWf_update g id _ hg fun k hk => ⟨hk.st, hk.cSt, hk.createdAt, hk.updatedAt, hk.lastState, hk.lastClaim, hk.lastTitle, hk.lastBody, hk.lastEpic, hk.results⟩
  | link f t dep =>
    simp only [applyEvent] at h
    repeat' split at h
    all_goals (simp at h; subst h; exact hg)
  | unlink f t dep =>
    simp only [applyEvent] at h
    repeat' split at h
    all_goals (simp at h; subst h; exact hg)
  | title id s ts =>
    refine withLive_wf g id ts _ hg he ?_ g' h
    intro k t hk ht
    exact ⟨hk.st, hk.cSt, hk.createdAt, maxTime_lt hk.updatedAt ht, hk.lastState, hk.lastClaim, ht, hk.lastBody, hk.lastEpic, hk.results⟩
  | body id s ts =>
    refine withLive_wf g id ts _ hg he ?_ g' h
    intro k t hk ht
    exact ⟨hk.st, hk.cSt, hk.createdAt, maxTime_lt hk.updatedAt ht, hk.lastState, hk.lastClaim, hk.lastTitle, ht, hk.lastEpic, hk.results⟩
  | epic id ep ts =>
    refine withLive_wf g id ts _ hg he ?_ g' h
    intro k t hk ht
    exact ⟨hk.st, hk.cSt, hk.createdAt, maxTime_lt hk.updatedAt ht, hk.lastState, hk.lastClaim, hk.lastTitle, hk.lastBody, ht, hk.results⟩
  | tombstone id a ts =>
    simp only [applyEvent] at h
    cases ts with
    | none => simp at h
    | some t =>
      simp at h; subst h
      intro k hk
      simp only [applyTombstone, List.mem_filter] at hk
      exact hg k hk.1
  | result task s p sha m gt ts =>
    refine withLive_wf g task ts _ hg he ?_ g' h
    intro k t hk ht
    refine ⟨hk.st, hk.cSt, hk.createdAt, maxTime_lt hk.updatedAt ht, hk.lastState, hk.lastClaim, hk.lastTitle, hk.lastBody, hk.lastEpic, ?_⟩
    intro r hr
    rcases List.mem_cons.1 hr with rfl | hr
    · exact ht
    · exact hk.results r hr
  | ignored => simp [applyEvent] at h; subst h; exact hg
  | badData => simp [applyEvent] at h

theorem foldlM_wf (evs : List Event) (g : Graph) (hg : GraphWf g) (he : AllWf evs) (g' : Graph)
    (h : evs.foldlM applyEvent g = .ok g') : GraphWf g' := by
  induction evs generalizing g with
  | nil => simp [List.foldlM, pure, Except.pure] at h; subst h; exact hg
  | cons e rest ih =>
    simp only [List.foldlM, bind, Except.bind] at h
    cases h1 : applyEvent g e with
    | error x => simp [h1] at h
    | ok g1 =>
      simp only [h1] at h
      exact ih g1 (applyEvent_wf g e hg (he e (by simp)) g1 h1) (fun x hx => he x (by simp [hx])) h

theorem replay_wf (log : List Event) (hl : AllWf log) (g : Graph) (h : replay log = .ok g) : GraphWf g := by
  unfold replay replayRaw at h
  cases h1 : log.foldlM applyEvent Graph.empty with
  | error x => simp [h1, Except.map] at h
  | ok g1 =>
    simp [h1, Except.map] at h; subst h
    have hg1 := foldlM_wf log Graph.empty (by intro t ht; cases ht) hl g1 h1
    intro t ht
    simp only [migrate, List.mem_map] at ht
    obtain ⟨k, hk, rfl⟩ := ht
    have := hg1 k hk
    unfold migrateTask; split
    · exact ⟨this.st, this.cSt, this.createdAt, this.updatedAt, this.lastState, this.lastClaim, this.lastTitle, this.lastBody, this.lastEpic, this.results⟩
    · exact this

theorem pickTime_lt {a b : Time} (ha : a < maxT) (hb : b < maxT) : pickTime a b < maxT := by
  unfold pickTime; split <;> assumption

theorem mem_ite_single {c : Prop} [Decidable c] {x e : Event} (h : e ∈ (if c then [x] else [])) : e = x := by
  split at h
  · simpa using h
  · cases h

theorem compactTask_wf (t : Task) (ht : TaskWf t) : AllWf (compactTask t) := by
  have hc : StOk (if t.cSt != .other "" then t.cSt else t.st) := by split; exact ht.cSt; exact ht.st
  intro e he
  unfold compactTask at he
  simp only [List.mem_append] at he
  rcases he with ((((((he | he) | he) | he) | he) | he) | he)
  · simp only [List.mem_singleton] at he; subst he; exact ⟨hc, ht.createdAt⟩
  · rw [mem_ite_single he]; exact pickTime_lt ht.lastTitle ht.updatedAt
  · rw [mem_ite_single he]; exact pickTime_lt ht.lastBody ht.updatedAt
  · rw [mem_ite_single he]; exact pickTime_lt ht.lastEpic ht.updatedAt
  · rw [mem_ite_single he]; exact ⟨ht.st, pickTime_lt ht.lastState ht.updatedAt⟩
  · rw [mem_ite_single he]; exact pickTime_lt ht.lastClaim ht.updatedAt
  · simp only [List.mem_map, List.mem_reverse] at he
    obtain ⟨r, hr, rfl⟩ := he
    exact ht.results r hr

theorem compactEvents_wf (g : Graph) (hg : GraphWf g) : AllWf (compactEvents g) := by
  intro e he
  simp only [compactEvents, List.mem_append, List.mem_flatten, List.mem_map] at he
  rcases he with ⟨l, ⟨t, ht, rfl⟩, hel⟩ | ⟨d, _, rfl⟩
  · exact compactTask_wf t (hg t (List.mem_mergeSort.1 ht)) e hel
  · trivial


/-! ### every command -/
/-- the clock readings a command gets are before year 10000 -/
def EnvT (env : Env) : Prop := ∀ t ∈ env.times, t < maxT

theorem envT_now (env : Env) (h : EnvT env) : env.now < maxT := by
  unfold Env.now
  cases ht : env.times with
  | nil => exact maxT_pos
  | cons a r => exact h a (by rw [ht]; simp)

theorem envT_getD (env : Env) (h : EnvT env) (i : Nat) : (env.times[i]?).getD env.now < maxT := by
  cases hg : env.times[i]? with
  | none => exact envT_now env h
  | some t => exact h t (List.mem_of_getElem? hg)

theorem secPlan_wf (log : List Event) (hl : AllWf log) (g : Graph) (p : PlanInput) (env : Env) (he : EnvT env) (w : Write) (o : PlanOut)
    (h : secPlan log g p env = .ok (w, o)) : AllWf w.events := by
  unfold secPlan at h
  simp only at h
  repeat' ((try simp only at h); split at h)
  all_goals first
    | (cases h; done)
    | (simp only [Except.ok.injEq, Prod.mk.injEq] at h; obtain ⟨rfl, _⟩ := h
       simp only [Write.events]
       refine allWf_append (allWf_append (allWf_append hl (allWf_single ?_)) ?_) ?_
       · simp [Wf, TimeOk, envT_now env he, stOk_todo]
       · intro e hm
         simp only [List.mem_map] at hm
         obtain ⟨⟨⟨t, id⟩, i⟩, _, rfl⟩ := hm
         simp [Wf, TimeOk, envT_getD env he, stOk_todo]
       · intro e hm
         simp only [List.mem_map] at hm
         obtain ⟨d, _, rfl⟩ := hm
         simp [Wf])

theorem map_ok {α β ε : Type} {f : α → β} {x : Except ε α} {y : β} (h : x.map f = .ok y) : ∃ a, x = .ok a ∧ f a = y := by
  cases x with
  | error e => simp [Except.map] at h
  | ok a => exact ⟨a, rfl, by simpa [Except.map] using h⟩

theorem applyWrite_wf (log : List Event) (hl : AllWf log) (w : Write) (hw : AllWf w.events) : AllWf (applyWrite log w) := by
  cases w <;> simp only [applyWrite, Write.events] at hw ⊢
  · exact allWf_append hl hw
  · exact hw

theorem secPlan_replaces (log : List Event) (g : Graph) (p : PlanInput) (env : Env) (w : Write) (o : PlanOut)
    (h : secPlan log g p env = .ok (w, o)) : applyWrite log w = w.events := by
  unfold secPlan at h
  simp only at h
  repeat' ((try simp only at h); split at h)
  all_goals first
    | (cases h; done)
    | (simp only [Except.ok.injEq, Prod.mk.injEq] at h; obtain ⟨rfl, _⟩ := h; rfl)

theorem runSec_wf (log : List Event) (hl : AllWf log) (env : Env) (he : EnvT env) (s : Sec) (w : Write) (o : SecOut)
    (h : runSec log env s = .ok (w, o)) : AllWf (applyWrite log w) := by
  have hn := envT_now env he
  unfold runSec at h
  cases hr : replay log with
  | error e => simp [hr] at h
  | ok g =>
    have hg := replay_wf log hl g hr
    simp only [hr] at h
    cases s with
    | create isEpic epicId title body follow =>
      obtain ⟨⟨w', i⟩, hc, hf⟩ := map_ok h
      simp only [Prod.mk.injEq] at hf; obtain ⟨rfl, _⟩ := hf
      exact applyWrite_wf log hl _ (secCreate_wf _ _ _ _ _ _ _ _ _ _ _ hn _ _ hc)
    | update id r =>
      obtain ⟨w', hc, hf⟩ := map_ok h
      simp only [Prod.mk.injEq] at hf; obtain ⟨rfl, _⟩ := hf
      exact applyWrite_wf log hl _ (secUpdate_wf _ _ _ _ _ _ hn _ hc)
    | links un edges =>
      obtain ⟨w', hc, hf⟩ := map_ok h
      simp only [Prod.mk.injEq] at hf; obtain ⟨rfl, _⟩ := hf
      exact applyWrite_wf log hl _ (secLinks_wf _ _ _ _ hc)
    | claimOldest epic =>
      obtain ⟨⟨w', t⟩, hc, hf⟩ := map_ok h
      simp only [Prod.mk.injEq] at hf; obtain ⟨rfl, _⟩ := hf
      exact applyWrite_wf log hl _ (secClaimOldest_wf _ _ _ _ hn _ _ hc)
    | prune apply =>
      simp only [Except.ok.injEq, Prod.mk.injEq] at h
      obtain ⟨rfl, _⟩ := h
      exact applyWrite_wf log hl _ (secPrune_wf g apply env.agent env.now hn)
    | compact =>
      simp only [Except.ok.injEq, Prod.mk.injEq] at h
      obtain ⟨rfl, _⟩ := h
      exact compactEvents_wf g hg
    | plan p =>
      obtain ⟨⟨w', po⟩, hc, hf⟩ := map_ok h
      simp only [Prod.mk.injEq] at hf; obtain ⟨rfl, _⟩ := hf
      rw [secPlan_replaces log g p env _ _ hc]
      exact secPlan_wf log hl g p env he _ _ hc

/-- **every event any command writes can be written**: starting from a log of well-formed events, with clock readings before year 10000,
    the log after any command consists of well-formed events (so the concrete line codec reads every one of them back as it was) -/
theorem runCmd_wf (log : List Event) (hl : AllWf log) (env : Env) (he : EnvT env) (req : Request) : AllWf (runCmd log env req).log := by
  unfold runCmd
  split
  · exact hl
  · split
    · rename_i w o hr
      exact runSec_wf log hl env he _ w o hr
    · exact hl

end Ergo.Codec
