/-
  Theorems about ErgoModel.Url (the file:// URL of a result).
-/
import ErgoModel.Url
import ErgoProofs.Lemmas.PathThm
namespace Ergo.Url
open Ergo.Path

/-- the bytes `escapePath` can produce -/
def urlByte (b : UInt8) : Bool := safeByte b || b == 37

/-! ### facts about one byte (checked over all 256 values by the kernel) -/

theorem forall_byte (P : UInt8 → Prop) (h : ∀ n : Fin 256, P (UInt8.ofNat n.val)) : ∀ b, P b := by
  intro b
  have := h ⟨b.toNat, b.toNat_lt⟩
  simpa using this

theorem urlByte_printable_all :
    ∀ b : UInt8, urlByte b = true → 33 ≤ b ∧ b ≤ 126 ∧ b ≠ 34 ∧ b ≠ 60 ∧ b ≠ 62 ∧ b ≠ 92 := by
  apply forall_byte; decide +kernel

/-- the two hex digits written for a byte read back as its two nibbles, which recombine to the byte -/
theorem hex_roundtrip : ∀ b : UInt8, unhex (hexDigit (b >>> 4)) = some (b >>> 4) ∧
    unhex (hexDigit (b &&& 15)) = some (b &&& 15) ∧ ((b >>> 4) <<< 4 ||| (b &&& 15)) = b := by
  apply forall_byte; decide +kernel

theorem safeByte_ne_pct : ∀ b : UInt8, safeByte b = true → b ≠ 37 := by
  apply forall_byte; decide +kernel

theorem hexDigit_urlByte :
    ∀ b : UInt8, urlByte (hexDigit (b >>> 4)) = true ∧ urlByte (hexDigit (b &&& 15)) = true := by
  apply forall_byte; decide +kernel

/-! ### escaping -/

theorem escapePath_cons (b : UInt8) (bs : Bytes) : escapePath (b :: bs) = escByte b ++ escapePath bs := by
  simp [escapePath]

/-- an escaped path consists of unreserved/allowed ASCII bytes and '%' only: no space, no control character, no quote, no byte ≥ 128 -/
theorem escapePath_bytes (bs : Bytes) : ∀ b ∈ escapePath bs, urlByte b = true := by
  intro b hb
  simp only [escapePath, List.mem_flatMap] at hb
  obtain ⟨a, _, ha⟩ := hb
  unfold escByte at ha
  split at ha
  · rename_i hs
    simp at ha; subst ha; simp [urlByte, hs]
  · simp at ha
    rcases ha with rfl | rfl | rfl
    · decide
    · exact (hexDigit_urlByte a).1
    · exact (hexDigit_urlByte a).2

theorem urlByte_printable (b : UInt8) (h : urlByte b = true) : 33 ≤ b ∧ b ≤ 126 ∧ b ≠ 34 ∧ b ≠ 60 ∧ b ≠ 62 ∧ b ≠ 92 :=
  urlByte_printable_all b h

/-! ### unescaping -/

theorem unescape_cons_safe (b : UInt8) (rest : Bytes) (h : b ≠ 37) :
    unescape (b :: rest) = (unescape rest).map (b :: ·) := by
  rw [unescape]
  · simp [h]
  · intro h' l' rest' heq
    exact absurd heq h

theorem unescape_pct (h l : UInt8) (rest : Bytes) : unescape (37 :: h :: l :: rest) =
    match unhex h, unhex l, unescape rest with
    | some a, some b, some r => some ((a <<< 4 ||| b) :: r)
    | _, _, _ => none := by
  rw [unescape]
  rfl

/-- parsing the URL's path again gives back exactly the bytes that were escaped -/
theorem unescape_escapePath (bs : Bytes) : unescape (escapePath bs) = some bs := by
  induction bs with
  | nil => simp [escapePath, unescape]
  | cons b bs ih =>
    rw [escapePath_cons]
    unfold escByte
    split
    · rename_i hs
      simp [unescape_cons_safe _ _ (safeByte_ne_pct b hs), ih]
    · obtain ⟨h1, h2, h3⟩ := hex_roundtrip b
      simp [unescape_pct, h1, h2, h3, ih]

/-- hence two paths get the same URL only if they are the same bytes -/
theorem escapePath_injective (a b : Bytes) (h : escapePath a = escapePath b) : a = b := by
  have := congrArg unescape h
  rw [unescape_escapePath, unescape_escapePath] at this
  exact Option.some.inj this

/-! ### UTF-8 of a `List Char` -/

theorem byteArray_toList_loop (bs : ByteArray) (i : Nat) (r : List UInt8) :
    ByteArray.toList.loop bs i r = r.reverse ++ bs.data.toList.drop i := by
  fun_induction ByteArray.toList.loop bs i r with
  | case1 i r h ih =>
    rw [ih]
    have h' : i < bs.data.toList.length := by rw [Array.length_toList, ByteArray.size_data]; exact h
    rw [List.drop_eq_getElem_cons h']
    have h2 : i < bs.data.size := by rw [ByteArray.size_data]; exact h
    simp [ByteArray.get!, getElem!_pos bs.data i h2]
  | case2 i r h =>
    have h' : bs.data.toList.length ≤ i := by rw [Array.length_toList, ByteArray.size_data]; omega
    simp [List.drop_eq_nil_of_le h']

theorem byteArray_toList (bs : ByteArray) : bs.toList = bs.data.toList := by
  simp [ByteArray.toList, byteArray_toList_loop]

/-- `utf8` is the concatenation of the UTF-8 encodings of the characters -/
theorem utf8_eq (p : P) : utf8 p = p.flatMap String.utf8EncodeChar := by
  unfold utf8
  rw [byteArray_toList, String.toUTF8, String.toByteArray_ofList, List.utf8Encode, List.toList_data_toByteArray]

theorem utf8_slash (cs : P) : utf8 ('/' :: cs) = 47 :: utf8 cs := by
  rw [utf8_eq, utf8_eq, List.flatMap_cons]
  rfl

/-! ### the path that is escaped -/

theorem clean_rooted (q : P) : ∃ cs, clean ('/' :: q) = '/' :: cs := by
  unfold clean
  simp [isAbs]

theorem join_abs (repo rel : P) (habs : isAbs repo = true) : ∃ cs, join [repo, rel] = '/' :: cs := by
  cases repo with
  | nil => simp [isAbs] at habs
  | cons c q =>
    have hc : c = '/' := by simpa [isAbs] using habs
    subst hc
    unfold join
    cases rel with
    | nil => simp [List.filter]; exact clean_rooted q
    | cons d r => simp [List.filter]; exact clean_rooted _

theorem urlPath_absolute (repo rel : P) (habs : isAbs repo = true) :
    ∃ cs, urlPath repo rel = '/' :: cs := by
  obtain ⟨cs, h⟩ := join_abs repo rel habs
  unfold urlPath
  simp [h]

theorem map_backslash_id (p : P) (h : ∀ c ∈ p, c ≠ '\\') :
    p.map (fun c => if c == '\\' then '/' else c) = p := by
  induction p with
  | nil => rfl
  | cons c cs ih =>
    have h1 : c ≠ '\\' := h c (by simp)
    have h2 : ∀ d ∈ cs, d ≠ '\\' := fun d hd => h d (by simp [hd])
    rw [List.map_cons, ih h2]
    simp [h1]

theorem urlPath_of_clean (repo rel : P) (habs : isAbs repo = true) (hb : ∀ c ∈ join [repo, rel], c ≠ '\\') :
    urlPath repo rel = join [repo, rel] := by
  obtain ⟨cs, h⟩ := join_abs repo rel habs
  unfold urlPath
  simp only [map_backslash_id _ hb]
  simp [h]

/-- with an absolute project directory the URL is `file:///…`: absolute, whatever the relative path looks like and wherever the command runs -/
theorem fileURL_absolute (repo rel : P) (habs : isAbs repo = true) :
    ∃ rest, fileURL repo rel = scheme ++ 47 :: rest := by
  obtain ⟨cs, h⟩ := urlPath_absolute repo rel habs
  refine ⟨escapePath (utf8 cs), ?_⟩
  unfold fileURL
  rw [h, utf8_slash, escapePath_cons]
  rfl

/-- and it is the escaped UTF-8 of the cleaned join: no `.`/`..`/empty component survives in it when no backslash is involved -/
theorem fileURL_of_clean (repo rel : P) (habs : isAbs repo = true) (hb : ∀ c ∈ join [repo, rel], c ≠ '\\') :
    fileURL repo rel = scheme ++ escapePath (utf8 (join [repo, rel])) := by
  unfold fileURL
  rw [urlPath_of_clean repo rel habs hb]

end Ergo.Url
