/-
  buildSetEvents, stage by stage: what each stage returns when it succeeds.
-/
import ErgoProofs.Lemmas.TaskStep
import ErgoProofs.Lemmas.Tables
namespace Ergo

theorem evTitle_ok {id now o l} (h : evTitle id now o = .ok l) :
    (o = none ∧ l = []) ∨ (∃ s, o = some s ∧ Text.trimSpace s ≠ "" ∧ l = [Event.title id (Text.trimSpace s) (some now)]) := by
  cases o with
  | none => simp [evTitle] at h; simp [h]
  | some s =>
    simp only [evTitle] at h
    split at h
    · cases h
    · rename_i hne; injection h with h; right; exact ⟨s, rfl, by simpa using hne, h.symm⟩

theorem evBody_cases (id now) (o : Option String) :
    (o = none ∧ evBody id now o = []) ∨ (∃ b, o = some b ∧ evBody id now o = [Event.body id b (some now)]) := by
  cases o <;> simp [evBody]

theorem evEpic_ok {t : Task} {now o l} (h : evEpic t now o = .ok l) :
    (o = none ∧ l = []) ∨ (∃ e, o = some e ∧ t.isEpic = false ∧ l = [Event.epic t.id e (some now)]) := by
  cases o with
  | none => simp [evEpic] at h; simp [h]
  | some e =>
    simp only [evEpic] at h
    split at h
    · cases h
    · rename_i hne; injection h with h; right; exact ⟨e, rfl, by simpa using hne, h.symm⟩

theorem evClaim_ok {t : Task} {sg now o l} (h : evClaim t sg now o = .ok l) :
    (o = none ∧ l = []) ∨ (∃ cv, o = some cv ∧ t.isEpic = true ∧ l = []) ∨
    (o = some "" ∧ t.isEpic = false ∧ (sg = true ∨ docClaimOk t.st "" = true) ∧ l = [Event.unclaim t.id]) ∨
    (∃ cv, o = some cv ∧ cv ≠ "" ∧ t.isEpic = false ∧ l = [Event.claim t.id cv (some now)]) := by
  cases o with
  | none => simp [evClaim] at h; simp [h]
  | some cv =>
    simp only [evClaim] at h
    by_cases he : t.isEpic = true
    · simp [he] at h; right; left; exact ⟨cv, rfl, he, h⟩
    · have he' : t.isEpic = false := by simpa using he
      simp only [he'] at h
      by_cases hc : cv = ""
      · subst hc
        simp only [beq_self_eq_true, ↓reduceIte, claimInvariantOk_eq] at h
        by_cases hn : (!sg && !docClaimOk t.st "") = true
        · simp [hn] at h
        · simp only [hn] at h
          injection h with h
          right; right; left
          refine ⟨rfl, he', ?_, h.symm⟩
          cases sg <;> simp_all
      · have : (cv == "") = false := by simpa using hc
        simp [this] at h
        right; right; right; exact ⟨cv, rfl, hc, he', h.symm⟩

theorem evState_ok {t : Task} {claim now o l} (h : evState t claim now o = .ok l) :
    (o = none ∧ l = []) ∨
    (∃ s, o = some s ∧ (St.ofString s).valid = true ∧ (t.st = St.ofString s ∨ docTransition t.st (St.ofString s) = true) ∧
      docClaimOk (St.ofString s)
        (if (St.ofString s).clearsClaim then "" else if claim.isSome && !t.isEpic then claim.getD "" else t.claimedBy) = true ∧
      l = [Event.state t.id (St.ofString s) (some now)]) := by
  cases o with
  | none => simp [evState] at h; simp [h]
  | some s =>
    simp only [evState, validTransition_eq, claimInvariantOk_eq] at h
    generalize hnc : (if (St.ofString s).clearsClaim = true then ""
        else if (claim.isSome && !t.isEpic) = true then claim.getD "" else t.claimedBy) = nc at h
    cases hv : (St.ofString s).valid
    · simp [hv] at h
    · cases htr : (t.st == St.ofString s || docTransition t.st (St.ofString s))
      · simp [hv, htr] at h
      · cases hci : docClaimOk (St.ofString s) nc
        · simp [hv, htr, hci] at h
        · simp only [hv, htr, hci, Bool.not_true, Bool.false_eq_true, ↓reduceIte] at h
          injection h with h
          right
          refine ⟨s, rfl, hv, ?_, ?_, h.symm⟩
          · simpa using htr
          · rw [hnc]; exact hci

theorem evTrail_ok {t : Task} {claim sg now l} (h : evTrail t claim sg now = .ok l) :
    ((claim.isSome && !t.isEpic && claim.getD "" != "" && !sg) = false ∧ l = []) ∨
    ((claim.isSome && !t.isEpic && claim.getD "" != "" && !sg) = true ∧ (t.st = .doing ∨ docTransition t.st .doing = true) ∧
      l = [Event.state t.id .doing (some now)]) := by
  simp only [evTrail, validTransition_eq] at h
  split at h
  · rename_i hc
    split at h
    · cases h
    · rename_i htr
      injection h with h
      right
      refine ⟨hc, ?_, h.symm⟩
      simp only [Bool.not_eq_true', Bool.not_eq_false, Bool.or_eq_true, beq_iff_eq] at htr
      exact htr
  · rename_i hc
    injection h with h
    left; exact ⟨by simpa using hc, h.symm⟩

theorem implicitClaim_ok {t : Task} {u : Updates} {agent c} (h : implicitClaim t u agent = .ok c) :
    c = u.claim ∨ (u.claim = none ∧ t.isEpic = false ∧ t.claimedBy = "" ∧ agent ≠ "" ∧ c = some agent ∧
                    (u.state = some "doing" ∨ u.state = some "error")) := by
  simp only [implicitClaim] at h
  split at h
  · rename_i hcond
    simp only [Bool.and_eq_true, Bool.not_eq_true', beq_iff_eq] at hcond
    split at h
    · rename_i s hs hc
      split at h
      · rename_i hde
        split at h
        · cases h
        · rename_i hag
          injection h with h
          right
          refine ⟨hc, hcond.1, hcond.2, by simpa using hag, h.symm, ?_⟩
          simp only [Bool.or_eq_true, beq_iff_eq] at hde
          rcases hde with hde | hde <;> simp [hs, hde]
      · injection h with h; left; rw [← h, hc]
    · injection h with h; left; exact h.symm
  · injection h with h; left; exact h.symm

/-- success of `buildSetEvents` is success of every stage -/
theorem buildSetEvents_ok {t : Task} {u : Updates} {agent now evs} (h : buildSetEvents t u agent now = .ok evs) :
    ∃ claim e1 e3 e4 e5 e6, implicitClaim t u agent = .ok claim ∧ evTitle t.id now u.title = .ok e1 ∧
      evEpic t now u.epic = .ok e3 ∧ evClaim t u.state.isSome now claim = .ok e4 ∧ evState t claim now u.state = .ok e5 ∧
      evTrail t claim u.state.isSome now = .ok e6 ∧ evs = e1 ++ evBody t.id now u.body ++ e3 ++ e4 ++ e5 ++ e6 := by
  simp only [buildSetEvents, bind, Except.bind, pure, Except.pure] at h
  split at h
  · cases h
  · rename_i claim h0
    split at h
    · cases h
    · rename_i e1 h1
      split at h
      · cases h
      · rename_i e3 h3
        split at h
        · cases h
        · rename_i e4 h4
          split at h
          · cases h
          · rename_i e5 h5
            split at h
            · cases h
            · rename_i e6 h6
              injection h with h
              exact ⟨claim, e1, e3, e4, e5, e6, h0, h1, h3, h4, h5, h6, h.symm⟩

end Ergo
