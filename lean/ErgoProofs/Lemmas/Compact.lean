/-
  WP2 — C05: compaction changes nothing a reader can see.
  Definitions: compactEvents, compactTask, pickTime (ErgoModel/Query.lean); replayRaw, applyEvent, migrate (ErgoModel/Replay.lean);
  obsTask, ObsEq, GraphOK, TaskOK, WF, maxTimes (ErgoProofs/Spec.lean).

  Precondition.  `GraphOK` (Spec.lean) is *not* sufficient: `compactTask` never emits an `epic` event for an epic, so an
  epic whose `lastEpic` is the only witness of its `updatedAt` (e.g. createdAt = 1, lastEpic = updatedAt = 5, everything
  else 0, epicId = cEpic — this satisfies `TaskOK`) comes back with `updated_at = 1`.  `TaskOK'` / `GraphOK'`
  (CompactItem.lean / CompactGraph.lean) add exactly the missing clause

      epicTime : t.isEpic = true → t.lastEpic ≤ maxTimes ([createdAt, lastTitle, lastBody, lastState] ++ result times)

  which is also necessary (given `updated`).  The CLI never writes an `epic` event for an epic (`evEpic` fails with
  `epicEpic`), and replaying a compacted log gives epics `lastEpic = 0`, so CLI-reachable graphs have `lastEpic = 0`
  for epics: use `GraphOK'.of_lastEpic_zero`.  The result graph satisfies `GraphOK'` again (hence `GraphOK`).

  Layout: CompactTask (the block of one item and what replay makes of it) → CompactItem (observables, precondition,
  idempotence per item) → CompactReplay (replaying the whole log) → CompactGraph (graph level) → CompactObs (queries).
-/
import ErgoProofs.Lemmas.CompactObs
namespace Ergo

/-- replaying the compacted log succeeds and yields the same observable store, with no tombstones left -/
theorem compact_roundtrip (g : Graph) (h : GraphOK' g) :
    ∃ g', replayRaw (compactEvents g) = .ok g' ∧ ObsEq g' g ∧ g'.tombs = [] ∧ GraphOK' g' :=
  ⟨compacted g, replayRaw_compact g h.wf, obsEq_compacted g h, rfl, graphOK_compacted g h⟩

/-- the legacy-title pass is the identity on the result (titles are already non-blank) -/
theorem compact_replay (g : Graph) (h : GraphOK' g) :
    ∃ g', replay (compactEvents g) = .ok g' ∧ ObsEq g' g ∧ g'.tombs = [] ∧ GraphOK' g' :=
  ⟨compacted g, replay_compact g h, obsEq_compacted g h, rfl, graphOK_compacted g h⟩

/-- compacting an already compacted log changes nothing: the event lists are identical -/
theorem compact_idempotent (g g' : Graph) (h : GraphOK' g) (hr : replay (compactEvents g) = .ok g') :
    compactEvents g' = compactEvents g := by
  rw [replay_compact g h] at hr
  cases hr
  exact compactEvents_compacted g h

/-! the same three in the vocabulary of Spec.lean, for graphs whose epics never had an `epic` event -/
theorem compact_roundtrip' (g : Graph) (h : GraphOK g) (h0 : ∀ t ∈ g.tasks, t.isEpic = true → t.lastEpic = 0) :
    ∃ g', replayRaw (compactEvents g) = .ok g' ∧ ObsEq g' g ∧ g'.tombs = [] ∧ GraphOK g' ∧
      (∀ t ∈ g'.tasks, t.isEpic = true → t.lastEpic = 0) := by
  have h' := GraphOK'.of_lastEpic_zero h h0
  refine ⟨compacted g, replayRaw_compact g h.wf, obsEq_compacted g h', rfl, (graphOK_compacted g h').toGraphOK, ?_⟩
  intro t' ht' he
  simp only [compacted, List.mem_map] at ht'
  obtain ⟨t, _, rfl⟩ := ht'
  rw [rebuild_eq] at he ⊢
  have he' : t.isEpic = true := he
  simp [rebuildX, emitEpic, he', optT]

theorem compact_replay' (g : Graph) (h : GraphOK g) (h0 : ∀ t ∈ g.tasks, t.isEpic = true → t.lastEpic = 0) :
    ∃ g', replay (compactEvents g) = .ok g' ∧ ObsEq g' g ∧ g'.tombs = [] ∧ GraphOK g' ∧
      (∀ t ∈ g'.tasks, t.isEpic = true → t.lastEpic = 0) := by
  obtain ⟨g', h1, h2⟩ := compact_roundtrip' g h h0
  refine ⟨g', ?_, h2⟩
  have h' := GraphOK'.of_lastEpic_zero h h0
  rw [replay_compact g h']
  rw [replayRaw_compact g h.wf] at h1
  exact h1

theorem compact_idempotent' (g g' : Graph) (h : GraphOK g) (h0 : ∀ t ∈ g.tasks, t.isEpic = true → t.lastEpic = 0)
    (hr : replay (compactEvents g) = .ok g') : compactEvents g' = compactEvents g :=
  compact_idempotent g g' (GraphOK'.of_lastEpic_zero h h0) hr

/-- observable equality is all that the queries look at: ready/blocked flags … -/
theorem obsEq_isReady (g g' : Graph) (hwf : WF g) (hwf' : WF g') (h : ObsEq g g') (t t' : Task)
    (ht : t ∈ g.tasks) (ht' : t' ∈ g'.tasks) (hid : t.id = t'.id) : isReady g t = isReady g' t' ∧ isBlocked g t = isBlocked g' t' :=
  h.ready_blocked hwf hwf' t t' (h.of_same_id hwf hwf' t t' ht ht' hid)

/-- … and the order in which `claim` hands tasks out -/
theorem obsEq_readyOrder (g g' : Graph) (hwf : WF g) (hwf' : WF g') (h : ObsEq g g') (epic : Id) :
    (readyTasks g epic).map (·.id) = (readyTasks g' epic).map (·.id) := by
  have hk : (readyTasks g epic).map claimKey = (readyTasks g' epic).map claimKey := by
    rw [readyTasks_keys, readyTasks_keys]
    have hp : ((g.tasks.filter (readySel g epic)).map claimKey).Perm ((g'.tasks.filter (readySel g' epic)).map claimKey) :=
      (List.perm_ext_iff_of_nodup (readyKeys_nodup g hwf epic) (readyKeys_nodup g' hwf' epic)).mpr fun k =>
        ⟨h.readyKeys_sub hwf hwf' epic k, h.symm.readyKeys_sub hwf' hwf epic k⟩
    exact List.Perm.eq_of_pairwise (le := fun a b => keyLe a b = true) (fun a b _ _ => keyLe_antisymm a b)
      (List.pairwise_mergeSort keyLe_trans keyLe_total _) (List.pairwise_mergeSort keyLe_trans keyLe_total _)
      (((List.mergeSort_perm _ _).trans hp).trans (List.mergeSort_perm _ _).symm)
  have := congrArg (List.map (·.2)) hk
  simpa only [List.map_map, Function.comp_def, claimKey] using this

/-! ### `GraphOK` alone is not enough -/
/-- witness that `GraphOK` alone does not give the round trip: an epic whose only late timestamp is `lastEpic` -/
def cexT : Task :=
  { id := "a", uuid := "u", epicId := "", isEpic := true, st := .todo, title := "x", body := "", claimedBy := "",
    createdAt := 1, updatedAt := 5, results := [], cTitle := "x", cBody := "", cSt := .todo, cEpic := "",
    lastState := 0, lastClaim := 0, lastTitle := 0, lastBody := 0, lastEpic := 5 }
def cexG : Graph := ⟨[cexT], [], []⟩

theorem cexG_ok : GraphOK cexG := by
  refine ⟨⟨by simp [cexG], by simp [cexG], by simp [cexG], by simp [cexG]⟩, ?_⟩
  intro t ht
  simp only [cexG, List.mem_singleton] at ht
  subst ht
  refine ⟨by decide, by decide, by decide, by decide, by decide, by decide, by decide⟩

theorem graphOK_not_sufficient :
    ∃ g, GraphOK g ∧ ∀ g', replayRaw (compactEvents g) = .ok g' → ¬ ObsEq g' g := by
  refine ⟨cexG, cexG_ok, ?_⟩
  intro g' hr ho
  rw [replayRaw_compact cexG cexG_ok.wf] at hr
  cases hr
  have h1 := ho.1 "a"
  have h2 : (compacted cexG).find? "a" = some (rebuildX cexT) := by
    simp only [compacted, cexG, Graph.find?, List.mergeSort_singleton, List.map_cons, List.map_nil, rebuild_eq]
    rfl
  have h3 : cexG.find? "a" = some cexT := by
    simp [cexG, Graph.find?, cexT]
  rw [h2, h3] at h1
  simp only [Option.map_some, Option.some.injEq] at h1
  have h4 : (rebuildX cexT).updatedAt = cexT.updatedAt := congrArg Obs.updatedAt h1
  revert h4
  decide

end Ergo
