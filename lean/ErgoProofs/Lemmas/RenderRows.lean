/-
  WP13b — C19 completeness: sibling order is a permutation (Kahn on an acyclic graph loses nobody) and each view shows
  exactly the items it should, each on one row.
  Definitions: ErgoModel/Render.lean (qLe, dependsOn, inDegree, kahn, topoSort, View, Row, childrenOf, epicHidden, kidsShown, rows);
  ErgoProofs/Spec.lean (Acyclic, Path, WF, Inv07, Inv14); ErgoModel/Query.lean (isReady).
  The loop invariant of `kahn` and its consequences are in ErgoProofs/Lemmas/RenderRowsKahn.lean.
-/
import ErgoProofs.Spec
import ErgoProofs.Lemmas.Reach
import ErgoModel.Render
import ErgoProofs.Lemmas.RenderRowsKahn
import Mathlib.Data.List.Perm.Lattice
namespace Ergo.Render
open Ergo Kahn

/-- Kahn's algorithm returns every task exactly once when the dependency relation is acyclic -/
theorem topoSort_perm (g : Graph) (tasks : List Task) (hnd : (tasks.map (·.id)).Nodup) (hac : Acyclic g.deps) :
    (topoSort g tasks).Perm tasks := (topoSort_spec g tasks hnd hac).1

/-- … and dependencies come before their dependents -/
theorem topoSort_respects (g : Graph) (tasks : List Task) (hnd : (tasks.map (·.id)).Nodup) (hac : Acyclic g.deps)
    (a b : Task) (ha : a ∈ tasks) (hb : b ∈ tasks) (hdep : (a.id, b.id) ∈ g.deps) :
    ∃ pre post, topoSort g tasks = pre ++ a :: post ∧ b ∈ pre := by
  obtain ⟨hp, ho⟩ := topoSort_spec g tasks hnd hac
  obtain ⟨pre, post, heq⟩ := List.append_of_mem (hp.mem_iff.2 ha)
  exact ⟨pre, post, heq, ho pre a post heq b hb hdep⟩

/-! ### list-permutation helpers -/
theorem flatMap_filter_perm {α β κ : Type} [DecidableEq κ] (kb : β → κ) (k : α → κ) :
    ∀ (K : List β) (T : List α), (K.map kb).Nodup → (∀ t ∈ T, k t ∈ K.map kb) →
      (K.flatMap fun c => T.filter fun t => k t == kb c).Perm T
  | [], T, _, h => by
    cases T with
    | nil => simp
    | cons a T => simpa using h a (List.mem_cons_self ..)
  | c :: K, T, hK, h => by
    rw [List.map_cons, List.nodup_cons] at hK
    rw [List.flatMap_cons]
    have h1 : (K.flatMap fun c' => T.filter fun t => k t == kb c')
        = K.flatMap fun c' => (T.filter fun t => !(k t == kb c)).filter fun t => k t == kb c' := by
      apply List.flatMap_congr
      intro c' hc'
      rw [List.filter_filter]
      apply List.filter_congr
      intro t _
      by_cases htc : k t = kb c'
      · have : k t ≠ kb c := fun h => hK.1 (h ▸ htc ▸ List.mem_map.2 ⟨c', hc', rfl⟩)
        have h1 : (k t == kb c) = false := by simpa using this
        simp [h1]
      · have h1 : (k t == kb c') = false := by simpa using htc
        simp [h1]
    rw [h1]
    have ih := flatMap_filter_perm kb k K (T.filter fun t => !(k t == kb c)) hK.2 (by
      intro t ht
      rw [List.mem_filter] at ht
      have := h t ht.1
      rw [List.map_cons, List.mem_cons] at this
      rcases this with h2 | h2
      · simp [h2] at ht
      · exact h2)
    exact (List.Perm.append_left _ ih).trans (List.filter_append_perm _ T)

theorem flatMap_cons_perm {α β : Type} (f : β → α) (F : β → List α) :
    ∀ K : List β, (K.flatMap fun c => f c :: F c).Perm (K.map f ++ K.flatMap F)
  | [] => by simp
  | c :: K => by
    simp only [List.flatMap_cons, List.map_cons, List.cons_append]
    refine List.Perm.cons _ ?_
    refine (List.Perm.append_left _ (flatMap_cons_perm f F K)).trans ?_
    rw [← List.append_assoc, ← List.append_assoc]
    exact List.Perm.append_right _ List.perm_append_comm

theorem flatMap_sublist {α β : Type} {f h : α → List β} :
    ∀ l : List α, (∀ a ∈ l, (f a).Sublist (h a)) → (l.flatMap f).Sublist (l.flatMap h)
  | [], _ => by simp
  | a :: l, hs => by
    rw [List.flatMap_cons, List.flatMap_cons]
    exact (hs a (List.mem_cons_self ..)).append (flatMap_sublist l fun b hb => hs b (List.mem_cons_of_mem _ hb))

/-! ### the shape of `rows` -/
def mkRow (t : Task) : Row := { id := t.id, child := false, last := false }
def orphanList (g : Graph) : List Task := g.tasks.filter fun t => !t.isEpic && t.epicId == ""
def epicList (g : Graph) : List Task := g.tasks.filter (·.isEpic)
def kidList (g : Graph) (e : Id) : List Task := g.tasks.filter fun t => !t.isEpic && t.epicId != "" && t.epicId == e

def orphansShown (g : Graph) (v : View) : List Task :=
  match v with
  | .all => topoSort g (orphanList g)
  | .active => (topoSort g (orphanList g)).filter fun (t : Task) => t.st != St.canceled && t.st != St.done
  | .ready => (topoSort g (orphanList g)).filter (isReady g)

def keepEpic (g : Graph) (v : View) (e : Id) : Bool :=
  match v with
  | .all => true
  | .active => !epicHidden (childrenOf g e)
  | .ready => !(kidsShown g .ready (childrenOf g e)).isEmpty

theorem rows_eq (g : Graph) (v : View) :
    rows g v = (orphansShown g v).map mkRow ++ (topoSort g (epicList g)).flatMap fun e =>
      if !keepEpic g v e.id then [] else
        mkRow e :: (kidsShown g v (childrenOf g e.id)).zipIdx.map fun (k, i) =>
          { id := k.id, child := true, last := i + 1 == (kidsShown g v (childrenOf g e.id)).length } := by
  cases v <;> rfl

theorem rows_ids (g : Graph) (v : View) :
    (rows g v).map (·.id) = (orphansShown g v).map (·.id) ++ (topoSort g (epicList g)).flatMap fun e =>
      if keepEpic g v e.id then e.id :: (kidsShown g v (childrenOf g e.id)).map (·.id) else [] := by
  rw [rows_eq, List.map_append, List.map_map, List.map_flatMap]
  congr 1
  apply List.flatMap_congr
  intro e _
  cases keepEpic g v e.id
  · simp
  · simp only [Bool.not_true, Bool.false_eq_true, if_false, if_true, List.map_cons, List.map_map, mkRow]
    congr 1
    conv => rhs; rw [← List.zipIdx_map_fst 0 (kidsShown g v (childrenOf g e.id)), List.map_map]
    rfl

/-! ### the partition of the live items into orphans, epics and children -/
theorem filter_ids_nodup {g : Graph} (hwf : WF g) (p : Task → Bool) : ((g.tasks.filter p).map (·.id)).Nodup :=
  hwf.nodup.sublist (List.filter_sublist.map _)

theorem kidList_eq (g : Graph) (e : Id) :
    kidList g e = (g.tasks.filter fun t => !t.isEpic && t.epicId != "").filter fun t => t.epicId == e := by
  rw [kidList, List.filter_filter]
  apply List.filter_congr
  intro t _
  rw [Bool.and_comm]

theorem partition_perm (g : Graph) (hwf : WF g) (h14 : Inv14 g) :
    (orphanList g ++ (epicList g).flatMap fun e => e :: kidList g e.id).Perm g.tasks := by
  have hk : ((epicList g).flatMap fun e => kidList g e.id).Perm (g.tasks.filter fun t => !t.isEpic && t.epicId != "") := by
    simp only [kidList_eq]
    apply flatMap_filter_perm (fun e : Task => e.id) (fun t : Task => t.epicId) (epicList g) _ (filter_ids_nodup hwf _)
    intro t ht
    rw [List.mem_filter] at ht
    obtain ⟨ht, hp⟩ := ht
    simp only [Bool.and_eq_true, Bool.not_eq_true', bne_iff_ne, ne_eq] at hp
    rcases (h14 t ht).2 hp.1 with h | ⟨e, he, hid, hep⟩
    · exact absurd h hp.2
    · exact List.mem_map.2 ⟨e, List.mem_filter.2 ⟨he, hep⟩, hid⟩
  have h1 := flatMap_cons_perm (fun e : Task => e) (fun e : Task => kidList g e.id) (epicList g)
  rw [List.map_id'] at h1
  have h2 := List.filter_append_perm (fun t : Task => t.isEpic) g.tasks
  have h3 := List.filter_append_perm (fun t : Task => t.epicId == "") (g.tasks.filter fun t => !t.isEpic)
  rw [List.filter_filter, List.filter_filter] at h3
  have ho : orphanList g = g.tasks.filter fun t => t.epicId == "" && !t.isEpic := by
    rw [orphanList]; apply List.filter_congr; intro t _; rw [Bool.and_comm]
  have hk' : (g.tasks.filter fun t => !t.isEpic && t.epicId != "") = g.tasks.filter fun t => (!t.epicId == "") && !t.isEpic := by
    apply List.filter_congr; intro t _; rw [Bool.and_comm]; rfl
  rw [hk'] at hk
  rw [← ho] at h3
  refine (List.Perm.append_left _ (h1.trans (List.Perm.append_left _ hk))).trans ?_
  refine List.perm_append_comm.trans ?_
  rw [List.append_assoc]
  refine (List.Perm.append_left _ (List.perm_append_comm.trans h3)).trans h2

theorem rows_all_tasks (g : Graph) (hwf : WF g) (h7 : Inv07 g) (h14 : Inv14 g) :
    (topoSort g (orphanList g) ++ (topoSort g (epicList g)).flatMap fun e => e :: childrenOf g e.id).Perm g.tasks := by
  refine List.Perm.trans (List.Perm.append ?_ ?_) (partition_perm g hwf h14)
  · exact topoSort_perm g _ (filter_ids_nodup hwf _) h7.acyclic
  · refine (List.Perm.flatMap_right _ (topoSort_perm g _ (filter_ids_nodup hwf _) h7.acyclic)).trans ?_
    apply List.Perm.flatMap_left
    intro e _
    exact List.Perm.cons _ (topoSort_perm g _ (filter_ids_nodup hwf _) h7.acyclic)

/-- with `--all` every live item appears on exactly one row -/
theorem rows_all (g : Graph) (hwf : WF g) (h7 : Inv07 g) (h14 : Inv14 g) (hid : ∀ t ∈ g.tasks, t.id ≠ "") :
    ((rows g .all).map (·.id)).Perm (g.tasks.map (·.id)) := by
  have _ := hid
  have := (rows_all_tasks g hwf h7 h14).map (·.id)
  rw [List.map_append, List.map_flatMap] at this
  rw [rows_ids]
  exact this

/-! ### every view is a sub-list of `--all`; membership -/
theorem kidsShown_sublist (g : Graph) (v : View) (kids : List Task) : (kidsShown g v kids).Sublist kids := by
  cases v
  · exact List.Sublist.refl _
  · exact List.filter_sublist
  · exact List.filter_sublist

theorem orphansShown_sublist (g : Graph) (v : View) : (orphansShown g v).Sublist (topoSort g (orphanList g)) := by
  cases v
  · exact List.Sublist.refl _
  · exact List.filter_sublist
  · exact List.filter_sublist

theorem rows_ids_sublist (g : Graph) (v : View) : ((rows g v).map (·.id)).Sublist ((rows g .all).map (·.id)) := by
  rw [rows_ids, rows_ids]
  refine List.Sublist.append ((orphansShown_sublist g v).map _) (flatMap_sublist _ fun e _ => ?_)
  cases keepEpic g v e.id
  · simp
  · simp only [if_true, keepEpic]
    exact List.Sublist.cons_cons _ ((kidsShown_sublist g v _).map _)

theorem rows_ids_nodup (g : Graph) (v : View) (hwf : WF g) (h7 : Inv07 g) (h14 : Inv14 g) (hid : ∀ t ∈ g.tasks, t.id ≠ "") :
    ((rows g v).map (·.id)).Nodup :=
  ((rows_all g hwf h7 h14 hid).nodup_iff.2 hwf.nodup).sublist (rows_ids_sublist g v)

theorem mem_rows_ids (g : Graph) (v : View) (i : Id) :
    i ∈ (rows g v).map (·.id) ↔ (∃ t ∈ orphansShown g v, t.id = i) ∨
      ∃ e ∈ topoSort g (epicList g), keepEpic g v e.id = true ∧
        (e.id = i ∨ ∃ k ∈ kidsShown g v (childrenOf g e.id), k.id = i) := by
  rw [rows_ids, List.mem_append, List.mem_map, List.mem_flatMap]
  apply or_congr Iff.rfl
  apply exists_congr
  intro e
  apply and_congr Iff.rfl
  cases keepEpic g v e.id
  · simp
  · simp [eq_comm]

theorem mem_topoSort_filter {g : Graph} (hwf : WF g) (h7 : Inv07 g) (p : Task → Bool) (x : Task) :
    x ∈ topoSort g (g.tasks.filter p) ↔ x ∈ g.tasks ∧ p x = true := by
  rw [(topoSort_perm g _ (filter_ids_nodup hwf p) h7.acyclic).mem_iff, List.mem_filter]

theorem mem_topoSort_filter' {g : Graph} (hwf : WF g) (p : Task → Bool) (x : Task)
    (hx : x ∈ topoSort g (g.tasks.filter p)) : x ∈ g.tasks ∧ p x = true :=
  List.mem_filter.1 ((topoSort_sub g _ (filter_ids_nodup hwf p)).1 x hx)

/-- the default view shows every active task (neither done nor canceled) exactly once -/
theorem rows_active (g : Graph) (hwf : WF g) (h7 : Inv07 g) (h14 : Inv14 g) (hid : ∀ t ∈ g.tasks, t.id ≠ "")
    (t : Task) (ht : t ∈ g.tasks) (hne : t.isEpic = false) (hst : t.st.closed = false) :
    ((rows g .active).map (·.id)).count t.id = 1 := by
  apply List.count_eq_one_of_mem (rows_ids_nodup g .active hwf h7 h14 hid)
  rw [mem_rows_ids]
  have hc : (t.st != St.canceled) = true := by
    rw [bne_iff_ne]; rintro h; rw [h] at hst; simp [St.closed] at hst
  have hd : (t.st != St.done) = true := by
    rw [bne_iff_ne]; rintro h; rw [h] at hst; simp [St.closed] at hst
  by_cases he : t.epicId = ""
  · left
    refine ⟨t, ?_, rfl⟩
    rw [orphansShown, List.mem_filter, orphanList, mem_topoSort_filter hwf h7]
    simp [ht, hne, he, hc, hd]
  · right
    rcases (h14 t ht).2 hne with h | ⟨e, hem, heid, hep⟩
    · exact absurd h he
    · have hkid : t ∈ childrenOf g e.id := by
        rw [childrenOf, mem_topoSort_filter hwf h7]
        simp [ht, hne, he, heid]
      refine ⟨e, ?_, ?_, Or.inr ⟨t, ?_, rfl⟩⟩
      · rw [epicList, mem_topoSort_filter hwf h7]; exact ⟨hem, hep⟩
      · simp only [keepEpic, epicHidden, Bool.not_and, Bool.not_not, Bool.or_eq_true, Bool.not_eq_true',
          List.all_eq_false]
        right
        exact ⟨t, hkid, by simp [hst]⟩
      · rw [kidsShown, List.mem_filter]; exact ⟨hkid, hc⟩

/-- `--ready` shows exactly the ready tasks (plus the epics that have one) -/
theorem rows_ready (g : Graph) (hwf : WF g) (h7 : Inv07 g) (h14 : Inv14 g) (hid : ∀ t ∈ g.tasks, t.id ≠ "") (t : Task) (ht : t ∈ g.tasks)
    (hne : t.isEpic = false) : t.id ∈ (rows g .ready).map (·.id) ↔ isReady g t = true := by
  have _ := hid
  rw [mem_rows_ids]
  constructor
  · rintro (⟨o, ho, hot⟩ | ⟨e, he, _, hei | ⟨k, hk, hkt⟩⟩)
    · rw [orphansShown, List.mem_filter, orphanList, mem_topoSort_filter hwf h7] at ho
      rw [← eq_of_id_eq hwf.nodup ho.1.1 ht hot]; exact ho.2
    · rw [epicList, mem_topoSort_filter hwf h7] at he
      rw [eq_of_id_eq hwf.nodup he.1 ht hei, hne] at he
      exact absurd he.2 (by simp)
    · rw [kidsShown, List.mem_filter, childrenOf, mem_topoSort_filter hwf h7] at hk
      rw [← eq_of_id_eq hwf.nodup hk.1.1 ht hkt]; exact hk.2
  · intro hr
    by_cases he : t.epicId = ""
    · left
      refine ⟨t, ?_, rfl⟩
      rw [orphansShown, List.mem_filter, orphanList, mem_topoSort_filter hwf h7]
      simp [ht, hne, he, hr]
    · right
      rcases (h14 t ht).2 hne with h | ⟨e, hem, heid, hep⟩
      · exact absurd h he
      · have hkid : t ∈ kidsShown g .ready (childrenOf g e.id) := by
          rw [kidsShown, List.mem_filter, childrenOf, mem_topoSort_filter hwf h7]
          simp [ht, hne, he, heid, hr]
        refine ⟨e, ?_, ?_, Or.inr ⟨t, hkid, rfl⟩⟩
        · rw [epicList, mem_topoSort_filter hwf h7]; exact ⟨hem, hep⟩
        · simp only [keepEpic, Bool.not_eq_true', List.isEmpty_eq_false_iff]
          exact List.ne_nil_of_mem hkid

theorem mem_rows (g : Graph) (v : View) (r : Row) (hr : r ∈ rows g v) :
    (∃ t ∈ orphansShown g v, r = mkRow t) ∨
      ∃ e ∈ topoSort g (epicList g), r = mkRow e ∨ ∃ k ∈ kidsShown g v (childrenOf g e.id), r.id = k.id ∧ r.child = true := by
  rw [rows_eq, List.mem_append, List.mem_map, List.mem_flatMap] at hr
  rcases hr with ⟨t, ht, rfl⟩ | ⟨e, he, hr⟩
  · exact Or.inl ⟨t, ht, rfl⟩
  · refine Or.inr ⟨e, he, ?_⟩
    cases hk : keepEpic g v e.id
    · simp [hk] at hr
    · simp only [hk, Bool.not_true, Bool.false_eq_true, if_false, List.mem_cons, List.mem_map] at hr
      rcases hr with rfl | ⟨⟨k, i⟩, hki, rfl⟩
      · exact Or.inl rfl
      · exact Or.inr ⟨k, (List.mem_zipIdx hki).2.2 ▸ List.getElem_mem _, rfl, rfl⟩

/-- children sit under their own epic with a tree glyph; root rows have none -/
theorem rows_child_iff (g : Graph) (v : View) (hwf : WF g) (h14 : Inv14 g) (hid : ∀ t ∈ g.tasks, t.id ≠ "") (r : Row) (hr : r ∈ rows g v) :
    ∃ t ∈ g.tasks, t.id = r.id ∧ (r.child = true ↔ (t.isEpic = false ∧ t.epicId ≠ "")) := by
  have _ := hid; have _ := h14
  rcases mem_rows g v r hr with ⟨t, ht, rfl⟩ | ⟨e, he, rfl | ⟨k, hk, hid, hc⟩⟩
  · have := mem_topoSort_filter' hwf _ t ((orphansShown_sublist g v).subset ht)
    refine ⟨t, this.1, rfl, ?_⟩
    simp only [Bool.and_eq_true, Bool.not_eq_true', beq_iff_eq] at this
    simp [mkRow, this.2.2]
  · have := mem_topoSort_filter' hwf _ e he
    refine ⟨e, this.1, rfl, ?_⟩
    simp [mkRow, this.2]
  · have := mem_topoSort_filter' hwf _ k ((kidsShown_sublist g v _).subset hk)
    refine ⟨k, this.1, hid.symm, ?_⟩
    simp only [Bool.and_eq_true, Bool.not_eq_true', bne_iff_ne, ne_eq, beq_iff_eq] at this
    simp [hc, this.2.1.1, this.2.1.2]
end Ergo.Render
