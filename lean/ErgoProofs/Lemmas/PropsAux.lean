/-
  WP15 — helper lemmas for the property theorems C12, C13, C14, C15, C16, C20.
-/
import ErgoProofs.Lemmas.ConcReach
import ErgoProofs.Lemmas.PlanShape
import ErgoProofs.Lemmas.Progress
namespace Ergo

/-! ### C12: every section except `compact` extends the log -/

theorem runSec_extends {log : List Event} {env : Env} {sec : Sec} {w : Write} {o : SecOut}
    (hsec : sec ≠ .compact) (h : runSec log env sec = .ok (w, o)) : ∃ more, applyWrite log w = log ++ more := by
  unfold runSec at h
  cases hrep : replay log with
  | error e => rw [hrep] at h; cases h
  | ok g =>
    rw [hrep] at h
    cases sec with
    | create isEpic epicId title body follow =>
      simp only at h
      cases hs : secCreate g isEpic epicId title body follow env.ids (env.uuids.headD "") env.agent env.po env.now with
      | error x => rw [hs] at h; cases h
      | ok p =>
        obtain ⟨w', id⟩ := p
        rw [hs] at h
        simp only [Except.map] at h
        injection h with h; injection h with hw _
        subst hw
        obtain ⟨_, _, more, rfl, _⟩ := createTail_ok (secCreate_ok hs).2
        exact ⟨_, rfl⟩
    | update id r =>
      simp only at h
      cases hs : secUpdate g id r env.agent env.po env.now with
      | error x => rw [hs] at h; cases h
      | ok w' =>
        rw [hs] at h
        simp only [Except.map] at h
        injection h with h; injection h with hw _
        subst hw
        obtain ⟨_, t, evs, _, _, rfl⟩ := secUpdate_ok hs
        exact ⟨_, rfl⟩
    | links un edges =>
      simp only [secLinks] at h
      cases hs : linkEvents g un edges with
      | error x => rw [hs] at h; cases h
      | ok evs =>
        rw [hs] at h
        simp only [Except.map] at h
        injection h with h; injection h with hw _
        subst hw
        exact ⟨_, rfl⟩
    | claimOldest epic =>
      simp only [secClaimOldest] at h
      cases hrd : readyTasks g epic with
      | nil => rw [hrd] at h; cases h
      | cons t rest =>
        rw [hrd] at h
        simp only [Except.map] at h
        injection h with h; injection h with hw _
        subst hw
        exact ⟨_, rfl⟩
    | prune a =>
      simp only [secPrune] at h
      injection h with h; injection h with hw _
      subst hw
      exact ⟨_, rfl⟩
    | compact => exact absurd rfl hsec
    | plan p =>
      simp only at h
      cases hs : secPlan log g p env with
      | error x => rw [hs] at h; cases h
      | ok q =>
        obtain ⟨w', po⟩ := q
        rw [hs] at h
        simp only [Except.map] at h
        injection h with h; injection h with hw _
        subst hw
        obtain ⟨new, rfl⟩ := secPlan_shape log g p env _ _ hs
        exact ⟨new, rfl⟩

theorem runCmd_extends (log : List Event) (env : Env) (req : Request) (hreq : ∀ a, sectionOf a req ≠ .ok .compact) :
    ∃ more, (runCmd log env req).log = log ++ more := by
  unfold runCmd
  cases hs : sectionOf env.agent req with
  | error e => exact ⟨[], by simp⟩
  | ok sec =>
    cases hr : runSec log env sec with
    | error e => exact ⟨[], by simp [hr]⟩
    | ok p =>
      obtain ⟨w, o⟩ := p
      have hne : sec ≠ .compact := by
        intro hc; subst hc; exact hreq env.agent hs
      obtain ⟨more, hm⟩ := runSec_extends hne hr
      exact ⟨more, by simpa [hr] using hm⟩

/-! ### C13: every prefix of the commit sequence is a serial run -/

open Proc in
theorem conc_secReach_prefix (log0 : List Event) (envs : List (Env × Sec)) (nr : Nat) (s : Sys)
    (h : Reachable (Sys.init log0 (envs.map fun (es : Env × Sec) => secDecide es.1 es.2) nr) s)
    (h0 : SecReach log0)
    (hok : ∀ es ∈ envs, SecOK es.1 es.2)
    (hclock : ∀ (i p : Nat) (snap : List Event) (w : Write) (g : Graph), s.commits[i]? = some (p, snap, w) → replayRaw snap = .ok g →
               ∀ es : Env × Sec, envs[p]? = some es → EnvOK g es.1) :
    ∀ k, k ≤ s.commits.length → SecReach (logAfter log0 s.commits k) := by
  intro k
  induction k with
  | zero => intro _; simpa [logAfter] using h0
  | succ k ih =>
    intro hk
    have hlt : k < s.commits.length := hk
    have ihk := ih (Nat.le_of_lt hlt)
    have hget : s.commits[k]? = some (s.commits[k]) := List.getElem?_eq_getElem hlt
    generalize hc : s.commits[k] = c at hget
    obtain ⟨p, snap, w⟩ := c
    obtain ⟨hsnap, d, hd, hdw⟩ := commit_decided h k p snap w hget
    rw [List.getElem?_map] at hd
    cases hes : envs[p]? with
    | none => rw [hes] at hd; cases hd
    | some es =>
      rw [hes] at hd
      injection hd with hd
      subst hd
      have hmem : es ∈ envs := List.mem_of_getElem? hes
      simp only [secDecide] at hdw
      cases hrun : runSec snap es.1 es.2 with
      | error e => rw [hrun] at hdw; cases hdw
      | ok wo =>
        rw [hrun] at hdw
        obtain ⟨w', out⟩ := wo
        simp only [Except.map] at hdw
        injection hdw with hdw
        subst hdw
        obtain ⟨g, hg, _⟩ := secReach_allInv _ ihk
        rw [← hsnap] at hg ihk
        have hstep := SecReach.step es.1 es.2 w' out ihk hg (hclock k p snap w' g hget hg es hes) (hok es hmem) hrun
        have : logAfter log0 s.commits (k + 1) = applyWrite snap w' := by
          simp only [logAfter, List.take_add_one, hget, Option.toList, List.foldl_append, List.foldl_cons, List.foldl_nil]
          rw [hsnap]; rfl
        rw [this]; exact hstep

open Proc in
theorem reader_state_valid (log0 : List Event) (envs : List (Env × Sec)) (nr : Nat) (s : Sys)
    (h : Reachable (Sys.init log0 (envs.map fun (es : Env × Sec) => secDecide es.1 es.2) nr) s)
    (h0 : SecReach log0) (hok : ∀ es ∈ envs, SecOK es.1 es.2)
    (hclock : ∀ (i p : Nat) (snap : List Event) (w : Write) (g : Graph), s.commits[i]? = some (p, snap, w) → replayRaw snap = .ok g →
               ∀ es : Env × Sec, envs[p]? = some es → EnvOK g es.1)
    (r : Nat) (seen : List Event) (hr : s.readers[r]? = some (.done seen)) :
    ∃ g, replay seen = .ok g ∧ AllInv g := by
  obtain ⟨k, hk, rfl⟩ := reader_sees_history h r seen hr
  obtain ⟨g, hg, hinv⟩ := secReach_allInv _ (conc_secReach_prefix log0 envs nr s h h0 hok hclock k hk)
  exact ⟨g, replay_eq_raw hg hinv.ok, hinv⟩

/-! ### C14 -/

theorem set_rejects_bad_epic (g : Graph) (t : Task) (e : Id) (r : SetReq) (agent : String) (po : PathOutcome) (now : Time)
    (ht : t.isEpic = false) (he : e ≠ "") (hr : r.u.epic = some e) (hres : r.resultPath = none)
    (hbad : g.tombed e = true ∨ g.find? e = none ∨ ∃ x, g.find? e = some x ∧ x.isEpic = false) :
    ∃ err, updateEvents g t r agent po now = .error err := by
  have hemp : r.u.isEmpty = false := by simp [Updates.isEmpty, hr]
  have hne : (e != "") = true := by simpa using he
  simp only [updateEvents, hres, hemp, ht, hr, hne, bind, Except.bind, pure, Except.pure, throw, throwThe, MonadExceptOf.throw]
  simp only [Bool.false_and, Bool.false_eq_true, if_false, Bool.not_false, Bool.and_true, if_true]
  by_cases htb : g.tombed e = true
  · simp [htb]
  · simp only [htb]
    rcases hbad with h | h | ⟨x, h, hx⟩
    · exact absurd h htb
    · simp [h]
    · simp [h, hx]

theorem create_rejects_bad_epic (g : Graph) (epicId title body : String) (follow : SetReq) (ids : List Id) (uuid agent : String)
    (po : PathOutcome) (now : Time) (he : epicId ≠ "")
    (hbad : g.find? epicId = none ∨ ∃ x, g.find? epicId = some x ∧ x.isEpic = false) :
    ∃ err, secCreate g false epicId title body follow ids uuid agent po now = .error err := by
  rw [secCreate_eq]
  have hne : (epicId != "") = true := by simpa using he
  simp only [Bool.not_false, Bool.true_and, hne, if_true]
  rcases hbad with h | ⟨x, h, hx⟩
  · simp [h]
  · simp [h, hx]

theorem prune_keeps_referenced_epics (g : Graph) (hwf : WF g) (t e : Task) (ht : t ∈ g.tasks) (he : e ∈ g.tasks)
    (hte : t.isEpic = false) (hee : e.isEpic = true) (href : t.epicId = e.id) (hne : e.id ≠ "")
    (hkeep : t.id ∉ pruneTargets g) : e.id ∉ pruneTargets g := by
  intro hmem
  rw [mem_pruneTargets] at hmem
  obtain ⟨u, hu, huid, hcase⟩ := hmem
  have hue : u = e := task_eq_of_id_eq hwf.nodup hu he huid
  subst hue
  rcases hcase with ⟨hk, _⟩ | ⟨_, hall⟩
  · rw [hee] at hk; cases hk
  · apply hkeep
    rw [mem_pruneTargets]
    exact ⟨t, ht, rfl, Or.inl ⟨hte, hall t ht hte (by rw [href]; exact hne) href⟩⟩

/-! ### C15 -/

theorem waitsFor_dep_of_no_epic_edges {g : Graph} (h14 : Inv14 g)
    (hnoepic : ∀ e ∈ g.deps, ∀ a ∈ g.tasks, a.id = e.1 → a.isEpic = false) {t u : Task} (h : WaitsFor g t u) :
    (t.id, u.id) ∈ g.deps := by
  obtain ⟨ht, _, h | ⟨hne, ep, _, _, hedge, _⟩⟩ := h
  · exact h
  · exfalso
    obtain ⟨i1, i2⟩ := h14 t ht
    cases hE : t.isEpic with
    | true => exact hne (i1 hE)
    | false =>
      rcases i2 hE with h0 | ⟨e, he, hid, hep⟩
      · exact hne h0
      · have := hnoepic _ hedge e he hid
        rw [hep] at this; cases this

theorem waitChain_path_of_no_epic_edges {g : Graph} (h14 : Inv14 g)
    (hnoepic : ∀ e ∈ g.deps, ∀ a ∈ g.tasks, a.id = e.1 → a.isEpic = false) {a b : Task} (h : WaitChain g a b) :
    ∃ c, (a.id, c) ∈ g.deps ∧ Path g.deps c b.id := by
  induction h with
  | single hw => exact ⟨_, waitsFor_dep_of_no_epic_edges h14 hnoepic hw, Path.refl _⟩
  | cons hw _ ih =>
    obtain ⟨c, hc, hp⟩ := ih
    exact ⟨_, waitsFor_dep_of_no_epic_edges h14 hnoepic hw, Path.step hc hp⟩

theorem waitsAcyclic_of_no_epic_edges (g : Graph) (hinv : AllInv g)
    (hnoepic : ∀ e ∈ g.deps, ∀ a ∈ g.tasks, a.id = e.1 → a.isEpic = false) : WaitsAcyclic g := by
  intro t hc
  obtain ⟨c, hedge, hp⟩ := waitChain_path_of_no_epic_edges hinv.i14 hnoepic hc
  exact hinv.i07.acyclic _ _ hedge hp

/-! the concrete witness of the C15 known finding (same list as `witnessLog` in Props/C15.lean) -/

def c15Log : List Event :=
  [ .newItem true "E1" "u1" "" .todo "E1" "" (some 1), .newItem true "E2" "u2" "" .todo "E2" "" (some 2),
    .newItem false "T1" "u3" "E1" .todo "T1" "" (some 3), .newItem false "T2" "u4" "E2" .todo "T2" "" (some 4),
    .link "T1" "T2" true, .link "E2" "E1" true ]

def c15Tasks : List Task :=
  [ freshTask true "E1" "u1" "" "E1" "" 1, freshTask true "E2" "u2" "" "E2" "" 2,
    freshTask false "T1" "u3" "E1" "T1" "" 3, freshTask false "T2" "u4" "E2" "T2" "" 4 ]

def c15G : Graph := ⟨c15Tasks, [("T1", "T2"), ("E2", "E1")], []⟩

theorem c15_replay : replay c15Log = .ok c15G := by decide

theorem c15_replay4 : replay (c15Log.take 4) = .ok ⟨c15Tasks, [], []⟩ := by decide
theorem c15_replay5 : replay (c15Log.take 5) = .ok ⟨c15Tasks, [("T1", "T2")], []⟩ := by decide

theorem c15_link1 : linkCheck ⟨c15Tasks, [], []⟩ false "T1" "T2" = .ok () := by decide
theorem c15_link2 : linkCheck ⟨c15Tasks, [("T1", "T2")], []⟩ false "E2" "E1" = .ok () := by decide

theorem c15_facts : (∃ t ∈ c15G.tasks, t.isEpic = false ∧ t.st = .todo) ∧
      (∀ t ∈ c15G.tasks, t.isEpic = false → t.st = .todo) ∧ ∀ t ∈ c15G.tasks, t.isEpic = false → isReady c15G t = false := by
  decide

/-! ### C20 -/

theorem live_task_only (g : Graph) (id : Id) (r : SetReq) (agent : String) (po : PathOutcome) (now : Time) (w : Write)
    (s p : String) (hr : r.resultPath = some p ∧ r.resultSummary = some s)
    (h : secUpdate g id r agent po now = .ok w) :
    g.tombed id = false ∧ ∃ t, g.find? id = some t ∧ t.isEpic = false ∧ resultSummaryOk s = true ∧ ∃ c sha m gi, po = .ok c sha m gi := by
  obtain ⟨htomb, t, evs, hfind, hu, _⟩ := secUpdate_ok h
  refine ⟨htomb, t, hfind, ?_⟩
  obtain ⟨hp, hs⟩ := hr
  unfold updateEvents at hu
  simp only [hp, hs, bind, Except.bind] at hu
  cases hre : resultEvent t s po now with
  | error x => rw [hre] at hu; simp [Except.map] at hu
  | ok ev =>
    unfold resultEvent at hre
    simp only [bind, Except.bind, pure, Except.pure, throw, throwThe, MonadExceptOf.throw] at hre
    cases hE : t.isEpic with
    | true => simp [hE] at hre
    | false =>
      refine ⟨rfl, ?_⟩
      cases hS : resultSummaryOk s with
      | false => simp [hE, hS] at hre
      | true =>
        refine ⟨rfl, ?_⟩
        cases po with
        | rejected why => simp [hE, hS] at hre
        | ok c sha m gi => exact ⟨c, sha, m, gi, rfl⟩

/-- `t'` carries the results of `t` plus at most one new one in front -/
def ResultsKept (t t' : Task) : Prop := ∃ new, t'.results = new ++ t.results ∧ new.length ≤ 1

theorem ResultsKept.refl (t : Task) : ResultsKept t t := ⟨[], rfl, by simp⟩

theorem Graph.find?_update (g : Graph) (id i : Id) (f : Task → Task) (hf : ∀ k, (f k).id = k.id) :
    (g.update id f).find? i = (g.find? i).map fun k => if k.id == id then f k else k := by
  unfold Graph.find? Graph.update
  simp only [List.find?_map]
  congr 2
  funext k
  simp only [Function.comp]
  split <;> simp [hf]

theorem update_resultsKept {g : Graph} {id : Id} {f : Task → Task} (hf : ∀ k, (f k).id = k.id)
    (hres : ∀ k, ResultsKept k (f k)) {t : Task} (ht : g.find? t.id = some t) :
    ∃ t', (g.update id f).find? t.id = some t' ∧ ResultsKept t t' := by
  rw [Graph.find?_update g id t.id f hf, ht]
  refine ⟨_, rfl, ?_⟩
  dsimp only
  split
  · exact hres t
  · exact ResultsKept.refl t

theorem withLive_resultsKept {g g' : Graph} {id : Id} {ts : Option Time} {f : Task → Time → Task}
    (hf : ∀ k x, (f k x).id = k.id) (hres : ∀ k x, ResultsKept k (f k x))
    (he : withLive g id ts f = .ok g') {t : Task} (ht : g.find? t.id = some t) :
    ∃ t', g'.find? t.id = some t' ∧ ResultsKept t t' := by
  rcases withLive_cases g g' id ts f he with rfl | ⟨x, rfl⟩
  · exact ⟨t, ht, ResultsKept.refl t⟩
  · exact update_resultsKept (fun k => hf k x) (fun k => hres k x) ht

theorem applyEvent_resultsKept (g : Graph) (e : Event) (g' : Graph) (h : applyEvent g e = .ok g') (t : Task)
    (ht : g.find? t.id = some t) (hwf : WF g) :
    g'.find? t.id = none ∨ ∃ t', g'.find? t.id = some t' ∧ ResultsKept t t' := by
  cases e with
  | newItem isEpic id uuid epicId st title body createdAt =>
    right
    simp only [applyEvent] at h
    split at h
    · cases h; exact ⟨t, ht, ResultsKept.refl t⟩
    · split at h
      · cases h
      · cases createdAt with
        | none => cases h
        | some c =>
          simp only at h
          cases h
          refine ⟨t, ?_, ResultsKept.refl t⟩
          unfold Graph.find? at ht ⊢
          simp only [List.find?_append, ht, Option.some_or]
  | state id st ts =>
    right
    simp only [applyEvent] at h
    refine withLive_resultsKept ?_ ?_ h ht
    · intro _ _; rfl
    · intro k _; exact ⟨[], rfl, by simp⟩
  | claim id agent ts =>
    right
    simp only [applyEvent] at h
    refine withLive_resultsKept ?_ ?_ h ht
    · intro _ _; rfl
    · intro k _; exact ⟨[], rfl, by simp⟩
  | unclaim id =>
    right
    simp only [applyEvent] at h
    split at h
    · cases h; exact ⟨t, ht, ResultsKept.refl t⟩
    · cases h
      refine update_resultsKept ?_ ?_ ht
      · intro _; rfl
      · intro k; exact ⟨[], rfl, by simp⟩
  | link f t' dep =>
    right
    simp only [applyEvent] at h
    split at h
    · cases h; exact ⟨t, ht, ResultsKept.refl t⟩
    · split at h
      · cases h; exact ⟨t, ht, ResultsKept.refl t⟩
      · cases h; exact ⟨t, ht, ResultsKept.refl t⟩
  | unlink f t' dep =>
    right
    simp only [applyEvent] at h
    split at h
    · cases h; exact ⟨t, ht, ResultsKept.refl t⟩
    · cases h; exact ⟨t, ht, ResultsKept.refl t⟩
  | title id s ts =>
    right
    simp only [applyEvent] at h
    refine withLive_resultsKept ?_ ?_ h ht
    · intro _ _; rfl
    · intro k _; exact ⟨[], rfl, by simp⟩
  | body id s ts =>
    right
    simp only [applyEvent] at h
    refine withLive_resultsKept ?_ ?_ h ht
    · intro _ _; rfl
    · intro k _; exact ⟨[], rfl, by simp⟩
  | epic id s ts =>
    right
    simp only [applyEvent] at h
    refine withLive_resultsKept ?_ ?_ h ht
    · intro _ _; rfl
    · intro k _; exact ⟨[], rfl, by simp⟩
  | tombstone id agent ts =>
    simp only [applyEvent] at h
    cases ts with
    | none => cases h
    | some x =>
      simp only at h
      cases h
      cases hf : (applyTombstone g id).find? t.id with
      | none => exact Or.inl rfl
      | some t' =>
        right
        refine ⟨t', rfl, ?_⟩
        obtain ⟨hm, hid⟩ := graph_find?_some_mem hf
        have hm' : t' ∈ g.tasks := (List.mem_filter.1 hm).1
        have : t' = t := task_eq_of_id_eq hwf.nodup hm' (graph_find?_some_mem ht).1 hid
        rw [this]; exact ResultsKept.refl t
  | result task summary path sha mtime git ts =>
    right
    simp only [applyEvent] at h
    refine withLive_resultsKept ?_ ?_ h ht
    · intro _ _; rfl
    · intro k _; exact ⟨[_], rfl, by simp⟩
  | ignored =>
    right
    simp only [applyEvent] at h
    cases h; exact ⟨t, ht, ResultsKept.refl t⟩
  | badData => simp only [applyEvent] at h; cases h

/-! ### C16 -/

theorem created_id_fresh_and_visible (log : List Event) (g : Graph) (hg : replayRaw log = .ok g) (hinv : AllInv g)
    (env : Env) (isEpic : Bool) (epicId title body : String) (follow : SetReq) (w : Write) (out : SecOut)
    (h : runSec log env (.create isEpic epicId title body follow) = .ok (w, out)) :
    ∃ id, out.created = some id ∧ g.has id = false ∧ g.tombed id = false ∧ id ∈ env.ids ∧
      ∃ g', replayRaw (applyWrite log w) = .ok g' ∧ g'.has id = true := by
  simp only [runSec, replay_eq_raw hg hinv.ok] at h
  generalize env.uuids.headD "" = uuid at h
  cases hs : secCreate g isEpic epicId title body follow env.ids uuid env.agent env.po env.now with
  | error x => rw [hs] at h; simp [Except.map] at h
  | ok p =>
    obtain ⟨w', id⟩ := p
    rw [hs] at h
    simp only [Except.map] at h
    injection h with h
    injection h with hw hout
    subst hw
    subst hout
    obtain ⟨_, htail⟩ := secCreate_ok hs
    obtain ⟨hidmem, htaken, more, rfl, hmore⟩ := createTail_ok htail
    simp only [Graph.taken, Bool.or_eq_false_iff] at htaken
    obtain ⟨htomb, hhas⟩ := htaken
    refine ⟨id, rfl, hhas, htomb, hidmem, ?_⟩
    generalize heid : (if isEpic = true then "" else epicId) = eid at *
    let x := freshTask isEpic id uuid eid title body env.now
    let g1 : Graph := { g with tasks := g.tasks ++ [x] }
    have hap : applyEvent g (Event.newItem isEpic id uuid eid .todo title body (some env.now)) = .ok g1 := by
      simp [applyEvent, htomb, hhas, g1, x, freshTask]
    have hhas1 : g1.has id = true := by simp [Graph.has, g1, x, freshTask]
    have htomb1 : g1.tombed id = false := htomb
    have hxinv : TaskInv x := ⟨fun _ => ⟨rfl, rfl⟩, fun _ => ⟨rfl, rfl⟩⟩
    simp only [applyWrite]
    rw [replayRaw_append, hg]
    simp only [Except.bind, List.foldlM_cons, hap, bind]
    rcases hmore with rfl | hu
    · exact ⟨g1, rfl, hhas1⟩
    · obtain ⟨hgood, _⟩ := updateEvents_task hu hxinv
      have h2 := foldlM_updates g1 id more hhas1 htomb1 (fun e he => (hgood e he).isUpdateFor)
      refine ⟨_, h2, ?_⟩
      rw [Graph.update_has _ _ _ _ (fun k => foldl_stepTask_id k more)]
      exact hhas1

theorem claim_reply_true (log : List Event) (g : Graph) (hg : replayRaw log = .ok g) (hinv : AllInv g)
    (env : Env) (epic : Id) (w : Write) (out : SecOut)
    (h : runSec log env (.claimOldest epic) = .ok (w, out)) :
    ∃ t, out.claimed = some t ∧ ∃ g' t', replayRaw (applyWrite log w) = .ok g' ∧ g'.find? t.id = some t' ∧
      t'.st = .doing ∧ t'.claimedBy = env.agent := by
  simp only [runSec, replay_eq_raw hg hinv.ok, secClaimOldest] at h
  cases hrd : readyTasks g epic with
  | nil => simp [hrd, Except.map] at h
  | cons t rest =>
    simp only [hrd, Except.map] at h
    injection h with h
    injection h with hw hout
    subst hw
    subst hout
    refine ⟨t, rfl, ?_⟩
    have hmem : t ∈ readyTasks g epic := by rw [hrd]; simp
    obtain ⟨htm, -, -, -⟩ := (mem_readyTasks g epic t).1 hmem
    have hwf := hinv.ok.wf
    have hfind : g.find? t.id = some t := (Graph.find?_iff hwf t.id t).2 ⟨htm, rfl⟩
    have htomb : g.tombed t.id = false := (Graph.tombed_false_iff g t.id).2 (hwf.live_not_tombed t htm)
    have hhas : g.has t.id = true := (Graph.has_iff g t.id).2 ⟨t, htm, rfl⟩
    have h1 := foldlM_updates g t.id [Event.claim t.id env.agent (some env.now), Event.state t.id .doing (some env.now)]
      hhas htomb (by
        intro e he
        simp only [List.mem_cons, List.not_mem_nil, or_false] at he
        rcases he with rfl | rfl <;> rfl)
    refine ⟨g.update t.id fun k => List.foldl stepTask k
        [Event.claim t.id env.agent (some env.now), Event.state t.id .doing (some env.now)],
      List.foldl stepTask t [Event.claim t.id env.agent (some env.now), Event.state t.id .doing (some env.now)], ?_, ?_, ?_, ?_⟩
    · simp only [applyWrite]
      rw [replayRaw_append, hg]
      exact h1
    · rw [Graph.find?_update g t.id t.id _ (fun k => foldl_stepTask_id k _), hfind]
      simp
    · simp [List.foldl, stepTask]
    · simp [List.foldl, stepTask, St.clearsClaim]

theorem prune_reply_true (log : List Event) (g : Graph) (hg : replayRaw log = .ok g) (hinv : AllInv g)
    (env : Env) (w : Write) (out : SecOut)
    (h : runSec log env (.prune true) = .ok (w, out)) :
    out.pruned = pruneTargets g ∧ ∃ g', replayRaw (applyWrite log w) = .ok g' ∧
      (∀ i ∈ out.pruned, g'.has i = false) ∧ (∀ t ∈ g.tasks, t.id ∉ out.pruned → g'.has t.id = true) := by
  simp only [runSec, replay_eq_raw hg hinv.ok, secPrune] at h
  injection h with h
  injection h with hw hout
  subst hw
  subst hout
  refine ⟨rfl, (pruneTargets g).foldl applyTombstone g, ?_, ?_, ?_⟩
  · simp only [applyWrite, if_true]
    rw [replayRaw_append, hg]
    exact foldlM_tombstones g _ env.agent env.now
  · intro i hi
    rw [Graph.has_false_iff]
    intro t ht hid
    have := ((foldl_applyTombstone_mem g (pruneTargets g)).1 t).1 ht
    exact this.2 (by rw [hid]; exact hi)
  · intro t ht hn
    exact (Graph.has_iff _ t.id).2 ⟨t, ((foldl_applyTombstone_mem g (pruneTargets g)).1 t).2 ⟨ht, hn⟩, rfl⟩

theorem no_write_means_error (log : List Event) (env : Env) (req : Request) (h : (runCmd log env req).write = none)
    (hne : ∀ e, req ≠ .claimOldest e) : (runCmd log env req).err ≠ none := by
  unfold runCmd at h ⊢
  cases hs : sectionOf env.agent req with
  | error e' => simp
  | ok sec =>
    cases hr : runSec log env sec with
    | ok p => simp [hs, hr] at h
    | error e' =>
      simp only
      cases req with
      | claimOldest e => exact absurd rfl (hne e)
      | _ => simp [hr]

end Ergo
