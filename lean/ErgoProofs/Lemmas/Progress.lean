/-
  WP4 — C15: if the effective waits-for relation has no cycle, unfinished work can always make progress.
  Definitions: WaitsFor, WaitChain, WaitsAcyclic, WF, Inv06, Inv14, closedSt (ErgoProofs/Spec.lean); isReady (ErgoModel/Query.lean).
-/
import ErgoProofs.Spec
namespace Ergo

/-! ### small facts -/

theorem closed_iff (s : St) : s.closed = true ↔ closedSt s := by
  unfold closedSt
  cases s <;> simp [St.closed]

/-- with unique ids, two live items with the same id are equal -/
theorem eq_of_id_eq {l : List Task} (hnd : (l.map (·.id)).Nodup) {a b : Task}
    (ha : a ∈ l) (hb : b ∈ l) (h : a.id = b.id) : a = b := by
  induction l with
  | nil => cases ha
  | cons x xs ih =>
    rw [List.map_cons, List.nodup_cons] at hnd
    rcases List.mem_cons.1 ha with rfl | ha' <;> rcases List.mem_cons.1 hb with rfl | hb'
    · rfl
    · exact absurd (List.mem_map.2 ⟨b, hb', h.symm⟩) hnd.1
    · exact absurd (List.mem_map.2 ⟨a, ha', h⟩) hnd.1
    · exact ih hnd.2 ha' hb'

theorem find?_some_mem {g : Graph} {i : Id} {x : Task} (h : g.find? i = some x) : x ∈ g.tasks ∧ x.id = i := by
  unfold Graph.find? at h
  refine ⟨List.mem_of_find?_eq_some h, ?_⟩
  have := List.find?_some h
  simpa using this

theorem find?_of_mem {g : Graph} (hwf : WF g) {x : Task} (hx : x ∈ g.tasks) : g.find? x.id = some x := by
  cases hf : g.find? x.id with
  | none =>
    unfold Graph.find? at hf
    rw [List.find?_eq_none] at hf
    have := hf x hx
    simp at this
  | some y =>
    obtain ⟨hy, hid⟩ := find?_some_mem hf
    rw [eq_of_id_eq hwf.nodup hy hx hid]

theorem mem_depsOf {g : Graph} {a d : Id} : d ∈ g.depsOf a ↔ (a, d) ∈ g.deps := by
  unfold Graph.depsOf
  simp only [List.mem_map, List.mem_filter]
  constructor
  · rintro ⟨⟨x, y⟩, ⟨hm, hx⟩, rfl⟩
    simp at hx
    subst hx
    exact hm
  · intro h
    exact ⟨(a, d), ⟨h, by simp⟩, rfl⟩

/-- a list without duplicates whose members all lie in `l'` is no longer than `l'` -/
theorem nodup_subset_length_le {α : Type} [DecidableEq α] :
    ∀ (l l' : List α), l.Nodup → (∀ x ∈ l, x ∈ l') → l.length ≤ l'.length
  | [], _, _, _ => Nat.zero_le _
  | a :: l, l', hnd, hsub => by
    rw [List.nodup_cons] at hnd
    have ha : a ∈ l' := hsub a (List.mem_cons_self ..)
    have hsub' : ∀ x ∈ l, x ∈ l'.erase a := by
      intro x hx
      have hne : x ≠ a := fun h => hnd.1 (h ▸ hx)
      exact (List.mem_erase_of_ne hne).2 (hsub x (List.mem_cons_of_mem _ hx))
    have ih := nodup_subset_length_le l (l'.erase a) hnd.2 hsub'
    rw [List.length_erase_of_mem ha] at ih
    have hpos : 0 < l'.length := List.length_pos_of_mem ha
    simp only [List.length_cons]
    omega

/-! ### key lemma: a todo task that is not ready waits for another todo task -/

theorem not_ready_waits (g : Graph) (hwf : WF g) (h6 : Inv06 g) (h7 : Inv07 g) (h14 : Inv14 g)
    (hid : ∀ t ∈ g.tasks, t.id ≠ "")
    (hstates : ∀ t ∈ g.tasks, t.isEpic = false → t.st = .todo ∨ closedSt t.st)
    (t : Task) (ht : t ∈ g.tasks) (hE : t.isEpic = false) (hst : t.st = .todo) (hnr : ¬ isReady g t = true) :
    ∃ u ∈ g.tasks, u.isEpic = false ∧ u.st = .todo ∧ WaitsFor g t u := by
  have hcl : t.claimedBy = "" := by
    have := ((h6 t ht).2 hE).2
    rw [hst] at this
    simpa [docClaimOk] using this
  unfold isReady at hnr
  rw [hst, hcl] at hnr
  simp only [beq_self_eq_true, Bool.true_and, Bool.and_eq_true, Bool.or_eq_true, Classical.not_and_iff_not_or_not] at hnr
  rcases hnr with hdep | hepic
  · -- an own dependency is open
    rw [List.all_eq_true] at hdep
    simp only [Classical.not_forall] at hdep
    obtain ⟨d, hd, hopen⟩ := hdep
    have hedge : (t.id, d) ∈ g.deps := mem_depsOf.1 hd
    unfold depOpen at hopen
    cases hf : g.find? d with
    | none => rw [hf] at hopen; simp at hopen
    | some o =>
      rw [hf] at hopen
      simp only [Bool.not_not, Bool.not_eq_true] at hopen
      obtain ⟨ho, hoid⟩ := find?_some_mem hf
      obtain ⟨a, ha, b, hb, haid, hbid, hab⟩ := h7.live (t.id, d) hedge
      have hat : a = t := eq_of_id_eq hwf.nodup ha ht haid
      have hbo : b = o := eq_of_id_eq hwf.nodup hb ho (hbid.trans hoid.symm)
      subst hat; subst hbo
      have hoE : b.isEpic = false := by rw [← hab]; exact hE
      refine ⟨b, ho, hoE, ?_, ht, ho, Or.inl (by rw [hoid]; exact hedge)⟩
      rcases hstates b ho hoE with h | h
      · exact h
      · rw [(closed_iff _).2 h] at hopen; cases hopen
  · -- an epic the task's epic depends on is incomplete
    simp only [not_or] at hepic
    obtain ⟨hne, hinc⟩ := hepic
    have hne' : t.epicId ≠ "" := by simpa using hne
    unfold areEpicDepsComplete at hinc
    rw [List.all_eq_true] at hinc
    simp only [Classical.not_forall] at hinc
    obtain ⟨d, hd, hbad⟩ := hinc
    have hedge : (t.epicId, d) ∈ g.deps := mem_depsOf.1 hd
    cases hf : g.find? d with
    | none => rw [hf] at hbad; simp at hbad
    | some de =>
      rw [hf] at hbad
      simp only [Bool.or_eq_true, Bool.not_eq_true', not_or, Bool.not_eq_false, Bool.not_eq_true] at hbad
      obtain ⟨hdeE, hic⟩ := hbad
      obtain ⟨hde, hdeid⟩ := find?_some_mem hf
      unfold isEpicComplete at hic
      have hic' : ¬ (g.tasks.all fun t => t.epicId != d || t.st.closed) = true := by rw [hic]; simp
      rw [List.all_eq_true] at hic'
      simp only [Classical.not_forall] at hic'
      obtain ⟨c, hc, hcbad⟩ := hic'
      simp only [Bool.or_eq_true, bne_iff_ne, ne_eq, not_or, Classical.not_not, Bool.not_eq_true] at hcbad
      obtain ⟨hce, hcopen⟩ := hcbad
      have hdne : d ≠ "" := by rw [← hdeid]; exact hid de hde
      have hcE : c.isEpic = false := by
        cases h : c.isEpic with
        | false => rfl
        | true => exact absurd (hce ▸ (h14 c hc).1 h) hdne
      refine ⟨c, hc, hcE, ?_, ht, hc, Or.inr ⟨hne', de, hde, hdeE, by rw [hdeid]; exact hedge, by rw [hdeid]; exact hce⟩⟩
      rcases hstates c hc hcE with h | h
      · exact h
      · rw [(closed_iff _).2 h] at hcopen; cases hcopen

/-! ### arbitrarily long duplicate-free chains when nothing is ready -/

theorem long_chain (g : Graph) (P : Task → Prop)
    (hstep : ∀ t, P t → ∃ u, P u ∧ WaitsFor g t u) :
    ∀ (n : Nat) (t : Task), P t →
      ∃ l : List Task, l.length = n ∧ (∀ u ∈ l, WaitChain g t u) ∧ l.Pairwise (WaitChain g)
  | 0, _, _ => ⟨[], rfl, by simp, List.Pairwise.nil⟩
  | n+1, t, ht => by
    obtain ⟨u, hu, hw⟩ := hstep t ht
    obtain ⟨l, hlen, hall, hpw⟩ := long_chain g P hstep n u hu
    refine ⟨u :: l, by simp [hlen], ?_, List.pairwise_cons.2 ⟨hall, hpw⟩⟩
    intro v hv
    rcases List.mem_cons.1 hv with rfl | hv
    · exact .single hw
    · exact .cons hw (hall v hv)

theorem waitChain_mem {g : Graph} {a b : Task} (h : WaitChain g a b) : b ∈ g.tasks := by
  induction h with
  | single h => exact h.2.1
  | cons _ _ ih => exact ih

/-- At least one task is todo and no task is doing, blocked or error (so every task is todo, done or canceled);
    the store satisfies the C06/C14 invariants; waits-for is acyclic.  Then some task is ready. -/
theorem progress (g : Graph) (hwf : WF g) (h6 : Inv06 g) (h7 : Inv07 g) (h14 : Inv14 g) (hid : ∀ t ∈ g.tasks, t.id ≠ "")
    (hac : WaitsAcyclic g)
    (hstates : ∀ t ∈ g.tasks, t.isEpic = false → t.st = .todo ∨ closedSt t.st)
    (htodo : ∃ t ∈ g.tasks, t.isEpic = false ∧ t.st = .todo) :
    ∃ t ∈ g.tasks, t.isEpic = false ∧ isReady g t = true := by
  apply Classical.byContradiction
  intro hno
  have hno' : ∀ t ∈ g.tasks, t.isEpic = false → ¬ isReady g t = true :=
    fun t ht hE hr => hno ⟨t, ht, hE, hr⟩
  obtain ⟨t0, ht0, hE0, hst0⟩ := htodo
  have hstep : ∀ t, (t ∈ g.tasks ∧ t.isEpic = false ∧ t.st = .todo) →
      ∃ u, (u ∈ g.tasks ∧ u.isEpic = false ∧ u.st = .todo) ∧ WaitsFor g t u := by
    rintro t ⟨ht, hE, hst⟩
    obtain ⟨u, hu, huE, hust, hw⟩ :=
      not_ready_waits g hwf h6 h7 h14 hid hstates t ht hE hst (hno' t ht hE)
    exact ⟨u, ⟨hu, huE, hust⟩, hw⟩
  obtain ⟨l, hlen, hall, hpw⟩ := long_chain g _ hstep (g.tasks.length + 1) t0 ⟨ht0, hE0, hst0⟩
  have hnd : l.Nodup := by
    refine List.Pairwise.imp ?_ hpw
    intro a b hab heq
    subst heq
    exact hac a hab
  have := nodup_subset_length_le l g.tasks hnd (fun x hx => waitChain_mem (hall x hx))
  omega

/-- the "equivalently" of the property: a wait cycle among todo tasks is a state in which nothing is ready -/
theorem cycle_blocks (g : Graph) (hwf : WF g) (h14 : Inv14 g) (t : Task) (hc : WaitChain g t t)
    (hall : ∀ u ∈ g.tasks, u.st = .todo) :
    ¬ isReady g t = true := by
  have _ := h14  -- (not needed: the argument goes through without C14)
  have hfirst : ∃ b, WaitsFor g t b := by
    cases hc with
    | single h => exact ⟨_, h⟩
    | cons h _ => exact ⟨_, h⟩
  obtain ⟨b, ht, hb, hlink⟩ := hfirst
  have hbst : b.st.closed = false := by rw [hall b hb]; rfl
  intro hr
  unfold isReady at hr
  simp only [Bool.and_eq_true, Bool.or_eq_true] at hr
  obtain ⟨⟨-, hdeps⟩, hepic⟩ := hr
  rcases hlink with hedge | ⟨hne, ep, hep, hepE, hedge, hbe⟩
  · rw [List.all_eq_true] at hdeps
    have := hdeps b.id (mem_depsOf.2 hedge)
    unfold depOpen at this
    rw [find?_of_mem hwf hb] at this
    simp [hbst] at this
  · rcases hepic with h | h
    · exact hne (by simpa using h)
    · unfold areEpicDepsComplete at h
      rw [List.all_eq_true] at h
      have := h ep.id (mem_depsOf.2 hedge)
      rw [find?_of_mem hwf hep] at this
      simp only [hepE, Bool.not_true, Bool.false_or] at this
      unfold isEpicComplete at this
      rw [List.all_eq_true] at this
      have := this b hb
      rw [hbst, hbe] at this
      simp at this

end Ergo
