/-
  The main reachability theorem: every store the CLI can produce satisfies `AllInv`.
-/
import ErgoProofs.Lemmas.StepMain
import ErgoProofs.Lemmas.StepUpdate
import ErgoProofs.Lemmas.StepGraph
namespace Ergo

theorem reach_allInv (log : List Event) (h : ReachOK log) : ∃ g, replayRaw log = .ok g ∧ AllInv g :=
  reach_allInv_of_steps secStep_update
    (fun isEpic epicId title body follow ht => secStep_create isEpic epicId title body follow ht)
    secStep_claimOldest secStep_links secStep_prune secStep_plan log h

/-- what every command actually computes on (`replay` = raw replay + legacy-title pass) -/
theorem reach_replay (log : List Event) (h : ReachOK log) : ∃ g, replay log = .ok g ∧ AllInv g := by
  obtain ⟨g, hr, hinv⟩ := reach_allInv log h
  exact ⟨g, replay_eq_raw hr hinv.ok, hinv⟩

end Ergo
