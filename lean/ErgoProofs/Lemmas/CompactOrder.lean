/-
  WP2 — the three sort orders (`taskIdLe`, `edgeLe`, `claimLe`) are total preorders, antisymmetric on their keys.
  Uses Mathlib's `LinearOrder String`.
-/
import Mathlib.Data.String.Basic
import ErgoModel.Query
namespace Ergo

theorem ord_strLe_iff (a b : String) : strLe a b = true ↔ a ≤ b := by
  unfold strLe; simp only [Bool.not_eq_true', decide_eq_false_iff_not, not_lt]

theorem ord_strLe_total (a b : String) : (strLe a b || strLe b a) = true := by
  simp only [Bool.or_eq_true, ord_strLe_iff]; exact le_total a b

theorem ord_strLe_trans (a b c : String) : strLe a b = true → strLe b c = true → strLe a c = true := by
  simp only [ord_strLe_iff]; exact le_trans

theorem ord_strLe_antisymm (a b : String) : strLe a b = true → strLe b a = true → a = b := by
  simp only [ord_strLe_iff]; exact le_antisymm

theorem ord_taskIdLe_total (a b : Task) : (taskIdLe a b || taskIdLe b a) = true := ord_strLe_total _ _
theorem ord_taskIdLe_trans (a b c : Task) : taskIdLe a b = true → taskIdLe b c = true → taskIdLe a c = true := ord_strLe_trans _ _ _

theorem edgeLe_iff (a b : Id × Id) : edgeLe a b = true ↔ a.1 < b.1 ∨ (a.1 = b.1 ∧ a.2 ≤ b.2) := by
  simp [edgeLe, ord_strLe_iff]

theorem ord_edgeLe_total (a b : Id × Id) : (edgeLe a b || edgeLe b a) = true := by
  simp only [Bool.or_eq_true, edgeLe_iff]
  rcases lt_trichotomy a.1 b.1 with h | h | h
  · exact .inl (.inl h)
  · rcases le_total a.2 b.2 with h' | h'
    · exact .inl (.inr ⟨h, h'⟩)
    · exact .inr (.inr ⟨h.symm, h'⟩)
  · exact .inr (.inl h)

theorem ord_edgeLe_trans (a b c : Id × Id) : edgeLe a b = true → edgeLe b c = true → edgeLe a c = true := by
  simp only [edgeLe_iff]
  rintro (h | ⟨h, h'⟩) (k | ⟨k, k'⟩)
  · exact .inl (lt_trans h k)
  · exact .inl (k ▸ h)
  · exact .inl (h ▸ k)
  · exact .inr ⟨h.trans k, le_trans h' k'⟩

/-- the key `claimLe` compares -/
def claimKey (t : Task) : Time × Id := (t.createdAt, t.id)
def keyLe (a b : Time × Id) : Bool := a.1 < b.1 || (a.1 == b.1 && strLe a.2 b.2)

theorem claimLe_eq (a b : Task) : claimLe a b = keyLe (claimKey a) (claimKey b) := rfl

theorem keyLe_iff (a b : Time × Id) : keyLe a b = true ↔ a.1 < b.1 ∨ (a.1 = b.1 ∧ a.2 ≤ b.2) := by
  simp [keyLe, ord_strLe_iff]

theorem keyLe_total (a b : Time × Id) : (keyLe a b || keyLe b a) = true := by
  simp only [Bool.or_eq_true, keyLe_iff]
  rcases Nat.lt_trichotomy a.1 b.1 with h | h | h
  · exact .inl (.inl h)
  · rcases le_total a.2 b.2 with h' | h'
    · exact .inl (.inr ⟨h, h'⟩)
    · exact .inr (.inr ⟨h.symm, h'⟩)
  · exact .inr (.inl h)

theorem keyLe_trans (a b c : Time × Id) : keyLe a b = true → keyLe b c = true → keyLe a c = true := by
  simp only [keyLe_iff]
  rintro (h | ⟨h, h'⟩) (k | ⟨k, k'⟩)
  · exact .inl (Nat.lt_trans h k)
  · exact .inl (k ▸ h)
  · exact .inl (h ▸ k)
  · exact .inr ⟨h.trans k, le_trans h' k'⟩

theorem keyLe_antisymm (a b : Time × Id) : keyLe a b = true → keyLe b a = true → a = b := by
  simp only [keyLe_iff]
  rintro (h | ⟨h, h'⟩) (k | ⟨k, k'⟩)
  · exact absurd h (Nat.lt_asymm k)
  · rw [k] at h; exact absurd h (Nat.lt_irrefl _)
  · rw [h] at k; exact absurd k (Nat.lt_irrefl _)
  · exact Prod.ext h (le_antisymm h' k')

end Ergo
