/-
  WP2 — C05, part 4: `compacted g` is observably `g`, satisfies the precondition, and compacts to the same log.
-/
import ErgoProofs.Lemmas.CompactReplay
import ErgoProofs.Lemmas.CompactOrder
namespace Ergo

/-! ### lookups in lists with unique ids -/
private theorem find?_of_mem (l : List Task) (hnd : (l.map (·.id)).Nodup) (t : Task) (ht : t ∈ l) :
    l.find? (·.id == t.id) = some t := by
  induction l with
  | nil => cases ht
  | cons a l ih =>
    simp only [List.map_cons, List.nodup_cons] at hnd
    rcases List.mem_cons.mp ht with rfl | ht'
    · simp
    · have hne : a.id ≠ t.id := by
        intro heq; apply hnd.1; rw [heq]; exact List.mem_map_of_mem (f := (·.id)) ht'
      rw [List.find?_cons_of_neg (by simpa using hne)]
      exact ih hnd.2 ht'

theorem find?_perm_tasks (l l' : List Task) (hp : l.Perm l') (hnd : (l.map (·.id)).Nodup) (id : Id) :
    l.find? (·.id == id) = l'.find? (·.id == id) := by
  cases h : l'.find? (·.id == id) with
  | none =>
    rw [List.find?_eq_none] at h ⊢
    intro x hx; exact h x (hp.mem_iff.mp hx)
  | some t =>
    have hm := List.mem_of_find?_eq_some h
    have hid := List.find?_some h
    simp only [beq_iff_eq] at hid
    subst hid
    exact find?_of_mem l hnd t (hp.mem_iff.mpr hm)

theorem Graph.find?_of_mem (g : Graph) (h : WF g) (t : Task) (ht : t ∈ g.tasks) : g.find? t.id = some t :=
  Ergo.find?_of_mem g.tasks h.nodup t ht

theorem Graph.mem_of_find? (g : Graph) (id : Id) (t : Task) (h : g.find? id = some t) : t ∈ g.tasks ∧ t.id = id := by
  refine ⟨List.mem_of_find?_eq_some h, ?_⟩
  have := List.find?_some h
  simpa using this

/-! ### the precondition, with the extra clause for epics -/
structure GraphOK' (g : Graph) : Prop where
  wf : WF g
  tasks : ∀ t ∈ g.tasks, TaskOK' t

theorem GraphOK'.toGraphOK {g : Graph} (h : GraphOK' g) : GraphOK g := ⟨h.wf, fun t ht => (h.tasks t ht).toTaskOK⟩

theorem GraphOK'.of_lastEpic_zero {g : Graph} (h : GraphOK g) (h0 : ∀ t ∈ g.tasks, t.isEpic = true → t.lastEpic = 0) :
    GraphOK' g := ⟨h.wf, fun t ht => TaskOK'.of_lastEpic_zero (h.tasks t ht) (h0 t ht)⟩

theorem rebuild_id (t : Task) : (rebuild t).id = t.id := by rw [rebuild_eq]; rfl

theorem compacted_ids (g : Graph) : (compacted g).tasks.map (·.id) = (g.tasks.mergeSort taskIdLe).map (·.id) := by
  simp only [compacted, List.map_map]
  apply List.map_congr_left
  intro t _; exact rebuild_id t

theorem obsEq_compacted (g : Graph) (h : GraphOK' g) : ObsEq (compacted g) g := by
  constructor
  · intro id
    have hp := List.mergeSort_perm g.tasks taskIdLe
    have hnd : ((g.tasks.mergeSort taskIdLe).map (·.id)).Nodup := (hp.map _).nodup_iff.mpr h.wf.nodup
    have h1 : (compacted g).find? id = ((g.tasks.mergeSort taskIdLe).find? (·.id == id)).map rebuild := by
      simp only [Graph.find?, compacted, List.find?_map]
      congr 2
      funext t; simp [rebuild_id]
    rw [h1, find?_perm_tasks _ _ hp hnd id]
    show Option.map obsTask (Option.map rebuild (g.find? id)) = _
    cases hf : g.find? id with
    | none => rfl
    | some t =>
      have ht := (g.mem_of_find? id t hf).1
      simp only [Option.map_some, rebuild_eq, obs_rebuildX t (h.tasks t ht)]
  · intro e; exact List.mem_mergeSort

theorem graphOK_compacted (g : Graph) (h : GraphOK' g) : GraphOK' (compacted g) := by
  have hp := List.mergeSort_perm g.tasks taskIdLe
  refine ⟨⟨?_, ?_, ?_, ?_⟩, ?_⟩
  · rw [compacted_ids]; exact (hp.map _).nodup_iff.mpr h.wf.nodup
  · intro t _; simp [compacted]
  · intro e _; simp [compacted]
  · exact (List.mergeSort_perm g.deps edgeLe).nodup_iff.mpr h.wf.deps_nodup
  · intro t' ht'
    simp only [compacted, List.mem_map] at ht'
    obtain ⟨t, ht, rfl⟩ := ht'
    rw [rebuild_eq]
    exact taskOK_rebuildX t (h.tasks t (hp.mem_iff.mp ht))

theorem migrate_of_titled (g : Graph) (h : ∀ t ∈ g.tasks, Text.isBlank t.title = false) : migrate g = g := by
  unfold migrate
  have : g.tasks.map migrateTask = g.tasks := by
    conv => rhs; rw [← List.map_id g.tasks]
    apply List.map_congr_left
    intro t ht
    simp [migrateTask, h t ht]
  rw [this]

theorem replay_compact (g : Graph) (h : GraphOK' g) : replay (compactEvents g) = .ok (compacted g) := by
  unfold replay
  rw [replayRaw_compact g h.wf]
  show Except.ok (migrate (compacted g)) = _
  rw [migrate_of_titled _ fun t ht => ((graphOK_compacted g h).tasks t ht).titled]

theorem compactEvents_compacted (g : Graph) (h : GraphOK' g) : compactEvents (compacted g) = compactEvents g := by
  have hp := List.mergeSort_perm g.tasks taskIdLe
  unfold compactEvents
  have hs : (g.tasks.mergeSort taskIdLe).Pairwise (fun a b => taskIdLe a b = true) :=
    List.pairwise_mergeSort ord_taskIdLe_trans ord_taskIdLe_total g.tasks
  have h1 : (compacted g).tasks.mergeSort taskIdLe = (compacted g).tasks := by
    apply List.mergeSort_of_pairwise
    simp only [compacted, List.pairwise_map]
    refine hs.imp ?_
    intro a b hab
    simpa [taskIdLe, rebuild_id] using hab
  have h2 : (compacted g).deps.mergeSort edgeLe = (compacted g).deps :=
    List.mergeSort_of_pairwise (List.pairwise_mergeSort ord_edgeLe_trans ord_edgeLe_total g.deps)
  rw [h1, h2]
  congr 2
  simp only [compacted, List.map_map]
  apply List.map_congr_left
  intro t ht
  simp only [Function.comp, rebuild_eq]
  exact compactTask_rebuildX t (h.tasks t (hp.mem_iff.mp ht))

end Ergo
