/-
  WP10 helpers shared by the `links` and `plan` sections: effect of folding link / unlink events, and
  transfer of `AllInv` to a graph that differs only in its edge list.
-/
import ErgoProofs.Inv
import ErgoProofs.Lemmas.Prune
namespace Ergo

/-- unique ids: two live items with the same id are the same item -/
theorem task_eq_of_id_eq {l : List Task} (hnd : (l.map (·.id)).Nodup) {a b : Task} (ha : a ∈ l) (hb : b ∈ l)
    (h : a.id = b.id) : a = b := by
  induction l with
  | nil => cases ha
  | cons x xs ih =>
    simp only [List.map_cons, List.nodup_cons, List.mem_map, not_exists, not_and] at hnd
    rcases List.mem_cons.1 ha with rfl | ha' <;> rcases List.mem_cons.1 hb with rfl | hb'
    · rfl
    · exact absurd h.symm (hnd.1 b hb')
    · exact absurd h (hnd.1 a ha')
    · exact ih hnd.2 ha' hb'

theorem graph_find?_some_mem {g : Graph} {id : Id} {t : Task} (h : g.find? id = some t) : t ∈ g.tasks ∧ t.id = id := by
  unfold Graph.find? at h
  exact ⟨List.mem_of_find?_eq_some h, by simpa using List.find?_some h⟩

/-- the invariant only looks at the edge list through: no duplicates, no pruned endpoint, acyclic, live same-kind endpoints -/
theorem allInv_of_deps {g g' : Graph} (h : AllInv g) (ht : g'.tasks = g.tasks) (hb : g'.tombs = g.tombs)
    (hnd : g'.deps.Nodup) (hac : Acyclic g'.deps)
    (hlive : ∀ e ∈ g'.deps, e ∈ g.deps ∨ (e.1 ∉ g.tombs ∧ e.2 ∉ g.tombs ∧
      ∃ a ∈ g.tasks, ∃ b ∈ g.tasks, a.id = e.1 ∧ b.id = e.2 ∧ a.isEpic = b.isEpic)) : AllInv g' := by
  refine ⟨⟨⟨?_, ?_, ?_, hnd⟩, ?_⟩, ?_, ?_, ⟨hac, ?_⟩, ?_, ?_⟩
  · rw [ht]; exact h.ok.wf.nodup
  · rw [ht, hb]; exact h.ok.wf.live_not_tombed
  · intro e he
    rw [hb]
    rcases hlive e he with h1 | h1
    · exact h.ok.wf.deps_not_tombed e h1
    · exact ⟨h1.1, h1.2.1⟩
  · rw [ht]; exact h.ok.tasks
  · rw [ht]; exact h.epic0
  · unfold Inv06; rw [ht]; exact h.i06
  · intro e he
    rw [ht]
    rcases hlive e he with h1 | h1
    · exact h.i07.live e h1
    · exact h1.2.2
  · unfold Inv14; rw [ht]; exact h.i14
  · rw [ht]; exact h.ids

theorem applyEvent_link_ok (g : Graph) (f t : Id) (hf : f ∉ g.tombs) (ht : t ∉ g.tombs) :
    applyEvent g (.link f t true) =
      .ok (if g.deps.contains (f, t) then g else { g with deps := g.deps ++ [(f, t)] }) := by
  have h1 : g.tombed f = false := (Graph.tombed_false_iff g f).2 hf
  have h2 : g.tombed t = false := (Graph.tombed_false_iff g t).2 ht
  simp only [applyEvent, h1, h2, Bool.or_self, Bool.not_true, Bool.false_eq_true, if_false]
  split <;> rfl

theorem applyEvent_unlink_ok (g : Graph) (f t : Id) (hf : f ∉ g.tombs) (ht : t ∉ g.tombs) :
    applyEvent g (.unlink f t true) = .ok { g with deps := g.deps.filter (· != (f, t)) } := by
  have h1 : g.tombed f = false := (Graph.tombed_false_iff g f).2 hf
  have h2 : g.tombed t = false := (Graph.tombed_false_iff g t).2 ht
  simp only [applyEvent, h1, h2, Bool.or_self, Bool.not_true, Bool.false_eq_true, if_false]

/-- folding `link` events between un-pruned ids: items and tombstones stay, the edge set grows by exactly these edges -/
theorem foldlM_links (g : Graph) (edges : List (Id × Id))
    (h : ∀ e ∈ edges, e.1 ∉ g.tombs ∧ e.2 ∉ g.tombs) :
    ∃ g', (edges.map fun e => Event.link e.1 e.2 true).foldlM applyEvent g = .ok g' ∧
      g'.tasks = g.tasks ∧ g'.tombs = g.tombs ∧ (∀ e, e ∈ g'.deps ↔ e ∈ g.deps ∨ e ∈ edges) ∧
      (g.deps.Nodup → g'.deps.Nodup) := by
  induction edges generalizing g with
  | nil => exact ⟨g, rfl, rfl, rfl, by simp, id⟩
  | cons e es ih =>
    obtain ⟨f, t⟩ := e
    have he := h (f, t) (by simp)
    simp only [List.map_cons, List.foldlM_cons, applyEvent_link_ok g f t he.1 he.2, bind, Except.bind]
    by_cases hc : g.deps.contains (f, t) = true
    · simp only [hc, if_true]
      obtain ⟨g', h1, h2, h3, h4, h5⟩ := ih g (fun e he => h e (List.mem_cons_of_mem _ he))
      refine ⟨g', h1, h2, h3, ?_, h5⟩
      intro e
      rw [h4, List.mem_cons]
      constructor
      · rintro (h | h)
        · exact Or.inl h
        · exact Or.inr (Or.inr h)
      · rintro (h | h | h)
        · exact Or.inl h
        · subst h; exact Or.inl (by simpa using hc)
        · exact Or.inr h
    · simp only [hc]
      obtain ⟨g', h1, h2, h3, h4, h5⟩ := ih { g with deps := g.deps ++ [(f, t)] }
        (fun e he => h e (List.mem_cons_of_mem _ he))
      refine ⟨g', h1, h2, h3, ?_, ?_⟩
      · intro e
        rw [h4, List.mem_cons]
        simp only [List.mem_append, List.mem_singleton]
        constructor
        · rintro ((h | h) | h)
          · exact Or.inl h
          · exact Or.inr (Or.inl h)
          · exact Or.inr (Or.inr h)
        · rintro (h | h | h)
          · exact Or.inl (Or.inl h)
          · exact Or.inl (Or.inr h)
          · exact Or.inr h
      · intro hnd
        apply h5
        show (g.deps ++ [(f, t)]).Nodup
        rw [List.nodup_append]
        refine ⟨hnd, by simp, ?_⟩
        intro a ha b hb
        simp only [List.mem_singleton] at hb
        subst hb
        intro hab
        subst hab
        exact hc (by simpa using ha)

/-- folding `unlink` events between un-pruned ids: items and tombstones stay, edges only disappear -/
theorem foldlM_unlinks (g : Graph) (edges : List (Id × Id))
    (h : ∀ e ∈ edges, e.1 ∉ g.tombs ∧ e.2 ∉ g.tombs) :
    ∃ g', (edges.map fun e => Event.unlink e.1 e.2 true).foldlM applyEvent g = .ok g' ∧
      g'.tasks = g.tasks ∧ g'.tombs = g.tombs ∧ g'.deps.Sublist g.deps := by
  induction edges generalizing g with
  | nil => exact ⟨g, rfl, rfl, rfl, List.Sublist.refl _⟩
  | cons e es ih =>
    obtain ⟨f, t⟩ := e
    have he := h (f, t) (by simp)
    simp only [List.map_cons, List.foldlM_cons, applyEvent_unlink_ok g f t he.1 he.2, bind, Except.bind]
    obtain ⟨g', h1, h2, h3, h4⟩ := ih { g with deps := g.deps.filter (· != (f, t)) }
      (fun e he => h e (List.mem_cons_of_mem _ he))
    exact ⟨g', h1, h2, h3, h4.trans List.filter_sublist⟩

/-- adding edges between live, un-pruned, same-kind items that keep the edge list acyclic keeps the invariant -/
theorem allInv_add_links {g : Graph} (hinv : AllInv g) (edges : List (Id × Id))
    (hac : Acyclic (g.deps ++ edges))
    (hl : ∀ e ∈ edges, e.1 ∉ g.tombs ∧ e.2 ∉ g.tombs ∧
      ∃ a ∈ g.tasks, ∃ b ∈ g.tasks, a.id = e.1 ∧ b.id = e.2 ∧ a.isEpic = b.isEpic) :
    ∃ g', (edges.map fun e => Event.link e.1 e.2 true).foldlM applyEvent g = .ok g' ∧ AllInv g' := by
  obtain ⟨g', h1, h2, h3, h4, h5⟩ := foldlM_links g edges (fun e he => ⟨(hl e he).1, (hl e he).2.1⟩)
  refine ⟨g', h1, allInv_of_deps hinv h2 h3 (h5 hinv.ok.wf.deps_nodup) ?_ ?_⟩
  · apply acyclic_sub hac
    intro e he
    exact List.mem_append.2 ((h4 e).1 he)
  · intro e he
    rcases (h4 e).1 he with h | h
    · exact Or.inl h
    · exact Or.inr (hl e h)

end Ergo
