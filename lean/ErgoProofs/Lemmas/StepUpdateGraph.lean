/-
  WP9, part 2 — `AllInv` is kept when one live item is rewritten, and when one new item is appended.
-/
import ErgoProofs.Lemmas.StepUpdateTask
import ErgoProofs.Lemmas.Ready
namespace Ergo

theorem mem_update_tasks {g : Graph} {id : Id} {f : Task → Task} {x : Task} :
    x ∈ (g.update id f).tasks ↔ ∃ y ∈ g.tasks, x = if y.id == id then f y else y := by
  simp only [Graph.update, List.mem_map]
  constructor
  · rintro ⟨y, hy, rfl⟩; exact ⟨y, hy, rfl⟩
  · rintro ⟨y, hy, rfl⟩; exact ⟨y, hy, rfl⟩

/-- an item of the rewritten graph is an old item with another id, or the rewritten one -/
theorem mem_update_cases {g : Graph} {id : Id} {t : Task} {f : Task → Task} {x : Task} (hwf : WF g)
    (hfind : g.find? id = some t) (hx : x ∈ (g.update id f).tasks) : (x ∈ g.tasks ∧ x.id ≠ id) ∨ x = f t := by
  obtain ⟨y, hy, rfl⟩ := mem_update_tasks.1 hx
  by_cases hid : y.id = id
  · right
    have : g.find? id = some y := (Graph.find?_iff hwf id y).2 ⟨hy, hid⟩
    rw [hfind] at this; injection this with this
    simp [hid, this]
  · left
    simp [hid, hy]

/-- every old item has a counterpart with the same id and kind -/
theorem update_lift {g : Graph} {id : Id} {f : Task → Task} (hfid : ∀ k, (f k).id = k.id)
    (hfE : ∀ k, (f k).isEpic = k.isEpic) {e : Task} (he : e ∈ g.tasks) :
    ∃ e' ∈ (g.update id f).tasks, e'.id = e.id ∧ e'.isEpic = e.isEpic := by
  refine ⟨if e.id == id then f e else e, mem_update_tasks.2 ⟨e, he, rfl⟩, ?_, ?_⟩ <;> split <;> simp [hfid, hfE]

theorem AllInv_update {g : Graph} {id : Id} {t : Task} {f : Task → Task} (h : AllInv g)
    (hfind : g.find? id = some t) (hfid : ∀ k, (f k).id = k.id) (hfE : ∀ k, (f k).isEpic = k.isEpic)
    (hok : TaskOK (f t)) (hinv : TaskInv (f t)) (h0 : (f t).isEpic = true → (f t).lastEpic = 0)
    (hE : (f t).isEpic = true → (f t).epicId = "") (hR : (f t).isEpic = false → EpicRef g (f t).epicId) :
    AllInv (g.update id f) := by
  have hwf := h.ok.wf
  have htm : t ∈ g.tasks := ((Graph.find?_iff hwf id t).1 hfind).1
  refine ⟨⟨WF_update g id f hfid hwf, ?_⟩, ?_, ?_, ⟨h.i07.acyclic, ?_⟩, ?_, ?_⟩
  · intro x hx
    rcases mem_update_cases hwf hfind hx with ⟨hx, -⟩ | rfl
    · exact h.ok.tasks x hx
    · exact hok
  · intro x hx
    rcases mem_update_cases hwf hfind hx with ⟨hx, -⟩ | rfl
    · exact h.epic0 x hx
    · exact h0
  · intro x hx
    rcases mem_update_cases hwf hfind hx with ⟨hx, -⟩ | rfl
    · exact h.i06 x hx
    · exact hinv
  · intro e he
    obtain ⟨a, ha, b, hb, h1, h2, h3⟩ := h.i07.live e he
    obtain ⟨a', ha', ha1, ha2⟩ := update_lift (id := id) hfid hfE ha
    obtain ⟨b', hb', hb1, hb2⟩ := update_lift (id := id) hfid hfE hb
    exact ⟨a', ha', b', hb', ha1.trans h1, hb1.trans h2, by rw [ha2, hb2, h3]⟩
  · have lift : ∀ x, EpicRef g x → x = "" ∨ ∃ e ∈ (g.update id f).tasks, e.id = x ∧ e.isEpic = true := by
      intro x hx
      rcases hx with rfl | ⟨e, he, h1, h2⟩
      · exact Or.inl rfl
      · obtain ⟨e', he', h1', h2'⟩ := update_lift (id := id) hfid hfE he
        exact Or.inr ⟨e', he', h1'.trans h1, h2'.trans h2⟩
    intro x hx
    rcases mem_update_cases hwf hfind hx with ⟨hx, -⟩ | rfl
    · exact ⟨(h.i14 x hx).1, fun hxE => lift _ ((h.i14 x hx).2 hxE)⟩
    · exact ⟨hE, fun hxE => lift _ (hR hxE)⟩
  · intro x hx
    rcases mem_update_cases hwf hfind hx with ⟨hx, -⟩ | rfl
    · exact h.ids x hx
    · rw [hfid]; exact h.ids t htm

theorem AllInv_append {g : Graph} {x : Task} (h : AllInv g) (hhas : g.has x.id = false) (htomb : g.tombed x.id = false)
    (hid : x.id ≠ "") (hok : TaskOK x) (hinv : TaskInv x) (h0 : x.isEpic = true → x.lastEpic = 0)
    (hE : x.isEpic = true → x.epicId = "") (hR : x.isEpic = false → EpicRef g x.epicId) :
    AllInv { g with tasks := g.tasks ++ [x] } := by
  have hwf := h.ok.wf
  have hnt : x.id ∉ g.tombs := by simpa [Graph.tombed] using htomb
  have hnh : ∀ t ∈ g.tasks, t.id ≠ x.id := by simpa [Graph.has] using hhas
  have hmem : ∀ y, y ∈ g.tasks ++ [x] → y ∈ g.tasks ∨ y = x := by
    intro y hy; simpa using hy
  refine ⟨⟨⟨?_, ?_, hwf.deps_not_tombed, hwf.deps_nodup⟩, ?_⟩, ?_, ?_, ⟨h.i07.acyclic, ?_⟩, ?_, ?_⟩
  · simp only [List.map_append, List.map_cons, List.map_nil]
    rw [List.nodup_append]
    refine ⟨hwf.nodup, by simp, ?_⟩
    intro a ha b hb
    simp only [List.mem_singleton] at hb
    obtain ⟨t, ht, rfl⟩ := List.mem_map.1 ha
    rw [hb]; exact hnh t ht
  · intro y hy
    rcases hmem y hy with hy | rfl
    · exact hwf.live_not_tombed y hy
    · exact hnt
  · intro y hy
    rcases hmem y hy with hy | rfl
    · exact h.ok.tasks y hy
    · exact hok
  · intro y hy
    rcases hmem y hy with hy | rfl
    · exact h.epic0 y hy
    · exact h0
  · intro y hy
    rcases hmem y hy with hy | rfl
    · exact h.i06 y hy
    · exact hinv
  · intro e he
    obtain ⟨a, ha, b, hb, h1, h2, h3⟩ := h.i07.live e he
    exact ⟨a, List.mem_append_left _ ha, b, List.mem_append_left _ hb, h1, h2, h3⟩
  · have lift : ∀ z, EpicRef g z → z = "" ∨ ∃ e ∈ g.tasks ++ [x], e.id = z ∧ e.isEpic = true := by
      intro z hz
      rcases hz with rfl | ⟨e, he, h1, h2⟩
      · exact Or.inl rfl
      · exact Or.inr ⟨e, List.mem_append_left _ he, h1, h2⟩
    intro y hy
    rcases hmem y hy with hy | rfl
    · exact ⟨(h.i14 y hy).1, fun hyE => lift _ ((h.i14 y hy).2 hyE)⟩
    · exact ⟨hE, fun hyE => lift _ (hR hyE)⟩
  · intro y hy
    rcases hmem y hy with hy | rfl
    · exact h.ids y hy
    · exact hid

end Ergo
