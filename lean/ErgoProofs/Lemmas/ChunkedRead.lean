/-
  A lock-free reader that collects the log read by read sees a prefix of the last content of the file it opened, provided writers only ever
  add bytes to that file (GrowsOnly).  With an in-place truncation this fails: a concrete splice is exhibited.
-/
import ErgoModel.Storage
import ErgoProofs.Lemmas.StorageThm
namespace Ergo.Storage

/-- one more read from a file of which the reader holds a prefix leaves it with a (longer) prefix -/
theorem readAt_prefix {acc f : Bytes} (n : Nat) (h : acc <+: f) : acc ++ readAt f acc.length n <+: f := by
  obtain ⟨t, rfl⟩ := h
  simp only [readAt, List.drop_left]
  exact (List.prefix_append_right_inj acc).2 (List.take_prefix n t)

/-- … and with the whole file if the read asked for more than the file holds -/
theorem readAt_all {acc f : Bytes} {n : Nat} (h : acc <+: f) (hn : n > f.length) : acc ++ readAt f acc.length n = f := by
  obtain ⟨t, rfl⟩ := h
  simp only [readAt, List.drop_left]
  rw [List.take_of_length_le]
  simp at hn; omega

theorem chunkedRead_prefix_aux (vs : List (Bytes × Nat)) (acc : Bytes) (h : GrowsOnly (vs.map (·.1))) (hne : vs ≠ [])
    (hacc : acc <+: (vs.head hne).1) :
    chunkedRead vs acc <+: (vs.getLast hne).1 := by
  induction vs generalizing acc with
  | nil => exact absurd rfl hne
  | cons v rest ih =>
    obtain ⟨f, n⟩ := v
    cases rest with
    | nil => exact readAt_prefix n hacc
    | cons w rest' =>
      have hg : f <+: w.1 ∧ GrowsOnly ((w :: rest').map (·.1)) := h
      have := ih (acc ++ readAt f acc.length n) hg.2 (by simp)
        ((readAt_prefix n hacc).trans hg.1)
      simpa [chunkedRead] using this

theorem chunkedRead_complete_aux (vs : List (Bytes × Nat)) (acc : Bytes) (h : GrowsOnly (vs.map (·.1))) (hne : vs ≠ [])
    (hacc : acc <+: (vs.head hne).1) (heof : (vs.getLast hne).2 > (vs.getLast hne).1.length) :
    chunkedRead vs acc = (vs.getLast hne).1 := by
  induction vs generalizing acc with
  | nil => exact absurd rfl hne
  | cons v rest ih =>
    obtain ⟨f, n⟩ := v
    cases rest with
    | nil => exact readAt_all hacc heof
    | cons w rest' =>
      have hg : f <+: w.1 ∧ GrowsOnly ((w :: rest').map (·.1)) := h
      have := ih (acc ++ readAt f acc.length n) hg.2 (by simp)
        ((readAt_prefix n hacc).trans hg.1) (by simpa using heof)
      simpa [chunkedRead] using this

/-- reading chunk by chunk from a file that only grows yields a prefix of its last content -/
theorem chunkedRead_prefix (vs : List (Bytes × Nat)) (h : GrowsOnly (vs.map (·.1))) (hne : vs ≠ []) :
    chunkedRead vs [] <+: (vs.getLast hne).1 :=
  chunkedRead_prefix_aux vs [] h hne List.nil_prefix

/-- … and if the last read asked for more than the whole file holds (it reached end of file) the reader has the whole last content -/
theorem chunkedRead_complete (vs : List (Bytes × Nat)) (h : GrowsOnly (vs.map (·.1))) (hne : vs ≠ [])
    (heof : (vs.getLast hne).2 > (vs.getLast hne).1.length) :
    chunkedRead vs [] = (vs.getLast hne).1 :=
  chunkedRead_complete_aux vs [] h hne List.nil_prefix heof

/-- a file that is empty or ends in a newline needs no repair -/
theorem repairTail_closed (classify : Bytes → LineClass) {f : Bytes} (hnl : f.isEmpty ∨ endsWithNL f = true) :
    repairTail classify f = f := by
  have : (f.isEmpty || endsWithNL f) = true := by
    rcases hnl with h | h <;> simp [h]
  simp [repairTail, this]

/-- a reader of a log to which one batch is being appended (the file grows from `f` to `appendFile … f evs` in any number of visible steps that are
    prefixes of the final content) decodes everything that was there plus a whole number of the batch's events — never an error -/
theorem chunkedRead_of_append {W : Event → Prop} {classify : Bytes → LineClass} {encode : Event → Bytes} {limit : Nat}
    (hc : CodecOn W classify encode) (f : Bytes) (es evs : List Event)
    (hr : readEvents classify limit f = .ok es) (hs : Short W encode limit evs) (hnl : f.isEmpty ∨ endsWithNL f = true)
    (vs : List (Bytes × Nat)) (hne : vs ≠ [])
    (hfirst : ∀ v ∈ vs, f <+: v.1 ∧ v.1 <+: appendFile classify encode f evs) (hgrow : GrowsOnly (vs.map (·.1)))
    (hall : f <+: chunkedRead vs []) :
    ∃ n, n ≤ evs.length ∧ readEvents classify limit (chunkedRead vs []) = .ok (es ++ evs.take n) := by
  have hp : chunkedRead vs [] <+: appendFile classify encode f evs :=
    (chunkedRead_prefix vs hgrow hne).trans (hfirst _ (List.getLast_mem hne)).2
  obtain ⟨t, ht⟩ := hall
  have hrep := repairTail_closed classify hnl
  rw [← ht, appendFile, hrep, List.prefix_append_right_inj] at hp
  have heq : chunkedRead vs [] = appendTorn classify encode f evs t.length := by
    rw [← ht, appendTorn, hrep, ← List.prefix_iff_eq_take.1 hp]
  rw [heq]
  exact appendTorn_reads hc f es evs t.length hr hs

/-- the defect repaired by 961c71f, as a theorem about the model: if the file may shrink in place, a chunked reader can end up with bytes
    that were never the content of the file at any time (here: the torn fragment followed by the *middle* of the next batch) -/
theorem in_place_truncation_splices :
    ∃ (v0 v1 : Bytes) (n0 n1 : Nat), ¬ (v0 <+: v1) ∧
      chunkedRead [(v0, n0), (v1, n1)] [] ≠ v0 ∧ chunkedRead [(v0, n0), (v1, n1)] [] ≠ v1 ∧
      ¬ (chunkedRead [(v0, n0), (v1, n1)] [] <+: v1) := by
  refine ⟨[1, 2, 3, 4], [1, 2, 9, 9, 9, 9, 9], 4, 10, ?_, ?_, ?_, ?_⟩ <;>
    simp [chunkedRead, readAt]

end Ergo.Storage
