/-
  The lock file as a name (ErgoModel.LockFile): every descriptor is on the one inode the name ever had, so the flock on it is
  the abstract lock of ErgoModel.Proc — also when the lock file is missing at the start and several processes create it at once.
-/
import ErgoModel.LockFile
namespace Ergo.LockFile

/-- the invariant: descriptors are on the inode the name points to; a flock is recorded for exactly the process inside -/
structure Inv (s : LSys) : Prop where
  onName : ∀ (p i : Nat), (s.procs[p]? = some (Ph.opened i) ∨ s.procs[p]? = some (Ph.locked i)) → s.name = some i
  held   : ∀ (i p : Nat), s.holder i = some p ↔ s.procs[p]? = some (Ph.locked i)

theorem getElem?_setPh (s : LSys) (p q : Nat) (ph : Ph) :
    (setPh s p ph).procs[q]? = if p = q then (if p < s.procs.length then some ph else none) else s.procs[q]? := by
  unfold setPh
  simp only [List.getElem?_set]

theorem lt_of_get {s : LSys} {p : Nat} {ph : Ph} (h : s.procs[p]? = some ph) : p < s.procs.length := by
  rcases List.getElem?_eq_some_iff.mp h with ⟨hl, _⟩; exact hl

theorem inv_init (name : Option Nat) (fresh n : Nat) : Inv (LSys.init name fresh n) := by
  constructor
  · intro p i h
    simp only [LSys.init, List.getElem?_replicate] at h
    rcases h with h | h <;> (split at h <;> simp at h)
  · intro i p
    simp only [LSys.init, List.getElem?_replicate]
    constructor
    · intro h; simp at h
    · intro h; split at h <;> simp at h

/-- a step that only changes the phase of `p`, to something that is neither `opened` nor `locked`, from something not `locked` -/
theorem inv_setPh_plain {s : LSys} (hI : Inv s) (p : Nat) (old new : Ph) (hold : s.procs[p]? = some old)
    (hnl : ∀ i, old ≠ .locked i) (hno : ∀ i, new ≠ .opened i) (hnk : ∀ i, new ≠ .locked i) : Inv (setPh s p new) := by
  have hlt := lt_of_get hold
  constructor
  · intro q i h
    simp only [getElem?_setPh] at h
    by_cases hpq : p = q
    · simp only [hpq, if_true] at h
      subst hpq
      simp only [hlt, if_true] at h
      rcases h with h | h
      · exact absurd (Option.some.inj h) (hno i)
      · exact absurd (Option.some.inj h) (hnk i)
    · simp only [hpq, if_false] at h
      exact hI.onName q i h
  · intro i q
    simp only [getElem?_setPh]
    show s.holder i = some q ↔ _
    by_cases hpq : p = q
    · subst hpq
      simp only [if_true, hlt]
      constructor
      · intro h
        have := (hI.held i p).mp h
        rw [hold] at this
        exact absurd (Option.some.inj this) (hnl i)
      · intro h; exact absurd (Option.some.inj h) (hnk i)
    · simp only [hpq, if_false]; exact hI.held i q

theorem inv_step {s t : LSys} (hI : Inv s) (h : LStep s t) : Inv t := by
  cases h with
  | open1Ok p i hp hn =>
    have hlt := lt_of_get hp
    constructor
    · intro q j h
      simp only [getElem?_setPh] at h
      by_cases hpq : p = q
      · subst hpq
        simp only [if_true, hlt] at h
        rcases h with h | h
        · cases h; exact hn
        · cases h
      · simp only [hpq, if_false] at h; exact hI.onName q j h
    · intro j q
      simp only [getElem?_setPh]
      show s.holder j = some q ↔ _
      by_cases hpq : p = q
      · subst hpq
        simp only [if_true, hlt]
        constructor
        · intro h; have := (hI.held j p).mp h; rw [hp] at this; cases this
        · intro h; cases h
      · simp only [hpq, if_false]; exact hI.held j q
  | open1Miss p hp hn => exact inv_setPh_plain hI p _ _ hp (by intro i h; cases h) (by intro i h; cases h) (by intro i h; cases h)
  | statHit p i hp hn => exact inv_setPh_plain hI p _ _ hp (by intro i h; cases h) (by intro i h; cases h) (by intro i h; cases h)
  | statMiss p hp hn => exact inv_setPh_plain hI p _ _ hp (by intro i h; cases h) (by intro i h; cases h) (by intro i h; cases h)
  | create p hp =>
    cases hn : s.name with
    | some i =>
      exact inv_setPh_plain hI p _ _ hp (by intro i h; cases h) (by intro i h; cases h) (by intro i h; cases h)
    | none =>
      -- nobody has a descriptor: the name never existed
      have hI' : Inv { s with name := some s.fresh, fresh := s.fresh + 1 } := by
        constructor
        · intro q j h
          have := hI.onName q j h
          rw [hn] at this; cases this
        · exact hI.held
      exact inv_setPh_plain hI' p _ _ hp (by intro i h; cases h) (by intro i h; cases h) (by intro i h; cases h)
  | open2Ok p i hp hn =>
    have hlt := lt_of_get hp
    constructor
    · intro q j h
      simp only [getElem?_setPh] at h
      by_cases hpq : p = q
      · subst hpq
        simp only [if_true, hlt] at h
        rcases h with h | h
        · cases h; exact hn
        · cases h
      · simp only [hpq, if_false] at h; exact hI.onName q j h
    · intro j q
      simp only [getElem?_setPh]
      show s.holder j = some q ↔ _
      by_cases hpq : p = q
      · subst hpq
        simp only [if_true, hlt]
        constructor
        · intro h; have := (hI.held j p).mp h; rw [hp] at this; cases this
        · intro h; cases h
      · simp only [hpq, if_false]; exact hI.held j q
  | open2Miss p hp hn => exact inv_setPh_plain hI p _ _ hp (by intro i h; cases h) (by intro i h; cases h) (by intro i h; cases h)
  | flockOk p i hp hfree =>
    have hlt := lt_of_get hp
    have hname := hI.onName p i (Or.inl hp)
    constructor
    · intro q j h
      simp only [getElem?_setPh] at h
      by_cases hpq : p = q
      · subst hpq
        simp only [if_true] at h
        have hlt' : p < s.procs.length := hlt
        simp only [hlt', if_true] at h
        rcases h with h | h
        · cases h
        · cases h; exact hname
      · simp only [hpq, if_false] at h; exact hI.onName q j h
    · intro j q
      simp only [getElem?_setPh]
      show setHolder s.holder i (some p) j = some q ↔ _
      unfold setHolder
      by_cases hpq : p = q
      · subst hpq
        have hlt' : p < s.procs.length := hlt
        simp only [if_true, hlt']
        by_cases hji : j = i
        · subst hji; simp
        · simp only [hji, if_false]
          constructor
          · intro h; have := (hI.held j p).mp h; rw [hp] at this; cases this
          · intro h; cases h; exact absurd rfl hji
      · simp only [hpq, if_false]
        by_cases hji : j = i
        · subst hji
          simp only [if_true]
          constructor
          · intro h; cases h; exact absurd rfl hpq
          · intro h; have := (hI.held j q).mpr h; rw [hfree] at this; cases this
        · simp only [hji, if_false]; exact hI.held j q
  | flockBusy p i q hp hq => exact inv_setPh_plain hI p _ _ hp (by intro i h; cases h) (by intro i h; cases h) (by intro i h; cases h)
  | unlock p i hp =>
    have hlt := lt_of_get hp
    constructor
    · intro q j h
      simp only [getElem?_setPh] at h
      by_cases hpq : p = q
      · subst hpq
        have hlt' : p < s.procs.length := hlt
        simp only [if_true, hlt'] at h
        rcases h with h | h <;> cases h
      · simp only [hpq, if_false] at h; exact hI.onName q j h
    · intro j q
      simp only [getElem?_setPh]
      show setHolder s.holder i none j = some q ↔ _
      unfold setHolder
      by_cases hpq : p = q
      · subst hpq
        have hlt' : p < s.procs.length := hlt
        simp only [if_true, hlt']
        by_cases hji : j = i
        · subst hji; simp
        · simp only [hji, if_false]
          constructor
          · intro h; have := (hI.held j p).mp h; rw [hp] at this; cases this; exact absurd rfl hji
          · intro h; cases h
      · simp only [hpq, if_false]
        by_cases hji : j = i
        · subst hji
          simp only [if_true]
          constructor
          · intro h; cases h
          · intro h
            -- q would be inside on the same inode as p: the flock is p's
            have h1 := (hI.held j q).mpr h
            have h2 := (hI.held j p).mpr hp
            rw [h1] at h2; cases h2; exact absurd rfl hpq
        · simp only [hji, if_false]; exact hI.held j q
  | crash p ph hp hnd hnc =>
    have hlt := lt_of_get hp
    cases ph with
    | locked i =>
      simp only
      constructor
      · intro q j h
        simp only [getElem?_setPh] at h
        by_cases hpq : p = q
        · subst hpq
          have hlt' : p < s.procs.length := hlt
          simp only [if_true, hlt'] at h
          rcases h with h | h <;> cases h
        · simp only [hpq, if_false] at h; exact hI.onName q j h
      · intro j q
        simp only [getElem?_setPh]
        show setHolder s.holder i none j = some q ↔ _
        unfold setHolder
        by_cases hpq : p = q
        · subst hpq
          have hlt' : p < s.procs.length := hlt
          simp only [if_true, hlt']
          by_cases hji : j = i
          · subst hji; simp
          · simp only [hji, if_false]
            constructor
            · intro h; have := (hI.held j p).mp h; rw [hp] at this; cases this; exact absurd rfl hji
            · intro h; cases h
        · simp only [hpq, if_false]
          by_cases hji : j = i
          · subst hji
            simp only [if_true]
            constructor
            · intro h; cases h
            · intro h
              have h1 := (hI.held j q).mpr h
              have h2 := (hI.held j p).mpr hp
              rw [h1] at h2; cases h2; exact absurd rfl hpq
          · simp only [hji, if_false]; exact hI.held j q
    | start => exact inv_setPh_plain hI p _ _ hp (by intro i h; cases h) (by intro i h; cases h) (by intro i h; cases h)
    | missing => exact inv_setPh_plain hI p _ _ hp (by intro i h; cases h) (by intro i h; cases h) (by intro i h; cases h)
    | creating => exact inv_setPh_plain hI p _ _ hp (by intro i h; cases h) (by intro i h; cases h) (by intro i h; cases h)
    | ensured => exact inv_setPh_plain hI p _ _ hp (by intro i h; cases h) (by intro i h; cases h) (by intro i h; cases h)
    | opened i => exact inv_setPh_plain hI p _ _ hp (by intro i h; cases h) (by intro i h; cases h) (by intro i h; cases h)
    | done b => exact absurd rfl (hnd b)
    | crashed => exact absurd rfl hnc

theorem inv_reachable {a s : LSys} (hI : Inv a) (h : LReachable a s) : Inv s := by
  induction h with
  | refl => exact hI
  | tail _ st ih => exact inv_step ih st

/-- at most one process is inside a section -/
theorem exclusive {s : LSys} (hI : Inv s) {p q : Nat} (hp : s.inside p) (hq : s.inside q) : p = q := by
  rcases hp with ⟨i, hp⟩; rcases hq with ⟨j, hq⟩
  have hi := hI.onName p i (Or.inr hp)
  have hj := hI.onName q j (Or.inr hq)
  rw [hi] at hj; cases hj
  have h1 := (hI.held i p).mpr hp
  have h2 := (hI.held i q).mpr hq
  rw [h1] at h2; cases h2; rfl

/-- the flock of a process that has its descriptor succeeds exactly when nobody is inside (the guard of `Proc.Step.lockOk`),
    and says busy exactly when somebody is (`lockBusy`) -/
theorem flock_free_iff {s : LSys} (hI : Inv s) {p i : Nat} (hp : s.procs[p]? = some (.opened i)) :
    s.holder i = none ↔ ∀ q, ¬ s.inside q := by
  have hn := hI.onName p i (Or.inl hp)
  constructor
  · intro hfree q ⟨j, hq⟩
    have hj := hI.onName q j (Or.inr hq)
    rw [hn] at hj; cases hj
    have := (hI.held i q).mpr hq
    rw [hfree] at this; cases this
  · intro hno
    cases hh : s.holder i with
    | none => rfl
    | some q => exact absurd ⟨i, (hI.held i q).mp hh⟩ (hno q)

/-- the name, once there, keeps its inode -/
theorem name_kept {s t : LSys} (h : LStep s t) {i : Nat} (hn : s.name = some i) : t.name = some i := by
  cases h with
  | crash p ph hp hnd hnc => cases ph <;> simp_all [setPh]
  | _ => simp_all [setPh]

theorem name_kept_reachable {a s : LSys} (h : LReachable a s) {i : Nat} (hn : a.name = some i) : s.name = some i := by
  induction h with
  | refl => exact hn
  | tail _ st ih => exact name_kept st ih

/-! the seeded variant: with create-by-rename two processes can be inside at once -/

inductive RReachable : LSys → LSys → Prop where
  | refl (s) : RReachable s s
  | tail {a b c} : RReachable a b → LStepRename b c → RReachable a c

theorem rename_breaks_exclusion :
    ∃ s, RReachable (LSys.init none 7 2) s ∧ s.inside 0 ∧ s.inside 1 := by
  -- both see the file missing; 0 creates, opens, locks; 1 creates by rename (new inode), opens, locks
  let s0 := LSys.init none 7 2
  let s1 := setPh s0 0 .missing
  let s2 := setPh s1 1 .missing
  let s3 := setPh s2 0 .creating
  let s4 := setPh s3 1 .creating
  let s5 := setPh { s4 with name := some s4.fresh, fresh := s4.fresh + 1 } 0 .ensured
  let s6 := setPh s5 0 (.opened 7)
  let s7 := setPh { s6 with holder := setHolder s6.holder 7 (some 0) } 0 (.locked 7)
  let s8 := setPh { s7 with name := some s7.fresh, fresh := s7.fresh + 1 } 1 .ensured
  let s9 := setPh s8 1 (.opened 8)
  let s10 := setPh { s9 with holder := setHolder s9.holder 8 (some 1) } 1 (.locked 8)
  refine ⟨s10, ?_, ⟨7, by decide⟩, ⟨8, by decide⟩⟩
  have r1 : RReachable s0 s1 := .tail (.refl _) (.base _ _ (.open1Miss s0 0 (by decide) rfl))
  have r2 : RReachable s0 s2 := .tail r1 (.base _ _ (.open1Miss s1 1 (by decide) rfl))
  have r3 : RReachable s0 s3 := .tail r2 (.base _ _ (.statMiss s2 0 (by decide) rfl))
  have r4 : RReachable s0 s4 := .tail r3 (.base _ _ (.statMiss s3 1 (by decide) rfl))
  have r5 : RReachable s0 s5 := .tail r4 (.createByRename s4 0 (by decide))
  have r6 : RReachable s0 s6 := .tail r5 (.base _ _ (.open2Ok s5 0 7 (by decide) rfl))
  have r7 : RReachable s0 s7 := .tail r6 (.base _ _ (.flockOk s6 0 7 (by decide) rfl))
  have r8 : RReachable s0 s8 := .tail r7 (.createByRename s7 1 (by decide))
  have r9 : RReachable s0 s9 := .tail r8 (.base _ _ (.open2Ok s8 1 8 (by decide) rfl))
  exact .tail r9 (.base _ _ (.flockOk s9 1 8 (by decide) rfl))

end Ergo.LockFile

namespace Ergo.LockFile

/-- every step of the system other than a kill moves exactly one process along an edge of `next` (the automaton the traced
    programs are checked against), and leaves the others where they were -/
theorem step_follows_next {s t : LSys} (h : LStep s t) :
    ∃ (p : Nat) (ph ph' : Ph), s.procs[p]? = some ph ∧ t.procs[p]? = some ph' ∧ (∀ q : Nat, q ≠ p → t.procs[q]? = s.procs[q]?) ∧
      (ph' = Ph.crashed ∨ ∃ (k k' : Kind) (c : LCall), ph.kind = some k ∧ ph'.kind = some k' ∧ next k c = some k') := by
  cases h with
  | open1Ok p i hp hn =>
    exact ⟨p, _, Ph.opened i, hp, by simp [getElem?_setPh, lt_of_get hp], by intro q hq; simp [getElem?_setPh, Ne.symm hq],
      .inr ⟨.start, .opened, .openRO true, rfl, rfl, rfl⟩⟩
  | open1Miss p hp hn =>
    exact ⟨p, _, Ph.missing, hp, by simp [getElem?_setPh, lt_of_get hp], by intro q hq; simp [getElem?_setPh, Ne.symm hq],
      .inr ⟨.start, .missing, .openRO false, rfl, rfl, rfl⟩⟩
  | statHit p i hp hn =>
    exact ⟨p, _, Ph.ensured, hp, by simp [getElem?_setPh, lt_of_get hp], by intro q hq; simp [getElem?_setPh, Ne.symm hq],
      .inr ⟨.missing, .ensured, .stat true, rfl, rfl, rfl⟩⟩
  | statMiss p hp hn =>
    exact ⟨p, _, Ph.creating, hp, by simp [getElem?_setPh, lt_of_get hp], by intro q hq; simp [getElem?_setPh, Ne.symm hq],
      .inr ⟨.missing, .creating, .stat false, rfl, rfl, rfl⟩⟩
  | create p hp =>
    refine ⟨p, _, Ph.ensured, hp, ?_, ?_, .inr ⟨.creating, .ensured, .creat, rfl, rfl, rfl⟩⟩
    · cases hn : s.name <;> simp [getElem?_setPh, lt_of_get hp]
    · intro q hq; cases hn : s.name <;> simp [getElem?_setPh, Ne.symm hq]
  | open2Ok p i hp hn =>
    exact ⟨p, _, Ph.opened i, hp, by simp [getElem?_setPh, lt_of_get hp], by intro q hq; simp [getElem?_setPh, Ne.symm hq],
      .inr ⟨.ensured, .opened, .openRO true, rfl, rfl, rfl⟩⟩
  | open2Miss p hp hn =>
    exact ⟨p, _, Ph.done false, hp, by simp [getElem?_setPh, lt_of_get hp], by intro q hq; simp [getElem?_setPh, Ne.symm hq],
      .inr ⟨.ensured, .done false, .openRO false, rfl, rfl, rfl⟩⟩
  | flockOk p i hp hf =>
    refine ⟨p, _, Ph.locked i, hp, ?_, ?_, .inr ⟨.opened, .locked, .flockEx true, rfl, rfl, rfl⟩⟩
    · have := lt_of_get hp; simp [getElem?_setPh, this]
    · intro q hq; simp [getElem?_setPh, Ne.symm hq]
  | flockBusy p i q hp hq =>
    exact ⟨p, _, Ph.done false, hp, by simp [getElem?_setPh, lt_of_get hp], by intro q hq; simp [getElem?_setPh, Ne.symm hq],
      .inr ⟨.opened, .done false, .flockEx false, rfl, rfl, rfl⟩⟩
  | unlock p i hp =>
    refine ⟨p, _, Ph.done true, hp, ?_, ?_, .inr ⟨.locked, .done true, .flockUn, rfl, rfl, rfl⟩⟩
    · have := lt_of_get hp; simp [getElem?_setPh, this]
    · intro q hq; simp [getElem?_setPh, Ne.symm hq]
  | crash p ph hp hnd hnc =>
    refine ⟨p, ph, Ph.crashed, hp, ?_, ?_, .inl rfl⟩
    · have := lt_of_get hp; cases ph <;> simp [getElem?_setPh, this]
    · intro q hq; cases ph <;> simp [getElem?_setPh, Ne.symm hq]

end Ergo.LockFile

namespace Ergo.LockFile

/-! ### the abstraction to `Proc`'s one lock: `holds s p` ⇔ the abstract `holder = some p` -/

/-- what a step does to "who is inside": nothing, or one process enters an empty section (the guard of `Proc.Step.lockOk`), or the one
    inside leaves (unlock, or its death: `Proc.Step.unlockOk` / `crash`) — and a refused flock (`lockBusy`) happens only while somebody is inside -/
theorem step_abstracts {s t : LSys} (hI : Inv s) (h : LStep s t) :
    (∀ p, t.inside p ↔ s.inside p) ∨
    (∃ p, (∀ q, ¬ s.inside q) ∧ t.inside p ∧ ∀ q, t.inside q → q = p) ∨
    (∃ p, s.inside p ∧ ∀ q, ¬ t.inside q) := by
  have hI' := inv_step hI h
  -- classify by what happened to the one process that moved
  obtain ⟨p, ph, ph', hp, hp', hrest, hkind⟩ := step_follows_next h
  have other : ∀ q, q ≠ p → (t.inside q ↔ s.inside q) := by
    intro q hq; unfold LSys.inside; rw [hrest q hq]
  by_cases hin : s.inside p
  · by_cases hin' : t.inside p
    · left; intro q
      by_cases hq : q = p
      · subst hq; exact ⟨fun _ => hin, fun _ => hin'⟩
      · exact other q hq
    · right; right
      refine ⟨p, hin, ?_⟩
      intro q hq
      by_cases hqp : q = p
      · subst hqp; exact hin' hq
      · exact hqp (exclusive hI ((other q hqp).mp hq) hin)
  · by_cases hin' : t.inside p
    · right; left
      refine ⟨p, ?_, hin', fun q hq => exclusive hI' hq hin'⟩
      -- p entered: it held a descriptor and the flock was free, so nobody was inside
      intro q hq
      by_cases hqp : q = p
      · subst hqp; exact hin hq
      · have hqt : t.inside q := (other q hqp).mpr hq
        exact hqp (exclusive hI' hqt hin')
    · left; intro q
      by_cases hq : q = p
      · subst hq; exact ⟨fun h' => absurd h' hin', fun h' => absurd h' hin⟩
      · exact other q hq

/-- a flock refused as busy: somebody else is inside at that moment -/
theorem busy_means_somebody_inside {s : LSys} (hI : Inv s) {p i q : Nat} (_hp : s.procs[p]? = some (.opened i)) (hq : s.holder i = some q) :
    s.inside q := ⟨i, (hI.held i q).mp hq⟩

end Ergo.LockFile
