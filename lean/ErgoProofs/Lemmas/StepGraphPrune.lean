/-
  WP10 — `Sec.prune` keeps `AllInv`.
-/
import ErgoProofs.Lemmas.StepGraphBase
namespace Ergo

theorem foldlM_tombstones (g : Graph) (ids : List Id) (agent : Id) (now : Time) :
    (ids.map fun i => Event.tombstone i agent (some now)).foldlM applyEvent g = .ok (ids.foldl applyTombstone g) := by
  induction ids generalizing g with
  | nil => rfl
  | cons i is ih =>
    simp only [List.map_cons, List.foldlM_cons, applyEvent, bind, Except.bind, List.foldl_cons]
    exact ih _

theorem foldl_applyTombstone_mem (g : Graph) (ids : List Id) :
    (∀ t, t ∈ (ids.foldl applyTombstone g).tasks ↔ t ∈ g.tasks ∧ t.id ∉ ids) ∧
    (∀ e, e ∈ (ids.foldl applyTombstone g).deps ↔ e ∈ g.deps ∧ e.1 ∉ ids ∧ e.2 ∉ ids) := by
  induction ids generalizing g with
  | nil => simp
  | cons i is ih =>
    obtain ⟨h1, h2⟩ := ih (applyTombstone g i)
    simp only [List.foldl_cons]
    constructor
    · intro t
      rw [h1]
      simp only [applyTombstone, List.mem_filter, bne_iff_ne, ne_eq, List.mem_cons, not_or]
      constructor
      · rintro ⟨⟨a, b⟩, c⟩; exact ⟨a, b, c⟩
      · rintro ⟨a, b, c⟩; exact ⟨⟨a, b⟩, c⟩
    · intro e
      rw [h2]
      simp only [applyTombstone, List.mem_filter, bne_iff_ne, ne_eq, List.mem_cons, not_or, Bool.and_eq_true]
      constructor
      · rintro ⟨⟨a, b, b'⟩, c, c'⟩; exact ⟨a, ⟨b, c⟩, b', c'⟩
      · rintro ⟨a, ⟨b, c⟩, b', c'⟩; exact ⟨⟨a, b, b'⟩, c, c'⟩

/-- removing the prune targets keeps the invariant -/
theorem allInv_prune {g : Graph} (hinv : AllInv g) (agent : Id) (now : Time) :
    ∃ g', ((pruneTargets g).map fun i => Event.tombstone i agent (some now)).foldlM applyEvent g = .ok g' ∧
      AllInv g' := by
  refine ⟨_, foldlM_tombstones g _ agent now, ?_⟩
  have hwf : WF ((pruneTargets g).foldl applyTombstone g) :=
    foldlM_WF g _ _ hinv.ok.wf (foldlM_tombstones g _ agent now)
  obtain ⟨hT, hD⟩ := foldl_applyTombstone_mem g (pruneTargets g)
  refine ⟨⟨hwf, ?_⟩, ?_, ?_, ⟨?_, ?_⟩, ?_, ?_⟩
  · intro t ht; exact hinv.ok.tasks t ((hT t).1 ht).1
  · intro t ht; exact hinv.epic0 t ((hT t).1 ht).1
  · intro t ht; exact hinv.i06 t ((hT t).1 ht).1
  · exact acyclic_sub hinv.i07.acyclic (fun e he => ((hD e).1 he).1)
  · intro e he
    obtain ⟨h1, h2, h3⟩ := (hD e).1 he
    obtain ⟨a, ha, b, hb, ea, eb, hk⟩ := hinv.i07.live e h1
    exact ⟨a, (hT a).2 ⟨ha, by rw [ea]; exact h2⟩, b, (hT b).2 ⟨hb, by rw [eb]; exact h3⟩, ea, eb, hk⟩
  · intro t ht
    obtain ⟨htg, htn⟩ := (hT t).1 ht
    obtain ⟨i1, i2⟩ := hinv.i14 t htg
    refine ⟨i1, ?_⟩
    intro hne
    rcases i2 hne with h0 | ⟨e, he, hid, hep⟩
    · exact Or.inl h0
    · by_cases h0 : t.epicId = ""
      · exact Or.inl h0
      · right
        refine ⟨e, (hT e).2 ⟨he, ?_⟩, hid, hep⟩
        intro hmem
        rw [mem_pruneTargets] at hmem
        obtain ⟨u, hu, huid, hcase⟩ := hmem
        have hue : u = e := task_eq_of_id_eq hinv.ok.wf.nodup hu he huid
        subst hue
        rcases hcase with ⟨hk, _⟩ | ⟨_, hall⟩
        · rw [hep] at hk; cases hk
        · have hclosed := hall t htg hne h0 hid.symm
          apply htn
          rw [mem_pruneTargets]
          exact ⟨t, htg, rfl, Or.inl ⟨hne, hclosed⟩⟩
  · intro t ht; exact hinv.ids t ((hT t).1 ht).1

theorem secStep_prune' (apply : Bool) : SecStepOK (.prune apply) := by
  intro log g env w out hr hinv _ hrun
  have hrep := replay_eq_raw hr hinv.ok
  simp only [runSec, hrep, secPrune] at hrun
  cases hrun
  simp only [applyWrite, replayRaw_append, hr, Except.bind]
  cases apply with
  | false => exact ⟨g, rfl, hinv⟩
  | true => exact allInv_prune hinv env.agent env.now

end Ergo
