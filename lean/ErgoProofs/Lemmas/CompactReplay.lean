/-
  WP2 — C05, part 3: replaying `compactEvents g` builds exactly `compacted g`.
-/
import ErgoProofs.Lemmas.CompactItem
namespace Ergo

theorem has_false_iff (g : Graph) (id : Id) : g.has id = false ↔ ∀ k ∈ g.tasks, k.id ≠ id := by
  simp [Graph.has]

theorem applyBlock (g0 : Graph) (t : Task) (htomb : g0.tombs = []) (hfresh : g0.has t.id = false) :
    (compactTask t).foldlM applyEvent g0 = .ok { g0 with tasks := g0.tasks ++ [rebuild t] } := by
  rw [compactTask_eq, List.foldlM_cons]
  have htb : ∀ (g : Graph) (i : Id), g.tombs = [] → g.tombed i = false := by
    intro g i h; simp [Graph.tombed, h]
  have h1 : applyEvent g0 (Event.newItem t.isEpic t.id t.uuid t.cEpic (cStOf t) (cTitleOf t) (cBodyOf t) (some t.createdAt))
      = .ok { g0 with tasks := g0.tasks ++ [created t] } := by
    simp [applyEvent, htb g0 t.id htomb, hfresh, created]
  rw [h1]
  simp only [bind, Except.bind]
  rw [foldlM_updates _ t.id (updEvents t) _ _ (updEvents_isUpdate t)]
  · congr 1
    simp only [Graph.update, List.map_append, List.map_cons, List.map_nil]
    have hc : (created t).id = t.id := rfl
    simp only [hc, beq_self_eq_true, if_true]
    congr 2
    · rw [has_false_iff] at hfresh
      conv => rhs; rw [← List.map_id g0.tasks]
      apply List.map_congr_left
      intro k hk
      have := hfresh k hk
      simp [this]
  · simp [Graph.has, created]
  · exact htb _ _ htomb

theorem applyBlocks (l : List Task) (g0 : Graph) (htomb : g0.tombs = []) (hnd : (l.map (·.id)).Nodup)
    (hfresh : ∀ t ∈ l, g0.has t.id = false) :
    (l.map compactTask).flatten.foldlM applyEvent g0 = .ok { g0 with tasks := g0.tasks ++ l.map rebuild } := by
  induction l generalizing g0 with
  | nil => simp [pure, Except.pure]
  | cons t l ih =>
    simp only [List.map_cons, List.flatten_cons, List.foldlM_append]
    rw [applyBlock g0 t htomb (hfresh t (by simp))]
    simp only [bind, Except.bind]
    simp only [List.map_cons, List.nodup_cons] at hnd
    rw [ih { g0 with tasks := g0.tasks ++ [rebuild t] } htomb hnd.2]
    · simp
    · intro k hk
      have h1 := hfresh k (by simp [hk])
      rw [has_false_iff] at h1 ⊢
      intro j hj
      simp only [List.mem_append, List.mem_singleton] at hj
      rcases hj with hj | rfl
      · exact h1 j hj
      · intro heq
        apply hnd.1
        have : (rebuild t).id = t.id := by rw [rebuild_eq]; rfl
        rw [← this, heq]
        exact List.mem_map_of_mem (f := (·.id)) hk

theorem applyLinks (l : List (Id × Id)) (g : Graph) (htomb : g.tombs = []) (hnd : l.Nodup) (hnew : ∀ e ∈ l, e ∉ g.deps) :
    (l.map fun e => Event.link e.1 e.2 true).foldlM applyEvent g = .ok { g with deps := g.deps ++ l } := by
  induction l generalizing g with
  | nil => simp [pure, Except.pure]
  | cons e l ih =>
    simp only [List.map_cons, List.foldlM_cons]
    have h1 : applyEvent g (Event.link e.1 e.2 true) = .ok { g with deps := g.deps ++ [e] } := by
      have := hnew e (by simp)
      simp [applyEvent, Graph.tombed, htomb, this]
    rw [h1]
    simp only [bind, Except.bind]
    simp only [List.nodup_cons] at hnd
    rw [ih { g with deps := g.deps ++ [e] } htomb hnd.2]
    · simp
    · intro e' he' hmem
      simp only [List.mem_append, List.mem_singleton] at hmem
      rcases hmem with hmem | rfl
      · exact hnew e' (by simp [he']) hmem
      · exact hnd.1 he'

/-- the graph that replaying `compactEvents g` builds -/
def compacted (g : Graph) : Graph :=
  ⟨(g.tasks.mergeSort taskIdLe).map rebuild, g.deps.mergeSort edgeLe, []⟩

theorem replayRaw_compact (g : Graph) (h : WF g) : replayRaw (compactEvents g) = .ok (compacted g) := by
  unfold replayRaw compactEvents
  rw [List.foldlM_append]
  have hp := List.mergeSort_perm g.tasks taskIdLe
  rw [applyBlocks _ Graph.empty rfl ((hp.map _).nodup_iff.mpr h.nodup) (by intro t _; rfl)]
  simp only [bind, Except.bind]
  rw [applyLinks _ _ rfl ((List.mergeSort_perm g.deps edgeLe).nodup_iff.mpr h.deps_nodup) (by intro e _; simp [Graph.empty])]
  simp [compacted, Graph.empty]
end Ergo
