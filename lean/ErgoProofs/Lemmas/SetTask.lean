import ErgoProofs.Lemmas.SetEvents
namespace Ergo

/-- st / claimedBy / isEpic of `k'` are those of `k` -/
def SameSC (k k' : Task) : Prop := k'.st = k.st ∧ k'.claimedBy = k.claimedBy ∧ k'.isEpic = k.isEpic

theorem TaskInv_congr {k k' : Task} (h : SameSC k k') (hk : TaskInv k) : TaskInv k' := by
  unfold SameSC at h
  obtain ⟨h1, h2, h3⟩ := h
  unfold TaskInv at *
  rw [h1, h2, h3]; exact hk

theorem TaskInv_task {k : Task} (hE : k.isEpic = false) (hv : k.st.valid = true)
    (hc : docClaimOk k.st k.claimedBy = true) : TaskInv k :=
  ⟨fun h => (by rw [hE] at h; cases h), fun _ => ⟨hv, hc⟩⟩

theorem set_task_inv (t : Task) (u : Updates) (agent : String) (now : Time) (evs : List Event)
    (ht : TaskInv t) (hep : t.isEpic = true → u.state = none ∧ u.claim = none)
    (h : buildSetEvents t u agent now = .ok evs) :
    TaskInv (evs.foldl stepTask t) ∧
    ((evs.foldl stepTask t).st = t.st ∨ docTransition t.st (evs.foldl stepTask t).st = true) := by
  obtain ⟨claim, e1, e3, e4, e5, e6, h0, h1, h3, h4, h5, h6, rfl⟩ := buildSetEvents_ok h
  -- the title/body/epic prefix does not touch state or claimant
  have hA : SameSC t ((e1 ++ evBody t.id now u.body ++ e3).foldl stepTask t) := by
    rcases evTitle_ok h1 with ⟨-, rfl⟩ | ⟨s1, -, -, rfl⟩ <;>
    rcases evBody_cases t.id now u.body with ⟨-, hb⟩ | ⟨b, -, hb⟩ <;> rw [hb] <;>
    rcases evEpic_ok h3 with ⟨-, rfl⟩ | ⟨e, -, -, rfl⟩ <;>
    simp [SameSC, List.foldl, stepTask]
  generalize e1 ++ evBody t.id now u.body ++ e3 = A at hA ⊢
  simp only [List.foldl_append]
  generalize A.foldl stepTask t = tA at hA ⊢
  unfold SameSC at hA
  obtain ⟨hAst, hAcl, hAep⟩ := hA
  cases hE : t.isEpic
  · -- a task
    have hv := (ht.2 hE).1
    have hc := (ht.2 hE).2
    have hEA : tA.isEpic = false := by rw [hAep, hE]
    cases hcl : claim with
    | none =>
      subst hcl
      simp [evClaim] at h4; subst h4
      simp [evTrail] at h6; subst h6
      rcases evState_ok h5 with ⟨-, rfl⟩ | ⟨s, -, hsv, hstr, hsc, rfl⟩
      · simp only [List.foldl]
        exact ⟨TaskInv_congr ⟨hAst, hAcl, hAep⟩ ht, Or.inl hAst⟩
      · simp only [List.foldl, stepTask]
        refine ⟨TaskInv_task (by simpa using hEA) hsv ?_, ?_⟩
        · simpa [hAcl] using hsc
        · rcases hstr with hstr | hstr
          · left; exact hstr.symm
          · right; exact hstr
    | some cv =>
      subst hcl
      by_cases hcv : cv = ""
      · subst hcv
        -- clear the claim
        rcases evClaim_ok h4 with ⟨hx, -⟩ | ⟨cv, -, hx, -⟩ | ⟨-, -, hcu, rfl⟩ | ⟨cv, hx, hne, -, -⟩
        · cases hx
        · rw [hE] at hx; cases hx
        · simp [evTrail] at h6; subst h6
          rcases evState_ok h5 with ⟨hs, rfl⟩ | ⟨s, hs, hsv, hstr, hsc, rfl⟩
          · simp only [List.foldl, stepTask]
            rw [hs] at hcu
            simp at hcu
            refine ⟨TaskInv_task (by simpa using hEA) (by simpa [hAst] using hv) (by simpa [hAst] using hcu), Or.inl hAst⟩
          · simp only [List.foldl, stepTask]
            refine ⟨TaskInv_task (by simpa using hEA) hsv ?_, ?_⟩
            · simpa [hE] using hsc
            · rcases hstr with hstr | hstr
              · left; exact hstr.symm
              · right; exact hstr
        · injection hx with hx; exact absurd hx.symm hne
      · -- a non-empty claim
        rcases evClaim_ok h4 with ⟨hx, -⟩ | ⟨cv', -, hx, -⟩ | ⟨hx, -⟩ | ⟨cv', hx, -, -, rfl⟩
        · cases hx
        · rw [hE] at hx; cases hx
        · injection hx with hx; exact absurd hx hcv
        · injection hx with hx; subst hx
          rcases evState_ok h5 with ⟨hs, rfl⟩ | ⟨s, hs, hsv, hstr, hsc, rfl⟩
          · rcases evTrail_ok h6 with ⟨hcond, -⟩ | ⟨-, htr, rfl⟩
            · simp [hE, hs, hcv] at hcond
            · simp only [List.foldl, stepTask]
              refine ⟨TaskInv_task (by simpa using hEA) rfl (by simpa [docClaimOk, St.clearsClaim] using hcv), ?_⟩
              rcases htr with htr | htr
              · left; exact htr.symm
              · right; exact htr
          · have : evTrail t (some cv) u.state.isSome now = .ok [] := by simp [evTrail, hs]
            rw [this] at h6; injection h6 with h6; subst h6
            simp only [List.foldl, stepTask]
            refine ⟨TaskInv_task (by simpa using hEA) hsv ?_, ?_⟩
            · simpa [hE] using hsc
            · rcases hstr with hstr | hstr
              · left; exact hstr.symm
              · right; exact hstr
  · -- an epic: the caller has already refused state and claim keys
    obtain ⟨hs, hc⟩ := hep hE
    have hcl : claim = none := by
      rcases implicitClaim_ok h0 with hx | ⟨-, hx, -⟩
      · rw [hx, hc]
      · rw [hE] at hx; cases hx
    subst hcl
    simp [evClaim] at h4; subst h4
    simp [evTrail] at h6; subst h6
    rw [hs] at h5
    simp [evState] at h5; subst h5
    simp only [List.foldl]
    exact ⟨TaskInv_congr ⟨hAst, hAcl, hAep⟩ ht, Or.inl hAst⟩
end Ergo
