/-
  The call sequences of storage.go on the two names of the store (ErgoModel.Files) produce the results ErgoModel.Storage states,
  from every directory state — a stale temporary file included — and leave the log alone until the one call that publishes.
-/
import ErgoModel.Files
namespace Ergo.Files
open Ergo.Storage

theorem splice_end (f data : Bytes) : splice f f.length data = f ++ data := by
  unfold splice
  simp

theorem run_append (s : St) (a b : List Op) : run s (a ++ b) = run (run s a) b := by
  unfold run; rw [List.foldl_append]

/-- sequential writes on a fresh, truncated temporary file put the chunks one after the other -/
theorem writeTmp_chunks (s : St) (acc : Bytes) (cs : List Bytes) (ht : s.dir.tmp = some acc) (ho : s.fds.tmpOff = acc.length) :
    (run s (cs.map .writeTmp)).dir.tmp = some (acc ++ cs.flatten) ∧ (run s (cs.map .writeTmp)).dir.log = s.dir.log := by
  induction cs generalizing s acc with
  | nil => simp [run, ht]
  | cons c cs ih =>
    simp only [List.map_cons, run, List.foldl_cons]
    have h1 : (step s (.writeTmp c)).dir.tmp = some (acc ++ c) := by
      simp only [step, ht, Option.getD_some, ho, splice_end]
    have h2 : (step s (.writeTmp c)).fds.tmpOff = (acc ++ c).length := by
      simp only [step, ho, List.length_append]
    have := ih (step s (.writeTmp c)) (acc ++ c) h1 h2
    simp only [run] at this
    constructor
    · rw [this.1]; simp [List.append_assoc]
    · rw [this.2]; simp [step]

/-- a complete rewrite: the log's name points to exactly the new content, whatever was under either name before — in particular
    whatever an earlier, killed rewrite left in the temporary file -/
theorem step_rename (s : St) (t : Bytes) (h : s.dir.tmp = some t) : (step s .renameTmp).dir = { log := some t, tmp := none } := by
  simp only [step, h]

theorem rewrite_complete (s : St) (cs : List Bytes) :
    (run s (rewrite true cs)).dir = { log := some cs.flatten, tmp := none } := by
  unfold rewrite
  rw [run_append, run_append]
  have h0 : (run s [.openTmp true]).dir.tmp = some [] := by simp [run, step]
  have h0' : (run s [.openTmp true]).fds.tmpOff = ([] : Bytes).length := by simp [run, step]
  have h := writeTmp_chunks (run s [.openTmp true]) [] cs h0 h0'
  simp only [List.nil_append] at h
  exact step_rename _ _ h.1

/-- calls that do not publish: the log is what it was -/
def quiet : Op → Bool
  | .openTmp _ | .writeTmp _ => true
  | _ => false

theorem quiet_keeps_log (s : St) (ops : List Op) (h : ∀ o ∈ ops, quiet o = true) : (run s ops).dir.log = s.dir.log := by
  induction ops generalizing s with
  | nil => rfl
  | cons o ops ih =>
    simp only [run, List.foldl_cons]
    have ho := h o (List.mem_cons_self)
    have := ih (step s o) (fun o' ho' => h o' (List.mem_cons_of_mem _ ho'))
    simp only [run] at this
    rw [this]
    cases o <;> simp [quiet] at ho <;> simp [step]

/-- a rewrite killed before its rename (after any number of its calls, with or without `O_TRUNC`): the log is untouched -/
theorem rewrite_killed (s : St) (trunc : Bool) (cs : List Bytes) (k : Nat) (hk : k < (rewrite trunc cs).length) :
    (run s ((rewrite trunc cs).take k)).dir.log = s.dir.log := by
  apply quiet_keeps_log
  intro o ho
  have hlen : (rewrite trunc cs).length = ([Op.openTmp trunc] ++ cs.map Op.writeTmp).length + 1 := by
    unfold rewrite; simp
  have hk' : k ≤ ([Op.openTmp trunc] ++ cs.map Op.writeTmp).length := by omega
  have : (rewrite trunc cs).take k = ([Op.openTmp trunc] ++ cs.map Op.writeTmp).take k := by
    unfold rewrite
    rw [List.take_append_of_le_length hk']
  rw [this] at ho
  have hm := List.mem_of_mem_take ho
  simp only [List.mem_append, List.mem_singleton, List.mem_map] at hm
  rcases hm with rfl | ⟨c, _, rfl⟩ <;> rfl

/-- why `O_TRUNC`: without it the bytes of a longer stale temporary file survive behind the new content -/
theorem rewrite_without_trunc_keeps_stale_bytes :
    (run { dir := { log := some [1], tmp := some [7, 7, 7, 10] } } (rewrite false [[9, 10]])).dir.log = some [9, 10, 7, 10] := by
  decide

theorem appendClean_result (s : St) (batch : Bytes) :
    (run s (appendClean true batch)).dir.log = some (s.dir.log.getD [] ++ batch) := by
  simp [appendClean, run, step]

/-- the `\n` that completes an unterminated last line lands at the end of the file although the descriptor's offset is 0 — because of `O_APPEND` -/
theorem appendUnterminated_result (s : St) (batch : Bytes) :
    (run s (appendUnterminated true batch)).dir.log = some (s.dir.log.getD [] ++ [NL] ++ batch) := by
  simp [appendUnterminated, run, step]

/-- why `O_APPEND`: without it that `\n` overwrites the first byte of the log -/
theorem appendUnterminated_without_append_clobbers :
    (run { dir := { log := some [123, 125], tmp := none } } (appendUnterminated false [49, 10])).dir.log = some [10, 125, 49, 10] := by
  decide

theorem appendAfterTear_result (s : St) (kept : List Bytes) (batch : Bytes) :
    (run s (appendAfterTear true true kept batch)).dir.log = some (kept.flatten ++ batch) := by
  unfold appendAfterTear
  rw [run_append, run_append]
  have h := rewrite_complete (run s [.openLog true]) kept
  generalize run (run s [.openLog true]) (rewrite true kept) = s2 at h
  simp [run, step, h]

/-- `appendEvents`, call by call, leaves under the log's name what `Storage.appendFile` says — from every state of the temporary name -/
theorem appendProgram_result (classify : Bytes → LineClass) (encode : Event → Bytes) (f : Bytes) (t : Option Bytes) (fds : Fds) (evs : List Event) :
    (run { dir := { log := some f, tmp := t }, fds } (appendProgram classify f (linesOf encode evs))).dir.log
      = some (appendFile classify encode f evs) := by
  unfold appendProgram appendFile repairTail
  by_cases h : (f.isEmpty || endsWithNL f) = true
  · rw [if_pos h, if_pos h, appendClean_result]; rfl
  · rw [if_neg h, if_neg h]
    cases hc : classify (dropCR (lastFragment f)) with
    | ev e => simp only []; rw [appendUnterminated_result]; simp [List.append_assoc]
    | blank => simp only []; rw [appendAfterTear_result]; simp
    | bad => simp only []; rw [appendAfterTear_result]; simp

/-- at every point between two calls of `appendEvents` the log's name holds the old file, the repaired file, or the final file -/
theorem appendProgram_killed (classify : Bytes → LineClass) (encode : Event → Bytes) (f : Bytes) (t : Option Bytes) (fds : Fds) (evs : List Event) (k : Nat) :
    let g := (run { dir := { log := some f, tmp := t }, fds } ((appendProgram classify f (linesOf encode evs)).take k)).dir.log
    g = some f ∨ g = some (repairTail classify f) ∨ g = some (appendFile classify encode f evs) := by
  intro g
  have hfin := appendProgram_result classify encode f t fds evs
  by_cases hall : (appendProgram classify f (linesOf encode evs)).length ≤ k
  · right; right
    show (run _ (List.take k _)).dir.log = _
    rw [List.take_of_length_le hall]; exact hfin
  · have hk : k < (appendProgram classify f (linesOf encode evs)).length := by omega
    clear hfin hall
    revert g
    unfold appendProgram repairTail at *
    by_cases h : (f.isEmpty || endsWithNL f) = true
    · simp only [if_pos h] at hk ⊢
      simp only [appendClean, List.length_cons, List.length_nil] at hk
      left
      rcases k with _ | _ | _ | k
      · simp [appendClean, run]
      · simp [appendClean, run, step]
      · simp [appendClean, run, step]
      · omega
    · simp only [if_neg h] at hk ⊢
      cases hc : classify (dropCR (lastFragment f)) with
      | ev e =>
        simp only [hc] at hk ⊢
        simp only [appendUnterminated, List.length_cons, List.length_nil] at hk
        rcases k with _ | _ | _ | _ | k
        · left; simp [appendUnterminated, run]
        · left; simp [appendUnterminated, run, step]
        · right; left; simp [appendUnterminated, run, step]
        · right; left; simp [appendUnterminated, run, step]
        · omega
      | blank =>
        simp only [hc] at hk ⊢
        simp only [appendAfterTear, rewrite, List.length_cons, List.length_nil, List.length_append, List.length_map] at hk
        rcases k with _ | _ | _ | _ | _ | _ | _ | k
        · left; simp [appendAfterTear, rewrite, run]
        · left; simp [appendAfterTear, rewrite, run, step]
        · left; simp [appendAfterTear, rewrite, run, step]
        · left; simp [appendAfterTear, rewrite, run, step]
        · right; left; simp [appendAfterTear, rewrite, run, step, splice]
        · right; left; simp [appendAfterTear, rewrite, run, step, splice]
        · right; left; simp [appendAfterTear, rewrite, run, step, splice]
        · omega
      | bad =>
        simp only [hc] at hk ⊢
        simp only [appendAfterTear, rewrite, List.length_cons, List.length_nil, List.length_append, List.length_map] at hk
        rcases k with _ | _ | _ | _ | _ | _ | _ | k
        · left; simp [appendAfterTear, rewrite, run]
        · left; simp [appendAfterTear, rewrite, run, step]
        · left; simp [appendAfterTear, rewrite, run, step]
        · left; simp [appendAfterTear, rewrite, run, step]
        · right; left; simp [appendAfterTear, rewrite, run, step, splice]
        · right; left; simp [appendAfterTear, rewrite, run, step, splice]
        · right; left; simp [appendAfterTear, rewrite, run, step, splice]
        · omega


/-! ### `init` beside a writer: creating the log when it is missing must not touch one that is there -/

/-- two states a reader or writer cannot tell apart: a missing log and an empty one are the same to every call -/
def Same (a b : St) : Prop := a.dir.log.getD [] = b.dir.log.getD [] ∧ a.dir.tmp = b.dir.tmp ∧ a.fds = b.fds

theorem same_step {a b : St} (h : Same a b) (o : Op) : Same (step a o) (step b o) := by
  obtain ⟨hl, ht, hf⟩ := h
  cases o with
  | openTmp trunc => exact ⟨by simp [step, hl], by simp [step, ht], by simp [step, hf]⟩
  | writeTmp data => exact ⟨by simp [step, hl], by simp [step, ht, hf], by simp [step, hf]⟩
  | renameTmp =>
    simp only [step, ← ht]
    cases hta : a.dir.tmp with
    | none => exact ⟨hl, by rw [← ht, hta], hf⟩
    | some t => exact ⟨rfl, rfl, hf⟩
  | openLog append => exact ⟨by simp [step, hl], by simp [step, ht], by simp [step, hf]⟩
  | writeLog data =>
    simp only [step, hl, hf]
    by_cases hap : b.fds.logAppend = true
    · simp only [hap, if_true]; exact ⟨rfl, ht, rfl⟩
    · simp only [hap]; exact ⟨rfl, ht, rfl⟩
  | seekEnd => exact ⟨by simp [step, hl], by simp [step, ht], by simp [step, hf, hl]⟩
  | ensureLog trunc => exact ⟨by simp [step, hl], by simp [step, ht], by simp [step, hf]⟩

theorem same_run {a b : St} (h : Same a b) (ops : List Op) : Same (run a ops) (run b ops) := by
  induction ops generalizing a b with
  | nil => exact h
  | cons o ops ih => exact ih (same_step h o)

/-- creating without truncating changes nothing anybody can see -/
theorem ensure_same (s : St) : Same (step s (.ensureLog false)) s := ⟨by simp [step], rfl, rfl⟩

/-- `init`'s create (without `O_TRUNC`) dropped between any two calls of any writer program: the log ends up exactly the same -/
theorem ensure_between_calls (s : St) (ops : List Op) (i : Nat) :
    (run s (ops.take i ++ [.ensureLog false] ++ ops.drop i)).dir.log.getD [] = (run s ops).dir.log.getD [] := by
  rw [run_append, run_append]
  have h1 : Same (run (run s (ops.take i)) [.ensureLog false]) (run s (ops.take i)) := ensure_same _
  have h2 := same_run h1 (ops.drop i)
  rw [h2.1, ← run_append, List.take_append_drop]

/-- the defect repaired by `fix: init must not truncate` — with `O_TRUNC` (what `os.WriteFile` does) an `init` that looked before a
    writer created and filled the log, and acts after it, empties the log: the acknowledged batch is gone -/
theorem ensure_with_trunc_loses_the_batch :
    (run { dir := { log := none, tmp := none } } (appendClean true [123, 125, 10] ++ [.ensureLog true])).dir.log = some [] := by
  decide

end Ergo.Files
