/-
  Bridging the concurrency model and the invariants: whatever the interleaving, the log is a serial run of the
  committed lock sections, hence every invariant of serial runs holds of it.
-/
import ErgoProofs.Lemmas.ReachInv
import ErgoProofs.Lemmas.ProcThm
namespace Ergo

/-- side conditions that `sectionOf` guarantees for the section it builds -/
def SecOK (env : Env) : Sec → Prop
  | .create _ _ title _ _ => Text.isBlank title = false
  | .claimOldest _ => env.agent ≠ ""
  | .plan p => planValid p = true
  | _ => True

/-- logs produced by any sequence of lock sections (the unit of serialisation) -/
inductive SecReach : List Event → Prop where
  | init : SecReach []
  | step {log : List Event} {g : Graph} (env : Env) (sec : Sec) (w : Write) (out : SecOut) :
      SecReach log → replayRaw log = .ok g → EnvOK g env → SecOK env sec → runSec log env sec = .ok (w, out) →
      SecReach (applyWrite log w)

theorem secReach_allInv (log : List Event) (h : SecReach log) : ∃ g, replayRaw log = .ok g ∧ AllInv g := by
  induction h with
  | init => exact ⟨Graph.empty, rfl, allInv_empty⟩
  | @step log g env sec w out _ hr henv hok hrun ih =>
    obtain ⟨g', hr', hinv⟩ := ih
    have hg : g' = g := by rw [hr] at hr'; injection hr' with h; exact h.symm
    subst hg
    cases sec with
    | create isEpic epicId title body follow => exact secStep_create isEpic epicId title body follow hok log g' env w out hr hinv henv hrun
    | update id r => exact secStep_update id r log g' env w out hr hinv henv hrun
    | links un edges => exact secStep_links un edges log g' env w out hr hinv henv hrun
    | claimOldest epic => exact secStep_claimOldest epic log g' env w out hok hr hinv henv hrun
    | prune a => exact secStep_prune a log g' env w out hr hinv henv hrun
    | compact => exact secStep_compact log g' env w out hr hinv henv hrun
    | plan p => exact secStep_plan p hok log g' env w out hr hinv henv hrun

/-- what a writer process decides from the log it reads under the lock -/
def secDecide (env : Env) (sec : Sec) : List Event → Except CmdErr Write := fun log => (runSec log env sec).map (·.1)

open Proc in
/-- C02/C07/C06/C14 under concurrency: any interleaving (and any crashes) of processes that each run one lock section
    leaves a log that a serial run of the committed sections produces — so every invariant of serial runs holds. -/
theorem conc_secReach (log0 : List Event) (envs : List (Env × Sec)) (nr : Nat) (s : Sys)
    (h : Reachable (Sys.init log0 (envs.map fun (es : Env × Sec) => secDecide es.1 es.2) nr) s)
    (h0 : SecReach log0)
    (hok : ∀ es ∈ envs, SecOK es.1 es.2)
    (hclock : ∀ (i p : Nat) (snap : List Event) (w : Write) (g : Graph), s.commits[i]? = some (p, snap, w) → replayRaw snap = .ok g →
               ∀ es : Env × Sec, envs[p]? = some es → EnvOK g es.1) :
    SecReach s.log := by
  have hfold := log_is_fold h
  rw [hfold]
  have key : ∀ k, k ≤ s.commits.length → SecReach (logAfter log0 s.commits k) := by
    intro k
    induction k with
    | zero => intro _; simpa [logAfter] using h0
    | succ k ih =>
      intro hk
      have hlt : k < s.commits.length := hk
      have ihk := ih (Nat.le_of_lt hlt)
      obtain ⟨p, snap, w⟩ := s.commits[k]
      have hget : s.commits[k]? = some (s.commits[k]) := List.getElem?_eq_getElem hlt
      generalize hc : s.commits[k] = c at hget
      obtain ⟨p, snap, w⟩ := c
      obtain ⟨hsnap, d, hd, hdw⟩ := commit_decided h k p snap w hget
      rw [List.getElem?_map] at hd
      cases hes : envs[p]? with
      | none => rw [hes] at hd; cases hd
      | some es =>
        rw [hes] at hd
        injection hd with hd
        subst hd
        have hmem : es ∈ envs := List.mem_of_getElem? hes
        -- the section ran on `snap` and produced `w`
        simp only [secDecide] at hdw
        cases hrun : runSec snap es.1 es.2 with
        | error e => rw [hrun] at hdw; cases hdw
        | ok wo =>
          rw [hrun] at hdw
          obtain ⟨w', out⟩ := wo
          simp only [Except.map] at hdw
          injection hdw with hdw
          subst hdw
          obtain ⟨g, hg, _⟩ := secReach_allInv _ ihk
          rw [← hsnap] at hg ihk
          have hstep := SecReach.step es.1 es.2 w' out ihk hg (hclock k p snap w' g hget hg es hes) (hok es hmem) hrun
          have : logAfter log0 s.commits (k + 1) = applyWrite snap w' := by
            simp only [logAfter, List.take_succ, hget, Option.toList, List.foldl_append, List.foldl_cons, List.foldl_nil]
            rw [hsnap]; rfl
          rw [this]; exact hstep
  exact key _ (Nat.le_refl _)

end Ergo
