import ErgoProofs.Lemmas.ReachInv
namespace Ergo
theorem secPlan_shape (log : List Event) (g : Graph) (p : PlanInput) (env : Env) (w : Write) (o : PlanOut)
    (hp : secPlan log g p env = .ok (w, o)) : ∃ new, w = .replace (log ++ new) := by
  simp only [secPlan] at hp
  split at hp
  · cases hp
  · cases hp
  · split at hp
    · cases hp
    · injection hp with hp
      injection hp with hp1 _
      rw [← hp1]
      exact ⟨_, by rw [List.append_assoc, List.append_assoc]⟩
end Ergo
