/-
  WP8 — the log file at byte level (C03, C04, C12, and the torn-tail parts of C05/C11/C13).
  Definitions: ErgoModel/Storage.lean (splitNL, dropCR, scanLines, endsWithNL, LineClass, readLoop, readEvents, linesOf,
  lastFragment, uptoLastNL, repairTail, appendFile, appendTorn, replaceFile).
  `classify` (what bytes.TrimSpace + json.Unmarshal make of a line) and `encode` (json.Marshal of an event) are parameters;
  `Codec` lists what is assumed of them (checked against the real encoding/json by the differential harness).
-/
import ErgoModel.Storage
import ErgoProofs.Lemmas.StorageRead
namespace Ergo.Storage

/-- what is required of the line codec, for the events in `W` (the events a writer may be asked to write).  `ErgoProofs.Props.Codec`
    proves it of the concrete JSON codec of ErgoModel.Codec, with `W` = `Codec.Wf`; `Witness.lean` has a toy instance with `W` = everything -/
structure CodecOn (W : Event → Prop) (classify : Bytes → LineClass) (encode : Event → Bytes) : Prop where
  /-- an encoded event contains neither '\n' nor '\r' and is not empty -/
  clean : ∀ e, W e → NL ∉ encode e ∧ CR ∉ encode e ∧ encode e ≠ []
  /-- decoding an encoded line gives the event back -/
  parses : ∀ e, W e → classify (encode e) = .ev e
  /-- a proper, non-empty prefix of an encoded line is not a JSON value -/
  prefix_bad : ∀ e p, W e → p <+: encode e → p ≠ encode e → p ≠ [] → classify p = .bad
  /-- the empty line is blank -/
  empty_blank : classify [] = .blank

/-- a codec for every event -/
abbrev Codec (classify : Bytes → LineClass) (encode : Event → Bytes) : Prop := CodecOn (fun _ => True) classify encode

variable {W : Event → Prop} {classify : Bytes → LineClass} {encode : Event → Bytes} {limit : Nat}

/-- events a writer may write (`W`) whose encoded line the scanner admits -/
def Short (W : Event → Prop) (encode : Event → Bytes) (limit : Nat) (evs : List Event) : Prop := ∀ e ∈ evs, W e ∧ (encode e).length < limit

/-- the file is empty or ends in '\n' -/
def Closed (f : Bytes) : Prop := f = [] ∨ endsWithNL f = true

/-! ### helper facts about the codec and batches -/
theorem CodecOn.dropCR_encode (hc : CodecOn W classify encode) (e : Event) (hw : W e) : dropCR (encode e) = encode e :=
  dropCR_noCR _ (hc.clean e hw).2.1

theorem CodecOn.scanLines_linesOf (hc : CodecOn W classify encode) (evs : List Event) (hw : ∀ e ∈ evs, W e) :
    scanLines (linesOf encode evs) = evs.map encode := by
  have h := scanLines_join (evs.map encode) [] (by
    intro l hl
    obtain ⟨e, he, rfl⟩ := List.mem_map.1 hl
    exact (hc.clean e (hw e he)).1) (by simp)
  simp only [List.append_nil, if_true] at h
  rw [linesOf_eq_joinLines, h, List.map_map]
  apply List.map_congr_left
  intro e he
  exact hc.dropCR_encode e (hw e he)

theorem CodecOn.flatMap_evOf (hc : CodecOn W classify encode) (evs : List Event) (hw : ∀ e ∈ evs, W e) :
    (evs.map encode).flatMap (fun t => evOf (classify t)) = evs := by
  induction evs with
  | nil => rfl
  | cons e evs ih =>
    rw [List.map_cons, List.flatMap_cons, ih (fun x hx => hw x (List.mem_cons_of_mem _ hx)), hc.parses e (hw e (List.mem_cons_self ..))]; rfl

theorem Short.w {evs : List Event} (hs : Short W encode limit evs) : ∀ e ∈ evs, W e := fun e he => (hs e he).1

theorem CodecOn.tokens_good (hc : CodecOn W classify encode) {evs : List Event} (hs : Short W encode limit evs) :
    ∀ t ∈ evs.map encode, t.length < limit ∧ classify t ≠ .bad := by
  intro t ht
  obtain ⟨e, he, rfl⟩ := List.mem_map.1 ht
  exact ⟨(hs e he).2, by simp [hc.parses e (hs e he).1]⟩

theorem closed_linesOf (hc : CodecOn W classify encode) (evs : List Event) (hw : ∀ e ∈ evs, W e) : Closed (linesOf encode evs) := by
  rw [linesOf_eq_joinLines]
  exact (closed_iff_join _).2 ⟨evs.map encode, by
    intro l hl
    obtain ⟨e, he, rfl⟩ := List.mem_map.1 hl
    exact (hc.clean e (hw e he)).1, rfl⟩

theorem readEvents_nil : readEvents classify limit [] = .ok [] := by
  simp [readEvents, scanLines_nil, readLoop]

theorem Short.take {evs : List Event} (hs : Short W encode limit evs) (n : Nat) : Short W encode limit (evs.take n) :=
  fun e he => hs e (List.mem_of_mem_take he)

/-- cutting a batch after `k` bytes leaves some complete lines and a (possibly empty) prefix of the next line -/
theorem take_linesOf (encode : Event → Bytes) (evs : List Event) (k : Nat) :
    ∃ n p, n ≤ evs.length ∧ (linesOf encode evs).take k = linesOf encode (evs.take n) ++ p ∧
      (p = [] ∨ ∃ e, evs[n]? = some e ∧ p <+: encode e ∧ p ≠ []) := by
  induction evs generalizing k with
  | nil => exact ⟨0, [], by simp, by simp [linesOf], Or.inl rfl⟩
  | cons e evs ih =>
    have hcons : linesOf encode (e :: evs) = (encode e ++ [NL]) ++ linesOf encode evs := by
      simp [linesOf]
    by_cases hk : k ≤ (encode e).length
    · refine ⟨0, (encode e).take k, by simp, ?_, ?_⟩
      · rw [hcons, List.append_assoc, List.take_append_of_le_length hk]
        simp [linesOf]
      · by_cases h0 : (encode e).take k = []
        · exact Or.inl h0
        · exact Or.inr ⟨e, by simp, List.take_prefix _ _, h0⟩
    · obtain ⟨n, p, hn, htake, hp⟩ := ih (k - ((encode e).length + 1))
      refine ⟨n + 1, p, by simp; omega, ?_, ?_⟩
      · have hk' : k = (encode e ++ [NL]).length + (k - ((encode e).length + 1)) := by
          simp; omega
        rw [hcons]
        conv => lhs; rw [hk']
        rw [List.take_length_add_append, htake]
        simp [linesOf]
      · rcases hp with hp | ⟨e', he', hpre, hne⟩
        · exact Or.inl hp
        · exact Or.inr ⟨e', by simpa using he', hpre, hne⟩

/-! ### appends extend the recorded history (C12 "history only grows") -/
theorem readEvents_linesOf (hc : CodecOn W classify encode) (evs : List Event) (hs : Short W encode limit evs) :
    readEvents classify limit (linesOf encode evs) = .ok evs := by
  have := readEvents_extend (classify := classify) (limit := limit) (g := []) (h := linesOf encode evs)
    (evs.map encode) (Or.inl rfl) readEvents_nil (by rw [hc.scanLines_linesOf evs hs.w, scanLines_nil]; simp)
    (hc.tokens_good hs)
  simpa [hc.flatMap_evOf evs hs.w] using this

theorem readEvents_append_closed (hc : CodecOn W classify encode) (f : Bytes) (es evs : List Event) (hcl : Closed f)
    (hr : readEvents classify limit f = .ok es) (hs : Short W encode limit evs) :
    readEvents classify limit (f ++ linesOf encode evs) = .ok (es ++ evs) := by
  have := readEvents_extend (classify := classify) (limit := limit) (h := f ++ linesOf encode evs)
    (evs.map encode) hcl hr (by rw [scanLines_closed_append _ hcl, hc.scanLines_linesOf evs hs.w])
    (hc.tokens_good hs)
  simpa [hc.flatMap_evOf evs hs.w] using this

/-! ### the torn tail (C03) -/
/-- repairing changes nothing a reader sees, and leaves the file closed -/
theorem readEvents_repairTail (f : Bytes) (es : List Event) (hr : readEvents classify limit f = .ok es) :
    readEvents classify limit (repairTail classify f) = .ok es ∧ Closed (repairTail classify f) := by
  obtain ⟨ls, frag, hls, hf, rfl⟩ := decomp f
  by_cases hcl : Closed (joinLines ls ++ frag)
  · have : ((joinLines ls ++ frag).isEmpty || endsWithNL (joinLines ls ++ frag)) = true := by
      rcases hcl with h | h
      · rw [h]; rfl
      · rw [h]; simp
    simp only [repairTail, this, if_true]
    exact ⟨hr, hcl⟩
  · have hfr : frag ≠ [] := by
      rintro rfl
      exact hcl ((closed_iff_join _).2 ⟨ls, hls, by simp⟩)
    have hne : (joinLines ls ++ frag).isEmpty = false := by
      cases h : joinLines ls ++ frag with
      | nil => simp at h; exact absurd h.2 hfr
      | cons _ _ => rfl
    have hnl : endsWithNL (joinLines ls ++ frag) = false := endsWithNL_join_frag ls frag hf hfr
    have hsc : scanLines (joinLines ls ++ frag) = ls.map dropCR ++ [dropCR frag] := by
      rw [scanLines_join ls frag hls hf, if_neg hfr]
    simp only [repairTail, hne, hnl, Bool.or_self, Bool.false_eq_true, if_false,
      lastFragment_join ls frag hls hf, uptoLastNL_join ls frag hls hf]
    cases hcf : classify (dropCR frag) with
    | ev e =>
      simp only
      have hg : joinLines ls ++ frag ++ [NL] = joinLines (ls ++ [frag]) ++ [] := by
        simp [joinLines_append]
      have hls' : ∀ l ∈ ls ++ [frag], NL ∉ l := by
        intro l hl
        rcases List.mem_append.1 hl with h | h
        · exact hls l h
        · simp at h; subst h; exact hf
      have hsc' : scanLines (joinLines ls ++ frag ++ [NL]) = ls.map dropCR ++ [dropCR frag] := by
        rw [hg, scanLines_join _ [] hls' (by simp)]; simp
      constructor
      · rw [readEvents_same_tokens hsc hsc' (by simp [hcf])]; exact hr
      · right; rw [endsWithNL_snoc]; rfl
    | blank =>
      simp only
      have hsc' : scanLines (joinLines ls) = ls.map dropCR := by
        have := scanLines_join ls [] hls (by simp)
        simpa using this
      exact ⟨readEvents_drop_last hsc hsc' hnl (by simp [hcf]) hr, (closed_iff_join _).2 ⟨ls, hls, rfl⟩⟩
    | bad =>
      simp only
      have hsc' : scanLines (joinLines ls) = ls.map dropCR := by
        have := scanLines_join ls [] hls (by simp)
        simpa using this
      exact ⟨readEvents_drop_last hsc hsc' hnl (by simp [hcf]) hr, (closed_iff_join _).2 ⟨ls, hls, rfl⟩⟩

/-- C03 core: on ANY readable file (however it was torn before), an append makes exactly the new events visible
    after everything that was visible, and the store stays readable -/
theorem appendFile_reads (hc : CodecOn W classify encode) (f : Bytes) (es evs : List Event)
    (hr : readEvents classify limit f = .ok es) (hs : Short W encode limit evs) :
    readEvents classify limit (appendFile classify encode f evs) = .ok (es ++ evs) ∧
    Closed (appendFile classify encode f evs) := by
  obtain ⟨h1, h2⟩ := readEvents_repairTail (classify := classify) (limit := limit) f es hr
  exact ⟨readEvents_append_closed hc _ es evs h2 h1 hs, closed_append h2 (closed_linesOf hc evs hs.w)⟩

/-- a write cut short at any byte offset leaves a readable file showing everything from before plus a prefix of
    the interrupted batch -/
theorem appendTorn_reads (hc : CodecOn W classify encode) (f : Bytes) (es evs : List Event) (k : Nat)
    (hr : readEvents classify limit f = .ok es) (hs : Short W encode limit evs) :
    ∃ n, n ≤ evs.length ∧ readEvents classify limit (appendTorn classify encode f evs k) = .ok (es ++ evs.take n) := by
  obtain ⟨n, p, hn, htake, hp⟩ := take_linesOf encode evs k
  obtain ⟨hG, hGc⟩ := appendFile_reads hc f es (evs.take n) hr (hs.take n)
  have hfile : appendTorn classify encode f evs k = appendFile classify encode f (evs.take n) ++ p := by
    simp [appendTorn, appendFile, htake]
  rw [hfile]
  rcases hp with rfl | ⟨e, he, hpre, hne⟩
  · exact ⟨n, hn, by simpa using hG⟩
  · have hmem : e ∈ evs := List.mem_of_getElem? he
    have hwe : W e := (hs e hmem).1
    have hNL : NL ∉ p := fun h => (hc.clean e hwe).1 (hpre.subset h)
    have hCR : CR ∉ p := fun h => (hc.clean e hwe).2.1 (hpre.subset h)
    have hlen : p.length < limit := Nat.lt_of_le_of_lt hpre.length_le (hs e hmem).2
    have hsc : scanLines (appendFile classify encode f (evs.take n) ++ p) =
        scanLines (appendFile classify encode f (evs.take n)) ++ [p] := by
      rw [scanLines_closed_append _ hGc, scanLines_frag p hNL hne, dropCR_noCR p hCR]
    by_cases hpe : p = encode e
    · have hlt : n < evs.length := by
        rcases Nat.lt_or_ge n evs.length with h | h
        · exact h
        · rw [List.getElem?_eq_none h] at he; cases he
      refine ⟨n + 1, hlt, ?_⟩
      have := readEvents_extend (classify := classify) (limit := limit) [p] hGc hG hsc (by
        intro t ht
        simp at ht; subst ht
        exact ⟨hlen, by rw [hpe, hc.parses e hwe]; simp⟩)
      rw [this, List.take_add_one, he]
      simp [hpe, hc.parses e hwe, evOf]
    · refine ⟨n, hn, ?_⟩
      have hbad : classify p = .bad := hc.prefix_bad e p hwe hpre hpe hne
      rw [readEvents_bad_tail hGc hsc (by
        rw [endsWithNL_append _ _ hne]; exact endsWithNL_noNL p hNL) hbad hlen]
      exact hG

/-- an unparsable fragment after the last newline is invisible (C05/C11: torn tail irrelevant) -/
theorem readEvents_fragment (f frag : Bytes) (hcl : Closed f) (hnl : NL ∉ frag) (hne : frag ≠ [])
    (hbad : classify (dropCR frag) = .bad) (hlen : frag.length < limit) :
    readEvents classify limit (f ++ frag) = readEvents classify limit f := by
  refine readEvents_bad_tail hcl ?_ ?_ hbad (Nat.lt_of_le_of_lt (dropCR_length_le frag) hlen)
  · rw [scanLines_closed_append _ hcl, scanLines_frag frag hnl hne]
  · rw [endsWithNL_append _ _ hne]; exact endsWithNL_noNL frag hnl

/-! ### any alternation of crashes and commands (C03's quantifier) -/
/-- what can happen to the log file: a command appends (acknowledged), a command's write is torn at byte k and the
    process dies, or the log is atomically replaced by a complete re-encoding (plan/compact) -/
inductive FileStep (W : Event → Prop) (classify : Bytes → LineClass) (encode : Event → Bytes) (limit : Nat) : Bytes → Bytes → Prop where
  | append (f evs) : Short W encode limit evs → FileStep W classify encode limit f (appendFile classify encode f evs)
  | torn (f evs k) : Short W encode limit evs → FileStep W classify encode limit f (appendTorn classify encode f evs k)
  | replace (f evs) : Short W encode limit evs → FileStep W classify encode limit f (replaceFile encode evs)

inductive FileReach (W : Event → Prop) (classify : Bytes → LineClass) (encode : Event → Bytes) (limit : Nat) : Bytes → Bytes → Prop where
  | refl (f) : FileReach W classify encode limit f f
  | tail {a b c} : FileReach W classify encode limit a b → FileStep W classify encode limit b c → FileReach W classify encode limit a c

/-- however many crashes and writes alternate, the store stays readable -/
theorem reach_readable (hc : CodecOn W classify encode) (f g : Bytes) (es : List Event)
    (hr : readEvents classify limit f = .ok es) (h : FileReach W classify encode limit f g) :
    ∃ es', readEvents classify limit g = .ok es' := by
  induction h with
  | refl => exact ⟨es, hr⟩
  | tail _ hstep ih =>
    obtain ⟨es', hes'⟩ := ih
    cases hstep with
    | append evs hs => exact ⟨_, (appendFile_reads hc _ es' evs hes' hs).1⟩
    | torn evs k hs =>
      obtain ⟨n, -, h⟩ := appendTorn_reads hc _ es' evs k hes' hs
      exact ⟨_, h⟩
    | replace evs hs => exact ⟨evs, readEvents_linesOf hc evs hs⟩

/-- without rewrites (plan/compact), what was visible stays visible, in order, as a prefix -/
inductive AppendReach (W : Event → Prop) (classify : Bytes → LineClass) (encode : Event → Bytes) (limit : Nat) : Bytes → Bytes → Prop where
  | refl (f) : AppendReach W classify encode limit f f
  | append {a b} (evs) : AppendReach W classify encode limit a b → Short W encode limit evs →
      AppendReach W classify encode limit a (appendFile classify encode b evs)
  | torn {a b} (evs k) : AppendReach W classify encode limit a b → Short W encode limit evs →
      AppendReach W classify encode limit a (appendTorn classify encode b evs k)

theorem appendReach_prefix (hc : CodecOn W classify encode) (f g : Bytes) (es : List Event)
    (hr : readEvents classify limit f = .ok es) (h : AppendReach W classify encode limit f g) :
    ∃ more, readEvents classify limit g = .ok (es ++ more) := by
  induction h with
  | refl => exact ⟨[], by simpa using hr⟩
  | append evs _ hs ih =>
    obtain ⟨more, hm⟩ := ih
    exact ⟨more ++ evs, by rw [← List.append_assoc]; exact (appendFile_reads hc _ _ evs hm hs).1⟩
  | torn evs k _ hs ih =>
    obtain ⟨more, hm⟩ := ih
    obtain ⟨n, -, h⟩ := appendTorn_reads hc _ _ evs k hm hs
    exact ⟨more ++ evs.take n, by rw [← List.append_assoc]; exact h⟩

/-! ### error reporting (C12) -/
/-- the line number in "invalid JSON" names a physical line that does not parse -/
theorem badLine_names_bad_line (f : Bytes) (n : Nat) (h : readEvents classify limit f = .error (.badLine n)) :
    1 ≤ n ∧ ∃ l, (scanLines f)[n - 1]? = some l ∧ classify l = .bad := by
  rw [readEvents_eq] at h
  have hidx := readLoop_index (classify := classify) (limit := limit) (scanLines f) [] none []
    (fun _ _ e => by cases e)
  simp only [List.length_nil, List.nil_append] at hidx
  cases h0 : readLoop classify limit (scanLines f) 0 none [] with
  | error e =>
    simp only [h0, Except.bind, Except.error.injEq] at h
    subst h
    exact hidx.1 n h0
  | ok r =>
    obtain ⟨acc, p⟩ := r
    simp only [h0, Except.bind] at h
    obtain ⟨pl, rfl, hbad⟩ := finish_badLine h
    obtain ⟨h1, h2⟩ := hidx.2 acc _ h0 n pl rfl
    exact ⟨h1, pl, h2, hbad⟩

/-- `tooLong` only when some line reaches the limit -/
theorem tooLong_has_long_line (f : Bytes) (h : readEvents classify limit f = .error .tooLong) :
    ∃ l ∈ scanLines f, l.length ≥ limit := by
  rw [readEvents_eq] at h
  cases h0 : readLoop classify limit (scanLines f) 0 none [] with
  | error e =>
    simp only [h0, Except.bind, Except.error.injEq] at h
    subst h
    exact readLoop_tooLong _ _ _ _ h0
  | ok r =>
    simp only [h0, Except.bind] at h
    exact absurd h (finish_ne_tooLong _ _)

end Ergo.Storage
