/-
  WP2 — C05, part 2: the rebuilt item is observably the original, satisfies the precondition again, and compacts to
  the same block.
-/
import ErgoProofs.Lemmas.CompactTask
namespace Ergo

/-- `TaskOK` plus the one condition it lacks.  `compactTask` never emits an `epic` event for an epic, so an epic whose
    `lastEpic` is the *only* witness of its `updatedAt` would come back with a smaller `updated_at`.
    (The CLI never writes an `epic` event for an epic — `evEpic` fails with `epicEpic` — so there `lastEpic = 0`.) -/
structure TaskOK' (t : Task) : Prop extends TaskOK t where
  epicTime : t.isEpic = true →
    t.lastEpic ≤ maxTimes ([t.createdAt, t.lastTitle, t.lastBody, t.lastState] ++ t.results.map (·.time))

theorem TaskOK'.of_lastEpic_zero {t : Task} (h : TaskOK t) (h0 : t.isEpic = true → t.lastEpic = 0) : TaskOK' t :=
  { h with epicTime := fun he => by rw [h0 he]; exact Nat.zero_le _ }

/-- bounds for one optional event -/
theorem opt_bounds (c d : Bool) (lX cAt upd : Nat) (hc : c = (d || (lX != 0 && decide (lX > cAt)))) (hle : lX ≤ upd) :
    optT c (pickTime lX upd) ≤ upd ∧ (lX ≤ cAt ∨ lX ≤ optT c (pickTime lX upd)) := by
  subst hc
  unfold optT pickTime
  by_cases h0 : lX = 0 <;> by_cases hd : d = true <;> by_cases hg : lX > cAt <;> simp [h0, hd, hg] <;>
    (try and_intros) <;> omega

theorem maxL_spec (a b c d e f : Nat) (L : Nat) (h : L = max (max (max (max (max a b) c) d) e) f) :
    a ≤ L ∧ b ≤ L ∧ c ≤ L ∧ d ≤ L ∧ e ≤ L ∧ f ≤ L ∧ (L = a ∨ L = b ∨ L = c ∨ L = d ∨ L = e ∨ L = f) := by omega
theorem maxR_spec (a b c d e f : Nat) (L : Nat) (h : L = max a (max b (max c (max d (max e f))))) :
    a ≤ L ∧ b ≤ L ∧ c ≤ L ∧ d ≤ L ∧ e ≤ L ∧ f ≤ L ∧ (L = a ∨ L = b ∨ L = c ∨ L = d ∨ L = e ∨ L = f) := by omega
theorem maxR5_spec (a b c d e : Nat) (L : Nat) (h : L = max a (max b (max c (max d e)))) :
    (L = a ∨ L = b ∨ L = c ∨ L = d ∨ L = e) := by omega

theorem rebuildX_updatedAt (t : Task) (h : TaskOK' t) : (rebuildX t).updatedAt = t.updatedAt := by
  have hu := h.updated
  have hE := h.epicTime
  simp only [rebuildX, foldl_maxTime, List.map_reverse, maxTimes_reverse, maxTime_eq]
  simp only [List.cons_append, List.nil_append, maxTimes_cons] at hu hE
  generalize maxTimes (t.results.map (·.time)) = M at *
  have hA := maxR_spec _ _ _ _ _ _ _ hu
  have b1 := opt_bounds (emitTitle t) (t.title != cTitleOf t) t.lastTitle t.createdAt t.updatedAt rfl hA.2.1
  have b2 := opt_bounds (emitBody t) (t.body != cBodyOf t) t.lastBody t.createdAt t.updatedAt rfl hA.2.2.1
  have b4 := opt_bounds (emitState t) (t.st != cStOf t) t.lastState t.createdAt t.updatedAt rfl hA.2.2.2.2.1
  have b3 : optT (emitEpic t) (pickTime t.lastEpic t.updatedAt) ≤ t.updatedAt ∧
      (t.isEpic = false → t.lastEpic ≤ t.createdAt ∨ t.lastEpic ≤ optT (emitEpic t) (pickTime t.lastEpic t.updatedAt)) := by
    cases hep : t.isEpic
    · have := opt_bounds (emitEpic t) (t.epicId != t.cEpic) t.lastEpic t.createdAt t.updatedAt (by simp [emitEpic, hep]) hA.2.2.2.1
      exact ⟨this.1, fun _ => this.2⟩
    · simp [emitEpic, hep, optT]
  generalize optT (emitTitle t) _ = o1 at *
  generalize optT (emitBody t) _ = o2 at *
  generalize optT (emitEpic t) _ = o3 at *
  generalize optT (emitState t) _ = o4 at *
  generalize hL : max (max (max (max (max t.createdAt o1) o2) o3) o4) M = L
  have hL' := maxL_spec _ _ _ _ _ _ _ hL.symm
  clear hL hu
  cases hep : t.isEpic
  · simp only [hep, true_implies, Bool.false_eq_true, false_implies] at hE b3
    unfold Time at *; omega
  · simp only [hep, true_implies, false_implies, reduceCtorEq] at hE b3
    generalize hQ : max t.createdAt (max t.lastTitle (max t.lastBody (max t.lastState M))) = Q at hE
    have hQ' := maxR5_spec _ _ _ _ _ _ hQ.symm
    clear hQ
    unfold Time at *; omega

theorem rebuildX_epicId (t : Task) (h : TaskOK' t) : (rebuildX t).epicId = t.epicId := by
  simp only [rebuildX]
  split
  · rfl
  · rename_i he
    cases hep : t.isEpic
    · simp only [emitEpic, hep, Bool.not_false, Bool.true_and, Bool.or_eq_true, not_or, bne_iff_ne, ne_eq,
        Decidable.not_not] at he
      exact he.1.symm
    · exact (h.epicFixed hep).symm

/-- the claimant survives for every task: the state is replayed before the claim (`fix: compact writes a task's state before its claim`) -/
theorem rebuildX_claimedBy (t : Task) : (rebuildX t).claimedBy = t.claimedBy := rfl

theorem rebuildX_lastClaim (t : Task) (h : TaskOK' t) (hc : t.claimedBy ≠ "") : (rebuildX t).lastClaim = t.lastClaim := by
  have : emitClaim t = true := by simpa [emitClaim] using hc
  simp only [rebuildX, optT, this, if_true]
  exact pickTime_of_ne _ _ (h.claimTime hc)

theorem obs_rebuildX (t : Task) (h : TaskOK' t) : obsTask (rebuildX t) = obsTask t := by
  have h1 := rebuildX_epicId t h
  have h2 := rebuildX_claimedBy t
  have h3 := rebuildX_updatedAt t h
  simp only [obsTask, h1, h2, h3]
  by_cases hc : t.claimedBy = ""
  · simp [hc, rebuildX]
  · have h4 := rebuildX_lastClaim t h hc
    simp only [h4]
    simp [hc, rebuildX]

theorem cOf_idem {α : Type} [DecidableEq α] (a b z : α) :
    (if (if a != z then a else b) != z then (if a != z then a else b) else b) = if a != z then a else b := by
  by_cases h : a = z <;> by_cases h' : b = z <;> simp [h, h']

theorem cStOf_rebuildX (t : Task) : cStOf (rebuildX t) = cStOf t := cOf_idem _ _ _
theorem cTitleOf_rebuildX (t : Task) : cTitleOf (rebuildX t) = cTitleOf t := cOf_idem _ _ _
theorem cBodyOf_rebuildX (t : Task) : cBodyOf (rebuildX t) = cBodyOf t := cOf_idem _ _ _

theorem emit_idem (d : Bool) (lX cAt upd : Nat) :
    (d || (optT (d || (lX != 0 && decide (lX > cAt))) (pickTime lX upd) != 0 &&
      decide (optT (d || (lX != 0 && decide (lX > cAt))) (pickTime lX upd) > cAt))) = (d || (lX != 0 && decide (lX > cAt))) := by
  unfold optT pickTime
  by_cases h0 : lX = 0 <;> by_cases hd : d = true <;> by_cases hg : lX > cAt <;> simp [h0, hd, hg]
  
theorem emitTitle_rebuildX (t : Task) : emitTitle (rebuildX t) = emitTitle t := by
  unfold emitTitle; rw [cTitleOf_rebuildX]; exact emit_idem _ _ _ _
theorem emitBody_rebuildX (t : Task) : emitBody (rebuildX t) = emitBody t := by
  unfold emitBody; rw [cBodyOf_rebuildX]; exact emit_idem _ _ _ _
theorem emitState_rebuildX (t : Task) : emitState (rebuildX t) = emitState t := by
  unfold emitState; rw [cStOf_rebuildX]; exact emit_idem _ _ _ _
theorem emitEpic_rebuildX (t : Task) : emitEpic (rebuildX t) = emitEpic t := by
  cases hep : t.isEpic
  · have h1 : emitEpic t = (t.epicId != t.cEpic || (t.lastEpic != 0 && decide (t.lastEpic > t.createdAt))) := by
      simp [emitEpic, hep]
    have h2 : ((rebuildX t).epicId != t.cEpic) = (t.epicId != t.cEpic) := by
      simp only [rebuildX]
      split
      · rfl
      · rename_i he
        simp only [h1, Bool.or_eq_true, not_or, bne_iff_ne, ne_eq, Decidable.not_not] at he
        simp [he.1]
    have h3 : emitEpic (rebuildX t) = ((rebuildX t).epicId != t.cEpic || ((rebuildX t).lastEpic != 0 && decide ((rebuildX t).lastEpic > t.createdAt))) := by
      simp [emitEpic, rebuildX, hep]
    rw [h3, h2]
    show (_ || (optT (emitEpic t) _ != 0 && decide (optT (emitEpic t) _ > _))) = _
    rw [h1]; exact emit_idem _ _ _ _
  · simp [emitEpic, rebuildX, hep]

theorem emitClaim_rebuildX (t : Task) (h : TaskOK' t) : emitClaim (rebuildX t) = emitClaim t := by
  unfold emitClaim; rw [rebuildX_claimedBy t]

theorem optT_pick_idem (e : Bool) (lX upd : Time) (he : e = true) : pickTime (optT e (pickTime lX upd)) upd = pickTime lX upd := by
  simp [optT, he, pickTime_idem]

theorem updEvents_rebuildX (t : Task) (h : TaskOK' t) : updEvents (rebuildX t) = updEvents t := by
  unfold updEvents
  rw [emitTitle_rebuildX, emitBody_rebuildX, emitEpic_rebuildX, emitClaim_rebuildX t h, emitState_rebuildX,
    rebuildX_updatedAt t h, rebuildX_epicId t h, rebuildX_claimedBy t]
  congr 1; congr 1; congr 1; congr 1; congr 1
  all_goals split
  all_goals first | rfl | skip
  all_goals (rename_i he; simp only [rebuildX, optT_pick_idem _ _ _ he])

theorem compactTask_rebuildX (t : Task) (h : TaskOK' t) : compactTask (rebuildX t) = compactTask t := by
  rw [compactTask_eq, compactTask_eq, updEvents_rebuildX t h, cStOf_rebuildX, cTitleOf_rebuildX, cBodyOf_rebuildX]
  rfl

theorem maxL5_eq (a b c d e f : Nat) :
    max (max (max (max (max a b) c) d) e) f = max a (max b (max c (max d (max e f)))) := by omega

theorem taskOK_rebuildX (t : Task) (h : TaskOK' t) : TaskOK' (rebuildX t) := by
  have hcb := rebuildX_claimedBy t
  have hupd := rebuildX_updatedAt t h
  have hpos : t.updatedAt ≠ 0 := by
    have hu := h.updated
    have := h.created_pos
    simp only [List.cons_append, maxTimes_cons] at hu
    unfold Time at *; omega
  refine { updated := ?_, claimTime := ?_, epicFixed := ?_, cStSet := ?_, titled := ?_, titleKept := ?_,
           created_pos := ?_, epicTime := ?_ }
  · simp only [rebuildX, foldl_maxTime, List.map_reverse, maxTimes_reverse, maxTime_eq, List.cons_append, List.nil_append,
      maxTimes_cons]
    exact maxL5_eq _ _ _ _ _ _
  · intro hc; rw [hcb] at hc; rw [rebuildX_lastClaim t h hc]; exact h.claimTime hc
  · intro he
    have : emitEpic t = false := by
      have he' : t.isEpic = true := he
      simp [emitEpic, he']
    simp [rebuildX, this]
  · show cStOf t ≠ _
    have := h.cStSet
    simp [cStOf, this]
  · exact h.titled
  · intro h0
    show t.title = if cTitleOf t != "" then cTitleOf t else t.title
    have h0' : optT (emitTitle t) (pickTime t.lastTitle t.updatedAt) = 0 := h0
    have hne : ¬ emitTitle t = true := by
      intro he
      simp only [optT, he, if_true, pickTime] at h0'
      split at h0' <;> simp_all
    rw [title_of_not_emitTitle t hne]
    split <;> rfl
  · exact h.created_pos
  · intro he
    have : emitEpic t = false := by
      have he' : t.isEpic = true := he
      simp [emitEpic, he']
    show optT (emitEpic t) _ ≤ _
    simp [this, optT]
end Ergo
