/-
  WP10 — the invariant `AllInv` (ErgoProofs/Inv.lean) is kept by the lock sections that change edges or the item set:
  `Sec.links`, `Sec.prune`, `Sec.plan`  (ErgoModel/Cli.lean `Sec`, ErgoModel/Exec.lean `runSec`, `secPlan`, `planLinks`, `drawIds`;
  ErgoModel/Command.lean `secLinks`, `linkEvents`, `linkCheck`, `secPrune`; ErgoModel/Query.lean `hasCycle`, `pruneTargets`).
-/
import ErgoProofs.Inv
import ErgoProofs.Lemmas.Prune
import ErgoProofs.Lemmas.StepGraphLinks
import ErgoProofs.Lemmas.StepGraphPrune
import ErgoProofs.Lemmas.StepGraphPlan
namespace Ergo

theorem secStep_links (unlink : Bool) (edges : List (Id × Id)) : SecStepOK (.links unlink edges) :=
  secStep_links' unlink edges

theorem secStep_prune (apply : Bool) : SecStepOK (.prune apply) :=
  secStep_prune' apply

/-- `plan` runs only on a validated document (`planValid`, checked before the lock) -/
theorem secStep_plan (p : PlanInput) (hv : planValid p = true) : SecStepOK (.plan p) :=
  secStep_plan' p hv

end Ergo
