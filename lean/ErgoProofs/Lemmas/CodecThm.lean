/-
  WP20f — the line codec is a codec: for every event the commands can write (`Wf`: a state whose text maps back to it, time
  stamps before year 10000) and every envelope time stamp,
    * `classify_encode` — the line `json.Marshal` writes decodes (TrimSpace, Unmarshal of the envelope, Unmarshal of the payload,
      parseTime) to exactly that event;
    * `clean_encodeEvent` — it contains no byte below 0x20 (so neither '\n' nor '\r');
    * `prefix_bad` — none of its proper non-empty prefixes is valid JSON: a torn write is always recognised.
-/
import ErgoProofs.Lemmas.CodecTrim
import ErgoProofs.Lemmas.StorageThm
import ErgoProofs.Lemmas.TimeThm
open Ergo Ergo.Storage
namespace Ergo.Codec

/-- first instant of year 10000 (ns since 0001-01-01T00:00:00Z): `formatTime` writes four year digits below it -/
abbrev maxT : Nat := Time.maxT

def TimeOk : Option Time → Prop
  | none => True
  | some t => t < maxT

def StOk (s : St) : Prop := St.ofString s.toString = s

/-- the events whose line decodes to the same event: every event the commands write (DESIGN §2) -/
def Wf : Event → Prop
  | .newItem _ _ _ _ st _ _ cat => StOk st ∧ TimeOk cat
  | .state _ st ts => StOk st ∧ TimeOk ts
  | .claim _ _ ts => TimeOk ts
  | .title _ _ ts => TimeOk ts
  | .body _ _ ts => TimeOk ts
  | .epic _ _ ts => TimeOk ts
  | .tombstone _ _ ts => TimeOk ts
  | .result _ _ _ _ _ _ ts => TimeOk ts
  | _ => True

theorem optTime_timeText (o : Option Time) (h : TimeOk o) : optTime (timeText o) = o := by
  cases o with
  | none => decide
  | some t => simp only [optTime, timeText, Time.parseS, Time.formatS, String.toList_ofList]; exact Time.parse_format t h

theorem val_null (d : Nat) : Val 1 d [110, 117, 108, 108] := by
  refine ⟨⟨110, _, rfl, by decide⟩, ?_⟩
  intro f hf rest
  obtain ⟨f, rfl⟩ : ∃ k, f = k + 1 := ⟨f - 1, by omega⟩
  simp [skipValue, lit]

/-- the members of the payload object -/
def fieldMembers (fs : List (String × String × Bool)) : List (String × Bytes) :=
  (fs.filter fun f => !(f.2.2 && f.2.1 = "")).map fun f => (f.1, encStr f.2.1)

theorem encFields_eq (fs : List (String × String × Bool)) : encFields fs = encObj (fieldMembers fs) := rfl

theorem val_fieldMembers (fs : List (String × String × Bool)) (d : Nat) : ∀ kv ∈ fieldMembers fs, Val 1 d kv.2 := by
  intro kv hkv
  simp only [fieldMembers, List.mem_map] at hkv
  obtain ⟨f, _, rfl⟩ := hkv
  exact val_encStr _ _

theorem payloadOf_encFields (fs : List (String × String × Bool)) (hne : fieldMembers fs ≠ []) (hlen : fs.length ≤ 100) :
    payloadOf (some (encFields fs)) = some ((fieldMembers fs).map fun kv => (rawOf kv.1, kv.2)) := by
  have hl : (fieldMembers fs).length ≤ fs.length := by
    simp only [fieldMembers, List.length_map]; exact List.length_filter_le _ _
  simp only [payloadOf, encFields_eq, parseTop_encObj 1 _ hne (val_fieldMembers fs _) (by omega)]


theorem getStrs_cons (ms : List (Bytes × Bytes)) (n : String) (ns : List String) :
    getStrs ms (n :: ns) = (getStr ms n).bind fun v => (getStrs ms ns).map (v :: ·) := by
  simp only [getStrs, List.mapM_cons]
  cases getStr ms n <;> simp [bind, Option.bind]
  rename_i v; cases List.mapM (getStr ms) ns <;> simp [bind, Option.bind, pure]
theorem getStrs_nil (ms : List (Bytes × Bytes)) : getStrs ms [] = some [] := rfl

def fieldNames : List String :=
  ["type", "ts", "data", "id", "uuid", "epic_id", "state", "title", "body", "created_at", "agent_id", "from_id", "to_id", "task_id",
   "summary", "path", "sha256_at_attach", "mtime_at_attach", "git_commit_at_attach"]

theorem foldKey_table : ∀ a ∈ fieldNames, ∀ b ∈ fieldNames, (foldKey a = foldKey b) = (a = b) := by decide

theorem foldKey_eq (a b : String) (ha : a ∈ fieldNames) (hb : b ∈ fieldNames) : (foldKey a = foldKey b) = (a = b) :=
  foldKey_table a ha b hb

theorem strStep_str (name k s cur : String) :
    strStep name (some cur) (rawOf k, encStr s) = some (if foldKey k = foldKey name then s else cur) := by
  simp only [strStep, keyMatches_rawOf, valKind_encStr, strVal_encStr]
  by_cases h : foldKey k = foldKey name <;> simp [h]

theorem payloadOf_bad : payloadOf (some [34, 34]) = none := by
  simp +decide [payloadOf, parseTop, skipWs, isWs]

macro "decode_fields" : tactic => `(tactic| (
  simp only [wireOf, interp]
  rw [payloadOf_encFields _ (by simp +decide [fieldMembers]) (by simp)]
  simp +decide [fieldMembers, getStrs_cons, getStrs_nil, getStr_eq, strStep_str, *]))

/-- replay's reading of the type and payload the encoder writes for an event is that event -/
theorem interp_wire (ets : String) (e : Event) (h : Wf e) : interp (wireOf ets e).1 (some (wireOf ets e).2) = e := by
  cases e with
  | newItem isEpic id uuid epic st title body cat =>
    obtain ⟨hst, hts⟩ := h
    have h1 := optTime_timeText _ hts
    have h2 : St.ofString st.toString = st := hst
    cases isEpic <;> decode_fields
  | state id st ts =>
    obtain ⟨hst, hts⟩ := h
    have h1 := optTime_timeText _ hts
    have h2 : St.ofString st.toString = st := hst
    decode_fields
  | claim id a ts => have h1 := optTime_timeText _ h; decode_fields
  | unclaim id => decode_fields
  | link f t dep => cases dep <;> decode_fields
  | unlink f t dep => cases dep <;> decode_fields
  | title id t ts => have h1 := optTime_timeText _ h; decode_fields
  | body id b ts => have h1 := optTime_timeText _ h; decode_fields
  | epic id ep ts => have h1 := optTime_timeText _ h; decode_fields
  | tombstone id a ts =>
    have h1 := optTime_timeText _ h
    by_cases ha : a = ""
    · subst ha; decode_fields
    · decode_fields
  | result id s p sha m g ts =>
    have h1 := optTime_timeText _ h
    by_cases hm : m = "" <;> by_cases hg : g = ""
    · subst hm; subst hg; decode_fields
    · subst hm; decode_fields
    · subst hg; decode_fields
    · decode_fields
  | ignored => simp +decide [wireOf, interp]
  | badData => simp +decide [wireOf, interp, payloadOf_bad]


theorem Val.mono {f0 f1 d : Nat} {v : Bytes} (h : Val f0 d v) (hle : f0 ≤ f1) : Val f1 d v :=
  ⟨h.start, fun f hf rest => h.skip f (by omega) rest⟩

theorem val_encFields (fs : List (String × String × Bool)) (hne : fieldMembers fs ≠ []) (hlen : fs.length ≤ 10) (d : Nat) :
    Val 20 (d + 1) (encFields fs) := by
  have hl : (fieldMembers fs).length ≤ fs.length := by
    simp only [fieldMembers, List.length_map]; exact List.length_filter_le _ _
  exact (val_encObj d 1 (fieldMembers fs) hne (val_fieldMembers fs d)).mono (by omega)

theorem val_wire (ets : String) (e : Event) : Val 20 (DEPTH - 1) (wireOf ets e).2 := by
  have hd : DEPTH - 1 = 9998 + 1 := rfl
  rw [hd]
  cases e <;> simp only [wireOf] <;>
    first
    | exact val_encFields _ (by simp +decide [fieldMembers]) (by simp) _
    | exact (val_null _).mono (by omega)
    | exact (val_encStr "" _).mono (by omega)

/-- the three members of the envelope -/
def envelope (ets : Event → String) (e : Event) : List (String × Bytes) :=
  [("type", encStr (wireOf (ets e) e).1), ("ts", encStr (ets e)), ("data", (wireOf (ets e) e).2)]

theorem encodeEvent_eq (ets : Event → String) (e : Event) : encodeEvent ets e = encObj (envelope ets e) := rfl

theorem val_envelope (ets : Event → String) (e : Event) : ∀ kv ∈ envelope ets e, Val 20 (DEPTH - 1) kv.2 := by
  intro kv hkv
  simp only [envelope, List.mem_cons, List.not_mem_nil, or_false] at hkv
  rcases hkv with rfl | rfl | rfl
  · exact (val_encStr _ _).mono (by omega)
  · exact (val_encStr _ _).mono (by omega)
  · exact val_wire _ _

theorem strStep_skip (name k cur : String) (v : Bytes) (h : foldKey k ≠ foldKey name) :
    strStep name (some cur) (rawOf k, v) = some cur := by
  simp [strStep, keyMatches_rawOf, h]

/-- **round trip**: the line written for an event is read back as that event -/
theorem classify_encode (ets : Event → String) (e : Event) (h : Wf e) : classifyLine (encodeEvent ets e) = .ev e := by
  have htrim : trimSpaceB (encodeEvent ets e) = encodeEvent ets e := by
    rw [encodeEvent_eq, encObj_eq]; exact trimSpaceB_braces _
  have htop := parseTop_encObj 20 (envelope ets e) (by simp [envelope]) (val_envelope ets e) (by simp [envelope])
  simp only [classifyLine, htrim]
  rw [if_neg (by rw [encodeEvent_eq, encObj_eq]; simp)]
  rw [encodeEvent_eq, htop]
  simp +decide [envelope, getStr_eq, strStep_str, strStep_skip _ "data" _ _ (by decide : foldKey "data" ≠ foldKey "type"),
    strStep_skip _ "data" _ _ (by decide : foldKey "data" ≠ foldKey "ts"), keyMatches_rawOf, getRaw, interp_wire _ _ h]


/-! ### no control bytes -/
def Clean (l : Bytes) : Prop := ∀ b ∈ l, (32 : UInt8) ≤ b

theorem clean_units {B : Bytes} (h : Units B) : Clean B := by
  induction h with
  | nil => intro b hb; cases hb
  | plain hp _ ih =>
    intro x hx; simp only [List.mem_cons] at hx
    rcases hx with rfl | hx
    · exact UInt8.not_lt.1 hp.2.2
    · exact ih x hx
  | @esc c r hc hs _ ih =>
    intro x hx; simp only [List.mem_cons] at hx
    rcases hx with rfl | rfl | hx
    · decide
    · simp only [isSimpleEscape, decide_eq_true_eq] at hs
      rcases hs with rfl | rfl | rfl | rfl | rfl | rfl | rfl | rfl <;> decide
    · exact ih x hx
  | @uni h1 h2 h3 h4 r a b c d _ ih =>
    have hx : ∀ h : UInt8, isHex h = true → (32 : UInt8) ≤ h := by
      intro h hh
      simp only [isHex, decide_eq_true_eq] at hh
      rw [UInt8.le_iff_toNat_le]
      rcases hh with ⟨h1, _⟩ | ⟨h1, _⟩ | ⟨h1, _⟩ <;> (have := UInt8.le_iff_toNat_le.1 h1; simp at this ⊢; omega)
    intro x hx'; simp only [List.mem_cons] at hx'
    rcases hx' with rfl | rfl | rfl | rfl | rfl | rfl | hx'
    · decide
    · decide
    · exact hx _ a
    · exact hx _ b
    · exact hx _ c
    · exact hx _ d
    · exact ih x hx'

theorem clean_append {a b : Bytes} (ha : Clean a) (hb : Clean b) : Clean (a ++ b) := by
  intro x hx; rcases List.mem_append.1 hx with h | h
  · exact ha x h
  · exact hb x h
theorem clean_cons {a : UInt8} {b : Bytes} (ha : (32 : UInt8) ≤ a) (hb : Clean b) : Clean (a :: b) := by
  intro x hx; rcases List.mem_cons.1 hx with rfl | h
  · exact ha
  · exact hb x h
theorem clean_nil : Clean [] := by intro x hx; cases hx

theorem clean_encStr (s : String) : Clean (encStr s) := by
  rw [encStr_eq]
  exact clean_cons (by decide) (clean_append (clean_units (units_encodeBody _)) (clean_cons (by decide) clean_nil))

theorem clean_encMembers (kvs : List (String × Bytes)) (h : ∀ kv ∈ kvs, Clean kv.2) : Clean (encMembers kvs) := by
  induction kvs with
  | nil => exact clean_nil
  | cons a r ih =>
    cases r with
    | nil => rw [encMembers_single]; exact clean_append (clean_encStr _) (clean_cons (by decide) (h a (by simp)))
    | cons b r' =>
      rw [encMembers_cons_cons]
      exact clean_append (clean_append (clean_encStr _) (clean_cons (by decide) (h a (by simp))))
        (clean_cons (by decide) (ih fun kv hk => h kv (by simp [hk])))

theorem clean_encObj (kvs : List (String × Bytes)) (h : ∀ kv ∈ kvs, Clean kv.2) : Clean (encObj kvs) := by
  rw [encObj_eq]; exact clean_cons (by decide) (clean_append (clean_encMembers kvs h) (clean_cons (by decide) clean_nil))

theorem clean_encFields (fs : List (String × String × Bool)) : Clean (encFields fs) := by
  rw [encFields_eq]; apply clean_encObj
  intro kv hkv
  simp only [fieldMembers, List.mem_map] at hkv
  obtain ⟨f, _, rfl⟩ := hkv
  exact clean_encStr _

theorem clean_wire (ets : String) (e : Event) : Clean (wireOf ets e).2 := by
  cases e <;> simp only [wireOf] <;>
    first
    | exact clean_encFields _
    | (intro x hx; simp only [List.mem_cons, List.not_mem_nil, or_false] at hx; rcases hx with rfl | rfl | rfl | rfl <;> decide)
    | (intro x hx; simp only [List.mem_cons, List.not_mem_nil, or_false] at hx; rcases hx with rfl | rfl <;> decide)

theorem clean_encodeEvent (ets : Event → String) (e : Event) : Clean (encodeEvent ets e) := by
  rw [encodeEvent_eq]; apply clean_encObj
  intro kv hkv
  simp only [envelope, List.mem_cons, List.not_mem_nil, or_false] at hkv
  rcases hkv with rfl | rfl | rfl
  · exact clean_encStr _
  · exact clean_encStr _
  · exact clean_wire _ _

/-! ### a cut line does not parse -/
theorem prefix_bad (ets : Event → String) (e : Event) (p : Bytes) (hp : p <+: encodeEvent ets e) (hne : p ≠ encodeEvent ets e) (hnil : p ≠ []) :
    classifyLine p = .bad := by
  obtain ⟨x, hx⟩ := hp
  have hxne : x ≠ [] := by intro h0; apply hne; rw [← hx, h0, List.append_nil]
  -- the whole line
  have hL : encodeEvent ets e = 123 :: (encMembers (envelope ets e) ++ [125]) := by rw [encodeEvent_eq, encObj_eq]
  obtain ⟨t0, ht0⟩ := encMembers_head (envelope ets e) (by simp [envelope])
  have hmem := members_encObj_tail 20 (envelope ets e) (by simp [envelope]) (val_envelope ets e) (by simp [envelope])
  -- p starts with `{`
  obtain ⟨q, rfl⟩ : ∃ q, p = 123 :: q := by
    cases p with
    | nil => exact absurd rfl hnil
    | cons b q => rw [hL, List.cons_append] at hx; injection hx with h1 _; exact ⟨q, by rw [h1]⟩
  obtain ⟨t, htrim, ⟨y, hy⟩⟩ := trimSpaceB_lbrace q
  -- 123 :: t ++ (y ++ x) is the whole line
  have hwhole : 123 :: (t ++ (y ++ x)) = 123 :: (encMembers (envelope ets e) ++ [125]) := by
    rw [← hL, ← hx, ← hy]; simp
  have htail : t ++ (y ++ x) = encMembers (envelope ets e) ++ [125] := by injection hwhole
  have hyx : y ++ x ≠ [] := by simp [hxne]
  simp only [classifyLine, htrim]
  rw [if_neg (by simp)]
  -- parseTop (123 :: t) cannot be an object or null
  have : parseTop (123 :: t) = .err := by
    simp only [parseTop]
    rw [skipWs_cons_of 123 _ (by decide)]
    simp only [if_true]
    cases hw : skipWs t with
    | nil => rfl
    | cons c r' =>
      simp only
      have hw' : skipWs (t ++ (y ++ x)) = c :: (r' ++ (y ++ x)) := by rw [skipWs_append _ _ (by simp [hw]), hw]; rfl
      rw [htail, ht0, List.cons_append, skipWs_cons_of 34 _ (by decide)] at hw'
      injection hw' with hc hr
      subst hc
      simp only [(by decide : (34 : UInt8) ≠ 125), if_false]
      cases hm : members FUEL (DEPTH - 1) (34 :: r') with
      | none => rfl
      | some pr =>
        obtain ⟨ms, rest⟩ := pr
        have hst := (stable FUEL).2.1 (DEPTH - 1) (34 :: r') ms rest (y ++ x) hm
        rw [List.cons_append, ← hr, ← List.cons_append, ← ht0, hmem] at hst
        injection hst with hst
        injection hst with _ hrest
        have : rest ++ (y ++ x) = [] := hrest.symm
        exact absurd (List.append_eq_nil_iff.1 this).2 hyx
  rw [this]

end Ergo.Codec
