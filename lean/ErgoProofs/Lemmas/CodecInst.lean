/-
  WP20h — the concrete JSON line codec of ErgoModel.Codec satisfies everything the storage theorems ask of a codec (`jsonCodec`), so
  each of them holds of ergo's actual line format with no assumption left about `encoding/json`'s *behaviour on these lines* other
  than that ErgoModel.Codec describes it (tie T2-fn `fn-codec`, byte for byte).
-/
import ErgoProofs.Lemmas.WireWf
namespace Ergo.Codec
open Ergo.Storage

theorem classifyLine_nil : classifyLine [] = .blank := by
  simp [classifyLine, trimSpaceB, trimLeftB, trimRightB, stripSpaces]

/-- ergo's line format is a codec in the sense of `Storage.CodecOn`, for the well-formed events and any envelope time stamps -/
theorem jsonCodec (ets : Event → String) : CodecOn Wf classifyLine (encodeEvent ets) where
  clean e _ := by
    have hc := clean_encodeEvent ets e
    refine ⟨fun h => absurd (hc _ h) (by decide), fun h => absurd (hc _ h) (by decide), ?_⟩
    rw [encodeEvent_eq, encObj_eq]; simp
  parses e h := classify_encode ets e h
  prefix_bad e p _ hp hne hnil := prefix_bad ets e p hp hne hnil
  empty_blank := classifyLine_nil

/-- a batch of well-formed events is admissible whenever its lines are shorter than the reader's limit -/
theorem short_of_wf (ets : Event → String) (limit : Nat) (evs : List Event) (hw : AllWf evs)
    (hl : ∀ e ∈ evs, (encodeEvent ets e).length < limit) : Short Wf (encodeEvent ets) limit evs :=
  fun e he => ⟨hw e he, hl e he⟩

end Ergo.Codec
