/-
  Lemmas about ErgoModel.View: the JSON views (`list`, `show`) and the replies of mutating commands.
-/
import ErgoProofs.Lemmas.ReachInv
import ErgoProofs.Lemmas.PropsAux
import ErgoModel.View
namespace Ergo

theorem mem_rdepsOf (g : Graph) (a d : Id) : a ∈ g.rdepsOf d ↔ (a, d) ∈ g.deps := by
  unfold Graph.rdepsOf
  simp only [List.mem_map, List.mem_filter, beq_iff_eq]
  constructor
  · rintro ⟨⟨x, y⟩, ⟨hm, rfl⟩, rfl⟩; exact hm
  · intro h; exact ⟨(a, d), ⟨h, rfl⟩, rfl⟩

theorem mem_listTasks (g : Graph) (epic : Id) (ro : Bool) (t : Task) :
    t ∈ listTasks g epic ro ↔ t ∈ g.tasks ∧ (epic = "" ∨ t.epicId = epic) ∧ (ro = true → isReady g t = true) := by
  unfold listTasks
  simp only [List.mem_mergeSort, List.mem_filter, Bool.and_eq_true, Bool.or_eq_true, beq_iff_eq, Bool.not_eq_true']
  cases ro <;> simp

/-! ## list -/

/-- `list --json --all`: exactly the live non-epic items, each once, each described by its own record and the graph's flags -/
theorem listJson_all (g : Graph) (hwf : GraphOK g) :
    ((listJson g { showAll := true }).map (·.id)).Perm ((g.tasks.filter fun t => !t.isEpic).map (·.id)) ∧
    ∀ i ∈ listJson g { showAll := true }, ∃ t ∈ g.tasks, t.isEpic = false ∧ i = listItem g t := by
  have _ := hwf
  have hl : listJson g { showAll := true } = ((listTasks g "" false).filter fun t => !t.isEpic).map (listItem g) := by
    simp [listJson]
  have hp : (listTasks g "" false).Perm g.tasks := by
    unfold listTasks
    refine (List.mergeSort_perm _ _).trans ?_
    rw [List.filter_eq_self.2]
    intro t _
    simp
  rw [hl]
  constructor
  · rw [List.map_map]
    exact (hp.filter _).map _
  · intro i hi
    obtain ⟨t, ht, rfl⟩ := List.mem_map.1 hi
    obtain ⟨ht1, ht2⟩ := List.mem_filter.1 ht
    exact ⟨t, hp.mem_iff.1 ht1, by simpa using ht2, rfl⟩

/-- default `list --json`: exactly the unfinished non-epic items -/
theorem listJson_default (g : Graph) :
    ∀ i, i ∈ listJson g {} ↔ ∃ t ∈ g.tasks, t.isEpic = false ∧ t.st.closed = false ∧ i = listItem g t := by
  intro i
  simp only [listJson, Bool.false_eq_true, if_false, Bool.not_false, Bool.and_self, if_true, List.mem_map, List.mem_filter,
    mem_listTasks, Bool.not_eq_true']
  constructor
  · rintro ⟨t, ⟨⟨⟨ht, -, -⟩, hE⟩, hc⟩, rfl⟩
    exact ⟨t, ht, hE, hc, rfl⟩
  · rintro ⟨t, ht, hE, hc, rfl⟩
    exact ⟨t, ⟨⟨⟨ht, Or.inl trivial, by simp⟩, hE⟩, hc⟩, rfl⟩

/-- `list --json --ready`: exactly the ready tasks — the same set `claim` chooses from -/
theorem listJson_ready (g : Graph) :
    ∀ i, i ∈ listJson g { readyOnly := true } ↔ ∃ t ∈ readyTasks g "", i = listItem g t := by
  intro i
  simp only [listJson, Bool.false_eq_true, if_false, Bool.not_false, Bool.not_true, Bool.and_false, List.mem_map, List.mem_filter,
    mem_listTasks, Bool.not_eq_true', mem_readyTasks]
  constructor
  · rintro ⟨t, ⟨⟨ht, -, hr⟩, hE⟩, rfl⟩
    exact ⟨t, ⟨ht, hE, hr trivial, Or.inl trivial⟩, rfl⟩
  · rintro ⟨t, ⟨ht, hE, hr, -⟩, rfl⟩
    exact ⟨t, ⟨⟨ht, Or.inl trivial, fun _ => hr⟩, hE⟩, rfl⟩

/-- the flags printed for an item are the readiness predicates (so C08's `ready_iff` / `blocked_iff` speak about the printed value) -/
theorem listItem_flags (g : Graph) (t : Task) :
    (listItem g t).ready = isReady g t ∧ (listItem g t).blocked = isBlocked g t ∧ (listItem g t).st = t.st ∧
    (listItem g t).claimedBy = t.claimedBy := by
  exact ⟨rfl, rfl, rfl, rfl⟩

/-- the array is sorted by id (deterministic order) -/
theorem listJson_sorted (g : Graph) (o : ListOpts) (h : o.showEpics = false) :
    ((listJson g o).map (·.id)).Pairwise (fun a b => strLe a b = true) := by
  have hs : (listTasks g o.epicId o.readyOnly).Pairwise (fun a b => taskIdLe a b = true) := by
    unfold listTasks
    exact List.pairwise_mergeSort taskIdLe_trans taskIdLe_total _
  have hmap : ∀ l : List Task, l.Pairwise (fun a b => taskIdLe a b = true) →
      ((l.map (listItem g)).map (·.id)).Pairwise (fun a b => strLe a b = true) := by
    intro l hl
    rw [List.map_map, List.pairwise_map]
    exact hl
  simp only [listJson, h, Bool.false_eq_true, if_false]
  by_cases hc : (!o.showAll && !o.readyOnly) = true
  · rw [if_pos hc]
    exact hmap _ ((hs.sublist List.filter_sublist).sublist List.filter_sublist)
  · rw [if_neg hc]
    exact hmap _ (hs.sublist List.filter_sublist)

/-! ## show -/

theorem showJson_pruned (g : Graph) (id : Id) : g.tombed id = true → showJson g id = .error (.pruned id) := by
  intro h
  simp [showJson, h]

theorem showJson_live (g : Graph) (hwf : GraphOK g) (t : Task) (ht : t ∈ g.tasks) (hnt : g.tombed t.id = false) :
    ∃ o, showJson g t.id = .ok o ∧
      (o = .item (showItem g t) ∨ ∃ kids, o = .epic (showItem g t) kids) := by
  have hf : g.find? t.id = some t := (Graph.find?_iff hwf.wf t.id t).2 ⟨ht, rfl⟩
  simp only [showJson, hnt, Bool.false_eq_true, if_false, hf]
  by_cases hc : (t.isEpic && !(if t.isEpic = true then epicChildren g t.id else []).isEmpty) = true
  · rw [if_pos hc]
    exact ⟨_, rfl, Or.inr ⟨_, rfl⟩⟩
  · rw [if_neg hc]
    exact ⟨_, rfl, Or.inl rfl⟩

/-- dependencies are shown from both ends -/
theorem show_mirror (g : Graph) (a b : Task) :
    b.id ∈ (showItem g a).deps ↔ a.id ∈ (showItem g b).rdeps := by
  simp only [showItem, sortIds, List.mem_mergeSort, mem_depsOf, mem_rdepsOf]

theorem show_deps_iff (g : Graph) (a : Task) (d : Id) : d ∈ (showItem g a).deps ↔ (a.id, d) ∈ g.deps := by
  simp only [showItem, sortIds, List.mem_mergeSort, mem_depsOf]

/-! ## helpers for the replies -/

/-- a command that wrote: its section, the section's result, and the whole result record -/
theorem runCmd_write_cases (log : List Event) (env : Env) (req : Request) (hw : (runCmd log env req).write ≠ none) :
    ∃ sec w o, sectionOf env.agent req = .ok sec ∧ runSec log env sec = .ok (w, o) ∧
      runCmd log env req = { err := none, log := applyWrite log w, write := some w, out := o } := by
  unfold runCmd at hw ⊢
  cases hs : sectionOf env.agent req with
  | error e => simp [hs] at hw
  | ok sec =>
    cases hr : runSec log env sec with
    | error e => simp [hs, hr] at hw
    | ok p =>
      obtain ⟨w, o⟩ := p
      exact ⟨sec, w, o, rfl, hr, by simp only [hr]⟩

/-- an update section that succeeded, explicitly: the item, its events, the graph afterwards and the item afterwards -/
theorem runSec_update_explicit (log : List Event) (g : Graph) (hg : replayRaw log = .ok g) (hinv : AllInv g)
    (env : Env) (id : Id) (r : SetReq) (w : Write) (o : SecOut) (hr : runSec log env (.update id r) = .ok (w, o)) :
    ∃ t evs, g.find? id = some t ∧ updateEvents g t r env.agent env.po env.now = .ok evs ∧
      replayRaw (applyWrite log w) = .ok (g.update id fun k => evs.foldl stepTask k) ∧
      (g.update id fun k => evs.foldl stepTask k).find? id = some (evs.foldl stepTask t) := by
  simp only [runSec, replay_eq_raw hg hinv.ok] at hr
  cases hs : secUpdate g id r env.agent env.po env.now with
  | error x => simp [hs, Except.map] at hr
  | ok w' =>
    simp only [hs, Except.map] at hr
    injection hr with hr
    injection hr with hw _
    subst hw
    obtain ⟨htomb, t, evs, hfind, hu, rfl⟩ := secUpdate_ok hs
    obtain ⟨htm, htid⟩ := (Graph.find?_iff hinv.ok.wf id t).1 hfind
    obtain ⟨hgood, -⟩ := updateEvents_task hu (hinv.i06 t htm)
    rw [htid] at hgood
    have hhas : g.has id = true := (Graph.has_iff g id).2 ⟨t, htm, htid⟩
    refine ⟨t, evs, hfind, hu, ?_, ?_⟩
    · simp only [applyWrite]
      rw [replayRaw_append, hg]
      exact foldlM_updates g id evs hhas htomb (fun e he => (hgood e he).isUpdateFor)
    · rw [Graph.find?_update g id id _ (fun k => foldl_stepTask_id k evs), hfind]
      simp [htid]

/-- the events of `claim <id>` -/
theorem claim_update_events {g : Graph} {t : Task} {a : String} {po : PathOutcome} {now : Time} {evs : List Event} (ha : a ≠ "")
    (h : updateEvents g t { u := { claim := some a, state := some "doing" } } a po now = .ok evs) :
    evs = [Event.claim t.id a (some now), Event.state t.id .doing (some now)] := by
  rw [updateEvents_eq] at h
  have hres : updRes t { u := { claim := some a, state := some "doing" } } po now = .ok [] := rfl
  rw [hres] at h
  simp only [Except.bind] at h
  rcases updRest_ok h with ⟨he, -⟩ | ⟨evSet, hb, rfl, hep, -⟩
  · simp [Updates.isEmpty] at he
  · have hE : t.isEpic = false := by
      cases hE : t.isEpic with
      | false => rfl
      | true => have := (hep hE).1; simp at this
    obtain ⟨claim, e1, e3, e4, e5, e6, h0, h1, h3, h4, h5, h6, rfl⟩ := buildSetEvents_ok hb
    have hc : claim = some a := by
      rcases implicitClaim_ok h0 with hc | ⟨hc, -⟩
      · exact hc
      · simp at hc
    subst hc
    have he1 : e1 = [] := by
      rcases evTitle_ok h1 with ⟨-, rfl⟩ | ⟨s, hs, -⟩
      · rfl
      · simp at hs
    have he3 : e3 = [] := by
      rcases evEpic_ok h3 with ⟨-, rfl⟩ | ⟨s, hs, -⟩
      · rfl
      · simp at hs
    have he4 : e4 = [Event.claim t.id a (some now)] := by
      rcases evClaim_ok h4 with ⟨hx, -⟩ | ⟨cv, -, hx, -⟩ | ⟨hx, -⟩ | ⟨cv, hx, -, -, rfl⟩
      · simp at hx
      · rw [hE] at hx; cases hx
      · simp only [Option.some.injEq] at hx; exact absurd hx ha
      · simp only [Option.some.injEq] at hx; subst hx; rfl
    have he5 : e5 = [Event.state t.id .doing (some now)] := by
      rcases evState_ok h5 with ⟨hx, -⟩ | ⟨s, hs, -, -, -, rfl⟩
      · simp at hx
      · simp only [Option.some.injEq] at hs; subst hs; rfl
    have he6 : e6 = [] := by
      rcases evTrail_ok h6 with ⟨-, rfl⟩ | ⟨hx, -⟩
      · rfl
      · simp at hx
    subst he1 he3 he4 he5 he6
    simp [evBody]

/-- the section of a `sequence` command and the reply it prints name the same edges -/
theorem sequence_sec_reply (agent : String) (args : List String) (sec : Sec)
    (h : sectionOf agent (.sequence args) = .ok sec) :
    ∃ un es, sec = .links un es ∧
      (match args with
       | "rm" :: [a, b] => some (Reply.sequence true [(b, a)])
       | a :: rest => some (.sequence false (((a :: rest).zip rest).map fun (x, y) => (y, x)))
       | [] => none) = some (.sequence un es) ∧ (un = true → ∃ a b, es = [(b, a)]) := by
  simp only [sectionOf] at h
  split at h
  · cases h
  · cases h
  · split at h
    · cases h
      exact ⟨_, _, rfl, rfl, fun _ => ⟨_, _, rfl⟩⟩
    · cases h
  · cases h
    rename_i x a rest hne hrm
    refine ⟨_, _, rfl, ?_, by simp⟩
    split
    · rename_i heq; injection heq with h1 h2; exact absurd h1 hrm
    · rename_i heq
      cases heq
      rfl
    · rename_i heq; cases heq

/-! ### `new`: what the follow-up events of a creation can touch, and the reply as a function of the result -/

@[simp] theorem stepTask_uuid (k : Task) (e : Event) : (stepTask k e).uuid = k.uuid := by
  cases e <;> simp [stepTask] <;> (try split) <;> simp

@[simp] theorem stepTask_createdAt (k : Task) (e : Event) : (stepTask k e).createdAt = k.createdAt := by
  cases e <;> simp [stepTask] <;> (try split) <;> simp

theorem foldl_stepTask_uuid (k : Task) (evs : List Event) : (evs.foldl stepTask k).uuid = k.uuid := by
  induction evs generalizing k with
  | nil => rfl
  | cons e es ih => simp [List.foldl, ih]

theorem foldl_stepTask_createdAt (k : Task) (evs : List Event) : (evs.foldl stepTask k).createdAt = k.createdAt := by
  induction evs generalizing k with
  | nil => rfl
  | cons e es ih => simp [List.foldl, ih]

/-- an event that leaves title, body and epic of the item alone -/
def KeepsText (e : Event) : Prop :=
  ∀ k : Task, (stepTask k e).title = k.title ∧ (stepTask k e).body = k.body ∧ (stepTask k e).epicId = k.epicId

theorem foldl_keepsText (evs : List Event) (h : ∀ e ∈ evs, KeepsText e) (k : Task) :
    (evs.foldl stepTask k).title = k.title ∧ (evs.foldl stepTask k).body = k.body ∧ (evs.foldl stepTask k).epicId = k.epicId := by
  induction evs generalizing k with
  | nil => exact ⟨rfl, rfl, rfl⟩
  | cons e es ih =>
    simp only [List.foldl]
    obtain ⟨h1, h2, h3⟩ := ih (fun e' he' => h e' (by simp [he'])) (stepTask k e)
    obtain ⟨h4, h5, h6⟩ := h e (by simp) k
    exact ⟨h1.trans h4, h2.trans h5, h3.trans h6⟩

theorem keepsText_result (i su pa sh mt gi : String) (ts : Option Time) : KeepsText (.result i su pa sh mt gi ts) := by
  intro k; cases ts <;> simp [stepTask]
theorem keepsText_claim (i a : String) (ts : Option Time) : KeepsText (.claim i a ts) := by
  intro k; cases ts <;> simp [stepTask]
theorem keepsText_unclaim (i : String) : KeepsText (.unclaim i) := by
  intro k; simp [stepTask]
theorem keepsText_state (i : String) (st : St) (ts : Option Time) : KeepsText (.state i st ts) := by
  intro k; cases ts <;> simp [stepTask]

theorem updateEvents_keeps {g : Graph} {t : Task} {r : SetReq} {agent : String} {po : PathOutcome} {now : Time}
    {evs : List Event} (h : updateEvents g t r agent po now = .ok evs)
    (hr : r.u.title = none ∧ r.u.body = none ∧ r.u.epic = none) : ∀ e ∈ evs, KeepsText e := by
  rw [updateEvents_eq] at h
  cases hres : updRes t r po now with
  | error x => rw [hres] at h; cases h
  | ok evRes =>
    rw [hres] at h
    simp only [Except.bind] at h
    have hkRes : ∀ e ∈ evRes, KeepsText e := by
      rcases updRes_ok hres with rfl | ⟨-, su, pa, sh, mt, gi, rfl⟩
      · simp
      · intro e he; simp only [List.mem_singleton] at he; subst he; exact keepsText_result _ _ _ _ _ _ _
    rcases updRest_ok h with ⟨-, rfl⟩ | ⟨evSet, hb, rfl, -, -⟩
    · exact hkRes
    · obtain ⟨claim, e1, e3, e4, e5, e6, -, h1, h3, h4, h5, h6, rfl⟩ := buildSetEvents_ok hb
      obtain ⟨ht, hbo, hep⟩ := hr
      rw [ht] at h1
      rw [hep] at h3
      have hk1 : ∀ e ∈ e1, KeepsText e := by
        rcases evTitle_ok h1 with ⟨-, rfl⟩ | ⟨s, hs, -⟩
        · simp
        · cases hs
      have hkb : ∀ e ∈ evBody t.id now r.u.body, KeepsText e := by
        rw [hbo]; simp [evBody]
      have hk3 : ∀ e ∈ e3, KeepsText e := by
        rcases evEpic_ok h3 with ⟨-, rfl⟩ | ⟨s, hs, -⟩
        · simp
        · cases hs
      have hk4 : ∀ e ∈ e4, KeepsText e := by
        intro e he
        rcases evClaim_ok h4 with ⟨-, rfl⟩ | ⟨cv, -, -, rfl⟩ | ⟨-, -, -, rfl⟩ | ⟨cv, -, -, -, rfl⟩
        · simp at he
        · simp at he
        · simp only [List.mem_singleton] at he; subst he; exact keepsText_unclaim _
        · simp only [List.mem_singleton] at he; subst he; exact keepsText_claim _ _ _
      have hk5 : ∀ e ∈ e5, KeepsText e := by
        intro e he
        rcases evState_ok h5 with ⟨-, rfl⟩ | ⟨s, -, -, -, -, rfl⟩
        · simp at he
        · simp only [List.mem_singleton] at he; subst he; exact keepsText_state _ _ _
      have hk6 : ∀ e ∈ e6, KeepsText e := by
        intro e he
        rcases evTrail_ok h6 with ⟨-, rfl⟩ | ⟨-, -, rfl⟩
        · simp at he
        · simp only [List.mem_singleton] at he; subst he; exact keepsText_state _ _ _
      intro e he
      simp only [List.mem_append] at he
      rcases he with he | (((((he | he) | he) | he) | he) | he)
      · exact hkRes e he
      · exact hk1 e he
      · exact hkb e he
      · exact hk3 e he
      · exact hk4 e he
      · exact hk5 e he
      · exact hk6 e he

theorem sectionOf_newTask_follow (agent : String) (i : RawInput) (isEpic : Bool) (epicId title body : String) (follow : SetReq)
    (h : sectionOf agent (.newTask i) = .ok (.create isEpic epicId title body follow)) :
    follow.u.title = none ∧ follow.u.body = none ∧ follow.u.epic = none := by
  simp only [sectionOf] at h
  repeat' split at h
  all_goals try (simp only [reduceCtorEq] at h)
  all_goals simp only [Except.ok.injEq, Sec.create.injEq] at h
  all_goals obtain ⟨-, -, -, -, rfl⟩ := h
  all_goals simp [flagUpdates]

theorem sectionOf_newEpic_follow (agent : String) (i : RawInput) (isEpic : Bool) (epicId title body : String) (follow : SetReq)
    (h : sectionOf agent (.newEpic i) = .ok (.create isEpic epicId title body follow)) :
    follow.u.title = none ∧ follow.u.body = none ∧ follow.u.epic = none := by
  simp only [sectionOf] at h
  repeat' split at h
  all_goals try (simp only [reduceCtorEq] at h)
  all_goals simp only [Except.ok.injEq, Sec.create.injEq] at h
  all_goals obtain ⟨-, -, -, -, rfl⟩ := h
  all_goals simp

/-- the reply of `new task` / `new epic`, as a function of the result record alone -/
def createdReplyOf (res : CmdResult) : Option Reply :=
  match res.write, res.out.created with
  | some w, some id =>
    (match w.appended.head? with
     | some (.newItem isEpic id' uuid epicId _ title body cat) =>
       let st := match replayRaw w.appended with
         | .ok g => (match g.find? id with | some t => t.st | none => .todo)
         | .error _ => .todo
       some (.created isEpic id' uuid epicId st title body (cat.getD 0))
     | _ => none)
  | _, _ => none

theorem replyOf_new (env : Env) (i : RawInput) (isTask : Bool) (res : CmdResult) (h : res.err = none) :
    replyOf env (if isTask then .newTask i else .newEpic i) res = createdReplyOf res := by
  cases isTask <;> simp only [replyOf, h, createdReplyOf, Bool.false_eq_true, if_false, if_true] <;> rfl

theorem create_sec_reply (log : List Event) (g : Graph) (hg : replayRaw log = .ok g) (hinv : AllInv g)
    (env : Env) (henv : EnvOK g env) (isEpic : Bool) (epicId title body : String) (follow : SetReq) (w : Write) (o : SecOut)
    (htitle : Text.isBlank title = false)
    (hfo : follow.u.title = none ∧ follow.u.body = none ∧ follow.u.epic = none)
    (hr : runSec log env (.create isEpic epicId title body follow) = .ok (w, o)) :
    ∃ g' t', replay (applyWrite log w) = .ok g' ∧ o.created = some t'.id ∧ g'.find? t'.id = some t' ∧
      createdReplyOf { err := none, log := applyWrite log w, write := some w, out := o } =
        some (.created t'.isEpic t'.id t'.uuid t'.epicId t'.st t'.title t'.body t'.createdAt) := by
  obtain ⟨g', hg', hinv'⟩ := secStep_create isEpic epicId title body follow htitle log g env w o hg hinv henv hr
  simp only [runSec, replay_eq_raw hg hinv.ok] at hr
  generalize env.uuids.headD "" = uuid at hr
  cases hs : secCreate g isEpic epicId title body follow env.ids uuid env.agent env.po env.now with
  | error x => rw [hs] at hr; simp [Except.map] at hr
  | ok p =>
    obtain ⟨w', id⟩ := p
    rw [hs] at hr
    simp only [Except.map] at hr
    injection hr with hr
    injection hr with hw hout
    subst hw
    subst hout
    obtain ⟨_, htail⟩ := secCreate_ok hs
    obtain ⟨hidmem, htaken, more, rfl, hmore⟩ := createTail_ok htail
    simp only [Graph.taken, Bool.or_eq_false_iff] at htaken
    obtain ⟨htomb, hhas⟩ := htaken
    generalize heid : (if isEpic = true then "" else epicId) = eid at *
    let x := freshTask isEpic id uuid eid title body env.now
    let g1 : Graph := { g with tasks := g.tasks ++ [x] }
    have hap : applyEvent g (Event.newItem isEpic id uuid eid .todo title body (some env.now)) = .ok g1 := by
      simp [applyEvent, htomb, hhas, g1, x, freshTask]
    have hhas1 : g1.has id = true := by simp [Graph.has, g1, x, freshTask]
    have htomb1 : g1.tombed id = false := htomb
    have hxinv : TaskInv x := ⟨fun _ => ⟨rfl, rfl⟩, fun _ => ⟨rfl, rfl⟩⟩
    have hmore' : (∀ e ∈ more, IsUpdateFor id e) ∧ (∀ e ∈ more, KeepsText e) := by
      rcases hmore with rfl | hu
      · simp
      · exact ⟨fun e he => ((updateEvents_task hu hxinv).1 e he).isUpdateFor, updateEvents_keeps hu hfo⟩
    have hpost : replayRaw (applyWrite log (.append (Event.newItem isEpic id uuid eid .todo title body (some env.now) :: more)))
        = .ok (g1.update id fun k => more.foldl stepTask k) := by
      simp only [applyWrite]
      rw [replayRaw_append, hg]
      simp only [Except.bind, List.foldlM_cons, hap, bind]
      exact foldlM_updates g1 id more hhas1 htomb1 hmore'.1
    rw [hg'] at hpost
    injection hpost with hpost
    have hf1 : g1.find? id = some x := by
      have hnone : g.tasks.find? (·.id == id) = none := by
        rw [List.find?_eq_none]
        intro k hk
        have := (Graph.has_false_iff g id).1 hhas k hk
        simpa using this
      simp only [Graph.find?, g1, List.find?_append, hnone]
      simp [x, freshTask]
    have hf2 : g'.find? id = some (more.foldl stepTask x) := by
      rw [hpost, Graph.find?_update g1 id id _ (fun k => foldl_stepTask_id k more), hf1]
      simp [x, freshTask]
    have hown : replayRaw (Event.newItem isEpic id uuid eid .todo title body (some env.now) :: more)
        = .ok ((⟨[x], [], []⟩ : Graph).update id fun k => more.foldl stepTask k) := by
      unfold replayRaw
      have h0 : applyEvent Graph.empty (Event.newItem isEpic id uuid eid .todo title body (some env.now)) = .ok ⟨[x], [], []⟩ := by
        simp [applyEvent, Graph.empty, Graph.tombed, Graph.has, x, freshTask]
      simp only [List.foldlM_cons, bind, Except.bind, h0]
      exact foldlM_updates ⟨[x], [], []⟩ id more (by simp [Graph.has, x, freshTask]) (by simp [Graph.tombed]) hmore'.1
    have hownf : ((⟨[x], [], []⟩ : Graph).update id fun k => more.foldl stepTask k).find? id = some (more.foldl stepTask x) := by
      rw [Graph.find?_update _ id id _ (fun k => foldl_stepTask_id k more)]
      simp [Graph.find?, x, freshTask]
    obtain ⟨k1, k2, k3⟩ := foldl_keepsText more hmore'.2 x
    have hid : (more.foldl stepTask x).id = id := foldl_stepTask_id x more
    refine ⟨g', more.foldl stepTask x, replay_eq_raw hg' hinv'.ok, ?_, ?_, ?_⟩
    · rw [hid]
    · rw [hid]; exact hf2
    · simp only [createdReplyOf, Write.appended, List.head?, hown, hownf]
      rw [foldl_stepTask_isEpic, hid, foldl_stepTask_uuid, foldl_stepTask_createdAt, k1, k2, k3]
      rfl


/-! ## replies -/

/-- a `set` that succeeded has a reply, and it is the stored state and claimant after the command -/
theorem set_reply (log : List Event) (g : Graph) (hg : replayRaw log = .ok g) (hinv : AllInv g)
    (env : Env) (henv : EnvOK g env) (id : Id) (i : RawInput)
    (h : (runCmd log env (.set id i)).err = none) :
    ∃ g' t', replay (runCmd log env (.set id i)).log = .ok g' ∧ g'.find? id = some t' ∧
      replyOf env (.set id i) (runCmd log env (.set id i)) = some (.set id (updatedFields i) t'.st t'.claimedBy) := by
  have hw : (runCmd log env (.set id i)).write ≠ none :=
    fun hw => no_write_means_error _ _ _ hw (by intro e he; cases he) h
  obtain ⟨sec, w, o, hs, hr, hres⟩ := runCmd_write_cases _ _ _ hw
  obtain ⟨r, rfl⟩ := sectionOf_set_sec _ _ _ _ hs
  obtain ⟨g', hg', hinv'⟩ := secStep_update id r log g env w o hg hinv henv hr
  obtain ⟨t, evs, -, -, hg2, hf2⟩ := runSec_update_explicit log g hg hinv env id r w o hr
  rw [hg'] at hg2
  injection hg2 with hg2
  rw [← hg2] at hf2
  rw [hres]
  refine ⟨g', _, replay_eq_raw hg' hinv'.ok, hf2, ?_⟩
  simp only [replyOf, replay_eq_raw hg' hinv'.ok, hf2, Option.map]

/-- `claim <id>` that succeeded: the reply names the task, says `doing`, and the claimant is the caller -/
theorem claim_id_reply (log : List Event) (g : Graph) (hg : replayRaw log = .ok g) (hinv : AllInv g)
    (env : Env) (henv : EnvOK g env) (id : Id)
    (h : (runCmd log env (.claim id)).err = none) :
    ∃ g' t', replay (runCmd log env (.claim id)).log = .ok g' ∧ g'.find? id = some t' ∧
      t'.st = .doing ∧ t'.claimedBy = env.agent ∧
      replyOf env (.claim id) (runCmd log env (.claim id)) =
        some (.claimed id t'.epicId .doing t'.title t'.body env.agent (claimedAt t')) := by
  have hw : (runCmd log env (.claim id)).write ≠ none :=
    fun hw => no_write_means_error _ _ _ hw (by intro e he; cases he) h
  obtain ⟨sec, w, o, hs, hr, hres⟩ := runCmd_write_cases _ _ _ hw
  have hag : env.agent ≠ "" := by
    intro hag
    simp [sectionOf, hag] at hs
    split at hs <;> cases hs
  have hsec : sec = .update id { u := { claim := some env.agent, state := some "doing" } } := by
    have hag' : (env.agent == "") = false := by simpa using hag
    simp only [sectionOf, hag'] at hs
    split at hs
    · cases hs
    · simpa using hs.symm
  subst hsec
  obtain ⟨g', hg', hinv'⟩ := secStep_update id _ log g env w o hg hinv henv hr
  obtain ⟨t, evs, hfind, hu, hg2, hf2⟩ := runSec_update_explicit log g hg hinv env id _ w o hr
  rw [hg'] at hg2
  injection hg2 with hg2
  rw [← hg2] at hf2
  have hevs := claim_update_events hag hu
  subst hevs
  have htid : t.id = id := (graph_find?_some_mem hfind).2
  rw [hres]
  refine ⟨g', _, replay_eq_raw hg' hinv'.ok, hf2, ?_, ?_, ?_⟩
  · simp [List.foldl, stepTask]
  · simp [List.foldl, stepTask, St.clearsClaim]
  · simp only [replyOf, replay_eq_raw hg' hinv'.ok, hf2, Option.map]
    simp [List.foldl, stepTask, St.clearsClaim, htid, claimedAt]

/-- `new` that succeeded: the reply's id, uuid, epic, state, title, body and creation time are those of the stored item -/
theorem created_reply (log : List Event) (g : Graph) (hg : replayRaw log = .ok g) (hinv : AllInv g)
    (env : Env) (henv : EnvOK g env) (i : RawInput) (isTask : Bool)
    (h : (runCmd log env (if isTask then .newTask i else .newEpic i)).err = none) :
    let res := runCmd log env (if isTask then .newTask i else .newEpic i)
    ∃ g' t', replay res.log = .ok g' ∧ res.out.created = some t'.id ∧ g'.find? t'.id = some t' ∧
      replyOf env (if isTask then .newTask i else .newEpic i) res =
        some (.created t'.isEpic t'.id t'.uuid t'.epicId t'.st t'.title t'.body t'.createdAt) := by
  intro res
  have hw : res.write ≠ none :=
    fun hw => no_write_means_error _ _ _ hw (by intro e he; cases isTask <;> cases he) h
  obtain ⟨sec, w, o, hs, hr, hres⟩ := runCmd_write_cases _ _ _ hw
  have hres' : res = { err := none, log := applyWrite log w, write := some w, out := o } := hres
  have hsec : ∃ a b c d e, sec = .create a b c d e ∧ e.u.title = none ∧ e.u.body = none ∧ e.u.epic = none := by
    cases isTask with
    | true =>
      obtain ⟨a, b, c, d, e, rfl⟩ := sectionOf_newTask_sec _ _ _ hs
      exact ⟨a, b, c, d, e, rfl, sectionOf_newTask_follow _ _ _ _ _ _ _ hs⟩
    | false =>
      obtain ⟨a, b, c, d, e, rfl⟩ := sectionOf_newEpic_sec _ _ _ hs
      exact ⟨a, b, c, d, e, rfl, sectionOf_newEpic_follow _ _ _ _ _ _ _ hs⟩
  obtain ⟨isEpic, epicId, title, body, follow, rfl, hfo⟩ := hsec
  have htitle := sectionOf_create_titled _ _ _ _ _ _ _ hs
  obtain ⟨g', t', h1, h2, h3, h4⟩ :=
    create_sec_reply log g hg hinv env henv isEpic epicId title body follow w o htitle hfo hr
  refine ⟨g', t', ?_, ?_, h3, ?_⟩
  · rw [hres']; exact h1
  · rw [hres']; exact h2
  · rw [replyOf_new env i isTask res h, hres']
    exact h4

/-- `claim` (oldest ready) that wrote: the reply is the head of the ready list, `doing`, claimed by the caller at the section's clock
    reading — and that is what the next read shows -/
theorem claim_oldest_reply (log : List Event) (g : Graph) (hg : replayRaw log = .ok g) (hinv : AllInv g)
    (env : Env) (henv : EnvOK g env) (hag : env.agent ≠ "") (epic : Id)
    (hw : (runCmd log env (.claimOldest epic)).write ≠ none) :
    let res := runCmd log env (.claimOldest epic)
    ∃ t g' t', (readyTasks g epic).head? = some t ∧ replay res.log = .ok g' ∧ g'.find? t.id = some t' ∧
      t'.st = .doing ∧ t'.claimedBy = env.agent ∧ t'.title = t.title ∧ t'.body = t.body ∧ t'.epicId = t.epicId ∧
      replyOf env (.claimOldest epic) res = some (.claimed t.id t.epicId .doing t.title t.body env.agent env.now) := by
  intro res
  obtain ⟨sec, w, o, hs, hr, hres⟩ := runCmd_write_cases _ _ _ hw
  obtain ⟨rfl, -⟩ := sectionOf_claimOldest_sec _ _ _ hs
  obtain ⟨g', hg', hinv'⟩ := secStep_claimOldest epic log g env w o hag hg hinv henv hr
  have hres' : res = { err := none, log := applyWrite log w, write := some w, out := o } := hres
  simp only [runSec, replay_eq_raw hg hinv.ok, secClaimOldest] at hr
  cases hrd : readyTasks g epic with
  | nil => simp [hrd, Except.map] at hr
  | cons t rest =>
    simp only [hrd, Except.map] at hr
    injection hr with hr
    injection hr with hw' hout
    subst hw'
    subst hout
    have hmem : t ∈ readyTasks g epic := by rw [hrd]; simp
    obtain ⟨htm, -, -, -⟩ := (mem_readyTasks g epic t).1 hmem
    have hwf := hinv.ok.wf
    have hfind : g.find? t.id = some t := (Graph.find?_iff hwf t.id t).2 ⟨htm, rfl⟩
    have htomb : g.tombed t.id = false := (Graph.tombed_false_iff g t.id).2 (hwf.live_not_tombed t htm)
    have hhas : g.has t.id = true := (Graph.has_iff g t.id).2 ⟨t, htm, rfl⟩
    have h1 := foldlM_updates g t.id [Event.claim t.id env.agent (some env.now), Event.state t.id .doing (some env.now)]
      hhas htomb (by
        intro e he
        simp only [List.mem_cons, List.not_mem_nil, or_false] at he
        rcases he with rfl | rfl <;> rfl)
    have hg2 : replayRaw (applyWrite log (.append [Event.claim t.id env.agent (some env.now), Event.state t.id .doing (some env.now)]))
        = .ok (g.update t.id fun k => List.foldl stepTask k
            [Event.claim t.id env.agent (some env.now), Event.state t.id .doing (some env.now)]) := by
      simp only [applyWrite]
      rw [replayRaw_append, hg]
      exact h1
    rw [hg'] at hg2
    injection hg2 with hg2
    have hf2 : g'.find? t.id = some (List.foldl stepTask t
        [Event.claim t.id env.agent (some env.now), Event.state t.id .doing (some env.now)]) := by
      rw [hg2, Graph.find?_update g t.id t.id _ (fun k => foldl_stepTask_id k _), hfind]
      simp
    refine ⟨t, g', _, rfl, ?_, hf2, ?_, ?_, ?_, ?_, ?_, ?_⟩
    · rw [hres']; exact replay_eq_raw hg' hinv'.ok
    · simp [List.foldl, stepTask]
    · simp [List.foldl, stepTask, St.clearsClaim]
    · simp [List.foldl, stepTask]
    · simp [List.foldl, stepTask]
    · simp [List.foldl, stepTask]
    · rw [hres']
      simp [replyOf]

/-- and when nothing was written the reply is `no_ready` exactly when the ready list is empty -/
theorem claim_oldest_no_ready (log : List Event) (g : Graph) (hg : replayRaw log = .ok g) (hinv : AllInv g)
    (env : Env) (hag : env.agent ≠ "") (epic : Id)
    (herr : (runCmd log env (.claimOldest epic)).err = none) (hw : (runCmd log env (.claimOldest epic)).write = none) :
    replyOf env (.claimOldest epic) (runCmd log env (.claimOldest epic)) = some .noReady ∧ readyTasks g epic = [] := by
  have hrep := replay_eq_raw hg hinv.ok
  have _ := herr
  have hag' : (env.agent == "") = false := by simpa using hag
  cases hrd : readyTasks g epic with
  | nil =>
    simp [replyOf, runCmd, sectionOf, runSec, hrep, secClaimOldest, hrd, hag', Except.map]
  | cons t rest =>
    simp [runCmd, sectionOf, runSec, hrep, secClaimOldest, hrd, hag', Except.map] at hw

/-- `prune`: the reply lists exactly the policy's set, dry run or not -/
theorem prune_reply (log : List Event) (g : Graph) (hg : replayRaw log = .ok g) (hinv : AllInv g)
    (env : Env) (yes : Bool) :
    replyOf env (.prune yes) (runCmd log env (.prune yes)) = some (.pruned (!yes) (pruneTargets g)) := by
  have hrep := replay_eq_raw hg hinv.ok
  simp [replyOf, runCmd, sectionOf, runSec, hrep, secPrune]

/-- `sequence` that succeeded: every edge the reply lists is in the graph afterwards (link) / absent afterwards (rm) -/
theorem sequence_reply (log : List Event) (g : Graph) (hg : replayRaw log = .ok g) (hinv : AllInv g)
    (env : Env) (henv : EnvOK g env) (args : List String)
    (h : (runCmd log env (.sequence args)).err = none) :
    ∃ un es g', replyOf env (.sequence args) (runCmd log env (.sequence args)) = some (.sequence un es) ∧
      replay (runCmd log env (.sequence args)).log = .ok g' ∧
      ∀ e ∈ es, (e ∈ g'.deps) = !un := by
  have hw : (runCmd log env (.sequence args)).write ≠ none :=
    fun hw => no_write_means_error _ _ _ hw (by intro e he; cases he) h
  obtain ⟨sec, w, o, hs, hr, hres⟩ := runCmd_write_cases _ _ _ hw
  obtain ⟨un, es, rfl, hrep, hun⟩ := sequence_sec_reply _ _ _ hs
  obtain ⟨g', hg', hinv'⟩ := secStep_links un es log g env w o hg hinv henv hr
  rw [hres]
  refine ⟨un, es, g', ?_, replay_eq_raw hg' hinv'.ok, ?_⟩
  · simp only [replyOf]
    exact hrep
  · simp only [runSec, replay_eq_raw hg hinv.ok, secLinks] at hr
    cases hl : linkEvents g un es with
    | error x => rw [hl] at hr; cases hr
    | ok evs =>
      rw [hl] at hr
      simp only [Except.map] at hr
      cases hr
      simp only [applyWrite, replayRaw_append, hg, Except.bind] at hg'
      cases un with
      | false =>
        obtain ⟨h1, -, h3⟩ := linkEvents_link_spec g es evs hl hinv.i07.acyclic
        rw [h1] at hg'
        obtain ⟨g2, e1, -, -, e4, -⟩ := foldlM_links g es (fun e he => ⟨(h3 e he).1, (h3 e he).2.1⟩)
        rw [e1] at hg'
        injection hg' with hg'
        subst hg'
        intro e he
        simp [(e4 e).2 (Or.inr he)]
      | true =>
        obtain ⟨a, b, rfl⟩ := hun rfl
        obtain ⟨h1, h2⟩ := linkEvents_unlink_spec g _ evs hl
        rw [h1] at hg'
        have hab := h2 (b, a) (by simp)
        simp only [List.map_cons, List.map_nil, List.foldlM_cons, List.foldlM_nil,
          applyEvent_unlink_ok g b a hab.1 hab.2, bind, Except.bind, pure, Except.pure] at hg'
        injection hg' with hg'
        subst hg'
        intro e he
        simp only [List.mem_singleton] at he
        subst he
        simp

end Ergo
