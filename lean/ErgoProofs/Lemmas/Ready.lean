/-
  WP3 — ready / blocked / claim order (C08) and independence of Go's map iteration order (C12).
  Definitions: isReady, isBlocked, readyTasks, claimLe, pruneTargets (ErgoModel/Query.lean);
  ReadySpec, BlockedSpec, WF (ErgoProofs/Spec.lean).
  You may import individual Mathlib modules (e.g. Mathlib.Data.List.Sort, Mathlib.Data.List.Perm.Basic) in this file.
-/
import ErgoProofs.Spec
namespace Ergo

theorem strLe_iff (a b : String) : strLe a b = true ↔ a ≤ b := by
  unfold strLe; simp

theorem strLe_total (a b : String) : (strLe a b || strLe b a) = true := by
  simp only [Bool.or_eq_true, strLe_iff]; exact String.le_total a b

theorem strLe_trans (a b c : String) : strLe a b = true → strLe b c = true → strLe a c = true := by
  simp only [strLe_iff]; exact String.le_trans

theorem strLe_antisymm (a b : String) : strLe a b = true → strLe b a = true → a = b := by
  simp only [strLe_iff]; exact String.le_antisymm

theorem strLe_refl (a : String) : strLe a a = true := by
  have := strLe_total a a; simpa using this

theorem claimLe_total (a b : Task) : (claimLe a b || claimLe b a) = true := by
  unfold claimLe
  have h := strLe_total a.id b.id
  simp only [Bool.or_eq_true, Bool.and_eq_true, decide_eq_true_eq, beq_iff_eq] at *
  rcases Nat.lt_trichotomy a.createdAt b.createdAt with h1 | h1 | h1
  · exact Or.inl (Or.inl h1)
  · rcases h with h | h
    · exact Or.inl (Or.inr ⟨h1, h⟩)
    · exact Or.inr (Or.inr ⟨h1.symm, h⟩)
  · exact Or.inr (Or.inl h1)

theorem claimLe_trans (a b c : Task) : claimLe a b = true → claimLe b c = true → claimLe a c = true := by
  unfold claimLe
  simp only [Bool.or_eq_true, Bool.and_eq_true, decide_eq_true_eq, beq_iff_eq]
  rintro (h1 | ⟨h1, h1'⟩) (h2 | ⟨h2, h2'⟩)
  · left; exact Nat.lt_trans h1 h2
  · left; rw [← h2]; exact h1
  · left; rw [h1]; exact h2
  · right; exact ⟨h1.trans h2, strLe_trans _ _ _ h1' h2'⟩

theorem claimLe_antisymm (a b : Task) : claimLe a b = true → claimLe b a = true → a.id = b.id := by
  unfold claimLe
  simp only [Bool.or_eq_true, Bool.and_eq_true, decide_eq_true_eq, beq_iff_eq]
  rintro (h1 | ⟨h1, h1'⟩) (h2 | ⟨h2, h2'⟩)
  · exact absurd h2 (Nat.lt_asymm h1)
  · rw [h2] at h1; exact absurd h1 (Nat.lt_irrefl _)
  · rw [h1] at h2; exact absurd h2 (Nat.lt_irrefl _)
  · exact strLe_antisymm _ _ h1' h2'

theorem taskIdLe_total (a b : Task) : (taskIdLe a b || taskIdLe b a) = true := strLe_total _ _
theorem taskIdLe_trans (a b c : Task) : taskIdLe a b = true → taskIdLe b c = true → taskIdLe a c = true :=
  strLe_trans _ _ _

theorem edgeLe_total (a b : Id × Id) : (edgeLe a b || edgeLe b a) = true := by
  unfold edgeLe
  have h := strLe_total a.2 b.2
  simp only [Bool.or_eq_true, Bool.and_eq_true, decide_eq_true_eq, beq_iff_eq] at *
  by_cases h1 : a.1 < b.1
  · exact Or.inl (Or.inl h1)
  by_cases h2 : b.1 < a.1
  · exact Or.inr (Or.inl h2)
  have e : a.1 = b.1 := String.le_antisymm (String.not_lt.mp h2) (String.not_lt.mp h1)
  rcases h with h | h
  · exact Or.inl (Or.inr ⟨e, h⟩)
  · exact Or.inr (Or.inr ⟨e.symm, h⟩)

theorem edgeLe_trans (a b c : Id × Id) : edgeLe a b = true → edgeLe b c = true → edgeLe a c = true := by
  unfold edgeLe
  simp only [Bool.or_eq_true, Bool.and_eq_true, decide_eq_true_eq, beq_iff_eq]
  rintro (h1 | ⟨h1, h1'⟩) (h2 | ⟨h2, h2'⟩)
  · left; exact String.lt_trans h1 h2
  · left; rw [← h2]; exact h1
  · left; rw [h1]; exact h2
  · right; exact ⟨h1.trans h2, strLe_trans _ _ _ h1' h2'⟩

theorem edgeLe_antisymm (a b : Id × Id) : edgeLe a b = true → edgeLe b a = true → a = b := by
  unfold edgeLe
  simp only [Bool.or_eq_true, Bool.and_eq_true, decide_eq_true_eq, beq_iff_eq]
  rintro (h1 | ⟨h1, h1'⟩) (h2 | ⟨h2, h2'⟩)
  · exact absurd h2 (String.lt_asymm h1)
  · rw [h2] at h1; exact absurd h1 (String.lt_irrefl _)
  · rw [h1] at h2; exact absurd h2 (String.lt_irrefl _)
  · exact Prod.ext h1 (strLe_antisymm _ _ h1' h2')


/-! ### unique ids -/
theorem inj_of_nodup_map {α β : Type} (f : α → β) : ∀ {l : List α}, (l.map f).Nodup →
    ∀ a ∈ l, ∀ b ∈ l, f a = f b → a = b
  | [], _, a, ha, _, _, _ => by simp at ha
  | x :: l, hn, a, ha, b, hb, hab => by
    simp only [List.map_cons, List.nodup_cons, List.mem_map, not_exists, not_and] at hn
    simp only [List.mem_cons] at ha hb
    rcases ha with rfl | ha <;> rcases hb with rfl | hb
    · rfl
    · exact absurd hab.symm (hn.1 b hb)
    · exact absurd hab (hn.1 a ha)
    · exact inj_of_nodup_map f hn.2 a ha b hb hab

theorem find?_id_iff {l : List Task} (hn : (l.map (·.id)).Nodup) (d : Id) (o : Task) :
    l.find? (·.id == d) = some o ↔ o ∈ l ∧ o.id = d := by
  constructor
  · intro h
    exact ⟨List.mem_of_find?_eq_some h, by simpa using List.find?_some h⟩
  · rintro ⟨hm, hd⟩
    cases h : l.find? (·.id == d) with
    | none =>
      rw [List.find?_eq_none] at h
      exact absurd (by simpa using hd) (h o hm)
    | some o' =>
      have h1 := List.mem_of_find?_eq_some h
      have h2 : o'.id = d := by simpa using List.find?_some h
      rw [inj_of_nodup_map (·.id) hn o' h1 o hm (h2.trans hd.symm)]

theorem find?_id_perm {l l' : List Task} (hn : (l.map (·.id)).Nodup) (h : l.Perm l') (d : Id) :
    l.find? (·.id == d) = l'.find? (·.id == d) := by
  have hn' : (l'.map (·.id)).Nodup := (h.map _).nodup_iff.mp hn
  apply Option.ext
  intro o
  rw [find?_id_iff hn, find?_id_iff hn', h.mem_iff]

theorem Graph.find?_iff {g : Graph} (hwf : WF g) (d : Id) (o : Task) :
    g.find? d = some o ↔ o ∈ g.tasks ∧ o.id = d := find?_id_iff hwf.nodup d o

theorem closedSt_iff (s : St) : closedSt s ↔ s.closed = true := by
  cases s <;> simp [closedSt, St.closed]

theorem mem_depsOf (g : Graph) (a d : Id) : d ∈ g.depsOf a ↔ (a, d) ∈ g.deps := by
  unfold Graph.depsOf
  simp only [List.mem_map, List.mem_filter, beq_iff_eq]
  constructor
  · rintro ⟨⟨x, y⟩, ⟨hm, rfl⟩, rfl⟩; exact hm
  · intro h; exact ⟨(a, d), ⟨h, rfl⟩, rfl⟩

theorem depOpen_false_iff {g : Graph} (hwf : WF g) (d : Id) :
    depOpen g d = false ↔ ∀ o ∈ g.tasks, o.id = d → closedSt o.st := by
  unfold depOpen
  cases h : g.find? d with
  | none =>
    simp only [true_iff]
    intro o ho hd
    have : g.find? d = some o := (Graph.find?_iff hwf d o).mpr ⟨ho, hd⟩
    rw [h] at this; cases this
  | some o' =>
    have ⟨h1, h2⟩ := (Graph.find?_iff hwf d o').mp h
    simp only [Bool.not_eq_false']
    constructor
    · intro hc o ho hd
      have := inj_of_nodup_map (·.id) hwf.nodup o ho o' h1 (hd.trans h2.symm)
      rw [this, closedSt_iff]; exact hc
    · intro hh; exact (closedSt_iff _).mp (hh o' h1 h2)

theorem isEpicComplete_iff (g : Graph) (e : Id) :
    isEpicComplete g e = true ↔ ∀ c ∈ g.tasks, c.epicId = e → closedSt c.st := by
  unfold isEpicComplete
  simp only [List.all_eq_true, Bool.or_eq_true, bne_iff_ne, ne_eq, closedSt_iff]
  constructor
  · intro h c hc he
    rcases h c hc with h | h
    · exact absurd he h
    · exact h
  · intro h c hc
    by_cases he : c.epicId = e
    · exact Or.inr (h c hc he)
    · exact Or.inl he

theorem areEpicDepsComplete_iff {g : Graph} (hwf : WF g) (e0 : Id) :
    areEpicDepsComplete g e0 = true ↔
      ∀ e, (e0, e) ∈ g.deps → ∀ ep ∈ g.tasks, ep.id = e → ep.isEpic = true →
        ∀ c ∈ g.tasks, c.epicId = e → closedSt c.st := by
  unfold areEpicDepsComplete
  simp only [List.all_eq_true, mem_depsOf]
  constructor
  · intro h e he ep hep hid hisE
    have h1 := h e he
    rw [(Graph.find?_iff hwf e ep).mpr ⟨hep, hid⟩] at h1
    simp only [hisE, Bool.not_true, Bool.false_or] at h1
    exact (isEpicComplete_iff g e).mp h1
  · intro h e he
    cases hf : g.find? e with
    | none => rfl
    | some ep =>
      have ⟨h1, h2⟩ := (Graph.find?_iff hwf e ep).mp hf
      simp only [Bool.or_eq_true, Bool.not_eq_true']
      by_cases hE : ep.isEpic = true
      · right; exact (isEpicComplete_iff g e).mpr (h e he ep h1 h2 hE)
      · left; simpa using hE

theorem isReady_iff (g : Graph) (hwf : WF g) (t : Task) : isReady g t = true ↔ ReadySpec g t := by
  unfold isReady ReadySpec
  simp only [Bool.and_eq_true, beq_iff_eq, List.all_eq_true, Bool.not_eq_true', Bool.or_eq_true,
    mem_depsOf, depOpen_false_iff hwf, areEpicDepsComplete_iff hwf, and_assoc]
  constructor
  · rintro ⟨h1, h2, h3, h4⟩
    refine ⟨h1, h2, h3, ?_⟩
    intro hne
    rcases h4 with h4 | h4
    · exact absurd h4 hne
    · exact h4
  · rintro ⟨h1, h2, h3, h4⟩
    refine ⟨h1, h2, h3, ?_⟩
    by_cases he : t.epicId = ""
    · exact Or.inl he
    · exact Or.inr (h4 he)


theorem isBlocked_eq_not_isReady (g : Graph) (t : Task) (h1 : t.st = .todo) (h2 : t.claimedBy = "") :
    isBlocked g t = !isReady g t := by
  unfold isBlocked isReady
  simp only [h1, h2, beq_self_eq_true, bne_self_eq_false, Bool.or_self, Bool.true_and,
    Bool.not_and, Bool.not_or, List.not_all_eq_any_not, Bool.not_not]
  have : (St.todo == St.blocked) = false := by decide
  simp only [this, Bool.false_eq_true, if_false]
  cases (g.depsOf t.id).any fun d => depOpen g d <;> simp [bne]

theorem isBlocked_iff (g : Graph) (hwf : WF g) (t : Task) : isBlocked g t = true ↔ BlockedSpec g t := by
  unfold BlockedSpec
  rw [← isReady_iff g hwf t]
  by_cases hb : t.st = .blocked
  · simp [isBlocked, hb]
  by_cases h1 : t.st = .todo
  · by_cases h2 : t.claimedBy = ""
    · rw [isBlocked_eq_not_isReady g t h1 h2]
      simp [h1, h2]
    · have : isBlocked g t = false := by
        unfold isBlocked; simp [hb, h2]
      simp [this, hb, h2]
  · have : isBlocked g t = false := by
      unfold isBlocked; simp [hb, h1]
    simp [this, hb, h1]

/-- `claim` / `list --ready`: exactly the ready non-epic items (of the epic, if one is given) -/
theorem mem_readyTasks (g : Graph) (epic : Id) (t : Task) :
    t ∈ readyTasks g epic ↔ t ∈ g.tasks ∧ t.isEpic = false ∧ isReady g t = true ∧ (epic = "" ∨ t.epicId = epic) := by
  unfold readyTasks
  simp only [List.mem_mergeSort, List.mem_filter, Bool.and_eq_true, Bool.or_eq_true, beq_iff_eq,
    Bool.not_eq_true']
  constructor
  · rintro ⟨h1, ⟨h2, h3⟩, h4⟩; exact ⟨h1, h4, h3, h2⟩
  · rintro ⟨h1, h4, h3, h2⟩; exact ⟨h1, ⟨h2, h3⟩, h4⟩

theorem claimLe_refl (a : Task) : claimLe a a = true := by
  have := claimLe_total a a; simpa using this

/-- the task `claim` hands out is the earliest-created ready one (ties broken by id) -/
theorem readyTasks_head_min (g : Graph) (epic : Id) (t : Task) (rest : List Task)
    (h : readyTasks g epic = t :: rest) : ∀ u ∈ readyTasks g epic, claimLe t u = true := by
  have hp : (readyTasks g epic).Pairwise (fun a b => claimLe a b = true) := by
    unfold readyTasks
    exact List.pairwise_mergeSort claimLe_trans claimLe_total _
  rw [h] at hp ⊢
  intro u hu
  rcases List.mem_cons.mp hu with rfl | hu
  · exact claimLe_refl _
  · exact List.rel_of_pairwise_cons hp hu

/-- "nothing is ready" is said exactly when the ready set is empty -/
theorem readyTasks_nil_iff (g : Graph) (epic : Id) :
    readyTasks g epic = [] ↔ ∀ t ∈ g.tasks, ¬ (t.isEpic = false ∧ isReady g t = true ∧ (epic = "" ∨ t.epicId = epic)) := by
  rw [List.eq_nil_iff_forall_not_mem]
  constructor
  · intro h t ht hc
    exact h t ((mem_readyTasks g epic t).mpr ⟨ht, hc⟩)
  · intro h t ht
    have := (mem_readyTasks g epic t).mp ht
    exact h t this.1 this.2


/-! ### independence of the list order -/
theorem mergeSort_eq_of_perm {α : Type} (le : α → α → Bool)
    (trans : ∀ a b c : α, le a b = true → le b c = true → le a c = true)
    (total : ∀ a b : α, (le a b || le b a) = true)
    {l l' : List α} (anti : ∀ a ∈ l, ∀ b ∈ l, le a b = true → le b a = true → a = b)
    (h : l.Perm l') : l.mergeSort le = l'.mergeSort le := by
  apply List.Perm.eq_of_pairwise (le := fun a b => le a b = true)
  · intro a b ha hb
    exact anti a (List.mem_mergeSort.mp ha) b (h.mem_iff.mpr (List.mem_mergeSort.mp hb))
  · exact List.pairwise_mergeSort trans total _
  · exact List.pairwise_mergeSort trans total _
  · exact (List.mergeSort_perm l le).trans (h.trans (List.mergeSort_perm l' le).symm)

theorem depsOf_perm {g g' : Graph} (hd : g.deps.Perm g'.deps) (a : Id) :
    (g.depsOf a).Perm (g'.depsOf a) := (hd.filter _).map _

theorem find?_perm {g g' : Graph} (hwf : WF g) (ht : g.tasks.Perm g'.tasks) (d : Id) :
    g.find? d = g'.find? d := find?_id_perm hwf.nodup ht d

theorem depOpen_perm {g g' : Graph} (hwf : WF g) (ht : g.tasks.Perm g'.tasks) (d : Id) :
    depOpen g d = depOpen g' d := by
  unfold depOpen; rw [find?_perm hwf ht d]

theorem isEpicComplete_perm {g g' : Graph} (ht : g.tasks.Perm g'.tasks) (e : Id) :
    isEpicComplete g e = isEpicComplete g' e := ht.all_eq

theorem areEpicDepsComplete_perm {g g' : Graph} (hwf : WF g) (ht : g.tasks.Perm g'.tasks)
    (hd : g.deps.Perm g'.deps) (e : Id) :
    areEpicDepsComplete g e = areEpicDepsComplete g' e := by
  unfold areEpicDepsComplete
  rw [(depsOf_perm hd e).all_eq]
  congr 1
  funext d
  rw [find?_perm hwf ht d, isEpicComplete_perm ht d]

theorem isReady_perm {g g' : Graph} (hwf : WF g) (ht : g.tasks.Perm g'.tasks)
    (hd : g.deps.Perm g'.deps) (t : Task) : isReady g t = isReady g' t := by
  unfold isReady
  rw [(depsOf_perm hd t.id).all_eq, areEpicDepsComplete_perm hwf ht hd]
  congr 3
  funext d
  rw [depOpen_perm hwf ht d]

theorem isBlocked_perm {g g' : Graph} (hwf : WF g) (ht : g.tasks.Perm g'.tasks)
    (hd : g.deps.Perm g'.deps) (t : Task) : isBlocked g t = isBlocked g' t := by
  unfold isBlocked
  rw [(depsOf_perm hd t.id).any_eq, areEpicDepsComplete_perm hwf ht hd]
  have : depOpen g = depOpen g' := funext (depOpen_perm hwf ht)
  rw [this]

theorem readyTasks_perm (g g' : Graph) (hwf : WF g) (ht : g.tasks.Perm g'.tasks) (hd : g.deps.Perm g'.deps) (epic : Id) :
    readyTasks g epic = readyTasks g' epic := by
  unfold readyTasks
  have hf : (fun t : Task => (epic == "" || t.epicId == epic) && isReady g t && !t.isEpic) =
      (fun t : Task => (epic == "" || t.epicId == epic) && isReady g' t && !t.isEpic) := by
    funext t; rw [isReady_perm hwf ht hd t]
  rw [hf]
  apply mergeSort_eq_of_perm claimLe claimLe_trans claimLe_total
  · intro a ha b hb h1 h2
    exact inj_of_nodup_map (·.id) hwf.nodup a (List.mem_filter.mp ha).1 b (List.mem_filter.mp hb).1
      (claimLe_antisymm a b h1 h2)
  · exact ht.filter _

theorem epicHasRemaining_perm {g g' : Graph} (ht : g.tasks.Perm g'.tasks) (e : Id) :
    epicHasRemaining g e = epicHasRemaining g' e := ht.any_eq

theorem pruneTargets_perm (g g' : Graph) (hwf : WF g) (ht : g.tasks.Perm g'.tasks) :
    pruneTargets g = pruneTargets g' := by
  have _ := hwf -- not needed: `strLe` is antisymmetric on all strings
  unfold pruneTargets sortIds
  have hf : (fun e : Task => e.isEpic && !epicHasRemaining g e.id) =
      (fun e : Task => e.isEpic && !epicHasRemaining g' e.id) := by
    funext e; rw [epicHasRemaining_perm ht]
  rw [hf]
  apply mergeSort_eq_of_perm strLe strLe_trans strLe_total
  · intro a _ b _ h1 h2; exact strLe_antisymm a b h1 h2
  · exact ((ht.filter _).map _).append ((ht.filter _).map _)

theorem compactEvents_perm (g g' : Graph) (hwf : WF g) (ht : g.tasks.Perm g'.tasks) (hd : g.deps.Perm g'.deps) :
    compactEvents g = compactEvents g' := by
  unfold compactEvents
  have h1 : g.tasks.mergeSort taskIdLe = g'.tasks.mergeSort taskIdLe := by
    apply mergeSort_eq_of_perm taskIdLe taskIdLe_trans taskIdLe_total _ ht
    intro a ha b hb h1 h2
    exact inj_of_nodup_map (·.id) hwf.nodup a ha b hb (strLe_antisymm a.id b.id h1 h2)
  have h2 : g.deps.mergeSort edgeLe = g'.deps.mergeSort edgeLe := by
    apply mergeSort_eq_of_perm edgeLe edgeLe_trans edgeLe_total _ hd
    intro a _ b _ h1 h2; exact edgeLe_antisymm a b h1 h2
  rw [h1, h2]

end Ergo
