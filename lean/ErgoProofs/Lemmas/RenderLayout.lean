/-
  WP13a — C19 layout: every row of the human list is exactly W−2 columns wide and ends with the id in the same column.
  Definitions: ErgoModel/Render.lean (Cell, Str, visLen, sp, spaces, takeWidth, truncateToWidth, isControl, singleLine, RowIn,
  formatTreeLine, abbreviateKeep).  A display string is a list of cells (character, display width).
-/
import ErgoModel.Render
namespace Ergo.Render

theorem visLen_append (a b : Str) : visLen (a ++ b) = visLen a + visLen b := by
  simp [visLen, List.map_append, List.sum_append]

theorem visLen_nil : visLen [] = 0 := rfl
theorem visLen_nonneg (s : Str) : 0 ≤ visLen s := by
  induction s with
  | nil => simp [visLen]
  | cons c cs ih => simp only [visLen, List.map_cons, List.sum_cons] at *; omega
theorem visLen_cons (c : Cell) (s : Str) : visLen (c :: s) = c.w + visLen s := by
  simp [visLen]

theorem visLen_replicate_sp (k : Nat) : visLen (List.replicate k sp) = k := by
  induction k with
  | zero => rfl
  | succ k ih => rw [List.replicate_succ]; simp only [visLen, List.map_cons, List.sum_cons] at *; rw [ih]; simp [sp]; omega

theorem visLen_spaces (n : Int) (h : 0 ≤ n) : visLen (spaces n) = n := by
  rw [spaces, visLen_replicate_sp]; omega

theorem visLen_takeWidth (s : Str) (t : Int) (ht : 0 ≤ t) : visLen (takeWidth s t) ≤ t := by
  induction s generalizing t with
  | nil => simpa [takeWidth, visLen] using ht
  | cons c cs ih =>
    simp only [takeWidth]
    split
    · simpa [visLen] using ht
    · rw [visLen_cons]
      have := ih (t - c.w) (by omega)
      omega

/-- truncation never exceeds the width it is given (ellipsis of width 1, as go-runewidth reports outside East-Asian locales) -/
theorem visLen_truncate (ell : Cell) (hell : ell.w = 1) (s : Str) (m : Int) : visLen (truncateToWidth ell s m) ≤ max m 0 := by
  unfold truncateToWidth
  split
  · simp [visLen]; omega
  · split
    · simp [visLen, hell]; omega
    · split
      · omega
      · simp only [hell]
        split
        · simp [visLen, hell]; omega
        · rw [visLen_append, visLen_cons, visLen_nil, hell]
          have := visLen_takeWidth s (m - (1:Nat)) (by omega)
          omega

/-- text that fits is not altered -/
theorem truncate_fits (ell : Cell) (s : Str) (m : Int) (hm : 1 < m) (h : visLen s ≤ m) : truncateToWidth ell s m = s := by
  unfold truncateToWidth
  rw [if_neg (by omega), if_neg (by omega), if_pos h]

theorem takeWidth_prefix (s : Str) (t : Int) : takeWidth s t <+: s := by
  induction s generalizing t with
  | nil => simp [takeWidth]
  | cons c cs ih =>
    simp only [takeWidth]
    split
    · simp
    · simpa using ih _

/-- truncation cuts on cell boundaries: the result is a prefix of the text, possibly followed by the ellipsis -/
theorem truncate_prefix (ell : Cell) (s : Str) (m : Int) :
    truncateToWidth ell s m = [] ∨ truncateToWidth ell s m = s ∨ ∃ p, p <+: s ∧ truncateToWidth ell s m = p ++ [ell] := by
  unfold truncateToWidth
  split
  · left; rfl
  · split
    · right; right; exact ⟨[], by simp, rfl⟩
    · split
      · right; left; rfl
      · right; right
        simp only
        split
        · exact ⟨[], by simp, rfl⟩
        · exact ⟨_, takeWidth_prefix _ _, rfl⟩


/-! ### the layout, piece by piece (`formatTreeLine_eq` is by `rfl`) -/

def clamp0 (x : Int) : Int := if x < 0 then 0 else x

def titleAnnOf (ell : Cell) (T A : Str) (mc : Int) : Str × Str :=
  if visLen T + visLen A > mc then
    ((if visLen T > mc then truncateToWidth ell T mc else T),
     (if mc - visLen T > 0 && !A.isEmpty then truncateToWidth ell A (mc - visLen T) else []))
  else (T, A)

def blockerColOf (W idStart : Int) : Int :=
  let blockerCol0 := W * 55 / 100
  let maxStart := idStart - 2 - 1
  if blockerCol0 > maxStart then maxStart else blockerCol0

def sbOf (W idStart : Int) (left : Str) : Str :=
  let pad := blockerColOf W idStart - visLen left
  left ++ (if pad > 1 then spaces pad else [sp, sp])

def withBlockerOf (ell : Cell) (W idStart : Int) (left B : Str) : Str :=
  if B.isEmpty then left
  else
    if idStart - 2 - visLen left > 6 then
      let sb := sbOf W idStart left
      let maxB := idStart - 2 - visLen sb
      if maxB > 0 then sb ++ (if visLen B > maxB then truncateToWidth ell B maxB else B) else sb
    else left

theorem formatTreeLine_eq (ell : Cell) (r : RowIn) :
    formatTreeLine ell r =
      let idStart := clamp0 (r.width - 2 - r.id.length - 2)
      let mc := clamp0 (idStart - 2 - visLen r.base)
      let ta := titleAnnOf ell (singleLine r.title) (singleLine r.annotation) mc
      let wb := withBlockerOf ell r.width idStart (r.base ++ ta.1 ++ ta.2) (singleLine r.blocker)
      wb ++ spaces (clamp0 (idStart - visLen wb)) ++ [sp, sp] ++ r.id := by
  rfl

theorem titleAnnOf_width (ell : Cell) (hell : ell.w = 1) (T A : Str) (mc : Int) (hmc : 0 ≤ mc) :
    visLen (titleAnnOf ell T A mc).1 + visLen (titleAnnOf ell T A mc).2 ≤ mc := by
  unfold titleAnnOf
  split
  · dsimp only
    by_cases hT : visLen T > mc
    · rw [if_pos hT]
      have h1 := visLen_truncate ell hell T mc
      have h2 : (decide (mc - visLen T > 0) && !A.isEmpty) = false := by
        have : decide (mc - visLen T > 0) = false := decide_eq_false (by omega)
        rw [this, Bool.false_and]
      rw [h2]
      simp only [Bool.false_eq_true, if_false, visLen_nil]
      omega
    · rw [if_neg hT]
      split
      · rename_i h
        have h1 := visLen_truncate ell hell A (mc - visLen T)
        simp only [Bool.and_eq_true, decide_eq_true_eq] at h
        omega
      · rw [visLen_nil]; omega
  · dsimp only; omega

theorem sbOf_width (W idStart : Int) (left : Str) (h : idStart - 2 - visLen left > 6) :
    visLen (sbOf W idStart left) ≤ idStart - 3 := by
  have hbc : blockerColOf W idStart ≤ idStart - 3 := by
    unfold blockerColOf; dsimp only; split <;> omega
  unfold sbOf
  dsimp only
  rw [visLen_append]
  split
  · rename_i hp
    rw [visLen_spaces _ (by omega)]
    omega
  · simp only [visLen_cons, visLen_nil, sp]; omega

theorem withBlockerOf_width (ell : Cell) (hell : ell.w = 1) (W idStart : Int) (left B : Str)
    (h : visLen left ≤ idStart - 2) : visLen (withBlockerOf ell W idStart left B) ≤ idStart - 2 := by
  unfold withBlockerOf
  split
  · exact h
  · split
    · rename_i hav
      have hsb := sbOf_width W idStart left hav
      dsimp only
      split
      · rw [visLen_append]
        split
        · have := visLen_truncate ell hell B (idStart - 2 - visLen (sbOf W idStart left))
          omega
        · omega
      · omega
    · exact h

/-! ### control characters -/
def NC (s : Str) : Prop := ∀ c ∈ s, isControl c.ch = false

theorem NC_nil : NC [] := by intro c h; cases h
theorem NC_append {a b : Str} (ha : NC a) (hb : NC b) : NC (a ++ b) := by
  intro c h; rcases List.mem_append.1 h with h | h
  · exact ha c h
  · exact hb c h
theorem NC_sp : isControl sp.ch = false := by decide
theorem NC_spaces (n : Int) : NC (spaces n) := by
  intro c h
  rw [spaces] at h
  rw [(List.mem_replicate.1 h).2]; exact NC_sp
theorem NC_sp2 : NC [sp, sp] := by
  intro c h
  simp only [List.mem_cons, List.not_mem_nil, or_false, or_self] at h
  rw [h]; exact NC_sp
theorem NC_singleLine (s : Str) : NC (singleLine s) := by
  intro c h
  rw [singleLine] at h
  obtain ⟨d, _, rfl⟩ := List.mem_map.1 h
  by_cases hd : isControl d.ch = true
  · rw [if_pos hd]; exact NC_sp
  · rw [if_neg hd]; simpa using hd
theorem NC_of_prefix {p s : Str} (hp : p <+: s) (hs : NC s) : NC p :=
  fun c h => hs c (hp.subset h)
theorem NC_truncate (ell : Cell) (hell : isControl ell.ch = false) (s : Str) (m : Int) (hs : NC s) :
    NC (truncateToWidth ell s m) := by
  have hl : NC [ell] := by
    intro c h
    simp only [List.mem_cons, List.not_mem_nil, or_false] at h
    rw [h]; exact hell
  rcases truncate_prefix ell s m with h | h | ⟨p, hp, h⟩
  · rw [h]; exact NC_nil
  · rw [h]; exact hs
  · rw [h]; exact NC_append (NC_of_prefix hp hs) hl

theorem NC_titleAnnOf (ell : Cell) (hell : isControl ell.ch = false) (T A : Str) (mc : Int) (hT : NC T) (hA : NC A) :
    NC (titleAnnOf ell T A mc).1 ∧ NC (titleAnnOf ell T A mc).2 := by
  unfold titleAnnOf
  split
  · dsimp only
    constructor
    · split
      · exact NC_truncate ell hell _ _ hT
      · exact hT
    · split
      · exact NC_truncate ell hell _ _ hA
      · exact NC_nil
  · exact ⟨hT, hA⟩

theorem NC_sbOf (W idStart : Int) (left : Str) (h : NC left) : NC (sbOf W idStart left) := by
  unfold sbOf
  dsimp only
  apply NC_append h
  split
  · exact NC_spaces _
  · exact NC_sp2

theorem NC_withBlockerOf (ell : Cell) (hell : isControl ell.ch = false) (W idStart : Int) (left B : Str)
    (hl : NC left) (hB : NC B) : NC (withBlockerOf ell W idStart left B) := by
  unfold withBlockerOf
  split
  · exact hl
  · split
    · dsimp only
      split
      · apply NC_append (NC_sbOf _ _ _ hl)
        split
        · exact NC_truncate ell hell _ _ hB
        · exact hB
      · exact NC_sbOf _ _ _ hl
    · exact hl

theorem visLen_of_w1 (s : Str) (h : ∀ c ∈ s, c.w = 1) : visLen s = s.length := by
  induction s with
  | nil => rfl
  | cons c cs ih =>
    rw [visLen_cons, ih (fun d hd => h d (List.mem_cons_of_mem _ hd)), h c (List.mem_cons_self ..)]
    simp only [List.length_cons]; omega

/-- C19 row layout.  The terminal is wide enough for prefix+icon, the two gaps, the id and the right margin
    (`W ≥ base + |id| + 6`; for a six-character id that is base + 12).  Then whatever the title, claimant annotation and
    blocker text are — any characters, any widths — the row is exactly `W − 2` columns wide and consists of a left part of
    width `W − 2 − |id|` followed by the id: the id always starts in the same column. -/
theorem row_width (ell : Cell) (hell : ell.w = 1) (r : RowIn) (hid : ∀ c ∈ r.id, c.w = 1)
    (hW : r.width ≥ visLen (singleLine r.base) + r.id.length + 6) (hbase : singleLine r.base = r.base) :
    ∃ left, formatTreeLine ell r = left ++ r.id ∧ visLen left = r.width - 2 - r.id.length ∧
      visLen (formatTreeLine ell r) = r.width - 2 := by
  rw [hbase] at hW
  have hb0 := visLen_nonneg r.base
  rw [formatTreeLine_eq]
  dsimp only
  have hidS : clamp0 (r.width - 2 - r.id.length - 2) = r.width - r.id.length - 4 := by
    unfold clamp0; split <;> omega
  rw [hidS]
  have hmc : clamp0 (r.width - r.id.length - 4 - 2 - visLen r.base) = r.width - r.id.length - 6 - visLen r.base := by
    unfold clamp0; split <;> omega
  rw [hmc]
  generalize hta : titleAnnOf ell (singleLine r.title) (singleLine r.annotation)
    (r.width - r.id.length - 6 - visLen r.base) = ta
  have h1 := titleAnnOf_width ell hell (singleLine r.title) (singleLine r.annotation)
    (r.width - r.id.length - 6 - visLen r.base) (by omega)
  rw [hta] at h1
  have h2 := withBlockerOf_width ell hell r.width (r.width - r.id.length - 4) (r.base ++ ta.1 ++ ta.2)
    (singleLine r.blocker) (by rw [visLen_append, visLen_append]; omega)
  generalize withBlockerOf ell r.width (r.width - r.id.length - 4) (r.base ++ ta.1 ++ ta.2) (singleLine r.blocker) = wb at h2 ⊢
  have hpad : clamp0 (r.width - r.id.length - 4 - visLen wb) = r.width - r.id.length - 4 - visLen wb := by
    unfold clamp0; split <;> omega
  rw [hpad]
  have hL : visLen (wb ++ spaces (r.width - r.id.length - 4 - visLen wb) ++ [sp, sp]) = r.width - 2 - r.id.length := by
    rw [visLen_append, visLen_append, visLen_spaces _ (by omega)]
    simp only [visLen_cons, visLen_nil, sp]; omega
  refine ⟨_, rfl, hL, ?_⟩
  rw [visLen_append, hL, visLen_of_w1 _ hid]; omega

/-- no control character (newline, tab, …) of the title, annotation or blocker text reaches the row -/
theorem row_no_control (ell : Cell) (hell : isControl ell.ch = false) (r : RowIn)
    (hbase : ∀ c ∈ r.base, isControl c.ch = false) (hid : ∀ c ∈ r.id, isControl c.ch = false) :
    ∀ c ∈ formatTreeLine ell r, isControl c.ch = false := by
  rw [formatTreeLine_eq]
  dsimp only
  have hta := NC_titleAnnOf ell hell (singleLine r.title) (singleLine r.annotation)
    (clamp0 (clamp0 (r.width - 2 - r.id.length - 2) - 2 - visLen r.base)) (NC_singleLine _) (NC_singleLine _)
  exact NC_append (NC_append (NC_append
    (NC_withBlockerOf ell hell _ _ _ _ (NC_append (NC_append hbase hta.1) hta.2) (NC_singleLine _))
    (NC_spaces _)) NC_sp2) hid

theorem abbreviateKeep_go_le (ls : List Nat) (room k : Nat) : abbreviateKeep.go ls room k ≤ k + ls.length := by
  induction ls generalizing room k with
  | nil => simp [abbreviateKeep.go]
  | cons l ls ih =>
    simp only [abbreviateKeep.go]
    split
    · have := ih (room - l) (k+1); simp; omega
    · omega

/-- `abbreviate` keeps whole characters only and never more than `maxLen` bytes (with the three bytes of "…" it may
    exceed by at most 2 — the code reserves one byte for it; stated exactly) -/
theorem abbreviateKeep_le (lens : List Nat) (maxLen : Nat) : abbreviateKeep lens maxLen ≤ lens.length := by
  unfold abbreviateKeep
  split
  · omega
  · split
    · omega
    · have := abbreviateKeep_go_le lens (maxLen - 1) 0
      simpa using this

theorem abbreviateKeep_go_bytes (ls : List Nat) (room k : Nat) :
    ∃ j, abbreviateKeep.go ls room k = k + j ∧ (ls.take j).sum ≤ room := by
  induction ls generalizing room k with
  | nil => exact ⟨0, by simp [abbreviateKeep.go]⟩
  | cons l ls ih =>
    simp only [abbreviateKeep.go]
    split
    · obtain ⟨j, h1, h2⟩ := ih (room - l) (k+1)
      refine ⟨j+1, by omega, ?_⟩
      simp [List.take_succ_cons]; omega
    · exact ⟨0, by simp⟩

theorem abbreviateKeep_bytes (lens : List Nat) (maxLen : Nat) (h : maxLen < lens.sum) (h1 : 1 < maxLen) :
    (lens.take (abbreviateKeep lens maxLen)).sum ≤ maxLen - 1 := by
  unfold abbreviateKeep
  rw [if_neg (by omega), if_neg (by omega)]
  obtain ⟨j, h1, h2⟩ := abbreviateKeep_go_bytes lens (maxLen - 1) 0
  simp only [h1]
  simpa using h2
end Ergo.Render
