/-
  Compaction of *any* log that replays — hand-merged, stamps in any order, torn claims, items outside every CLI invariant: what each item
  is (kind, state, claimant, title, body, its results in order, its creation time, a task's epic) and the edges survive; only the pruned
  ids' tombstones go (as documented) and, on logs whose stamps are not in line order, `updated_at` may move (DESIGN §6).
  No `ReachOK`, no clock assumption: `replayRaw_WF` gives unique ids, and `rebuild_eq` holds for every item.
-/
import ErgoProofs.Lemmas.CompactGraph
import ErgoProofs.Lemmas.ReplayInv
namespace Ergo

/-- what an item is, without the bookkeeping stamps -/
def Task.core (t : Task) : Id × Bool × St × String × String × String × List ResultRec × Time × Id :=
  (t.id, t.isEpic, t.st, t.claimedBy, t.title, t.body, t.results, t.createdAt, if t.isEpic then "" else t.epicId)

theorem rebuildX_core (t : Task) : (rebuildX t).core = t.core := by
  unfold Task.core
  have he : (if (rebuildX t).isEpic = true then "" else (rebuildX t).epicId) = (if t.isEpic = true then "" else t.epicId) := by
    show (if t.isEpic = true then "" else (if emitEpic t then t.epicId else t.cEpic)) = _
    cases hep : t.isEpic
    · simp only [Bool.false_eq_true, if_false]
      by_cases hem : emitEpic t = true
      · simp [hem]
      · simp only [hem, if_false]
        simp only [emitEpic, hep, Bool.not_false, Bool.true_and, Bool.or_eq_true, not_or, bne_iff_ne, ne_eq, Decidable.not_not] at hem
        exact hem.1.symm
    · simp
  rw [he]
  rfl

/-- every log whose event loop succeeds: replaying its compaction succeeds, every item — looked up by id — is what it was, the edges are the same -/
theorem compact_any_log (log : List Event) (g : Graph) (hr : replayRaw log = .ok g) :
    ∃ g', replayRaw (compactEvents g) = .ok g' ∧ (∀ id, (g'.find? id).map Task.core = (g.find? id).map Task.core) ∧
      (∀ e, e ∈ g'.deps ↔ e ∈ g.deps) ∧ g'.tombs = [] := by
  have hwf := replayRaw_WF log g hr
  refine ⟨compacted g, replayRaw_compact g hwf, ?_, fun e => List.mem_mergeSort, rfl⟩
  intro id
  have hp := List.mergeSort_perm g.tasks taskIdLe
  have hnd : ((g.tasks.mergeSort taskIdLe).map (·.id)).Nodup := (hp.map _).nodup_iff.mpr hwf.nodup
  have h1 : (compacted g).find? id = ((g.tasks.mergeSort taskIdLe).find? (·.id == id)).map rebuild := by
    simp only [Graph.find?, compacted, List.find?_map]
    congr 2
    funext t; simp [rebuild_id]
  rw [h1, find?_perm_tasks _ _ hp hnd id]
  show Option.map Task.core (Option.map rebuild (g.find? id)) = _
  cases hf : g.find? id with
  | none => rfl
  | some t => simp only [Option.map_some, rebuild_eq, rebuildX_core]

end Ergo
