/-
  WP5 — invariants of replay (C09 permanence, and the base every reachability theorem stands on).
  Definitions: applyEvent, replayRaw, replay, migrate, applyTombstone (ErgoModel/Replay.lean); WF (ErgoProofs/Spec.lean).
-/
import ErgoProofs.Spec
import ErgoProofs.Lemmas.TaskStep
namespace Ergo

theorem replayRaw_append (l e : List Event) :
    replayRaw (l ++ e) = (replayRaw l).bind fun g => e.foldlM applyEvent g := by
  simp only [replayRaw, List.foldlM_append]
  rfl

theorem WF_empty : WF Graph.empty := by
  refine ⟨?_, ?_, ?_, ?_⟩ <;> simp [Graph.empty]

/-! ### helpers -/

theorem Graph.tombed_iff (g : Graph) (id : Id) : g.tombed id = true ↔ id ∈ g.tombs := by
  simp [Graph.tombed]

theorem Graph.tombed_false_iff (g : Graph) (id : Id) : g.tombed id = false ↔ id ∉ g.tombs := by
  simp [Graph.tombed]

theorem Graph.has_false_iff (g : Graph) (id : Id) : g.has id = false ↔ ∀ t ∈ g.tasks, t.id ≠ id := by
  simp [Graph.has]

theorem WF_update (g : Graph) (id : Id) (f : Task → Task) (hf : ∀ k, (f k).id = k.id) (h : WF g) :
    WF (g.update id f) := by
  refine ⟨?_, ?_, h.deps_not_tombed, h.deps_nodup⟩
  · rw [Graph.update_tasks_ids g id f hf]; exact h.nodup
  · intro t ht
    have hm : t.id ∈ (g.update id f).tasks.map (·.id) := List.mem_map_of_mem ht
    rw [Graph.update_tasks_ids g id f hf] at hm
    obtain ⟨t', ht', e⟩ := List.mem_map.1 hm
    show t.id ∉ g.tombs
    rw [← e]; exact h.live_not_tombed t' ht'

theorem withLive_cases (g g' : Graph) (id : Id) (ts : Option Time) (f : Task → Time → Task)
    (he : withLive g id ts f = .ok g') : g' = g ∨ ∃ t, g' = g.update id (fun k => f k t) := by
  unfold withLive at he
  split at he
  · left; cases he; rfl
  · split at he
    · left; cases he; rfl
    · cases ts with
      | none => cases he
      | some t => right; exact ⟨t, by cases he; rfl⟩

theorem withLive_WF (g g' : Graph) (id : Id) (ts : Option Time) (f : Task → Time → Task)
    (hf : ∀ k t, (f k t).id = k.id) (h : WF g) (he : withLive g id ts f = .ok g') : WF g' := by
  rcases withLive_cases g g' id ts f he with rfl | ⟨t, rfl⟩
  · exact h
  · exact WF_update g id _ (fun k => hf k t) h

theorem withLive_tombs (g g' : Graph) (id : Id) (ts : Option Time) (f : Task → Time → Task)
    (he : withLive g id ts f = .ok g') : g'.tombs = g.tombs := by
  rcases withLive_cases g g' id ts f he with rfl | ⟨t, rfl⟩ <;> rfl

theorem WF_applyTombstone (g : Graph) (id : Id) (h : WF g) : WF (applyTombstone g id) := by
  have hsub : ∀ i, i ∈ (applyTombstone g id).tombs → i ∈ g.tombs ∨ i = id := by
    intro i hi
    simp only [applyTombstone] at hi
    split at hi
    · exact Or.inl hi
    · simpa using hi
  refine ⟨?_, ?_, ?_, ?_⟩
  · simp only [applyTombstone]
    exact h.nodup.sublist (List.Sublist.map _ List.filter_sublist)
  · intro t ht hi
    simp only [applyTombstone, List.mem_filter] at ht
    rcases hsub _ hi with h1 | h1
    · exact h.live_not_tombed t ht.1 h1
    · simp [h1] at ht
  · intro e he
    simp only [applyTombstone, List.mem_filter] at he
    have hd := h.deps_not_tombed e he.1
    have h2 := he.2
    simp only [Bool.and_eq_true, bne_iff_ne, ne_eq] at h2
    constructor
    · intro hi
      rcases hsub _ hi with h1 | h1
      · exact hd.1 h1
      · exact h2.1 h1
    · intro hi
      rcases hsub _ hi with h1 | h1
      · exact hd.2 h1
      · exact h2.2 h1
  · simp only [applyTombstone]
    exact h.deps_nodup.sublist List.filter_sublist

theorem applyTombstone_tombs_mono (g : Graph) (id : Id) : ∀ i ∈ g.tombs, i ∈ (applyTombstone g id).tombs := by
  intro i hi
  simp only [applyTombstone]
  split
  · exact hi
  · exact List.mem_append_left _ hi

theorem applyTombstone_mem_tombs (g : Graph) (id : Id) : id ∈ (applyTombstone g id).tombs := by
  simp only [applyTombstone]
  split
  · rename_i h; simpa using h
  · simp

/-- replay keeps live ids unique, never live-and-pruned, and no edge at a pruned id — for *every* event list -/
theorem applyEvent_WF (g g' : Graph) (e : Event) (h : WF g) (he : applyEvent g e = .ok g') : WF g' := by
  cases e with
  | newItem isEpic id uuid epicId st title body createdAt =>
    simp only [applyEvent] at he
    split at he
    · cases he; exact h
    · rename_i htomb
      split at he
      · cases he
      · rename_i hhas
        cases createdAt with
        | none => cases he
        | some c =>
          cases he
          have hnt : id ∉ g.tombs := by simpa [Graph.tombed] using htomb
          have hnh : ∀ t ∈ g.tasks, t.id ≠ id := by simpa [Graph.has] using hhas
          refine ⟨?_, ?_, h.deps_not_tombed, h.deps_nodup⟩
          · simp only [List.map_append, List.map_cons, List.map_nil]
            rw [List.nodup_append]
            refine ⟨h.nodup, by simp, ?_⟩
            intro a ha b hb
            simp only [List.mem_singleton] at hb
            obtain ⟨t, ht, rfl⟩ := List.mem_map.1 ha
            rw [hb]; exact hnh t ht
          · intro t ht
            simp only [List.mem_append, List.mem_singleton] at ht
            rcases ht with ht | rfl
            · exact h.live_not_tombed t ht
            · exact hnt
  | state id st ts => (simp only [applyEvent] at he; refine withLive_WF g g' _ _ _ ?_ h he; intros; rfl)
  | claim id agent ts => (simp only [applyEvent] at he; refine withLive_WF g g' _ _ _ ?_ h he; intros; rfl)
  | unclaim id =>
    simp only [applyEvent] at he
    split at he
    · cases he; exact h
    · cases he; exact WF_update g id _ (fun _ => rfl) h
  | link f t dep =>
    simp only [applyEvent] at he
    split at he
    · cases he; exact h
    · rename_i hc
      split at he
      · cases he; exact h
      · rename_i hnc
        cases he
        simp only [Bool.or_eq_true, not_or, Graph.tombed, Bool.not_eq_true] at hc
        have hf : f ∉ g.tombs := by simpa using hc.1.1
        have ht : t ∉ g.tombs := by simpa using hc.1.2
        have hn : (f, t) ∉ g.deps := by simpa using hnc
        refine ⟨h.nodup, h.live_not_tombed, ?_, ?_⟩
        · intro e he
          simp only [List.mem_append, List.mem_singleton] at he
          rcases he with he | rfl
          · exact h.deps_not_tombed e he
          · exact ⟨hf, ht⟩
        · show (g.deps ++ [(f, t)]).Nodup
          rw [List.nodup_append]
          refine ⟨h.deps_nodup, by simp, ?_⟩
          intro a ha b hb
          simp only [List.mem_singleton] at hb
          rw [hb]; intro hab; exact hn (hab ▸ ha)
  | unlink f t dep =>
    simp only [applyEvent] at he
    split at he
    · cases he; exact h
    · cases he
      refine ⟨h.nodup, h.live_not_tombed, ?_, ?_⟩
      · intro e he
        exact h.deps_not_tombed e (List.mem_filter.1 he).1
      · exact h.deps_nodup.sublist List.filter_sublist
  | title id s ts => (simp only [applyEvent] at he; refine withLive_WF g g' _ _ _ ?_ h he; intros; rfl)
  | body id s ts => (simp only [applyEvent] at he; refine withLive_WF g g' _ _ _ ?_ h he; intros; rfl)
  | epic id e ts => (simp only [applyEvent] at he; refine withLive_WF g g' _ _ _ ?_ h he; intros; rfl)
  | tombstone id agent ts =>
    cases ts with
    | none => cases he
    | some t => cases he; exact WF_applyTombstone g id h
  | result task summary path sha mtime git ts => (simp only [applyEvent] at he; refine withLive_WF g g' _ _ _ ?_ h he; intros; rfl)
  | ignored => cases he; exact h
  | badData => cases he

theorem foldlM_WF (g g' : Graph) (evs : List Event) (h : WF g) (he : evs.foldlM applyEvent g = .ok g') : WF g' := by
  induction evs generalizing g with
  | nil => cases he; exact h
  | cons e es ih =>
    rw [List.foldlM_cons] at he
    cases h1 : applyEvent g e with
    | error x => rw [h1] at he; cases he
    | ok g1 =>
      rw [h1] at he
      exact ih g1 (applyEvent_WF g g1 e h h1) he

theorem replayRaw_WF (evs : List Event) (g : Graph) (h : replayRaw evs = .ok g) : WF g :=
  foldlM_WF Graph.empty g evs WF_empty h

theorem migrateTask_id (t : Task) : (migrateTask t).id = t.id := by
  unfold migrateTask
  split <;> rfl

theorem migrate_tasks_ids (g : Graph) : (migrate g).tasks.map (·.id) = g.tasks.map (·.id) := by
  simp only [migrate, List.map_map]
  apply List.map_congr_left
  intro t _
  exact migrateTask_id t

theorem migrate_WF (g : Graph) (h : WF g) : WF (migrate g) := by
  refine ⟨?_, ?_, h.deps_not_tombed, h.deps_nodup⟩
  · rw [migrate_tasks_ids]; exact h.nodup
  · intro t ht
    have hm : t.id ∈ (migrate g).tasks.map (·.id) := List.mem_map_of_mem ht
    rw [migrate_tasks_ids] at hm
    obtain ⟨t', ht', e⟩ := List.mem_map.1 hm
    show t.id ∉ g.tombs
    rw [← e]; exact h.live_not_tombed t' ht'

theorem replay_ok (evs : List Event) (g : Graph) (h : replay evs = .ok g) :
    ∃ g0, replayRaw evs = .ok g0 ∧ g = migrate g0 := by
  unfold replay at h
  cases h1 : replayRaw evs with
  | error x => rw [h1] at h; cases h
  | ok g0 => rw [h1] at h; cases h; exact ⟨g0, rfl, rfl⟩

theorem replay_WF (evs : List Event) (g : Graph) (h : replay evs = .ok g) : WF g := by
  obtain ⟨g0, h0, rfl⟩ := replay_ok evs g h
  exact migrate_WF g0 (replayRaw_WF evs g0 h0)

/-- tombstones only accumulate -/
theorem applyEvent_tombs_mono (g g' : Graph) (e : Event) (he : applyEvent g e = .ok g') : ∀ i ∈ g.tombs, i ∈ g'.tombs := by
  have key : g'.tombs = g.tombs ∨ ∃ id, g' = applyTombstone g id := by
    cases e with
    | newItem isEpic id uuid epicId st title body createdAt =>
      simp only [applyEvent] at he
      split at he
      · cases he; exact Or.inl rfl
      · split at he
        · cases he
        · cases createdAt with
          | none => cases he
          | some c => cases he; exact Or.inl rfl
    | state id st ts => exact Or.inl (withLive_tombs g g' id ts _ he)
    | claim id agent ts => exact Or.inl (withLive_tombs g g' id ts _ he)
    | unclaim id =>
      simp only [applyEvent] at he
      split at he <;> (cases he; exact Or.inl rfl)
    | link f t dep =>
      simp only [applyEvent] at he
      split at he
      · cases he; exact Or.inl rfl
      · split at he <;> (cases he; exact Or.inl rfl)
    | unlink f t dep =>
      simp only [applyEvent] at he
      split at he <;> (cases he; exact Or.inl rfl)
    | title id s ts => exact Or.inl (withLive_tombs g g' id ts _ he)
    | body id s ts => exact Or.inl (withLive_tombs g g' id ts _ he)
    | epic id e ts => exact Or.inl (withLive_tombs g g' id ts _ he)
    | tombstone id agent ts =>
      cases ts with
      | none => cases he
      | some t => cases he; exact Or.inr ⟨id, rfl⟩
    | result task summary path sha mtime git ts => exact Or.inl (withLive_tombs g g' task ts _ he)
    | ignored => cases he; exact Or.inl rfl
    | badData => cases he
  intro i hi
  rcases key with h | ⟨id, rfl⟩
  · rw [h]; exact hi
  · exact applyTombstone_tombs_mono g id i hi

theorem foldlM_tombs_mono (g g' : Graph) (evs : List Event) (he : evs.foldlM applyEvent g = .ok g') :
    ∀ i ∈ g.tombs, i ∈ g'.tombs := by
  induction evs generalizing g with
  | nil => cases he; exact fun _ h => h
  | cons e es ih =>
    rw [List.foldlM_cons] at he
    cases h1 : applyEvent g e with
    | error x => rw [h1] at he; cases he
    | ok g1 =>
      rw [h1] at he
      intro i hi
      exact ih g1 he i (applyEvent_tombs_mono g g1 e h1 i hi)

/-- the raw store after a log containing a tombstone for `id` has `id` among its tombstones -/
theorem replayRaw_tombstone_mem (evs : List Event) (g : Graph) (id agent : Id) (ts : Option Time)
    (hmem : Event.tombstone id agent ts ∈ evs) (h : replayRaw evs = .ok g) : id ∈ g.tombs := by
  obtain ⟨l₁, l₂, rfl⟩ := List.append_of_mem hmem
  rw [replayRaw_append] at h
  cases h1 : replayRaw l₁ with
  | error x => rw [h1] at h; cases h
  | ok g1 =>
    rw [h1] at h
    simp only [Except.bind] at h
    rw [List.foldlM_cons] at h
    cases h2 : applyEvent g1 (Event.tombstone id agent ts) with
    | error x => rw [h2] at h; cases h
    | ok g2 =>
      rw [h2] at h
      have hin : id ∈ g2.tombs := by
        cases ts with
        | none => cases h2
        | some t => cases h2; exact applyTombstone_mem_tombs g1 id
      exact foldlM_tombs_mono g2 g l₂ h id hin

/-- C09 "gone for good": whatever the order of an id's create / update / link / tombstone events, and whatever
    other events are interleaved, once the log contains a tombstone for `id` the replayed store has no such item
    and no edge mentioning it. -/
theorem tombstone_gone (evs : List Event) (g : Graph) (id agent : Id) (ts : Option Time)
    (hmem : Event.tombstone id agent ts ∈ evs) (h : replay evs = .ok g) :
    g.has id = false ∧ (∀ e ∈ g.deps, e.1 ≠ id ∧ e.2 ≠ id) ∧ id ∈ g.tombs := by
  have hwf := replay_WF evs g h
  obtain ⟨g0, h0, rfl⟩ := replay_ok evs g h
  have hin : id ∈ (migrate g0).tombs := replayRaw_tombstone_mem evs g0 id agent ts hmem h0
  refine ⟨?_, ?_, hin⟩
  · rw [Graph.has_false_iff]
    intro t ht heq
    exact hwf.live_not_tombed t ht (heq ▸ hin)
  · intro e he
    have hd := hwf.deps_not_tombed e he
    exact ⟨fun h1 => hd.1 (h1 ▸ hin), fun h2 => hd.2 (h2 ▸ hin)⟩

/-- … and no extension of the log brings it back -/
theorem tombstone_stays_gone (evs more : List Event) (g : Graph) (id agent : Id) (ts : Option Time)
    (hmem : Event.tombstone id agent ts ∈ evs) (h : replay (evs ++ more) = .ok g) :
    g.has id = false ∧ (∀ e ∈ g.deps, e.1 ≠ id ∧ e.2 ≠ id) := by
  have := tombstone_gone (evs ++ more) g id agent ts (List.mem_append_left _ hmem) h
  exact ⟨this.1, this.2.1⟩

/-- lookups commute with the legacy-title pass -/
theorem migrate_find (g : Graph) (id : Id) : (migrate g).find? id = (g.find? id).map migrateTask := by
  simp only [Graph.find?, migrate, List.find?_map]
  have hf : ((fun x : Task => x.id == id) ∘ migrateTask) = (fun x => x.id == id) := by
    funext t
    simp [Function.comp, migrateTask_id]
  rw [hf]

theorem migrate_has (g : Graph) (id : Id) : (migrate g).has id = g.has id := by
  simp only [Graph.has, migrate, List.any_map]
  congr 1
  funext t
  simp [Function.comp, migrateTask_id]

theorem migrate_deps (g : Graph) : (migrate g).deps = g.deps := rfl
theorem migrate_tombs (g : Graph) : (migrate g).tombs = g.tombs := rfl

end Ergo
