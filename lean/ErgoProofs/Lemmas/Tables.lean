/-
  The regenerated tables (ErgoModel/Generated/Facts.lean, rewritten from /repo on every run) agree with
  the documented ones.  If /repo's tables change, these stop compiling.
-/
import ErgoProofs.Spec
namespace Ergo

theorem gen_clearsClaim : Gen.clearsClaim = ["todo", "done", "canceled"] := by decide
theorem gen_validStates : Gen.validStates = ["todo", "doing", "done", "blocked", "canceled", "error"] := by decide
theorem gen_replayCases : Gen.replayCases =
    ["body", "claim", "epic", "link", "new_epic", "new_task", "result", "state", "title", "tombstone", "unclaim", "unlink"] := by decide

/-- the model's replay clears the claimant exactly for the states the source lists -/
theorem clearsClaim_gen (s : St) : s.clearsClaim = Gen.clearsClaim.any (St.ofString · == s) := by
  cases s <;> simp [St.clearsClaim, Gen.clearsClaim, St.ofString]

theorem valid_gen (s : St) : s.valid = Gen.validStates.any (St.ofString · == s) := by
  cases s <;> simp [St.valid, Gen.validStates, St.ofString]

theorem validTransition_eq (a b : St) : validTransition a b = (a == b || docTransition a b) := by
  cases a <;> cases b <;> simp [validTransition, Gen.validTransitions, St.ofString, docTransition]

theorem claimInvariantOk_eq (s : St) (c : String) : claimInvariantOk s c = docClaimOk s c := by
  cases s <;> simp [claimInvariantOk, Gen.claimRequired, Gen.claimForbidden, St.ofString, docClaimOk]

end Ergo
