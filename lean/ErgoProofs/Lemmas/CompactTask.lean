/-
  WP2 — C05, part 1: what replaying the block `compactTask t` makes of the item (`rebuild t`), field by field.
-/
import ErgoProofs.Lemmas.TaskStep
namespace Ergo

/-! ### times -/
theorem maxTime_eq (a b : Time) : maxTime a b = max a b := by
  unfold maxTime; unfold Time at *; split <;> omega

theorem maxTime_zero (a : Time) : maxTime a 0 = a := by simp [maxTime]

theorem maxTime_ite_zero (a x : Time) (c : Prop) [Decidable c] :
    maxTime a (if c then x else 0) = if c then maxTime a x else a := by
  split <;> simp [maxTime_zero]

theorem foldl_maxTime (a : Time) (l : List Time) : l.foldl maxTime a = max a (maxTimes l) := by
  induction l generalizing a with
  | nil => simp [maxTimes]
  | cons x l ih =>
    simp only [maxTimes, List.foldl_cons]
    rw [ih, ih (maxTime 0 x), maxTime_eq, maxTime_eq]
    unfold Time at *; omega

theorem maxTimes_cons (x : Time) (l : List Time) : maxTimes (x :: l) = max x (maxTimes l) := by
  simp only [maxTimes, List.foldl_cons]
  rw [foldl_maxTime, maxTime_eq]; simp only [maxTimes]; unfold Time at *; omega

theorem maxTimes_nil : maxTimes [] = 0 := rfl

theorem maxTimes_append (l l' : List Time) : maxTimes (l ++ l') = max (maxTimes l) (maxTimes l') := by
  induction l with
  | nil => simp [maxTimes_nil]
  | cons x l ih => simp only [List.cons_append, maxTimes_cons, ih]; unfold Time at *; omega

theorem maxTimes_reverse (l : List Time) : maxTimes l.reverse = maxTimes l := by
  induction l with
  | nil => rfl
  | cons x l ih =>
    simp only [List.reverse_cons, maxTimes_append, maxTimes_cons, maxTimes_nil, ih]; unfold Time at *; omega

theorem pickTime_idem (c f : Time) : pickTime (pickTime c f) f = pickTime c f := by
  unfold pickTime; split <;> simp_all

theorem pickTime_of_ne (c f : Time) (h : c ≠ 0) : pickTime c f = c := by
  simp [pickTime, h]

/-! ### the block of one item -/
def cStOf (t : Task) : St := if t.cSt != .other "" then t.cSt else t.st
def cTitleOf (t : Task) : String := if t.cTitle != "" then t.cTitle else t.title
def cBodyOf (t : Task) : String := if t.cBody != "" then t.cBody else t.body

def emitTitle (t : Task) : Bool := t.title != cTitleOf t || (t.lastTitle != 0 && t.lastTitle > t.createdAt)
def emitBody (t : Task) : Bool := t.body != cBodyOf t || (t.lastBody != 0 && t.lastBody > t.createdAt)
def emitEpic (t : Task) : Bool := !t.isEpic && (t.epicId != t.cEpic || (t.lastEpic != 0 && t.lastEpic > t.createdAt))
def emitClaim (t : Task) : Bool := t.claimedBy != ""
def emitState (t : Task) : Bool := t.st != cStOf t || (t.lastState != 0 && t.lastState > t.createdAt)

/-- the item as `newItem` creates it -/
def created (t : Task) : Task :=
  { id := t.id, uuid := t.uuid, epicId := t.cEpic, isEpic := t.isEpic, st := cStOf t, title := cTitleOf t, body := cBodyOf t,
    claimedBy := "", createdAt := t.createdAt, updatedAt := t.createdAt,
    results := [], cTitle := cTitleOf t, cBody := cBodyOf t, cSt := cStOf t, cEpic := t.cEpic,
    lastState := 0, lastClaim := 0, lastTitle := 0, lastBody := 0, lastEpic := 0 }

def resEv (id : Id) (r : ResultRec) : Event := Event.result id r.summary r.path r.sha r.mtime r.git (some r.time)

/-- the update events of the block (everything after the `newItem`) -/
def updEvents (t : Task) : List Event :=
  (if emitTitle t then [Event.title t.id t.title (some (pickTime t.lastTitle t.updatedAt))] else [])
  ++ (if emitBody t then [Event.body t.id t.body (some (pickTime t.lastBody t.updatedAt))] else [])
  ++ (if emitEpic t then [Event.epic t.id t.epicId (some (pickTime t.lastEpic t.updatedAt))] else [])
  ++ (if emitState t then [Event.state t.id t.st (some (pickTime t.lastState t.updatedAt))] else [])
  ++ (if emitClaim t then [Event.claim t.id t.claimedBy (some (pickTime t.lastClaim t.updatedAt))] else [])
  ++ t.results.reverse.map (resEv t.id)

theorem compactTask_eq (t : Task) :
    compactTask t = Event.newItem t.isEpic t.id t.uuid t.cEpic (cStOf t) (cTitleOf t) (cBodyOf t) (some t.createdAt) :: updEvents t := by
  simp only [compactTask, updEvents, emitTitle, emitBody, emitEpic, emitClaim, emitState, cStOf, cTitleOf, cBodyOf,
    List.append_assoc, List.cons_append, List.nil_append]
  rfl

theorem updEvents_isUpdate (t : Task) : ∀ e ∈ updEvents t, IsUpdateFor t.id e := by
  intro e he
  simp only [updEvents, List.mem_append, List.mem_map] at he
  rcases he with ((((he | he) | he) | he) | he) | ⟨r, _, rfl⟩
  all_goals first
    | (split at he <;> simp only [List.mem_singleton, List.not_mem_nil] at he <;> subst he <;> simp [IsUpdateFor])
    | simp [resEv, IsUpdateFor]

def optT (c : Bool) (x : Time) : Time := if c then x else 0

/-- what replaying the block makes of the item -/
def rebuild (t : Task) : Task := (updEvents t).foldl stepTask (created t)

/-- … written out -/
def rebuildX (t : Task) : Task :=
  { id := t.id, uuid := t.uuid, epicId := if emitEpic t then t.epicId else t.cEpic, isEpic := t.isEpic,
    st := t.st, title := t.title, body := t.body,
    claimedBy := t.claimedBy,
    createdAt := t.createdAt,
    updatedAt := (t.results.reverse.map (·.time)).foldl maxTime
      (maxTime (maxTime (maxTime (maxTime t.createdAt (optT (emitTitle t) (pickTime t.lastTitle t.updatedAt)))
        (optT (emitBody t) (pickTime t.lastBody t.updatedAt))) (optT (emitEpic t) (pickTime t.lastEpic t.updatedAt)))
        (optT (emitState t) (pickTime t.lastState t.updatedAt))),
    results := t.results, cTitle := cTitleOf t, cBody := cBodyOf t, cSt := cStOf t, cEpic := t.cEpic,
    lastState := optT (emitState t) (pickTime t.lastState t.updatedAt),
    lastClaim := optT (emitClaim t) (pickTime t.lastClaim t.updatedAt),
    lastTitle := optT (emitTitle t) (pickTime t.lastTitle t.updatedAt),
    lastBody := optT (emitBody t) (pickTime t.lastBody t.updatedAt),
    lastEpic := optT (emitEpic t) (pickTime t.lastEpic t.updatedAt) }

theorem Task.ext' {a b : Task} (h1 : a.id = b.id) (h2 : a.uuid = b.uuid) (h3 : a.epicId = b.epicId) (h4 : a.isEpic = b.isEpic)
    (h5 : a.st = b.st) (h6 : a.title = b.title) (h7 : a.body = b.body) (h8 : a.claimedBy = b.claimedBy)
    (h9 : a.createdAt = b.createdAt) (h10 : a.updatedAt = b.updatedAt) (h11 : a.results = b.results)
    (h12 : a.cTitle = b.cTitle) (h13 : a.cBody = b.cBody) (h14 : a.cSt = b.cSt) (h15 : a.cEpic = b.cEpic)
    (h16 : a.lastState = b.lastState) (h17 : a.lastClaim = b.lastClaim) (h18 : a.lastTitle = b.lastTitle)
    (h19 : a.lastBody = b.lastBody) (h20 : a.lastEpic = b.lastEpic) : a = b := by
  cases a; cases b; simp_all

theorem foldl_opt (c : Bool) (e : Event) (k : Task) :
    (if c then [e] else []).foldl stepTask k = if c then stepTask k e else k := by
  cases c <;> rfl

theorem foldl_results (id : Id) (l : List ResultRec) (k : Task) :
    (l.map (resEv id)).foldl stepTask k =
      { k with results := l.reverse ++ k.results, updatedAt := (l.map (·.time)).foldl maxTime k.updatedAt } := by
  induction l generalizing k with
  | nil => rfl
  | cons r l ih =>
    simp only [List.map_cons, List.foldl_cons, ih, List.reverse_cons, List.append_assoc]
    simp [resEv, stepTask]

theorem ite_id (c : Prop) [Decidable c] (a b : Task) : (if c then a else b).id = if c then a.id else b.id := apply_ite _ _ _ _
theorem ite_uuid (c : Prop) [Decidable c] (a b : Task) : (if c then a else b).uuid = if c then a.uuid else b.uuid := apply_ite _ _ _ _
theorem ite_epicId (c : Prop) [Decidable c] (a b : Task) : (if c then a else b).epicId = if c then a.epicId else b.epicId := apply_ite _ _ _ _
theorem ite_isEpic (c : Prop) [Decidable c] (a b : Task) : (if c then a else b).isEpic = if c then a.isEpic else b.isEpic := apply_ite _ _ _ _
theorem ite_st (c : Prop) [Decidable c] (a b : Task) : (if c then a else b).st = if c then a.st else b.st := apply_ite _ _ _ _
theorem ite_title (c : Prop) [Decidable c] (a b : Task) : (if c then a else b).title = if c then a.title else b.title := apply_ite _ _ _ _
theorem ite_body (c : Prop) [Decidable c] (a b : Task) : (if c then a else b).body = if c then a.body else b.body := apply_ite _ _ _ _
theorem ite_claimedBy (c : Prop) [Decidable c] (a b : Task) : (if c then a else b).claimedBy = if c then a.claimedBy else b.claimedBy := apply_ite _ _ _ _
theorem ite_createdAt (c : Prop) [Decidable c] (a b : Task) : (if c then a else b).createdAt = if c then a.createdAt else b.createdAt := apply_ite _ _ _ _
theorem ite_updatedAt (c : Prop) [Decidable c] (a b : Task) : (if c then a else b).updatedAt = if c then a.updatedAt else b.updatedAt := apply_ite _ _ _ _
theorem ite_results (c : Prop) [Decidable c] (a b : Task) : (if c then a else b).results = if c then a.results else b.results := apply_ite _ _ _ _
theorem ite_cTitle (c : Prop) [Decidable c] (a b : Task) : (if c then a else b).cTitle = if c then a.cTitle else b.cTitle := apply_ite _ _ _ _
theorem ite_cBody (c : Prop) [Decidable c] (a b : Task) : (if c then a else b).cBody = if c then a.cBody else b.cBody := apply_ite _ _ _ _
theorem ite_cSt (c : Prop) [Decidable c] (a b : Task) : (if c then a else b).cSt = if c then a.cSt else b.cSt := apply_ite _ _ _ _
theorem ite_cEpic (c : Prop) [Decidable c] (a b : Task) : (if c then a else b).cEpic = if c then a.cEpic else b.cEpic := apply_ite _ _ _ _
theorem ite_lastState (c : Prop) [Decidable c] (a b : Task) : (if c then a else b).lastState = if c then a.lastState else b.lastState := apply_ite _ _ _ _
theorem ite_lastClaim (c : Prop) [Decidable c] (a b : Task) : (if c then a else b).lastClaim = if c then a.lastClaim else b.lastClaim := apply_ite _ _ _ _
theorem ite_lastTitle (c : Prop) [Decidable c] (a b : Task) : (if c then a else b).lastTitle = if c then a.lastTitle else b.lastTitle := apply_ite _ _ _ _
theorem ite_lastBody (c : Prop) [Decidable c] (a b : Task) : (if c then a else b).lastBody = if c then a.lastBody else b.lastBody := apply_ite _ _ _ _
theorem ite_lastEpic (c : Prop) [Decidable c] (a b : Task) : (if c then a else b).lastEpic = if c then a.lastEpic else b.lastEpic := apply_ite _ _ _ _

theorem st_of_not_emitState (t : Task) (h : ¬ emitState t = true) : cStOf t = t.st := by
  simp only [emitState, Bool.or_eq_true, not_or, bne_iff_ne, ne_eq, Decidable.not_not] at h
  exact h.1.symm
theorem title_of_not_emitTitle (t : Task) (h : ¬ emitTitle t = true) : cTitleOf t = t.title := by
  simp only [emitTitle, Bool.or_eq_true, not_or, bne_iff_ne, ne_eq, Decidable.not_not] at h
  exact h.1.symm
theorem body_of_not_emitBody (t : Task) (h : ¬ emitBody t = true) : cBodyOf t = t.body := by
  simp only [emitBody, Bool.or_eq_true, not_or, bne_iff_ne, ne_eq, Decidable.not_not] at h
  exact h.1.symm

theorem rebuild_eq (t : Task) : rebuild t = rebuildX t := by
  apply Task.ext' <;>
    simp only [rebuild, rebuildX, updEvents, created, List.foldl_append, foldl_opt, foldl_results, List.reverse_reverse,
      List.append_nil, optT, ite_id, ite_uuid, ite_epicId, ite_isEpic, ite_st, ite_title, ite_body, ite_claimedBy, ite_createdAt, ite_updatedAt, ite_results, ite_cTitle, ite_cBody, ite_cSt, ite_cEpic, ite_lastState, ite_lastClaim, ite_lastTitle, ite_lastBody, ite_lastEpic, stepTask, ite_self, maxTime_ite_zero]
  · split
    · rfl
    · exact st_of_not_emitState t ‹_›
  · split
    · rfl
    · exact title_of_not_emitTitle t ‹_›
  · split
    · rfl
    · exact body_of_not_emitBody t ‹_›
  · by_cases h1 : emitState t = true <;> by_cases h2 : t.st.clearsClaim = true <;> by_cases h3 : emitClaim t = true <;>
      simp [h1, h2, h3]
    all_goals simpa [emitClaim] using h3

end Ergo
