/-
  WP10 — `Sec.links` keeps `AllInv`.
-/
import ErgoProofs.Lemmas.StepGraphBase
namespace Ergo

theorem linkCheck_ok {g : Graph} {unlink : Bool} {f t : Id} (h : linkCheck g unlink f t = .ok ()) :
    f ∉ g.tombs ∧ t ∉ g.tombs ∧
    (∃ a ∈ g.tasks, ∃ b ∈ g.tasks, a.id = f ∧ b.id = t ∧ a.isEpic = b.isEpic) ∧
    (unlink = false → f ≠ t ∧ ¬ Path g.deps t f) := by
  unfold linkCheck at h
  simp only [bind, Except.bind, pure, Except.pure, throw, throwThe, MonadExceptOf.throw] at h
  split at h
  · cases h
  rename_i hf
  split at h
  · cases h
  rename_i ht
  split at h
  · cases h
  · cases h
  rename_i fi ti hfi hti
  split at h
  · cases h
  rename_i hne
  split at h
  · cases h
  rename_i hk
  split at h
  · cases h
  rename_i hc
  have hf' := (Graph.tombed_false_iff g f).1 (by simpa using hf)
  have ht' := (Graph.tombed_false_iff g t).1 (by simpa using ht)
  obtain ⟨hfm, hfid⟩ := graph_find?_some_mem hfi
  obtain ⟨htm, htid⟩ := graph_find?_some_mem hti
  refine ⟨hf', ht', ⟨fi, hfm, ti, htm, hfid, htid, by simpa using hk⟩, ?_⟩
  intro hu
  subst hu
  have hcf : hasCycle g f t = false := by simpa using hc
  have hne' : f ≠ t := by simpa using hne
  refine ⟨hne', ?_⟩
  intro hp
  have := (hasCycle_iff g f t).2 (Or.inr hp)
  rw [hcf] at this
  cases this

theorem linkEvents_link_spec (g : Graph) (edges : List (Id × Id)) (evs : List Event)
    (h : linkEvents g false edges = .ok evs) (hac : Acyclic g.deps) :
    evs = edges.map (fun e => Event.link e.1 e.2 true) ∧ Acyclic (g.deps ++ edges) ∧
    ∀ e ∈ edges, e.1 ∉ g.tombs ∧ e.2 ∉ g.tombs ∧
      ∃ a ∈ g.tasks, ∃ b ∈ g.tasks, a.id = e.1 ∧ b.id = e.2 ∧ a.isEpic = b.isEpic := by
  induction edges generalizing g evs with
  | nil =>
    simp only [linkEvents] at h
    cases h
    simpa using hac
  | cons e es ih =>
    obtain ⟨f, t⟩ := e
    simp only [linkEvents, bind, Except.bind, pure, Except.pure] at h
    cases hc : linkCheck g false f t with
    | error x => rw [hc] at h; cases h
    | ok u =>
      rw [hc] at h
      simp only [Bool.false_eq_true, if_false] at h
      cases hr : linkEvents { g with deps := g.deps ++ [(f, t)] } false es with
      | error x => rw [hr] at h; cases h
      | ok evs' =>
        rw [hr] at h
        cases h
        obtain ⟨h1, h2, h3, h4⟩ := linkCheck_ok hc
        obtain ⟨hne, hp⟩ := h4 rfl
        obtain ⟨i1, i2, i3⟩ := ih { g with deps := g.deps ++ [(f, t)] } evs' hr (acyclic_add_edge hac hne hp)
        refine ⟨by rw [i1]; rfl, ?_, ?_⟩
        · have : g.deps ++ (f, t) :: es = (g.deps ++ [(f, t)]) ++ es := by simp
          rw [this]; exact i2
        · intro e he
          rcases List.mem_cons.1 he with rfl | he
          · exact ⟨h1, h2, h3⟩
          · exact i3 e he

theorem linkEvents_unlink_spec (g : Graph) (edges : List (Id × Id)) (evs : List Event)
    (h : linkEvents g true edges = .ok evs) :
    evs = edges.map (fun e => Event.unlink e.1 e.2 true) ∧ ∀ e ∈ edges, e.1 ∉ g.tombs ∧ e.2 ∉ g.tombs := by
  induction edges generalizing evs with
  | nil =>
    simp only [linkEvents] at h
    cases h
    simp
  | cons e es ih =>
    obtain ⟨f, t⟩ := e
    simp only [linkEvents, bind, Except.bind, pure, Except.pure] at h
    cases hc : linkCheck g true f t with
    | error x => rw [hc] at h; cases h
    | ok u =>
      rw [hc] at h
      simp only [if_true] at h
      cases hr : linkEvents g true es with
      | error x => rw [hr] at h; cases h
      | ok evs' =>
        rw [hr] at h
        cases h
        obtain ⟨h1, h2, _, _⟩ := linkCheck_ok hc
        obtain ⟨i1, i2⟩ := ih evs' hr
        refine ⟨by rw [i1]; rfl, ?_⟩
        intro e he
        rcases List.mem_cons.1 he with rfl | he
        · exact ⟨h1, h2⟩
        · exact i2 e he

theorem secStep_links' (unlink : Bool) (edges : List (Id × Id)) : SecStepOK (.links unlink edges) := by
  intro log g env w out hr hinv _ hrun
  have hrep := replay_eq_raw hr hinv.ok
  simp only [runSec, hrep, secLinks] at hrun
  cases hl : linkEvents g unlink edges with
  | error x => rw [hl] at hrun; cases hrun
  | ok evs =>
    rw [hl] at hrun
    simp only [Except.map] at hrun
    cases hrun
    simp only [applyWrite, replayRaw_append, hr, Except.bind]
    cases unlink with
    | false =>
      obtain ⟨h1, h2, h3⟩ := linkEvents_link_spec g edges evs hl hinv.i07.acyclic
      rw [h1]
      exact allInv_add_links hinv edges h2 h3
    | true =>
      obtain ⟨h1, h2⟩ := linkEvents_unlink_spec g edges evs hl
      rw [h1]
      obtain ⟨g', e1, e2, e3, e4⟩ := foldlM_unlinks g edges h2
      refine ⟨g', e1, allInv_of_deps hinv e2 e3 (hinv.ok.wf.deps_nodup.sublist e4) ?_ ?_⟩
      · exact acyclic_sub hinv.i07.acyclic (fun e he => e4.subset he)
      · intro e he
        exact Or.inl (e4.subset he)

end Ergo
