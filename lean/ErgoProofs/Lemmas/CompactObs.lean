/-
  WP2 — C05, part 5: the ready/blocked queries and the claim order only depend on the observable graph.
-/
import ErgoProofs.Lemmas.CompactGraph
namespace Ergo

theorem ObsEq.symm {g g' : Graph} (h : ObsEq g g') : ObsEq g' g :=
  ⟨fun id => (h.1 id).symm, fun e => (h.2 e).symm⟩

/-- every live item has an observably equal counterpart -/
theorem ObsEq.counterpart {g g' : Graph} (h : ObsEq g g') (hwf : WF g) (t : Task) (ht : t ∈ g.tasks) :
    ∃ t' ∈ g'.tasks, obsTask t = obsTask t' := by
  have h1 := h.1 t.id
  rw [g.find?_of_mem hwf t ht] at h1
  cases hf : g'.find? t.id with
  | none => rw [hf] at h1; cases h1
  | some t' =>
    rw [hf] at h1
    simp only [Option.map_some, Option.some.injEq] at h1
    exact ⟨t', (g'.mem_of_find? _ _ hf).1, h1⟩

theorem ObsEq.of_same_id {g g' : Graph} (h : ObsEq g g') (hwf : WF g) (hwf' : WF g') (t t' : Task)
    (ht : t ∈ g.tasks) (ht' : t' ∈ g'.tasks) (hid : t.id = t'.id) : obsTask t = obsTask t' := by
  have h1 := h.1 t.id
  rw [g.find?_of_mem hwf t ht, hid, g'.find?_of_mem hwf' t' ht'] at h1
  simpa using h1

theorem all_congr_mem {α : Type} (l l' : List α) (p q : α → Bool) (hm : ∀ x, x ∈ l ↔ x ∈ l') (hp : ∀ x, p x = q x) :
    l.all p = l'.all q := by
  rw [Bool.eq_iff_iff, List.all_eq_true, List.all_eq_true]
  constructor
  · intro H x hx; rw [← hp]; exact H x ((hm x).mpr hx)
  · intro H x hx; rw [hp]; exact H x ((hm x).mp hx)

theorem any_congr_mem {α : Type} (l l' : List α) (p q : α → Bool) (hm : ∀ x, x ∈ l ↔ x ∈ l') (hp : ∀ x, p x = q x) :
    l.any p = l'.any q := by
  rw [Bool.eq_iff_iff, List.any_eq_true, List.any_eq_true]
  constructor
  · rintro ⟨x, hx, hpx⟩; exact ⟨x, (hm x).mp hx, by rw [← hp]; exact hpx⟩
  · rintro ⟨x, hx, hpx⟩; exact ⟨x, (hm x).mpr hx, by rw [hp]; exact hpx⟩

private theorem mem_depsOf (g : Graph) (id d : Id) : d ∈ g.depsOf id ↔ (id, d) ∈ g.deps := by
  simp only [Graph.depsOf, List.mem_map, List.mem_filter, beq_iff_eq]
  constructor
  · rintro ⟨⟨a, b⟩, ⟨hm, rfl⟩, rfl⟩; exact hm
  · intro hm; exact ⟨(id, d), ⟨hm, rfl⟩, rfl⟩

theorem ObsEq.depsOf {g g' : Graph} (h : ObsEq g g') (id d : Id) : d ∈ g.depsOf id ↔ d ∈ g'.depsOf id := by
  rw [mem_depsOf, mem_depsOf]; exact h.2 _

theorem ObsEq.depOpen {g g' : Graph} (h : ObsEq g g') (d : Id) : depOpen g d = depOpen g' d := by
  have h1 := h.1 d
  unfold Ergo.depOpen
  cases hf : g.find? d with
  | none =>
    cases hf' : g'.find? d with
    | none => rfl
    | some o' => rw [hf, hf'] at h1; cases h1
  | some o =>
    cases hf' : g'.find? d with
    | none => rw [hf, hf'] at h1; cases h1
    | some o' =>
      rw [hf, hf'] at h1
      simp only [Option.map_some, Option.some.injEq] at h1
      have e1 : o.st = o'.st := congrArg Obs.st h1
      simp only [e1]

theorem ObsEq.isEpicComplete_imp {g g' : Graph} (h : ObsEq g g') (hwf' : WF g') (e : Id)
    (H : isEpicComplete g e = true) : isEpicComplete g' e = true := by
  unfold isEpicComplete at *
  rw [List.all_eq_true] at *
  intro t' ht'
  obtain ⟨t, ht, ho⟩ := h.symm.counterpart hwf' t' ht'
  have := H t ht
  have e1 : t'.epicId = t.epicId := congrArg Obs.epicId ho
  have e2 : t'.st = t.st := congrArg Obs.st ho
  rw [e1, e2]
  exact this

theorem ObsEq.isEpicComplete {g g' : Graph} (h : ObsEq g g') (hwf : WF g) (hwf' : WF g') (e : Id) :
    isEpicComplete g e = isEpicComplete g' e := by
  rw [Bool.eq_iff_iff]
  exact ⟨h.isEpicComplete_imp hwf' e, h.symm.isEpicComplete_imp hwf e⟩

theorem ObsEq.areEpicDepsComplete {g g' : Graph} (h : ObsEq g g') (hwf : WF g) (hwf' : WF g') (e : Id) :
    areEpicDepsComplete g e = areEpicDepsComplete g' e := by
  unfold Ergo.areEpicDepsComplete
  apply all_congr_mem _ _ _ _ (h.depsOf e)
  intro d
  have h1 := h.1 d
  cases hf : g.find? d with
  | none =>
    cases hf' : g'.find? d with
    | none => rfl
    | some o' => rw [hf, hf'] at h1; cases h1
  | some o =>
    cases hf' : g'.find? d with
    | none => rw [hf, hf'] at h1; cases h1
    | some o' =>
      rw [hf, hf'] at h1
      simp only [Option.map_some, Option.some.injEq] at h1
      have e1 : o.isEpic = o'.isEpic := congrArg Obs.isEpic h1
      simp only [e1, h.isEpicComplete hwf hwf' d]

theorem ObsEq.ready_blocked {g g' : Graph} (h : ObsEq g g') (hwf : WF g) (hwf' : WF g') (t t' : Task)
    (ho : obsTask t = obsTask t') : isReady g t = isReady g' t' ∧ isBlocked g t = isBlocked g' t' := by
  have e1 : t.st = t'.st := congrArg Obs.st ho
  have e2 : t.claimedBy = t'.claimedBy := congrArg Obs.claimedBy ho
  have e3 : t.epicId = t'.epicId := congrArg Obs.epicId ho
  have e4 : t.id = t'.id := congrArg Obs.id ho
  have a1 : (g.depsOf t.id).all (fun d => !Ergo.depOpen g d) = (g'.depsOf t'.id).all (fun d => !Ergo.depOpen g' d) := by
    rw [e4]; exact all_congr_mem _ _ _ _ (h.depsOf _) (fun d => by rw [h.depOpen d])
  have a2 : (g.depsOf t.id).any (Ergo.depOpen g) = (g'.depsOf t'.id).any (Ergo.depOpen g') := by
    rw [e4]; exact any_congr_mem _ _ _ _ (h.depsOf _) (fun d => h.depOpen d)
  have a3 := h.areEpicDepsComplete hwf hwf' t'.epicId
  constructor
  · simp only [isReady, e1, e2, e3, a1, a3]
  · simp only [isBlocked, e1, e2, e3, a2, a3]


/-- the filter of `readyTasks` -/
def readySel (g : Graph) (epic : Id) (t : Task) : Bool :=
  (epic == "" || t.epicId == epic) && isReady g t && !t.isEpic

theorem readyTasks_eq (g : Graph) (epic : Id) : readyTasks g epic = (g.tasks.filter (readySel g epic)).mergeSort claimLe := rfl

theorem ObsEq.readyKeys_sub {g g' : Graph} (h : ObsEq g g') (hwf : WF g) (hwf' : WF g') (epic : Id) (k : Time × Id)
    (hk : k ∈ (g.tasks.filter (readySel g epic)).map claimKey) : k ∈ (g'.tasks.filter (readySel g' epic)).map claimKey := by
  simp only [List.mem_map, List.mem_filter] at hk ⊢
  obtain ⟨t, ⟨ht, hsel⟩, rfl⟩ := hk
  obtain ⟨t', ht', ho⟩ := h.counterpart hwf t ht
  refine ⟨t', ⟨ht', ?_⟩, ?_⟩
  · have e1 : t.epicId = t'.epicId := congrArg Obs.epicId ho
    have e2 : t.isEpic = t'.isEpic := congrArg Obs.isEpic ho
    have e3 := (h.ready_blocked hwf hwf' t t' ho).1
    simpa only [readySel, e1, e2, e3] using hsel
  · have e1 : t.createdAt = t'.createdAt := congrArg Obs.createdAt ho
    have e2 : t.id = t'.id := congrArg Obs.id ho
    simp only [claimKey, e1, e2]

theorem readyKeys_nodup (g : Graph) (hwf : WF g) (epic : Id) : ((g.tasks.filter (readySel g epic)).map claimKey).Nodup := by
  have h1 : ((g.tasks.filter (readySel g epic)).map (·.id)).Nodup :=
    hwf.nodup.sublist ((List.filter_sublist (l := g.tasks)).map _)
  have h2 : ((g.tasks.filter (readySel g epic)).map claimKey).map (·.2) = (g.tasks.filter (readySel g epic)).map (·.id) := by
    simp [List.map_map, Function.comp_def, claimKey]
  rw [← h2] at h1
  exact List.Pairwise.of_map (·.2) (fun a b hne heq => hne (heq ▸ rfl)) h1

theorem readyTasks_keys (g : Graph) (epic : Id) :
    (readyTasks g epic).map claimKey = ((g.tasks.filter (readySel g epic)).map claimKey).mergeSort keyLe := by
  rw [readyTasks_eq]
  exact List.map_mergeSort (fun a _ b _ => claimLe_eq a b)

end Ergo
