/-
  WP20b — strings of the line codec: the UTF-8 round trip (`utf8DecLossy (utf8Enc cs) = cs`), and the scanner reading an encoded
  string literal back exactly (`scanStr_encoded`): the bytes `json.Marshal` writes between the quotes are ordinary bytes,
  two-byte escapes and `\uXXXX` groups (`Units`).
-/
import ErgoProofs.Lemmas.CodecScan
import ErgoProofs.Lemmas.JsonThm
open Ergo Ergo.Storage
namespace Ergo.Codec

def PlainByte (b : UInt8) : Prop := b ≠ 34 ∧ b ≠ 92 ∧ ¬ b < 32

theorem ge128_plain (b : UInt8) (h : 128 ≤ b) : PlainByte b := by
  refine ⟨?_, ?_, ?_⟩
  · intro h0; subst h0; exact absurd h (by decide)
  · intro h0; subst h0; exact absurd h (by decide)
  · intro h0; have a := UInt8.lt_iff_toNat_lt.1 h0; have b' := UInt8.le_iff_toNat_le.1 h; simp at a b'; omega

theorem or80_ge (a : UInt8) : 128 ≤ (a ||| 0x80) := by
  rw [UInt8.le_iff_toNat_le, UInt8.toNat_or]; exact Nat.right_le_or
theorem orc0_ge (a : UInt8) : 128 ≤ (a ||| 0xc0) := by
  rw [UInt8.le_iff_toNat_le, UInt8.toNat_or]; exact Nat.le_trans (by decide : 128 ≤ (0xc0:UInt8).toNat) Nat.right_le_or
theorem ore0_ge (a : UInt8) : 128 ≤ (a ||| 0xe0) := by
  rw [UInt8.le_iff_toNat_le, UInt8.toNat_or]; exact Nat.le_trans (by decide : 128 ≤ (0xe0:UInt8).toNat) Nat.right_le_or
theorem orf0_ge (a : UInt8) : 128 ≤ (a ||| 0xf0) := by
  rw [UInt8.le_iff_toNat_le, UInt8.toNat_or]; exact Nat.le_trans (by decide : 128 ≤ (0xf0:UInt8).toNat) Nat.right_le_or

/-- the UTF-8 bytes of a character that is neither a quote, a backslash nor a control character are ordinary string bytes -/
theorem utf8_plain (c : Char) (h1 : c ≠ '"') (h2 : c ≠ '\\') (h3 : 32 ≤ c.toNat) : ∀ b ∈ String.utf8EncodeChar c, PlainByte b := by
  intro b hb
  rcases c.utf8Size_eq with hs | hs | hs | hs
  · rw [String.utf8EncodeChar_eq_singleton hs] at hb
    simp only [List.mem_singleton] at hb
    have hle : c.val ≤ 127 := Char.utf8Size_eq_one_iff.1 hs
    have hn : c.val.toNat ≤ 127 := by simpa using UInt32.le_iff_toNat_le.1 hle
    have hcn : c.toNat = c.val.toNat := rfl
    have hbn : b.toNat = c.toNat := by subst hb; rw [hcn, UInt32.toNat_toUInt8]; omega
    refine ⟨?_, ?_, ?_⟩
    · intro h0; apply h1; rw [h0] at hbn; exact Json.char_eq_of_toNat c 34 (by simpa using hbn.symm)
    · intro h0; apply h2; rw [h0] at hbn; exact Json.char_eq_of_toNat c 92 (by simpa using hbn.symm)
    · intro h0; have := UInt8.lt_iff_toNat_lt.1 h0; simp at this; omega
  · rw [String.utf8EncodeChar_eq_cons_cons hs] at hb
    simp only [List.mem_cons, List.not_mem_nil, or_false] at hb
    rcases hb with rfl | rfl
    · exact ge128_plain _ (orc0_ge _)
    · exact ge128_plain _ (or80_ge _)
  · rw [String.utf8EncodeChar_eq_cons_cons_cons hs] at hb
    simp only [List.mem_cons, List.not_mem_nil, or_false] at hb
    rcases hb with rfl | rfl | rfl
    · exact ge128_plain _ (ore0_ge _)
    · exact ge128_plain _ (or80_ge _)
    · exact ge128_plain _ (or80_ge _)
  · rw [String.utf8EncodeChar_eq_cons_cons_cons_cons hs] at hb
    simp only [List.mem_cons, List.not_mem_nil, or_false] at hb
    rcases hb with rfl | rfl | rfl | rfl
    · exact ge128_plain _ (orf0_ge _)
    · exact ge128_plain _ (or80_ge _)
    · exact ge128_plain _ (or80_ge _)
    · exact ge128_plain _ (or80_ge _)

/-- a raw string body as the encoder writes it: ordinary bytes, two-byte escapes, `\uXXXX` -/
inductive Units : Bytes → Prop
  | nil : Units []
  | plain {b : UInt8} {r : Bytes} : PlainByte b → Units r → Units (b :: r)
  | esc {c : UInt8} {r : Bytes} : c ≠ 117 → isSimpleEscape c = true → Units r → Units (92 :: c :: r)
  | uni {h1 h2 h3 h4 : UInt8} {r : Bytes} : isHex h1 = true → isHex h2 = true → isHex h3 = true → isHex h4 = true → Units r →
      Units (92 :: 117 :: h1 :: h2 :: h3 :: h4 :: r)

theorem scan_units (B rest : Bytes) (h : Units B) : scanStr (B ++ 34 :: rest) = some (B, rest) := by
  induction h with
  | nil => rw [List.nil_append, scanStr.eq_def]; simp
  | plain hp _ ih =>
    obtain ⟨h1, h2, h3⟩ := hp
    rw [List.cons_append, scanStr.eq_def]; simp [h1, h2, h3, ih]
  | esc hc hs _ ih =>
    rw [List.cons_append, List.cons_append, scanStr.eq_def]; simp [hc, hs, ih]
  | uni a b c d _ ih =>
    simp only [List.cons_append]
    rw [scanStr.eq_def]; simp [a, b, c, d, ih]

theorem units_append {A B : Bytes} (ha : Units A) (hb : Units B) : Units (A ++ B) := by
  induction ha with
  | nil => simpa
  | plain hp _ ih => exact .plain hp ih
  | esc hc hs _ ih => exact .esc hc hs ih
  | uni a b c d _ ih => exact .uni a b c d ih

theorem units_of_plain (l : Bytes) (h : ∀ b ∈ l, PlainByte b) : Units l := by
  induction l with
  | nil => exact .nil
  | cons b r ih => exact .plain (h b (by simp)) (ih fun x hx => h x (by simp [hx]))

theorem utf8Enc_append (a b : List Char) : utf8Enc (a ++ b) = utf8Enc a ++ utf8Enc b := by simp [utf8Enc]
theorem utf8Enc_cons (c : Char) (r : List Char) : utf8Enc (c :: r) = String.utf8EncodeChar c ++ utf8Enc r := by simp [utf8Enc]

def hexByte (k : Nat) : UInt8 := if k < 10 then UInt8.ofNat (48 + k) else UInt8.ofNat (87 + k)
theorem hexDigit_byte' : ∀ k : Fin 16, String.utf8EncodeChar (Json.hexDigit k.val) = [hexByte k.val] ∧ isHex (hexByte k.val) = true := by decide
theorem hexDigit_byte (k : Fin 16) : ∃ b, String.utf8EncodeChar (Json.hexDigit k.val) = [b] ∧ isHex b = true :=
  ⟨_, (hexDigit_byte' k).1, (hexDigit_byte' k).2⟩

theorem units_u4 (n : Nat) : Units (utf8Enc (Json.u4 n)) := by
  obtain ⟨b1, e1, x1⟩ := hexDigit_byte ⟨n / 4096 % 16, by omega⟩
  obtain ⟨b2, e2, x2⟩ := hexDigit_byte ⟨n / 256 % 16, by omega⟩
  obtain ⟨b3, e3, x3⟩ := hexDigit_byte ⟨n / 16 % 16, by omega⟩
  obtain ⟨b4, e4, x4⟩ := hexDigit_byte ⟨n % 16, by omega⟩
  simp only at e1 e2 e3 e4
  have : utf8Enc (Json.u4 n) = [92, 117, b1, b2, b3, b4] := by
    simp only [Json.u4, utf8Enc, List.flatMap_cons, List.flatMap_nil, e1, e2, e3, e4,
      (by decide : String.utf8EncodeChar '\\' = [92]), (by decide : String.utf8EncodeChar 'u' = [117])]
    rfl
  rw [this]; exact .uni x1 x2 x3 x4 .nil

theorem units_encodeChar (c : Char) : Units (utf8Enc (Json.encodeChar true c)) := by
  unfold Json.encodeChar
  simp only
  split
  · exact (by decide : utf8Enc ['\\', '"'] = [92, 34]) ▸ .esc (by decide) (by decide) .nil
  split
  · exact (by decide : utf8Enc ['\\', '\\'] = [92, 92]) ▸ .esc (by decide) (by decide) .nil
  split
  · exact (by decide : utf8Enc ['\\', 'b'] = [92, 98]) ▸ .esc (by decide) (by decide) .nil
  split
  · exact (by decide : utf8Enc ['\\', 'f'] = [92, 102]) ▸ .esc (by decide) (by decide) .nil
  split
  · exact (by decide : utf8Enc ['\\', 'n'] = [92, 110]) ▸ .esc (by decide) (by decide) .nil
  split
  · exact (by decide : utf8Enc ['\\', 'r'] = [92, 114]) ▸ .esc (by decide) (by decide) .nil
  split
  · exact (by decide : utf8Enc ['\\', 't'] = [92, 116]) ▸ .esc (by decide) (by decide) .nil
  split
  · exact units_u4 _
  split
  · exact units_u4 _
  split
  · exact units_u4 _
  · rename_i a b c1 d e f g h i j
    rw [utf8Enc_cons]; simp only [utf8Enc, List.flatMap_nil, List.append_nil]
    apply units_of_plain
    apply utf8_plain
    · intro h0; subst h0; simp at a
    · intro h0; subst h0; simp at b
    · simp at h; omega

theorem units_encodeBody (cs : List Char) : Units (utf8Enc (Json.encodeBody true cs)) := by
  induction cs with
  | nil => exact .nil
  | cons c r ih =>
    simp only [Json.encodeBody, List.flatMap_cons] at ih ⊢
    rw [utf8Enc_append]; exact units_append (units_encodeChar c) ih

/-- the scanner reads an encoded string literal back exactly: after the opening quote, the body up to the closing quote -/
theorem scanStr_encoded (cs : List Char) (rest : Bytes) :
    scanStr (utf8Enc (Json.encodeBody true cs) ++ 34 :: rest) = some (utf8Enc (Json.encodeBody true cs), rest) :=
  scan_units _ _ (units_encodeBody cs)


/-! ### UTF-8 round trip -/
theorem decodeRune_encoded (c : Char) (tail : Bytes) : decodeRune? (String.utf8EncodeChar c ++ tail) = some c := by
  unfold decodeRune?
  have hlen : (String.utf8EncodeChar c).length ≤ 4 := by rw [String.length_utf8EncodeChar]; exact c.utf8Size_le_four
  rw [List.take_append, List.take_of_length_le hlen, List.toByteArray_append]
  exact ByteArray.utf8DecodeChar?_utf8EncodeChar_append

theorem utf8DecLossy_encoded (cs : List Char) : utf8DecLossy (utf8Enc cs) = cs := by
  induction cs with
  | nil => simp [utf8Enc, utf8DecLossy]
  | cons c r ih =>
    rw [utf8Enc_cons]
    have hne := @String.utf8EncodeChar_ne_nil c
    cases he : String.utf8EncodeChar c with
    | nil => exact absurd he hne
    | cons b t =>
      have hdec := decodeRune_encoded c (utf8Enc r)
      rw [he, List.cons_append] at hdec
      have hlen : (b :: t).length = c.utf8Size := by rw [← he]; exact String.length_utf8EncodeChar c
      rw [List.cons_append, utf8DecLossy]
      by_cases hb : b < 128
      · simp only [hb, if_true]
        have hbn : b.toNat < 128 := by simpa using UInt8.lt_iff_toNat_lt.1 hb
        have hge : ∀ x : UInt8, 128 ≤ x → b ≠ x := by
          intro x hx h0; subst h0; have := UInt8.le_iff_toNat_le.1 hx; simp at this; omega
        rcases c.utf8Size_eq with hs | hs | hs | hs
        · rw [String.utf8EncodeChar_eq_singleton hs] at he
          simp only [List.cons.injEq] at he
          obtain ⟨rfl, rfl⟩ := he
          have hle : c.val ≤ 127 := Char.utf8Size_eq_one_iff.1 hs
          have hn : c.val.toNat ≤ 127 := by simpa using UInt32.le_iff_toNat_le.1 hle
          have hcn : c.toNat = c.val.toNat := rfl
          have : (c.val.toUInt8).toNat = c.toNat := by rw [hcn, UInt32.toNat_toUInt8]; omega
          rw [this, List.nil_append, ih, Char.ofNat_toNat]
        · rw [String.utf8EncodeChar_eq_cons_cons hs] at he
          simp only [List.cons.injEq] at he
          exact absurd he.1.symm (hge _ (orc0_ge _))
        · rw [String.utf8EncodeChar_eq_cons_cons_cons hs] at he
          simp only [List.cons.injEq] at he
          exact absurd he.1.symm (hge _ (ore0_ge _))
        · rw [String.utf8EncodeChar_eq_cons_cons_cons_cons hs] at he
          simp only [List.cons.injEq] at he
          exact absurd he.1.symm (hge _ (orf0_ge _))
      · simp only [hb, if_false, hdec]
        have : (t ++ utf8Enc r).drop (c.utf8Size - 1) = utf8Enc r := by
          have : t.length = c.utf8Size - 1 := by simp at hlen; omega
          rw [← this, List.drop_left]
        rw [this, ih]

end Ergo.Codec
