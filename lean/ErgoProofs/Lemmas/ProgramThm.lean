/-
  What the shape predicates of ErgoModel.Program guarantee: a program accepted by `writerOK` is a lock section in the sense of the process
  model — everything that changes the log happens between the successful flock and the unlock, after a read of the log, with at most one
  write to the live file — so `Proc.Step` (lockOk · read · write|decideErr · unlock) is an abstraction of it.
-/
import ErgoModel.Program
namespace Ergo.Program

/-! ### helpers about `List.span` (core has no lemmas for it) -/

theorem span_loop_eq {α} (p : α → Bool) : ∀ (l acc : List α),
    List.span.loop p l acc = (acc.reverse ++ l.takeWhile p, l.dropWhile p)
  | [], acc => by simp [List.span.loop]
  | a :: l, acc => by
    cases hp : p a with
    | true => simp [List.span.loop, hp, span_loop_eq p l (a :: acc)]
    | false => simp [List.span.loop, hp]

theorem span_eq_takeWhile_dropWhile {α} (p : α → Bool) (l : List α) : l.span p = (l.takeWhile p, l.dropWhile p) := by
  simp [List.span, span_loop_eq]

theorem mem_takeWhile_imp {α} (p : α → Bool) : ∀ (l : List α) (x : α), x ∈ l.takeWhile p → p x = true
  | [], _, h => by simp at h
  | a :: l, x, h => by
    cases hp : p a with
    | true =>
      rw [List.takeWhile_cons, hp] at h
      simp only [if_true, List.mem_cons] at h
      rcases h with h | h
      · rw [h]; exact hp
      · exact mem_takeWhile_imp p l x h
    | false =>
      rw [List.takeWhile_cons, hp] at h
      simp at h

theorem dropWhile_head {α} (p : α → Bool) : ∀ (l : List α) (x : α) (rest : List α), l.dropWhile p = x :: rest → p x = false
  | [], _, _, h => by simp at h
  | a :: l, x, rest, h => by
    by_cases hp : p a = true
    · rw [List.dropWhile_cons_of_pos hp] at h; exact dropWhile_head p l x rest h
    · rw [List.dropWhile_cons_of_neg hp] at h
      cases h; simpa using hp

/-- what a `span` result with a non-empty second component says -/
theorem span_spec {α} (p : α → Bool) (l pre : List α) (x : α) (rest : List α) (h : l.span p = (pre, x :: rest)) :
    l = pre ++ x :: rest ∧ (∀ c ∈ pre, p c = true) ∧ p x = false := by
  rw [span_eq_takeWhile_dropWhile] at h
  have h1 : l.takeWhile p = pre := congrArg Prod.fst h
  have h2 : l.dropWhile p = x :: rest := congrArg Prod.snd h
  refine ⟨?_, ?_, dropWhile_head p l x rest h2⟩
  · rw [← h1, ← h2, List.takeWhile_append_dropWhile]
  · intro c hc; rw [← h1] at hc; exact mem_takeWhile_imp p l c hc

/-- what a `span` result with an empty second component says -/
theorem span_nil_spec {α} (p : α → Bool) (l pre : List α) (h : l.span p = (pre, [])) : ∀ c ∈ l, p c = true := by
  rw [span_eq_takeWhile_dropWhile] at h
  have h1 : l.takeWhile p = pre := congrArg Prod.fst h
  have h2 : l.dropWhile p = [] := congrArg Prod.snd h
  have : l = l.takeWhile p := by
    have := @List.takeWhile_append_dropWhile _ p l
    rw [h2, List.append_nil] at this; exact this.symm
  intro c hc; rw [this] at hc; exact mem_takeWhile_imp p l c hc

theorem span_first {α} (p : α → Bool) (c : α) (post : List α) : ∀ (pre : List α), (∀ x ∈ pre, p x = true) → p c = false →
    (pre ++ c :: post).span p = (pre, c :: post) := by
  intro pre h hc
  rw [span_eq_takeWhile_dropWhile]
  induction pre with
  | nil => simp [hc]
  | cons a pre ih =>
    have ha : p a = true := h a (by simp)
    have := ih (fun x hx => h x (by simp [hx]))
    simp [ha]
    simpa using this

theorem not_any_false {α} (l : List α) (f : α → Bool) (h : (!l.any f) = true) : ∀ c ∈ l, f c = false := by
  intro c hc
  cases hf : f c with
  | false => rfl
  | true =>
    have : l.any f = true := List.any_eq_true.mpr ⟨c, hc, hf⟩
    simp [this] at h

theorem not_contains {l : List Call} {x : Call} (h : (!l.contains x) = true) : x ∉ l := by
  intro hm
  have : l.contains x = true := List.contains_iff_mem.mpr hm
  rw [this] at h
  exact absurd h (by decide)

theorem eq_of_bne_false (x y : Call) (h : (x != y) = false) : x = y := by
  simpa using h

/-- `split` really splits: the program is before ++ [lock] ++ inside ++ [unlock] ++ after, with no successful lock before and no unlock inside -/
theorem split_decompose (p : List Call) (s : Split) (h : split p = some s) :
    p = s.before ++ Call.flockEx true :: s.inside ++ Call.flockUn :: s.after ∧
    Call.flockEx true ∉ s.before ∧ Call.flockUn ∉ s.inside := by
  unfold split at h
  cases h1 : p.span (fun c => c != .flockEx true) with
  | mk pre r =>
  rw [h1] at h
  cases r with
  | nil => simp at h
  | cons x rest =>
    simp only at h
    cases h2 : rest.span (fun c => c != .flockUn) with
    | mk ins r2 =>
    rw [h2] at h
    cases r2 with
    | nil => simp at h
    | cons y post =>
      simp only [Option.some.injEq] at h
      subst h
      obtain ⟨e1, a1, b1⟩ := span_spec _ _ _ _ _ h1
      obtain ⟨e2, a2, b2⟩ := span_spec _ _ _ _ _ h2
      have hx := eq_of_bne_false _ _ b1
      have hy := eq_of_bne_false _ _ b2
      subst hx; subst hy
      refine ⟨?_, ?_, ?_⟩
      · simp only; rw [e1, e2]; simp
      · intro hm; have := a1 _ hm; simp at this
      · intro hm; have := a2 _ hm; simp at this

/-- the three conjuncts of `writerOK`, with the split exposed -/
theorem writerOK_parts (p : List Call) (h : writerOK p = true) :
    ∃ s, split p = some s ∧
      (∀ c ∈ s.before, (mutatesLog c || readsLog c || c == .flockUn || isLock c) = false) ∧
      bodyOK s.inside = true ∧
      (∀ c ∈ s.after, (mutatesLog c || isLock c || c == .flockUn || c == .write .tmp) = false) := by
  unfold writerOK at h
  rw [Bool.and_eq_true] at h
  obtain ⟨_, h⟩ := h
  cases hs : split p with
  | none => rw [hs] at h; simp at h
  | some s =>
    rw [hs] at h
    simp only [Bool.and_eq_true] at h
    obtain ⟨⟨h1, h2⟩, h3⟩ := h
    exact ⟨s, rfl, not_any_false _ _ h1, h2, not_any_false _ _ h3⟩

/-- the conjuncts of `bodyOK` used below -/
theorem bodyOK_parts (ins : List Call) (h : bodyOK ins = true) :
    (∀ pre x rest, ins.span (fun c => !mutatesLog c) = (pre, x :: rest) → pre.any readsLog = true) ∧
    logWrites ins ≤ 1 ∧ Call.truncate .log ∉ ins ∧ Call.unlink .log ∉ ins := by
  unfold bodyOK at h
  simp only [Bool.and_eq_true] at h
  obtain ⟨⟨⟨⟨⟨⟨h1, h2⟩, h3⟩, h4⟩, _⟩, _⟩, _⟩ := h
  refine ⟨?_, by simpa using h2, not_contains h3, not_contains h4⟩
  intro pre x rest hsp
  rw [hsp] at h1
  exact h1

/-- in an accepted body, a mutation implies a read -/
theorem bodyOK_mut_read (ins : List Call) (h : bodyOK ins = true) (hm : ins.any mutatesLog = true) :
    ins.any readsLog = true := by
  obtain ⟨h1, _⟩ := bodyOK_parts ins h
  cases hsp : ins.span (fun c => !mutatesLog c) with
  | mk pre r =>
  cases r with
  | nil =>
    have hall := span_nil_spec _ _ _ hsp
    obtain ⟨c, hc, hmc⟩ := List.any_eq_true.mp hm
    have := hall c hc
    simp [hmc] at this
  | cons x rest =>
    have hr := h1 pre x rest hsp
    obtain ⟨e, _, _⟩ := span_spec _ _ _ _ _ hsp
    obtain ⟨r, hr1, hr2⟩ := List.any_eq_true.mp hr
    exact List.any_eq_true.mpr ⟨r, by rw [e]; simp [hr1], hr2⟩

/-- every call that changes the log lies strictly inside the lock section -/
theorem writerOK_mutations_inside (p : List Call) (h : writerOK p = true) :
    ∃ s, split p = some s ∧ (∀ c ∈ s.before, mutatesLog c = false) ∧ (∀ c ∈ s.after, mutatesLog c = false) ∧
      (∀ c ∈ s.before, readsLog c = false) := by
  obtain ⟨s, hs, hb, _, ha⟩ := writerOK_parts p h
  refine ⟨s, hs, ?_, ?_, ?_⟩
  · intro c hc; have := hb c hc; simp only [Bool.or_eq_false_iff] at this; exact this.1.1.1
  · intro c hc; have := ha c hc; simp only [Bool.or_eq_false_iff] at this; exact this.1.1.1
  · intro c hc; have := hb c hc; simp only [Bool.or_eq_false_iff] at this; exact this.1.1.2

/-- inside the section the log is read before it is changed, the live log is written at most once and never shrunk or unlinked in place -/
theorem writerOK_body (p : List Call) (h : writerOK p = true) :
    ∃ s, split p = some s ∧ logWrites s.inside ≤ 1 ∧ Call.truncate .log ∉ s.inside ∧ Call.unlink .log ∉ s.inside ∧
      (∀ pre c post, s.inside = pre ++ c :: post → mutatesLog c = true → (∀ x ∈ pre, mutatesLog x = false) → ∃ r ∈ pre, readsLog r = true) := by
  obtain ⟨s, hs, _, hbody, _⟩ := writerOK_parts p h
  obtain ⟨h1, h2, h3, h4⟩ := bodyOK_parts _ hbody
  refine ⟨s, hs, h2, h3, h4, ?_⟩
  intro pre c post e hc hpre
  have hsp : s.inside.span (fun c => !mutatesLog c) = (pre, c :: post) := by
    rw [e]
    exact span_first _ c post pre (fun x hx => by simp [hpre x hx]) (by simp [hc])
  have := h1 pre c post hsp
  obtain ⟨r, hr1, hr2⟩ := List.any_eq_true.mp this
  exact ⟨r, hr1, hr2⟩

/-- the process-model steps such a program amounts to: lockOk, (read,) write-or-not, unlock — and a write implies a read -/
theorem writerOK_abstract (p : List Call) (h : writerOK p = true) :
    (abstract p = [.lockOk, .read, .write, .unlock] ∨ abstract p = [.lockOk, .read, .noWrite, .unlock] ∨ abstract p = [.lockOk, .noWrite, .unlock]) := by
  obtain ⟨s, hs, _, hbody, _⟩ := writerOK_parts p h
  obtain ⟨e, _, _⟩ := split_decompose p s hs
  have hc : p.contains (Call.flockEx true) = true := by
    apply List.contains_iff_mem.mpr; rw [e]; simp
  unfold abstract
  rw [if_pos hc, hs]
  cases hm : s.inside.any mutatesLog with
  | true =>
    have hr := bodyOK_mut_read _ hbody hm
    left; simp [hm, hr]
  | false =>
    cases hr : s.inside.any readsLog with
    | true => right; left; simp [hm, hr]
    | false => right; right; simp [hm, hr]

/-- the lock file keeps its identity: a program accepted by any of the three predicates never renames another file onto `.ergo/lock`, nor
    unlinks or truncates it — so all processes that ever hold "the lock" hold a lock on one and the same file -/
theorem discipline_kept (p : List Call) (h : writerOK p = true ∨ busyOK p = true ∨ readerOK p = true) :
    ∀ c ∈ p, breaksDiscipline c = false := by
  have key : (!p.any breaksDiscipline) = true → ∀ c ∈ p, breaksDiscipline c = false := fun hh => not_any_false _ _ hh
  rcases h with h | h | h
  · unfold writerOK at h; rw [Bool.and_eq_true] at h; exact key h.1
  · unfold busyOK at h; simp only [Bool.and_eq_true] at h; exact key h.1.1.1
  · unfold readerOK at h; simp only [Bool.and_eq_true] at h; exact key h.1.1.1.1.1.1

theorem lock_identity_kept (p : List Call) (h : writerOK p = true ∨ busyOK p = true ∨ readerOK p = true) :
    ∀ c ∈ p, mutatesLock c = false := by
  intro c hc
  have := discipline_kept p h c hc
  unfold breaksDiscipline at this
  rw [Bool.or_eq_false_iff] at this
  exact this.1

/-- every open of an accepted program has the flag `ErgoModel.Files` needs: `O_TRUNC` on the temporary file, `O_APPEND` on the log -/
theorem open_flags_kept (p : List Call) (h : writerOK p = true ∨ busyOK p = true ∨ readerOK p = true) :
    ∀ c ∈ p, c ≠ .openBad := by
  intro c hc e
  have := discipline_kept p h c hc
  subst e
  simp [breaksDiscipline, undisciplined] at this

/-- a process that found the lock taken did nothing: `Proc.Step.lockBusy` -/
theorem busyOK_abstract (p : List Call) (h : busyOK p = true) :
    abstract p = [.lockBusy] ∧ (∀ c ∈ p, mutatesLog c = false ∧ readsLog c = false) := by
  unfold busyOK at h
  simp only [Bool.and_eq_true] at h
  obtain ⟨⟨⟨_, h1⟩, h2⟩, h3⟩ := h
  have h2' : p.contains (Call.flockEx true) = false := by simpa using h2
  refine ⟨?_, ?_⟩
  · unfold abstract
    rw [if_neg (by rw [h2']; decide), if_pos h1]
  · intro c hc
    have := not_any_false _ _ h3 c hc
    simp only [Bool.or_eq_false_iff] at this
    exact ⟨this.1.1.1, this.1.1.2⟩

/-- a reader takes no lock and changes nothing -/
theorem readerOK_pure (p : List Call) (h : readerOK p = true) :
    abstract p = [] ∧ (∀ c ∈ p, mutatesLog c = false) := by
  unfold readerOK at h
  simp only [Bool.and_eq_true] at h
  obtain ⟨⟨⟨⟨⟨⟨_, h1⟩, _⟩, _⟩, _⟩, _⟩, h6⟩ := h
  have hl := not_any_false _ _ h1
  have ht : p.contains (Call.flockEx true) = false := by
    cases hc : p.contains (Call.flockEx true) with
    | false => rfl
    | true => have := hl _ (List.contains_iff_mem.mp hc); simp [isLock] at this
  have hf : p.contains (Call.flockEx false) = false := by
    cases hc : p.contains (Call.flockEx false) with
    | false => rfl
    | true => have := hl _ (List.contains_iff_mem.mp hc); simp [isLock] at this
  refine ⟨?_, ?_⟩
  · unfold abstract
    rw [if_neg (by rw [ht]; decide), if_neg (by rw [hf]; decide)]
  · intro c hc
    have := not_any_false _ _ h6 c hc
    simp only [Bool.or_eq_false_iff] at this
    exact this.1.1

/-- non-vacuity: the programs observed on the pinned tree (strace, DESIGN §3) satisfy the predicates -/
example : writerOK [.openRO .lock, .flockEx true, .openRO .log, .read .log, .close .log, .openAppend, .read .log, .write .log, .close .log,
                    .openRO .log, .read .log, .close .log, .flockUn, .close .lock] = true := by decide
example : writerOK [.openRO .lock, .flockEx true, .openRO .log, .read .log, .close .log, .openTmp, .write .tmp, .fsync .tmp, .close .tmp, .rename,
                    .openRO .dir, .fsync .dir, .close .dir, .flockUn, .close .lock] = true := by decide
example : writerOK [.openRO .lock, .flockEx true, .openRO .log, .read .log, .close .log, .openAppend, .read .log, .openTmp, .write .tmp, .fsync .tmp, .close .tmp,
                    .rename, .openRO .dir, .fsync .dir, .close .dir, .close .log, .openAppend, .write .log, .close .log, .flockUn, .close .lock] = true := by decide
example : busyOK [.openRO .lock, .flockEx false, .close .lock] = true := by decide
example : readerOK [.openRO .log, .read .log, .read .log, .close .log] = true := by decide
-- and the shapes of the defects found are rejected: two writes per batch, a write after the unlock, a read only after the lock was released
example : writerOK [.openRO .lock, .flockEx true, .openRO .log, .read .log, .close .log, .openAppend, .write .log, .write .log, .close .log, .flockUn, .close .lock] = false := by decide
example : writerOK [.openRO .log, .read .log, .close .log, .openRO .lock, .flockEx true, .openTmp, .write .tmp, .fsync .tmp, .close .tmp, .rename, .flockUn, .close .lock] = false := by decide
example : writerOK [.openRO .lock, .flockEx true, .openRO .log, .read .log, .close .log, .openAppend, .truncate .log, .write .log, .close .log, .flockUn, .close .lock] = false := by decide

end Ergo.Program
