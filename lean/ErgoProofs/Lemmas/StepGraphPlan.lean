/-
  WP10 — `Sec.plan` keeps `AllInv`.
-/
import ErgoProofs.Lemmas.StepGraphBase
namespace Ergo

/-! ### id draws -/

theorem pickId_go_spec (live : Id → Bool) (n : Nat) (ids : List Id) (i : Id) (rest : List Id)
    (h : pickId.go live n ids = some (i, rest)) : live i = false ∧ i ∈ ids ∧ ∀ x ∈ rest, x ∈ ids := by
  induction n generalizing ids with
  | zero => simp [pickId.go] at h
  | succ n ih =>
    cases ids with
    | nil => simp [pickId.go] at h
    | cons j js =>
      simp only [pickId.go] at h
      split at h
      · obtain ⟨h1, h2, h3⟩ := ih js h
        exact ⟨h1, List.mem_cons_of_mem _ h2, fun x hx => List.mem_cons_of_mem _ (h3 x hx)⟩
      · rename_i hl
        simp only [Option.some.injEq, Prod.mk.injEq] at h
        obtain ⟨rfl, rfl⟩ := h
        exact ⟨by simpa using hl, by simp, fun x hx => List.mem_cons_of_mem _ hx⟩

theorem drawIds_spec (live : Id → Bool) (n : Nat) (ids acc l r : List Id)
    (h : drawIds live n ids acc = some (l, r)) (hacc : acc.Nodup) :
    ∃ new, l = acc.reverse ++ new ∧ new.length = n ∧ (acc.reverse ++ new).Nodup ∧
      ∀ i ∈ new, live i = false ∧ i ∈ ids := by
  induction n generalizing ids acc l r with
  | zero =>
    simp only [drawIds, Option.some.injEq, Prod.mk.injEq] at h
    obtain ⟨rfl, _⟩ := h
    exact ⟨[], by simp, rfl, by simpa using (List.reverse_perm acc).nodup_iff.2 hacc, by simp⟩
  | succ n ih =>
    simp only [drawIds] at h
    split at h
    · cases h
    · rename_i i rest hp
      split at h
      · cases h
      · rename_i l' r' hd
        simp only [Option.some.injEq, Prod.mk.injEq] at h
        obtain ⟨rfl, rfl⟩ := h
        obtain ⟨hl, hi, hrest⟩ := pickId_go_spec _ _ _ _ _ hp
        simp only [Bool.or_eq_false_iff] at hl
        have hia : i ∉ acc := by
          have := hl.2
          intro hm
          rw [List.contains_iff_mem.2 hm] at this
          cases this
        obtain ⟨new, e1, e2, e3, e4⟩ := ih rest (i :: acc) l' r' hd (List.nodup_cons.2 ⟨hia, hacc⟩)
        refine ⟨i :: new, ?_, by simp [e2], ?_, ?_⟩
        · rw [e1]; simp
        · have : acc.reverse ++ i :: new = (i :: acc).reverse ++ new := by simp
          rw [this]; exact e3
        · intro j hj
          rcases List.mem_cons.1 hj with rfl | hj
          · exact ⟨hl.1, hi⟩
          · exact ⟨(e4 j hj).1, hrest j (e4 j hj).2⟩

/-! ### creating fresh items -/

/-- the creation event of an item that is still as created -/
def evOf (t : Task) : Event := .newItem t.isEpic t.id t.uuid t.epicId .todo t.title t.body (some t.createdAt)

/-- the item is exactly as `newItem` creates it -/
def IsFresh (t : Task) : Prop := t = freshTask t.isEpic t.id t.uuid t.epicId t.title t.body t.createdAt

theorem isFresh_freshTask (isEpic : Bool) (id uuid epicId title body : String) (now : Time) :
    IsFresh (freshTask isEpic id uuid epicId title body now) := rfl

theorem applyEvent_evOf (g : Graph) (t : Task) (hf : IsFresh t) (hnt : t.id ∉ g.tombs)
    (hnl : ∀ u ∈ g.tasks, u.id ≠ t.id) : applyEvent g (evOf t) = .ok { g with tasks := g.tasks ++ [t] } := by
  have h1 : g.tombed t.id = false := (Graph.tombed_false_iff g t.id).2 hnt
  have h2 : g.has t.id = false := (Graph.has_false_iff g t.id).2 hnl
  simp only [evOf, applyEvent, h1, h2, Bool.false_eq_true, if_false]
  show Except.ok { g with tasks := g.tasks ++ [freshTask t.isEpic t.id t.uuid t.epicId t.title t.body t.createdAt] } = _
  rw [← hf]

theorem foldlM_fresh (g : Graph) (ts : List Task) (hf : ∀ t ∈ ts, IsFresh t) (hnd : (ts.map (·.id)).Nodup)
    (hnt : ∀ t ∈ ts, t.id ∉ g.tombs) (hnl : ∀ t ∈ ts, ∀ u ∈ g.tasks, u.id ≠ t.id) :
    (ts.map evOf).foldlM applyEvent g = .ok { g with tasks := g.tasks ++ ts } := by
  induction ts generalizing g with
  | nil => cases g; simp [pure, Except.pure]
  | cons t ts ih =>
    simp only [List.map_cons, List.nodup_cons, List.mem_map, not_exists, not_and] at hnd
    simp only [List.map_cons, List.foldlM_cons,
      applyEvent_evOf g t (hf t (by simp)) (hnt t (by simp)) (hnl t (by simp)), bind, Except.bind]
    rw [ih]
    · simp
    · intro u hu; exact hf u (List.mem_cons_of_mem _ hu)
    · exact hnd.2
    · intro u hu; exact hnt u (List.mem_cons_of_mem _ hu)
    · intro u hu v hv
      rcases List.mem_append.1 hv with hv | hv
      · exact hnl u (List.mem_cons_of_mem _ hu) v hv
      · simp only [List.mem_singleton] at hv
        subst hv
        intro he
        exact hnd.1 u hu he.symm

theorem taskOK_freshTask (isEpic : Bool) (id uuid epicId title body : String) (now : Time)
    (ht : Text.isBlank title = false) (hn : now ≠ 0) : TaskOK (freshTask isEpic id uuid epicId title body now) := by
  refine ⟨?_, ?_, ?_, ?_, ht, ?_, hn⟩
  · simp [freshTask, maxTimes, maxTime]
  · intro h; exact absurd rfl h
  · intro _; rfl
  · simp [freshTask]
  · intro _
    simp only [freshTask]
    exact (ite_self _).symm

theorem taskInv_freshTask (isEpic : Bool) (id uuid epicId title body : String) (now : Time) :
    TaskInv (freshTask isEpic id uuid epicId title body now) :=
  ⟨fun _ => ⟨rfl, rfl⟩, fun _ => ⟨rfl, rfl⟩⟩

/-- appending fresh items with new non-empty ids, non-blank titles, positive creation times, whose epic (if any) is among them -/
theorem allInv_add_fresh {g : Graph} (hinv : AllInv g) (ts : List Task) (hf : ∀ t ∈ ts, IsFresh t)
    (hnd : (ts.map (·.id)).Nodup) (hnt : ∀ t ∈ ts, t.id ∉ g.tombs) (hnl : ∀ t ∈ ts, ∀ u ∈ g.tasks, u.id ≠ t.id)
    (hid : ∀ t ∈ ts, t.id ≠ "") (hti : ∀ t ∈ ts, Text.isBlank t.title = false) (hc : ∀ t ∈ ts, t.createdAt ≠ 0)
    (hep : ∀ t ∈ ts, (t.isEpic = true → t.epicId = "") ∧
      (t.isEpic = false → ∃ e ∈ ts, e.id = t.epicId ∧ e.isEpic = true)) :
    AllInv { g with tasks := g.tasks ++ ts } := by
  refine ⟨⟨⟨?_, ?_, hinv.ok.wf.deps_not_tombed, hinv.ok.wf.deps_nodup⟩, ?_⟩, ?_, ?_, ⟨hinv.i07.acyclic, ?_⟩, ?_, ?_⟩
  · show ((g.tasks ++ ts).map (·.id)).Nodup
    rw [List.map_append, List.nodup_append]
    refine ⟨hinv.ok.wf.nodup, hnd, ?_⟩
    intro a ha b hb
    obtain ⟨u, hu, rfl⟩ := List.mem_map.1 ha
    obtain ⟨t, ht, rfl⟩ := List.mem_map.1 hb
    exact hnl t ht u hu
  · intro t ht
    rcases List.mem_append.1 ht with ht | ht
    · exact hinv.ok.wf.live_not_tombed t ht
    · exact hnt t ht
  · intro t ht
    rcases List.mem_append.1 ht with ht | ht
    · exact hinv.ok.tasks t ht
    · rw [hf t ht]
      exact taskOK_freshTask _ _ _ _ _ _ _ (hti t ht) (hc t ht)
  · intro t ht
    rcases List.mem_append.1 ht with ht | ht
    · exact hinv.epic0 t ht
    · intro _; rw [hf t ht]; rfl
  · intro t ht
    rcases List.mem_append.1 ht with ht | ht
    · exact hinv.i06 t ht
    · rw [hf t ht]; exact taskInv_freshTask _ _ _ _ _ _ _
  · intro e he
    obtain ⟨a, ha, b, hb, h⟩ := hinv.i07.live e he
    exact ⟨a, List.mem_append_left _ ha, b, List.mem_append_left _ hb, h⟩
  · intro t ht
    rcases List.mem_append.1 ht with ht | ht
    · obtain ⟨h1, h2⟩ := hinv.i14 t ht
      refine ⟨h1, fun hk => ?_⟩
      rcases h2 hk with h | ⟨e, he, h⟩
      · exact Or.inl h
      · exact Or.inr ⟨e, List.mem_append_left _ he, h⟩
    · obtain ⟨h1, h2⟩ := hep t ht
      refine ⟨h1, fun hk => ?_⟩
      obtain ⟨e, he, h⟩ := h2 hk
      exact Or.inr ⟨e, List.mem_append_right _ he, h⟩
  · intro t ht
    rcases List.mem_append.1 ht with ht | ht
    · exact hinv.ids t ht
    · exact hid t ht

/-! ### the edges `planLinks` returns -/

theorem planLinks_go_spec (g : Graph) (t2i : List (String × Id)) (f : Id) (S : Id → Prop)
    (afters : List String) (acc res : List (Id × Id))
    (h : planLinks.go g t2i f afters acc = .ok res)
    (hf : S f) (ha : ∀ a ∈ afters, S ((t2i.lookup a).getD ""))
    (hac : Acyclic (g.deps ++ acc.reverse)) (hS : ∀ e ∈ acc, S e.1 ∧ S e.2) :
    Acyclic (g.deps ++ res.reverse) ∧ ∀ e ∈ res, S e.1 ∧ S e.2 := by
  induction afters generalizing acc with
  | nil =>
    simp only [planLinks.go] at h
    cases h
    exact ⟨hac, hS⟩
  | cons a as ih =>
    simp only [planLinks.go] at h
    have ha' : ∀ a ∈ as, S ((t2i.lookup a).getD "") := fun x hx => ha x (List.mem_cons_of_mem _ hx)
    split at h
    · exact ih acc h ha' hac hS
    · split at h
      · cases h
      · rename_i hne
        split at h
        · cases h
        · rename_i hcyc
          have hne' : f ≠ (t2i.lookup a).getD "" := by simpa using hne
          have hcf : hasCycle { g with deps := g.deps ++ acc.reverse } f ((t2i.lookup a).getD "") = false := by
            simpa using hcyc
          have hp : ¬ Path (g.deps ++ acc.reverse) ((t2i.lookup a).getD "") f := by
            intro hp
            have := (hasCycle_iff { g with deps := g.deps ++ acc.reverse } f ((t2i.lookup a).getD "")).2 (Or.inr hp)
            rw [hcf] at this
            cases this
          apply ih _ h ha'
          · have : g.deps ++ ((f, (t2i.lookup a).getD "") :: acc).reverse =
                (g.deps ++ acc.reverse) ++ [(f, (t2i.lookup a).getD "")] := by simp
            rw [this]
            exact acyclic_add_edge hac hne' hp
          · intro e he
            rcases List.mem_cons.1 he with rfl | he
            · exact ⟨hf, ha a (by simp)⟩
            · exact hS e he

theorem planLinks_spec (g : Graph) (t2i : List (String × Id)) (S : Id → Prop)
    (L : List (Id × List String)) (acc res : List (Id × Id))
    (h : planLinks g t2i L acc = .ok res)
    (hL : ∀ x ∈ L, S x.1 ∧ ∀ a ∈ x.2, S ((t2i.lookup a).getD ""))
    (hac : Acyclic (g.deps ++ acc.reverse)) (hS : ∀ e ∈ acc, S e.1 ∧ S e.2) :
    Acyclic (g.deps ++ res) ∧ ∀ e ∈ res, S e.1 ∧ S e.2 := by
  induction L generalizing acc with
  | nil =>
    simp only [planLinks] at h
    cases h
    exact ⟨hac, fun e he => hS e (List.mem_reverse.1 he)⟩
  | cons x xs ih =>
    obtain ⟨f, afters⟩ := x
    simp only [planLinks] at h
    split at h
    · cases h
    · rename_i acc' hgo
      obtain ⟨h1, h2⟩ := hL (f, afters) (by simp)
      obtain ⟨i1, i2⟩ := planLinks_go_spec g t2i f S afters acc acc' hgo h1 h2 hac hS
      exact ih acc' h (fun x hx => hL x (List.mem_cons_of_mem _ hx)) i1 i2

theorem lookup_mem {α β} [BEq α] [LawfulBEq α] (k : α) (l : List (α × β)) (v : β) (h : l.lookup k = some v) :
    (k, v) ∈ l := by
  induction l with
  | nil => simp at h
  | cons x xs ih =>
    obtain ⟨a, b⟩ := x
    rw [List.lookup_cons] at h
    split at h
    · rename_i hab
      simp only [Option.some.injEq] at h
      have : k = a := by simpa using hab
      subst this; subst h; simp
    · exact List.mem_cons_of_mem _ (ih h)

theorem lookup_isSome_of_mem {α β} [BEq α] [LawfulBEq α] (k : α) (l : List (α × β)) (v : β) (h : (k, v) ∈ l) :
    ∃ w, l.lookup k = some w := by
  cases hl : l.lookup k with
  | some w => exact ⟨w, rfl⟩
  | none =>
    rw [List.lookup_eq_none_iff] at hl
    have := hl (k, v) h
    simp at this

/-! ### the section -/

theorem now_mem_times {env : Env} (h : env.times ≠ []) : env.now ∈ env.times := by
  unfold Env.now
  cases ht : env.times with
  | nil => exact absurd ht h
  | cons x xs => simp

theorem getD_mem_times {env : Env} (h : env.times ≠ []) (k : Nat) : env.times.getD k env.now ∈ env.times := by
  rw [List.getD_eq_getElem?_getD]
  cases hk : env.times[k]? with
  | none => exact now_mem_times h
  | some a => exact List.mem_of_getElem? hk

/-- the items `plan` creates for its tasks, exactly as replay will build them -/
def planTasks (p : PlanInput) (taskIds : List Id) (epicId : Id) (env : Env) : List Task :=
  (p.tasks.zip taskIds).zipIdx.map fun x =>
    freshTask false x.1.2 (env.uuids.getD (x.2 + 1) "") epicId (x.1.1.title.getD "") (x.1.1.body.getD "")
      (env.times.getD (x.2 + 1) env.now)

theorem planTasks_ids (p : PlanInput) (taskIds : List Id) (epicId : Id) (env : Env)
    (hlen : taskIds.length = p.tasks.length) : (planTasks p taskIds epicId env).map (·.id) = taskIds := by
  unfold planTasks
  rw [List.map_map]
  have : ((fun x : Task => x.id) ∘ fun x : (PlanTask × Id) × Nat =>
      freshTask false x.1.2 (env.uuids.getD (x.2 + 1) "") epicId (x.1.1.title.getD "") (x.1.1.body.getD "")
        (env.times.getD (x.2 + 1) env.now)) = Prod.snd ∘ Prod.fst := by
    funext x; rfl
  rw [this, ← List.map_map, List.zipIdx_map_fst, List.map_snd_zip (by omega)]

theorem planTasks_mem (p : PlanInput) (taskIds : List Id) (epicId : Id) (env : Env)
    (hen : env.times ≠ []) (htitles : ∀ t ∈ p.tasks, optNonBlank t.title = true) :
    ∀ t ∈ planTasks p taskIds epicId env,
      IsFresh t ∧ t.isEpic = false ∧ t.epicId = epicId ∧ Text.isBlank t.title = false ∧ t.createdAt ∈ env.times := by
  intro t ht
  unfold planTasks at ht
  obtain ⟨x, hx, rfl⟩ := List.mem_map.1 ht
  refine ⟨rfl, rfl, rfl, ?_, getD_mem_times hen _⟩
  have h1 : x.1 ∈ p.tasks.zip taskIds := List.fst_mem_of_mem_zipIdx hx
  have h2 : x.1.1 ∈ p.tasks := (List.of_mem_zip (a := x.1.1) (b := x.1.2) h1).1
  have h3 := htitles _ h2
  show Text.isBlank (x.1.1.title.getD "") = false
  unfold optNonBlank at h3
  cases hti : x.1.1.title with
  | none => rw [hti] at h3; cases h3
  | some s => rw [hti] at h3; simpa using h3

theorem secStep_plan' (p : PlanInput) (hv : planValid p = true) : SecStepOK (.plan p) := by
  intro log g env w out hr hinv henv hrun
  have hrep := replay_eq_raw hr hinv.ok
  simp only [runSec, hrep, secPlan] at hrun
  split at hrun
  · cases hrun
  · cases hrun
  rename_i epicId taskIds rst hd
  split at hrun
  · cases hrun
  rename_i edges hpl
  simp only [Except.map] at hrun
  cases hrun
  -- the ids
  obtain ⟨new, e1, e2, e3, e4⟩ := drawIds_spec _ _ _ _ _ _ hd List.nodup_nil
  simp only [List.reverse_nil, List.nil_append] at e1 e3
  subst e1
  have hlen : taskIds.length = p.tasks.length := by simpa using e2
  have hfree : ∀ i ∈ epicId :: taskIds, i ∉ g.tombs ∧ (∀ u ∈ g.tasks, u.id ≠ i) ∧ i ≠ "" := by
    intro i hi
    obtain ⟨h1, h2⟩ := e4 i hi
    simp only [Graph.taken, Bool.or_eq_false_iff] at h1
    exact ⟨(Graph.tombed_false_iff g i).1 h1.1, (Graph.has_false_iff g i).1 h1.2, henv.ids_ne i h2⟩
  -- the validated plan
  obtain ⟨v1, _, _, v4, _, v6, _⟩ := (planValid_iff p reachable_iff).1 hv
  -- the new items
  have hids := planTasks_ids p taskIds epicId env hlen
  have hmem := planTasks_mem p taskIds epicId env henv.enough (fun t ht => (v4 t ht).1)
  have hev : [Event.newItem true epicId (env.uuids.headD "") "" St.todo (p.title.getD "") (p.body.getD "") (some env.now)] ++
      List.map (fun x => Event.newItem false x.1.2 (env.uuids.getD (x.2 + 1) "") epicId St.todo (x.1.1.title.getD "")
          (x.1.1.body.getD "") (some (env.times.getD (x.2 + 1) env.now))) (p.tasks.zip taskIds).zipIdx =
      (freshTask true epicId (env.uuids.headD "") "" (p.title.getD "") (p.body.getD "") env.now ::
        planTasks p taskIds epicId env).map evOf := by
    simp only [planTasks, List.map_cons, List.map_map, List.singleton_append]
    rfl
  have hallids : (freshTask true epicId (env.uuids.headD "") "" (p.title.getD "") (p.body.getD "") env.now ::
      planTasks p taskIds epicId env).map (·.id) = epicId :: taskIds := by
    rw [List.map_cons, hids]; rfl
  have hidmem : ∀ t ∈ freshTask true epicId (env.uuids.headD "") "" (p.title.getD "") (p.body.getD "") env.now ::
      planTasks p taskIds epicId env, t.id ∈ epicId :: taskIds := by
    intro t ht
    rw [← hallids]
    exact List.mem_map_of_mem ht
  have hfold := foldlM_fresh g _ (by
      intro t ht
      rcases List.mem_cons.1 ht with rfl | ht
      · rfl
      · exact (hmem t ht).1)
    (by rw [hallids]; exact e3)
    (fun t ht => (hfree _ (hidmem t ht)).1) (fun t ht => (hfree _ (hidmem t ht)).2.1)
  have hinv2 := allInv_add_fresh hinv _ (by
      intro t ht
      rcases List.mem_cons.1 ht with rfl | ht
      · rfl
      · exact (hmem t ht).1)
    (by rw [hallids]; exact e3)
    (fun t ht => (hfree _ (hidmem t ht)).1) (fun t ht => (hfree _ (hidmem t ht)).2.1)
    (fun t ht => (hfree _ (hidmem t ht)).2.2)
    (by
      intro t ht
      rcases List.mem_cons.1 ht with rfl | ht
      · show Text.isBlank (p.title.getD "") = false
        unfold optNonBlank at v1
        cases hti : p.title with
        | none => rw [hti] at v1; cases v1
        | some s => rw [hti] at v1; simpa using v1
      · exact (hmem t ht).2.2.2.1)
    (by
      intro t ht
      have : t.createdAt ∈ env.times := by
        rcases List.mem_cons.1 ht with rfl | ht
        · exact now_mem_times henv.enough
        · exact (hmem t ht).2.2.2.2
      exact Nat.pos_iff_ne_zero.1 (henv.pos _ this))
    (by
      intro t ht
      rcases List.mem_cons.1 ht with rfl | ht
      · exact ⟨fun _ => rfl, fun h => (by cases h)⟩
      · obtain ⟨_, h2, h3, _⟩ := hmem t ht
        refine ⟨fun h => (by rw [h2] at h; cases h), fun _ => ⟨_, List.mem_cons_self, ?_, rfl⟩⟩
        rw [h3]; rfl)
  -- the edges
  have ht2i : ∀ kv ∈ (List.map (fun x : PlanTask × Id => (x.1.title.getD "", x.2)) (p.tasks.zip taskIds)).reverse,
      kv.2 ∈ taskIds := by
    intro kv hkv
    obtain ⟨x, hx, rfl⟩ := List.mem_map.1 (List.mem_reverse.1 hkv)
    exact (List.of_mem_zip (a := x.1) (b := x.2) hx).2
  obtain ⟨hac, hS⟩ := planLinks_spec g _ (· ∈ taskIds) _ [] edges hpl (by
      intro x hx
      obtain ⟨y, hy, rfl⟩ := List.mem_map.1 hx
      obtain ⟨hy1, hy2⟩ := List.of_mem_zip (a := y.1) (b := y.2) hy
      constructor
      · show (List.lookup _ _).getD y.2 ∈ taskIds
        cases hl : List.lookup (y.1.title.getD "")
            (List.map (fun x : PlanTask × Id => (x.1.title.getD "", x.2)) (p.tasks.zip taskIds)).reverse with
        | none => exact hy2
        | some v => exact ht2i _ (lookup_mem _ _ _ hl)
      · intro a ha
        obtain ⟨_, _, hat⟩ := v6 y.1 hy1 a ha
        unfold planTitles at hat
        obtain ⟨t', ht', htt⟩ := List.mem_filterMap.1 hat
        have : t' ∈ (p.tasks.zip taskIds).map Prod.fst := by
          rw [List.map_fst_zip (by omega)]; exact ht'
        obtain ⟨z, hz, rfl⟩ := List.mem_map.1 this
        have hin : (a, z.2) ∈ (List.map (fun x : PlanTask × Id => (x.1.title.getD "", x.2)) (p.tasks.zip taskIds)).reverse := by
          rw [List.mem_reverse]
          refine List.mem_map.2 ⟨z, hz, ?_⟩
          simp [htt]
        obtain ⟨w, hw⟩ := lookup_isSome_of_mem _ _ _ hin
        rw [hw]
        exact ht2i _ (lookup_mem _ _ _ hw))
    (by simpa using hinv.i07.acyclic) (by simp)
  have hnewtask : ∀ i ∈ taskIds, ∃ a ∈ planTasks p taskIds epicId env, a.id = i ∧ a.isEpic = false := by
    intro i hi
    rw [← hids] at hi
    obtain ⟨a, ha, rfl⟩ := List.mem_map.1 hi
    exact ⟨a, ha, rfl, (hmem a ha).2.1⟩
  obtain ⟨g', hg', hinv'⟩ := allInv_add_links hinv2 edges hac (by
    intro e he
    obtain ⟨s1, s2⟩ := hS e he
    obtain ⟨a, ha, ha1, ha2⟩ := hnewtask _ s1
    obtain ⟨b, hb, hb1, hb2⟩ := hnewtask _ s2
    refine ⟨(hfree _ (List.mem_cons_of_mem _ s1)).1, (hfree _ (List.mem_cons_of_mem _ s2)).1,
      a, ?_, b, ?_, ha1, hb1, by rw [ha2, hb2]⟩
    · exact List.mem_append_right _ (List.mem_cons_of_mem _ ha)
    · exact List.mem_append_right _ (List.mem_cons_of_mem _ hb))
  refine ⟨g', ?_, hinv'⟩
  simp only [applyWrite]
  rw [List.append_assoc, List.append_assoc, replayRaw_append, hr]
  simp only [Except.bind]
  rw [← List.append_assoc, List.foldlM_append, hev, hfold]
  exact hg'

end Ergo
