/-
  A `claim` killed inside its write: the claim line is whole, the state line that follows is lost (the reader drops the fragment).
  The log is a CLI-reachable log plus one `claim` event — not itself CLI-reachable (the task is todo and carries a claimant), but a
  log C05's quantifier names ("logs whose tail was torn by a crash").  Compaction round-trips it too.
-/
import ErgoProofs.Lemmas.ReachInv
import ErgoProofs.Lemmas.Compact
namespace Ergo

/-- what the claim event does to an item -/
def claimed (agent : Id) (ts : Time) (k : Task) : Task := { k with claimedBy := agent, lastClaim := ts }

theorem taskOK_claimed {k : Task} (h : TaskOK k) (agent : Id) {ts : Time} (hts : ts ≠ 0) : TaskOK (claimed agent ts k) :=
  ⟨h.updated, fun _ => hts, h.epicFixed, h.cStSet, h.titled, h.titleKept, h.created_pos⟩

theorem graphOK_update_claimed {g : Graph} (h : GraphOK g) (h0 : ∀ t ∈ g.tasks, t.isEpic = true → t.lastEpic = 0)
    (id agent : Id) {ts : Time} (hts : ts ≠ 0) :
    GraphOK (g.update id (claimed agent ts)) ∧ ∀ t ∈ (g.update id (claimed agent ts)).tasks, t.isEpic = true → t.lastEpic = 0 := by
  refine ⟨⟨WF_update g id _ (fun _ => rfl) h.wf, ?_⟩, ?_⟩
  · intro x hx
    obtain ⟨y, hy, rfl⟩ := mem_update_tasks.1 hx
    split
    · exact taskOK_claimed (h.tasks y hy) agent hts
    · exact h.tasks y hy
  · intro x hx
    obtain ⟨y, hy, rfl⟩ := mem_update_tasks.1 hx
    split
    · exact h0 y hy
    · exact h0 y hy

/-- the graph a reachable log plus one whole `claim` line replays to satisfies what compaction needs -/
theorem half_claim_graph (log : List Event) (h : ReachOK log) (id agent : Id) (ts : Time) (hts : ts ≠ 0) :
    ∃ g, replay (log ++ [Event.claim id agent (some ts)]) = .ok g ∧ GraphOK g ∧ ∀ t ∈ g.tasks, t.isEpic = true → t.lastEpic = 0 := by
  obtain ⟨g0, hr0, hinv⟩ := reach_allInv log h
  have hraw : replayRaw (log ++ [Event.claim id agent (some ts)]) = applyEvent g0 (Event.claim id agent (some ts)) := by
    rw [replayRaw_append, hr0]
    show List.foldlM applyEvent g0 [Event.claim id agent (some ts)] = _
    simp only [List.foldlM_cons, List.foldlM_nil]
    cases applyEvent g0 (Event.claim id agent (some ts)) <;> rfl
  simp only [applyEvent, withLive] at hraw
  by_cases ht : g0.tombed id = true
  · rw [if_pos ht] at hraw
    exact ⟨g0, replay_eq_raw hraw hinv.ok, hinv.ok, hinv.epic0⟩
  · rw [if_neg ht] at hraw
    by_cases hh : (!g0.has id) = true
    · rw [if_pos hh] at hraw
      exact ⟨g0, replay_eq_raw hraw hinv.ok, hinv.ok, hinv.epic0⟩
    · rw [if_neg hh] at hraw
      have hg := graphOK_update_claimed hinv.ok hinv.epic0 id agent hts
      exact ⟨_, replay_eq_raw hraw hg.1, hg.1, hg.2⟩

/-- compaction preserves every observable of such a log — the claimant and the claim time of the half-claimed task included -/
theorem compact_half_claim (log : List Event) (h : ReachOK log) (id agent : Id) (ts : Time) (hts : ts ≠ 0) :
    ∃ g g', replay (log ++ [Event.claim id agent (some ts)]) = .ok g ∧ replay (compactEvents g) = .ok g' ∧ ObsEq g' g ∧ g'.tombs = [] := by
  obtain ⟨g, hr, hok, h0⟩ := half_claim_graph log h id agent ts hts
  obtain ⟨g', h1, hobs, ht, _, _⟩ := compact_replay' g hok h0
  exact ⟨g, g', hr, h1, hobs, ht⟩

end Ergo
