/-
  WP8 helper — structure of `splitNL` / `scanLines` / `lastFragment` / `uptoLastNL` via a line decomposition
  `f = joinLines lines ++ frag`.
-/
import ErgoModel.Storage
namespace Ergo.Storage

/-- every line followed by '\n' -/
def joinLines (ls : List Bytes) : Bytes := ls.flatMap fun l => l ++ [NL]

@[simp] theorem joinLines_nil : joinLines [] = [] := rfl
@[simp] theorem joinLines_cons (l : Bytes) (ls : List Bytes) : joinLines (l :: ls) = l ++ NL :: joinLines ls := by
  simp [joinLines]
theorem joinLines_append (a b : List Bytes) : joinLines (a ++ b) = joinLines a ++ joinLines b := by
  simp [joinLines]

theorem linesOf_eq_joinLines (encode : Event → Bytes) (evs : List Event) :
    linesOf encode evs = joinLines (evs.map encode) := by
  simp [linesOf, joinLines, List.flatMap_map]

theorem splitNL_ne_nil (f : Bytes) : splitNL f ≠ [] := by
  cases f with
  | nil => simp [splitNL]
  | cons b bs =>
    unfold splitNL
    split
    · simp
    · split <;> simp

theorem splitNL_cons (b : UInt8) (bs : Bytes) :
    splitNL (b :: bs) = if b = NL then [] :: splitNL bs
      else ((splitNL bs).head (splitNL_ne_nil bs) |> (b :: ·)) :: (splitNL bs).tail := by
  have h := splitNL_ne_nil bs
  conv => lhs; unfold splitNL
  split
  · contradiction
  · rename_i l ls heq
    simp [heq]

theorem splitNL_noNL (l : Bytes) (h : NL ∉ l) : splitNL l = [l] := by
  induction l with
  | nil => simp [splitNL]
  | cons b bs ih =>
    simp only [List.mem_cons, not_or] at h
    have hb : ¬ b = NL := fun e => h.1 e.symm
    rw [splitNL_cons]
    simp [hb, ih h.2]

theorem splitNL_line (l rest : Bytes) (h : NL ∉ l) : splitNL (l ++ NL :: rest) = l :: splitNL rest := by
  induction l with
  | nil => rw [List.nil_append, splitNL_cons]; simp
  | cons b bs ih =>
    simp only [List.mem_cons, not_or] at h
    have hb : ¬ b = NL := fun e => h.1 e.symm
    rw [List.cons_append, splitNL_cons]
    simp [hb, ih h.2]

theorem splitNL_join (ls : List Bytes) (frag : Bytes) (hls : ∀ l ∈ ls, NL ∉ l) (hf : NL ∉ frag) :
    splitNL (joinLines ls ++ frag) = ls ++ [frag] := by
  induction ls with
  | nil => simpa using splitNL_noNL frag hf
  | cons l ls ih =>
    rw [joinLines_cons, List.append_assoc, List.cons_append, splitNL_line _ _ (hls l (by simp)),
      ih (fun x hx => hls x (by simp [hx]))]
    rfl

/-- every file is a sequence of complete lines followed by an unterminated (possibly empty) fragment -/
theorem decomp (f : Bytes) : ∃ ls frag, (∀ l ∈ ls, NL ∉ l) ∧ NL ∉ frag ∧ f = joinLines ls ++ frag := by
  induction f with
  | nil => exact ⟨[], [], by simp, by simp, by simp⟩
  | cons b bs ih =>
    obtain ⟨ls, frag, hls, hf, rfl⟩ := ih
    by_cases hb : b = NL
    · subst hb
      refine ⟨[] :: ls, frag, ?_, hf, by simp⟩
      intro l hl
      rcases List.mem_cons.1 hl with rfl | hl
      · simp
      · exact hls l hl
    · cases ls with
      | nil =>
        refine ⟨[], b :: frag, by simp, ?_, by simp⟩
        simp only [List.mem_cons, not_or]
        exact ⟨fun e => hb e.symm, hf⟩
      | cons l ls =>
        refine ⟨(b :: l) :: ls, frag, ?_, hf, by simp⟩
        intro x hx
        rcases List.mem_cons.1 hx with rfl | hx
        · simp only [List.mem_cons, not_or]
          exact ⟨fun e => hb e.symm, hls l (by simp)⟩
        · exact hls x (by simp [hx])

theorem endsWithNL_nil : endsWithNL [] = false := rfl
theorem endsWithNL_snoc (a : Bytes) (b : UInt8) : endsWithNL (a ++ [b]) = (b == NL) := by
  simp [endsWithNL]
theorem endsWithNL_append (a b : Bytes) (hb : b ≠ []) : endsWithNL (a ++ b) = endsWithNL b := by
  simp [endsWithNL, List.getLast?_append]
  cases h : b.getLast? with
  | none => simp [List.getLast?_eq_none_iff] at h; contradiction
  | some x => simp

theorem joinLines_eq_nil {ls : List Bytes} : joinLines ls = [] ↔ ls = [] := by
  cases ls <;> simp

theorem endsWithNL_joinLines (ls : List Bytes) (h : ls ≠ []) : endsWithNL (joinLines ls) = true := by
  induction ls with
  | nil => contradiction
  | cons l ls ih =>
    by_cases hl : ls = []
    · subst hl
      simp only [joinLines_cons, joinLines_nil]
      rw [endsWithNL_snoc]; rfl
    · rw [joinLines_cons, show l ++ NL :: joinLines ls = (l ++ [NL]) ++ joinLines ls by simp,
        endsWithNL_append _ _ (by simpa [joinLines_eq_nil] using hl)]
      exact ih hl

theorem endsWithNL_noNL (frag : Bytes) (hf : NL ∉ frag) : endsWithNL frag = false := by
  cases h : frag.getLast? with
  | none => simp [endsWithNL, h]
  | some x =>
    have hx : x ∈ frag := List.mem_of_getLast? h
    simp only [endsWithNL, h]
    by_cases e : x = NL
    · subst e; contradiction
    · simp [e]

theorem endsWithNL_join_frag (ls : List Bytes) (frag : Bytes) (hf : NL ∉ frag) (hne : frag ≠ []) :
    endsWithNL (joinLines ls ++ frag) = false := by
  rw [endsWithNL_append _ _ hne, endsWithNL_noNL _ hf]

theorem scanLines_join (ls : List Bytes) (frag : Bytes) (hls : ∀ l ∈ ls, NL ∉ l) (hf : NL ∉ frag) :
    scanLines (joinLines ls ++ frag) = ls.map dropCR ++ (if frag = [] then [] else [dropCR frag]) := by
  simp only [scanLines, splitNL_join ls frag hls hf]
  by_cases h : frag = []
  · subst h; simp
  · simp [h]

theorem lastFragment_join (ls : List Bytes) (frag : Bytes) (hls : ∀ l ∈ ls, NL ∉ l) (hf : NL ∉ frag) :
    lastFragment (joinLines ls ++ frag) = frag := by
  simp [lastFragment, splitNL_join ls frag hls hf]

theorem uptoLastNL_join (ls : List Bytes) (frag : Bytes) (hls : ∀ l ∈ ls, NL ∉ l) (hf : NL ∉ frag) :
    uptoLastNL (joinLines ls ++ frag) = joinLines ls := by
  simp [uptoLastNL, lastFragment_join ls frag hls hf]

/-- a file is closed (empty or ending in '\n') iff it consists of complete lines only -/
theorem closed_iff_join (f : Bytes) :
    (f = [] ∨ endsWithNL f = true) ↔ ∃ ls, (∀ l ∈ ls, NL ∉ l) ∧ f = joinLines ls := by
  constructor
  · intro h
    obtain ⟨ls, frag, hls, hf, rfl⟩ := decomp f
    by_cases hfr : frag = []
    · subst hfr; exact ⟨ls, hls, by simp⟩
    · exfalso
      rcases h with h | h
      · simp at h; exact hfr h.2
      · rw [endsWithNL_join_frag ls frag hf hfr] at h; cases h
  · rintro ⟨ls, -, rfl⟩
    by_cases h : ls = []
    · left; simp [h]
    · right; exact endsWithNL_joinLines ls h

theorem closed_append {a b : Bytes} (ha : a = [] ∨ endsWithNL a = true) (hb : b = [] ∨ endsWithNL b = true) :
    (a ++ b = [] ∨ endsWithNL (a ++ b) = true) := by
  rcases hb with rfl | hb
  · simpa using ha
  · have hne : b ≠ [] := by rintro rfl; simp [endsWithNL] at hb
    right; rw [endsWithNL_append _ _ hne]; exact hb

theorem scanLines_closed_append {f : Bytes} (g : Bytes) (hcl : f = [] ∨ endsWithNL f = true) :
    scanLines (f ++ g) = scanLines f ++ scanLines g := by
  obtain ⟨ls, hls, rfl⟩ := (closed_iff_join f).1 hcl
  obtain ⟨ls', frag, hls', hf, rfl⟩ := decomp g
  have h1 := scanLines_join ls [] hls (by simp)
  simp only [List.append_nil, if_true] at h1
  rw [h1, scanLines_join ls' frag hls' hf, ← List.append_assoc, ← joinLines_append,
    scanLines_join (ls ++ ls') frag (by
      intro l hl
      rcases List.mem_append.1 hl with h | h
      · exact hls l h
      · exact hls' l h) hf]
  simp

theorem scanLines_frag (frag : Bytes) (hf : NL ∉ frag) (hne : frag ≠ []) : scanLines frag = [dropCR frag] := by
  have := scanLines_join [] frag (by simp) hf
  simpa [hne] using this

theorem dropCR_length_le (l : Bytes) : (dropCR l).length ≤ l.length := by
  unfold dropCR
  split
  · simp
  · exact Nat.le_refl _

theorem dropCR_noCR (l : Bytes) (h : CR ∉ l) : dropCR l = l := by
  unfold dropCR
  split
  · rename_i h'
    exact absurd (List.mem_of_getLast? h') h
  · rfl

end Ergo.Storage
