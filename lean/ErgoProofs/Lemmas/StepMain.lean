/-
  WP11 — compaction keeps the invariant, and the main reachability theorem: every store the CLI can produce
  (with a clock that does not run backwards and an RNG that never yields the empty id) satisfies `AllInv`.
  The step lemmas for the other section kinds are proved in other work packages; here they are hypotheses of
  `reach_allInv_of_steps` so this file is independent of them.
-/
import ErgoProofs.Inv
import ErgoProofs.Lemmas.StepMainAux
namespace Ergo

theorem secStep_compact : SecStepOK .compact := by
  intro log g env w out hr hinv henv hrun
  have hrep := replay_eq_raw hr hinv.ok
  simp only [runSec, hrep, secCompact, Except.ok.injEq, Prod.mk.injEq] at hrun
  obtain ⟨rfl, _⟩ := hrun
  obtain ⟨g', h1, hobs, _, hok, h0⟩ := compact_roundtrip' g hinv.ok hinv.epic0
  exact ⟨g', h1, allInv_of_obsEq hobs hok h0 hinv⟩

/-- `sectionOf` only ever builds sections the step lemmas cover: creates carry a non-blank title, `claim` has an agent,
    plans are validated -/
theorem sectionOf_create_titled (agent : String) (req : Request) (isEpic : Bool) (epicId title body : String) (follow : SetReq)
    (h : sectionOf agent req = .ok (.create isEpic epicId title body follow)) : Text.isBlank title = false := by
  cases req with
  | newTask i => exact sectionOf_newTask_titled agent i isEpic epicId title body follow h
  | newEpic i => exact sectionOf_newEpic_titled agent i isEpic epicId title body follow h
  | set id i => obtain ⟨r, hr⟩ := sectionOf_set_sec agent id i _ h; cases hr
  | claim id => obtain ⟨r, hr⟩ := sectionOf_claim_sec agent id _ h; cases hr
  | claimOldest epic => have hr := (sectionOf_claimOldest_sec agent epic _ h).1; cases hr
  | sequence args => obtain ⟨un, edges, hr⟩ := sectionOf_sequence_sec agent args _ h; cases hr
  | plan p => obtain ⟨q, hr, _⟩ := sectionOf_plan_sec agent p _ h; cases hr
  | prune y => have hr := sectionOf_prune_sec agent y _ h; cases hr
  | compact => have hr := sectionOf_compact_sec agent _ h; cases hr

theorem sectionOf_claimOldest_agent (agent : String) (req : Request) (epic : Id)
    (h : sectionOf agent req = .ok (.claimOldest epic)) : agent ≠ "" := by
  cases req with
  | newTask i => obtain ⟨a, b, c, d, e, hr⟩ := sectionOf_newTask_sec agent i _ h; cases hr
  | newEpic i => obtain ⟨a, b, c, d, e, hr⟩ := sectionOf_newEpic_sec agent i _ h; cases hr
  | set id i => obtain ⟨r, hr⟩ := sectionOf_set_sec agent id i _ h; cases hr
  | claim id => obtain ⟨r, hr⟩ := sectionOf_claim_sec agent id _ h; cases hr
  | claimOldest epic' => exact (sectionOf_claimOldest_sec agent epic' _ h).2
  | sequence args => obtain ⟨un, edges, hr⟩ := sectionOf_sequence_sec agent args _ h; cases hr
  | plan p => obtain ⟨q, hr, _⟩ := sectionOf_plan_sec agent p _ h; cases hr
  | prune y => have hr := sectionOf_prune_sec agent y _ h; cases hr
  | compact => have hr := sectionOf_compact_sec agent _ h; cases hr

theorem sectionOf_plan_valid (agent : String) (req : Request) (p : PlanInput)
    (h : sectionOf agent req = .ok (.plan p)) : planValid p = true := by
  cases req with
  | newTask i => obtain ⟨a, b, c, d, e, hr⟩ := sectionOf_newTask_sec agent i _ h; cases hr
  | newEpic i => obtain ⟨a, b, c, d, e, hr⟩ := sectionOf_newEpic_sec agent i _ h; cases hr
  | set id i => obtain ⟨r, hr⟩ := sectionOf_set_sec agent id i _ h; cases hr
  | claim id => obtain ⟨r, hr⟩ := sectionOf_claim_sec agent id _ h; cases hr
  | claimOldest epic => have hr := (sectionOf_claimOldest_sec agent epic _ h).1; cases hr
  | sequence args => obtain ⟨un, edges, hr⟩ := sectionOf_sequence_sec agent args _ h; cases hr
  | plan p' => obtain ⟨q, hr, hv⟩ := sectionOf_plan_sec agent p' _ h; cases hr; exact hv
  | prune y => have hr := sectionOf_prune_sec agent y _ h; cases hr
  | compact => have hr := sectionOf_compact_sec agent _ h; cases hr

theorem allInv_empty : AllInv Graph.empty := by
  refine ⟨⟨WF_empty, ?_⟩, ?_, ?_, ⟨acyclic_nil, ?_⟩, ?_, ?_⟩ <;> simp [Graph.empty, Inv06, Inv14]

/-- the main induction, parametrised by the per-section step lemmas -/
theorem reach_allInv_of_steps
    (hUpdate : ∀ id r, SecStepOK (.update id r))
    (hCreate : ∀ isEpic epicId title body follow, Text.isBlank title = false → SecStepOK (.create isEpic epicId title body follow))
    (hClaim : ∀ epic (log : List Event) (g : Graph) (env : Env) (w : Write) (out : SecOut),
      env.agent ≠ "" → replayRaw log = .ok g → AllInv g → EnvOK g env → runSec log env (.claimOldest epic) = .ok (w, out) →
      ∃ g', replayRaw (applyWrite log w) = .ok g' ∧ AllInv g')
    (hLinks : ∀ un edges, SecStepOK (.links un edges))
    (hPrune : ∀ a, SecStepOK (.prune a))
    (hPlan : ∀ p, planValid p = true → SecStepOK (.plan p))
    (log : List Event) (h : ReachOK log) :
    ∃ g, replayRaw log = .ok g ∧ AllInv g := by
  induction h with
  | init => exact ⟨Graph.empty, rfl, allInv_empty⟩
  | @step log g env req _ hr henv ih =>
    obtain ⟨g0, hr0, hinv⟩ := ih
    have hg : g0 = g := by rw [hr] at hr0; cases hr0; rfl
    subst hg
    cases hs : sectionOf env.agent req with
    | error e =>
      have hl : (runCmd log env req).log = log := by simp only [runCmd, hs]
      rw [hl]; exact ⟨g0, hr, hinv⟩
    | ok sec =>
      cases hrun : runSec log env sec with
      | error e =>
        have hl : (runCmd log env req).log = log := by simp only [runCmd, hs, hrun]
        rw [hl]; exact ⟨g0, hr, hinv⟩
      | ok p =>
        obtain ⟨w, out⟩ := p
        have hl : (runCmd log env req).log = applyWrite log w := by simp only [runCmd, hs, hrun]
        rw [hl]
        cases sec with
        | create isEpic epicId title body follow =>
          exact hCreate isEpic epicId title body follow
            (sectionOf_create_titled env.agent req isEpic epicId title body follow hs) log g0 env w out hr hinv henv hrun
        | update id r => exact hUpdate id r log g0 env w out hr hinv henv hrun
        | links un edges => exact hLinks un edges log g0 env w out hr hinv henv hrun
        | claimOldest epic =>
          exact hClaim epic log g0 env w out (sectionOf_claimOldest_agent env.agent req epic hs) hr hinv henv hrun
        | prune a => exact hPrune a log g0 env w out hr hinv henv hrun
        | compact => exact secStep_compact log g0 env w out hr hinv henv hrun
        | plan p => exact hPlan p (sectionOf_plan_valid env.agent req p hs) log g0 env w out hr hinv henv hrun

/-- a command that exits non-zero leaves the log exactly as it was (C10); `claim` answering "no ready tasks" exits 0 and
    also leaves it unchanged -/
theorem runCmd_err_unchanged (log : List Event) (env : Env) (req : Request) (e : CmdErr)
    (h : (runCmd log env req).err = some e) : (runCmd log env req).log = log ∧ (runCmd log env req).write = none := by
  unfold runCmd at h ⊢
  cases hs : sectionOf env.agent req with
  | error e' => simp
  | ok sec =>
    cases hr : runSec log env sec with
    | error e' => simp [hr]
    | ok p => simp [hs, hr] at h

theorem runCmd_nowrite_unchanged (log : List Event) (env : Env) (req : Request)
    (h : (runCmd log env req).write = none) : (runCmd log env req).log = log := by
  unfold runCmd at h ⊢
  cases hs : sectionOf env.agent req with
  | error e' => simp
  | ok sec =>
    cases hr : runSec log env sec with
    | error e' => simp [hr]
    | ok p => simp [hs, hr] at h

end Ergo
