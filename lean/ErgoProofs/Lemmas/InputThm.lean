/-
  WP21 — the JSON document on stdin (ErgoModel.Input): the document an agent pipes in for a set of fields is decoded by `ParseTaskInput` to
  exactly those fields, whatever text they hold (`parseTaskInput_enc`), and anything but white space after it is a parse error
  (`parseTaskInput_trailing`).
-/
import ErgoProofs.Lemmas.CodecInst
import ErgoModel.Input
open Ergo Ergo.Storage Ergo.Codec Ergo.Input
namespace Ergo.Input

/-- the document an agent pipes in for these fields: present fields as JSON strings, in the order of the schema -/
def taskInputMembers (t : TaskInput) : List (String × Bytes) :=
  ([("title", t.title), ("body", t.body), ("epic", t.epic), ("state", t.state), ("claim", t.claim),
    ("result_path", t.resultPath), ("result_summary", t.resultSummary)].filterMap fun kv => kv.2.map fun v => (kv.1, encStr v))

def encTaskInput (t : TaskInput) : Bytes := encObj (taskInputMembers t)

theorem val_members (t : TaskInput) (d : Nat) : ∀ kv ∈ taskInputMembers t, Val 1 d kv.2 := by
  intro kv hkv
  simp only [taskInputMembers, List.mem_filterMap] at hkv
  obtain ⟨⟨k, o⟩, _, h⟩ := hkv
  cases o with
  | none => simp at h
  | some v => simp at h; subst h; exact val_encStr _ _

theorem members_len (t : TaskInput) : (taskInputMembers t).length ≤ 7 := by
  simp only [taskInputMembers]
  exact Nat.le_trans (List.length_filterMap_le _ _) (by simp)

theorem document_enc (t : TaskInput) (hne : taskInputMembers t ≠ []) (tail : Bytes) (ht : skipWs tail = []) :
    document (encTaskInput t ++ tail) = some ((taskInputMembers t).map fun kv => (rawOf kv.1, kv.2)) := by
  have hv : Val (1 + (taskInputMembers t).length + 1) (9999 + 1) (encTaskInput t) := val_encObj 9999 1 _ hne (val_members t _)
  have hlen := members_len t
  have hsk := hv.skip FUEL (by have := FUEL_ge 20 (by omega); omega) tail
  have hstart : skipWs (encTaskInput t ++ tail) = encTaskInput t ++ tail := by
    rw [encTaskInput, encObj_eq]; exact skipWs_cons_of 123 _ (by decide)
  have htop := parseTop_encObj 1 (taskInputMembers t) hne (val_members t _) (by omega)
  simp only [document, firstValue, hstart]
  rw [show DEPTH = 9999 + 1 from rfl, hsk]
  simp only [consumed_eq, ht, ne_eq, not_true_eq_false, if_false]
  rw [encTaskInput, htop]


theorem keyMatches_raw (k n : String) : keyMatches (rawOf k) n = decide (foldKey k = foldKey n) := keyMatches_rawOf k n

/-- one member whose value is an encoded string sets the field its key names -/
theorem ptrStep_str (names : List String) (cur : List (Option String)) (k v : String) (i : Nat)
    (hi : names.findIdx? (fun n => decide (foldKey k = foldKey n)) = some i) :
    (match names.findIdx? (fun n => keyMatches (rawOf k, encStr v).1 n) with
      | none => none
      | some i =>
        match valKind (rawOf k, encStr v).2 with
        | .str => some (cur.set i (some (strVal (rawOf k, encStr v).2)))
        | .null => some (cur.set i none)
        | .other => none) = some (cur.set i (some v)) := by
  simp only [keyMatches_raw, hi, valKind_encStr, strVal_encStr]

theorem idx0 : taskInputFields.findIdx? (fun n => decide (foldKey "title" = foldKey n)) = some 0 := by decide
theorem idx1 : taskInputFields.findIdx? (fun n => decide (foldKey "body" = foldKey n)) = some 1 := by decide
theorem idx2 : taskInputFields.findIdx? (fun n => decide (foldKey "epic" = foldKey n)) = some 2 := by decide
theorem idx3 : taskInputFields.findIdx? (fun n => decide (foldKey "state" = foldKey n)) = some 3 := by decide
theorem idx4 : taskInputFields.findIdx? (fun n => decide (foldKey "claim" = foldKey n)) = some 4 := by decide
theorem idx5 : taskInputFields.findIdx? (fun n => decide (foldKey "result_path" = foldKey n)) = some 5 := by decide
theorem idx6 : taskInputFields.findIdx? (fun n => decide (foldKey "result_summary" = foldKey n)) = some 6 := by decide
theorem init7 : (taskInputFields.map fun _ => (none : Option String)) = [none, none, none, none, none, none, none] := rfl

set_option maxHeartbeats 4000000 in
/-- **the document on stdin is read back exactly**: whatever text the fields hold, piping the JSON document for them (followed by nothing but
    white space) gives `ParseTaskInput` exactly those fields -/
theorem parseTaskInput_enc (t : TaskInput) (hne : taskInputMembers t ≠ []) (tail : Bytes) (ht : skipWs tail = []) :
    parseTaskInput (encTaskInput t ++ tail) = some t := by
  unfold parseTaskInput
  rw [document_enc t hne tail ht]
  obtain ⟨a, b, c, d, e, f, g⟩ := t
  cases a <;> cases b <;> cases c <;> cases d <;> cases e <;> cases f <;> cases g <;>
    simp [taskInputMembers, ptrFields, init7, keyMatches_raw, valKind_encStr, strVal_encStr, idx0, idx1, idx2, idx3, idx4, idx5, idx6] at hne ⊢


/-- … and anything but white space after the document — a second value, stray text — makes the whole input a parse error -/
theorem parseTaskInput_trailing (t : TaskInput) (hne : taskInputMembers t ≠ []) (tail : Bytes) (ht : skipWs tail ≠ []) :
    parseTaskInput (encTaskInput t ++ tail) = none := by
  have hv : Val (1 + (taskInputMembers t).length + 1) (9999 + 1) (encTaskInput t) := val_encObj 9999 1 _ hne (val_members t _)
  have hlen := members_len t
  have hsk := hv.skip FUEL (by have := FUEL_ge 20 (by omega); omega) tail
  have hstart : skipWs (encTaskInput t ++ tail) = encTaskInput t ++ tail := by
    rw [encTaskInput, encObj_eq]; exact skipWs_cons_of 123 _ (by decide)
  simp only [parseTaskInput, document, firstValue, hstart]
  rw [show DEPTH = 9999 + 1 from rfl, hsk]
  simp [ht]

end Ergo.Input
