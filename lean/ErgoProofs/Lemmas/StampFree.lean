/-
  What an item *is* — its state, claimant, title, body, epic, its results and their order, the edges, the pruned ids — follows from the
  order of the lines of the log and never from the values of their time stamps: replaying the same events with any other stamps gives the
  same graph up to the clock readings stored in it.  (Several seeded changes made replay prefer "the newer stamp" over "the later line";
  a log merged from a collaborator whose clock runs ahead, or a clock set back, then decides differently.)
-/
import ErgoModel.Replay
namespace Ergo

/-- an item without the clock readings stored in it -/
def Task.untimed (t : Task) : Task :=
  { t with createdAt := 0, updatedAt := 0, lastState := 0, lastClaim := 0, lastTitle := 0, lastBody := 0, lastEpic := 0,
           results := t.results.map fun r => { r with time := 0 } }

def Graph.untimed (g : Graph) : Graph := { g with tasks := g.tasks.map Task.untimed }

/-- the same event with another stamp: a stamp that parsed is replaced by `f` of it, one that did not parse still does not -/
def Event.restamp (f : Time → Time) : Event → Event
  | .newItem isEpic id uuid epicId st ttl bdy c => .newItem isEpic id uuid epicId st ttl bdy (c.map f)
  | .state id st ts => .state id st (ts.map f)
  | .claim id a ts => .claim id a (ts.map f)
  | .title id s ts => .title id s (ts.map f)
  | .body id s ts => .body id s (ts.map f)
  | .epic id e ts => .epic id e (ts.map f)
  | .tombstone id a ts => .tombstone id a (ts.map f)
  | .result t s p sha m g ts => .result t s p sha m g (ts.map f)
  | e => e

/-- two logs with the same events line by line, each line with stamps of its own -/
inductive SameLines : List Event → List Event → Prop where
  | nil : SameLines [] []
  | cons (f : Time → Time) {e : Event} {l l' : List Event} : SameLines l l' → SameLines (e :: l) (e.restamp f :: l')

@[simp] theorem Task.untimed_id (t : Task) : t.untimed.id = t.id := rfl

theorem untimed_ids {g1 g2 : Graph} (h : g1.untimed = g2.untimed) : g1.tasks.map (·.id) = g2.tasks.map (·.id) := by
  have := congrArg (fun g => g.tasks.map (·.id)) h
  simpa [Graph.untimed, List.map_map, Function.comp_def] using this

theorem untimed_has {g1 g2 : Graph} (h : g1.untimed = g2.untimed) (id : Id) : g1.has id = g2.has id := by
  have hi := untimed_ids h
  have e : ∀ g : Graph, g.has id = (g.tasks.map (·.id)).any (· == id) := by
    intro g; simp [Graph.has, List.any_map, Function.comp_def]
  rw [e g1, e g2, hi]

theorem untimed_tombs {g1 g2 : Graph} (h : g1.untimed = g2.untimed) : g1.tombs = g2.tombs := by
  have := congrArg Graph.tombs h; exact this
theorem untimed_deps {g1 g2 : Graph} (h : g1.untimed = g2.untimed) : g1.deps = g2.deps := by
  have := congrArg Graph.deps h; exact this
theorem untimed_tombed {g1 g2 : Graph} (h : g1.untimed = g2.untimed) (id : Id) : g1.tombed id = g2.tombed id := by
  simp [Graph.tombed, untimed_tombs h]

/-- rewriting one item commutes with forgetting the clock readings, when the rewrite does -/
theorem update_untimed (g : Graph) (id : Id) (h F : Task → Task) (hF : ∀ k, (h k).untimed = F k.untimed) :
    (g.update id h).untimed = g.untimed.update id F := by
  simp only [Graph.update, Graph.untimed, List.map_map]
  congr 1
  apply List.map_congr_left
  intro t _
  simp only [Function.comp_def, Task.untimed_id]
  by_cases hc : (t.id == id) = true
  · simp only [hc, if_true]; exact hF t
  · simp only [hc]; rfl

theorem update_congr {g1 g2 : Graph} (h : g1.untimed = g2.untimed) (id : Id) (h1 h2 F : Task → Task)
    (hF1 : ∀ k, (h1 k).untimed = F k.untimed) (hF2 : ∀ k, (h2 k).untimed = F k.untimed) :
    (g1.update id h1).untimed = (g2.update id h2).untimed := by
  rw [update_untimed g1 id h1 F hF1, update_untimed g2 id h2 F hF2, h]

theorem withLive_untimed {g1 g2 : Graph} (h : g1.untimed = g2.untimed) (id : Id) (ts : Option Time) (f : Time → Time)
    (u : Task → Time → Task) (F : Task → Task) (hF : ∀ k t, (u k t).untimed = F k.untimed) :
    (withLive g1 id ts u).map Graph.untimed = (withLive g2 id (ts.map f) u).map Graph.untimed := by
  unfold withLive
  rw [untimed_tombed h id, untimed_has h id]
  by_cases ht : g2.tombed id = true
  · simp only [ht, if_true, Except.map, h]
  · simp only [ht]
    by_cases hh : (!g2.has id) = true
    · simp only [hh, if_true, Except.map, h]; simp [h]
    · simp only [hh]
      cases ts with
      | none => rfl
      | some t =>
        simp only [Option.map_some, Except.map]
        have := update_congr h id (fun k => u k t) (fun k => u k (f t)) F (fun k => hF k t) (fun k => hF k (f t))
        simp [this]

theorem applyTombstone_untimed (g : Graph) (id : Id) : (applyTombstone g id).untimed = applyTombstone g.untimed id := by
  simp only [applyTombstone, Graph.untimed, List.filter_map]
  congr 1

/-- one line: equal up to clock readings before, equal up to clock readings after — or the same failure -/
theorem applyEvent_untimed {g1 g2 : Graph} (h : g1.untimed = g2.untimed) (e : Event) (f : Time → Time) :
    (applyEvent g1 e).map Graph.untimed = (applyEvent g2 (e.restamp f)).map Graph.untimed := by
  cases e with
  | newItem isEpic id uuid epicId st ttl bdy c =>
    simp only [applyEvent, Event.restamp]
    rw [untimed_tombed h id, untimed_has h id]
    by_cases ht : g2.tombed id = true
    · simp [ht, Except.map, h]
    · simp only [ht]
      by_cases hh : g2.has id = true
      · simp [hh, Except.map]
      · simp only [hh]
        cases c with
        | none => rfl
        | some c =>
          simp only [Option.map_some, Except.map]
          have h' := congrArg Graph.tasks h
          simp only [Graph.untimed] at h'
          simp [Graph.untimed, Task.untimed, h', untimed_deps h, untimed_tombs h]
  | state id st ts =>
    exact withLive_untimed h id ts f _ (fun u => { u with st := st, claimedBy := if st.clearsClaim then "" else u.claimedBy }) (fun k t => rfl)
  | claim id a ts =>
    exact withLive_untimed h id ts f _ (fun u => { u with claimedBy := a }) (fun k t => rfl)
  | unclaim id =>
    simp only [applyEvent, Event.restamp]
    rw [untimed_tombed h id]
    by_cases ht : g2.tombed id = true
    · simp [ht, Except.map, h]
    · simp only [ht, Except.map]
      have := update_congr h id (fun k => { k with claimedBy := "" }) (fun k => { k with claimedBy := "" }) (fun u => { u with claimedBy := "" })
        (fun k => rfl) (fun k => rfl)
      simp [this]
  | link a b dep =>
    simp only [applyEvent, Event.restamp]
    rw [untimed_tombed h a, untimed_tombed h b, untimed_deps h]
    by_cases hc : (g2.tombed a || g2.tombed b || !dep) = true
    · simp [hc, Except.map, h]
    · simp only [hc]
      by_cases hd : g2.deps.contains (a, b) = true
      · simp only [hd, if_true, Except.map]; simp [h]
      · simp only [hd, Except.map]
        have h' := congrArg Graph.tasks h
        simp only [Graph.untimed] at h'
        simp [Graph.untimed, h', untimed_tombs h]
  | unlink a b dep =>
    simp only [applyEvent, Event.restamp]
    rw [untimed_tombed h a, untimed_tombed h b]
    by_cases hc : (g2.tombed a || g2.tombed b || !dep) = true
    · simp [hc, Except.map, h]
    · simp only [hc, Except.map]
      have h' := congrArg Graph.tasks h
      simp only [Graph.untimed] at h'
      simp [Graph.untimed, h', untimed_deps h, untimed_tombs h]
  | title id s ts =>
    exact withLive_untimed h id ts f _ (fun u => { u with title := s }) (fun k t => rfl)
  | body id s ts =>
    exact withLive_untimed h id ts f _ (fun u => { u with body := s }) (fun k t => rfl)
  | epic id ep ts =>
    exact withLive_untimed h id ts f _ (fun u => { u with epicId := ep }) (fun k t => rfl)
  | tombstone id a ts =>
    simp only [applyEvent, Event.restamp]
    cases ts with
    | none => rfl
    | some t =>
      simp only [Option.map_some, Except.map]
      rw [applyTombstone_untimed, applyTombstone_untimed, h]
  | result task s p sha m gt ts =>
    exact withLive_untimed h task ts f _
      (fun u => { u with results := { summary := s, path := p, sha := sha, mtime := m, git := gt, time := 0 } :: u.results }) (fun k t => rfl)
  | ignored => simp [applyEvent, Event.restamp, Except.map, h]
  | badData => rfl

theorem foldlM_untimed {l l' : List Event} (hl : SameLines l l') {g1 g2 : Graph} (h : g1.untimed = g2.untimed) :
    (l.foldlM applyEvent g1).map Graph.untimed = (l'.foldlM applyEvent g2).map Graph.untimed := by
  induction hl generalizing g1 g2 with
  | nil => simp [List.foldlM, Except.map, pure, Except.pure, h]
  | @cons f e l l' _ ih =>
    simp only [List.foldlM_cons]
    have hs := applyEvent_untimed h e f
    cases h1 : applyEvent g1 e with
    | error x =>
      cases h2 : applyEvent g2 (e.restamp f) with
      | error y =>
        rw [h1, h2] at hs
        simp only [Except.map] at hs
        simp only [bind, Except.bind, Except.map]
        exact hs
      | ok b => rw [h1, h2] at hs; simp [Except.map] at hs
    | ok a =>
      cases h2 : applyEvent g2 (e.restamp f) with
      | error y => rw [h1, h2] at hs; simp [Except.map] at hs
      | ok b =>
        rw [h1, h2] at hs
        simp only [Except.map, Except.ok.injEq] at hs
        simp only [bind, Except.bind]
        exact ih hs

theorem migrate_untimed (g : Graph) : (migrate g).untimed = migrate g.untimed := by
  simp only [migrate, Graph.untimed, List.map_map]
  congr 1
  apply List.map_congr_left
  intro t _
  simp only [Function.comp_def, migrateTask]
  have ht : t.untimed.title = t.title := rfl
  by_cases hb : Text.isBlank t.title = true
  · simp only [ht, hb, if_true]; rfl
  · simp only [ht, hb]; rfl

/-- the theorem: the same lines with any other stamps replay to the same graph up to the clock readings stored in it (or fail alike) -/
theorem replay_stamp_free {l l' : List Event} (hl : SameLines l l') :
    (replay l).map Graph.untimed = (replay l').map Graph.untimed := by
  have h := foldlM_untimed hl (g1 := Graph.empty) (g2 := Graph.empty) rfl
  unfold replay replayRaw
  cases h1 : l.foldlM applyEvent Graph.empty with
  | error x =>
    cases h2 : l'.foldlM applyEvent Graph.empty with
    | error y => rw [h1, h2] at h; simpa [Except.map] using h
    | ok b => rw [h1, h2] at h; simp [Except.map] at h
  | ok a =>
    cases h2 : l'.foldlM applyEvent Graph.empty with
    | error y => rw [h1, h2] at h; simp [Except.map] at h
    | ok b =>
      rw [h1, h2] at h
      simp only [Except.map, Except.ok.injEq] at h ⊢
      rw [migrate_untimed, migrate_untimed, h]

end Ergo

namespace Ergo

theorem find_untimed (g : Graph) (id : Id) : g.untimed.find? id = (g.find? id).map Task.untimed := by
  simp only [Graph.find?, Graph.untimed, List.find?_map]
  rfl

/-- both replays succeeded: every item, looked up by id, is the same up to its clock readings; edges and pruned ids are the same -/
theorem stamp_free_items {l l' : List Event} (hl : SameLines l l') {g g' : Graph} (hr : replay l = .ok g) (hr' : replay l' = .ok g') :
    (∀ id, (g.find? id).map Task.untimed = (g'.find? id).map Task.untimed) ∧ g.deps = g'.deps ∧ g.tombs = g'.tombs := by
  have h := replay_stamp_free hl
  rw [hr, hr'] at h
  simp only [Except.map, Except.ok.injEq] at h
  refine ⟨fun id => ?_, untimed_deps h, untimed_tombs h⟩
  rw [← find_untimed, ← find_untimed, h]

/-- and they succeed together -/
theorem stamp_free_ok {l l' : List Event} (hl : SameLines l l') {g : Graph} (hr : replay l = .ok g) : ∃ g', replay l' = .ok g' := by
  have h := replay_stamp_free hl
  rw [hr] at h
  cases hr' : replay l' with
  | ok g' => exact ⟨g', rfl⟩
  | error e => rw [hr'] at h; simp [Except.map] at h

end Ergo
