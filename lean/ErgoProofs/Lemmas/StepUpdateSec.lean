/-
  WP9, part 3 — the sections' closures: what a successful `secUpdate` / `secCreate` returned, and the common
  "replay a run of update events for one live item" step.
-/
import ErgoProofs.Lemmas.StepUpdateGraph
namespace Ergo

theorem updates_AllInv {g : Graph} {id : Id} {t : Task} {evs : List Event} {now : Time} {R : Id → Prop}
    (h : AllInv g) (hfind : g.find? id = some t) (htomb : g.tombed id = false) (hpos : 0 < now)
    (hle : ∀ x ∈ t.times, x ≤ now) (hRsub : ∀ x, R x → EpicRef g x) (hRt : t.isEpic = false → R t.epicId)
    (hgood : ∀ e ∈ evs, GoodEv id now t.isEpic R e) (hinv : TaskInv (evs.foldl stepTask t)) :
    evs.foldlM applyEvent g = .ok (g.update id fun k => evs.foldl stepTask k) ∧
    AllInv (g.update id fun k => evs.foldl stepTask k) := by
  have hwf := h.ok.wf
  obtain ⟨htm, htid⟩ := (Graph.find?_iff hwf id t).1 hfind
  have hhas : g.has id = true := (Graph.has_iff g id).2 ⟨t, htm, htid⟩
  refine ⟨foldlM_updates g id evs hhas htomb (fun e he => (hgood e he).isUpdateFor), ?_⟩
  have hst : StepOK now R t :=
    StepOK_of_TaskOK (h.ok.tasks t htm) hle (h.epic0 t htm) hRt (h.i14 t htm).1
  have hst' : StepOK now R (evs.foldl stepTask t) := foldl_StepOK hpos evs t hst hgood
  exact AllInv_update (f := fun k => evs.foldl stepTask k) h hfind (fun k => foldl_stepTask_id k evs)
    (fun k => foldl_stepTask_isEpic k evs) (TaskOK_of_StepOK hst' hinv) hinv hst'.epic0 hst'.epicE
    (fun hE => hRsub _ (hst'.epicR hE))

theorem env_now_mem {g : Graph} {env : Env} (he : EnvOK g env) : env.now ∈ env.times := by
  unfold Env.now
  cases hts : env.times with
  | nil => exact absurd hts he.enough
  | cons a r => simp

theorem secUpdate_ok {g : Graph} {id : Id} {r : SetReq} {agent : String} {po : PathOutcome} {now : Time} {w : Write}
    (h : secUpdate g id r agent po now = .ok w) :
    g.tombed id = false ∧ ∃ t evs, g.find? id = some t ∧ updateEvents g t r agent po now = .ok evs ∧ w = .append evs := by
  unfold secUpdate at h
  simp only [bind, Except.bind, throw, throwThe, MonadExceptOf.throw] at h
  split at h
  · cases h
  · rename_i ht
    refine ⟨by simpa using ht, ?_⟩
    split at h
    · cases h
    · rename_i t hf
      cases hu : updateEvents g t r agent po now with
      | error x => simp [hu, Except.map] at h
      | ok evs =>
        simp only [hu, Except.map] at h
        injection h with h
        exact ⟨t, evs, hf, hu, h.symm⟩

theorem pickId_go_ok {live : Id → Bool} : ∀ (n : Nat) (ids : List Id) (i : Id) (rest : List Id),
    pickId.go live n ids = some (i, rest) → i ∈ ids ∧ live i = false
  | 0, _, _, _, h => by simp [pickId.go] at h
  | _+1, [], _, _, h => by simp [pickId.go] at h
  | n+1, x :: xs, i, rest, h => by
    simp only [pickId.go] at h
    split at h
    · obtain ⟨h1, h2⟩ := pickId_go_ok n xs i rest h
      exact ⟨List.mem_cons_of_mem _ h1, h2⟩
    · rename_i hx
      injection h with h; injection h with h1 _
      subst h1
      exact ⟨by simp, by simpa using hx⟩


def createTail (g : Graph) (isEpic : Bool) (epicId title body : String) (follow : SetReq) (ids : List Id) (uuid : String)
    (agent : String) (po : PathOutcome) (now : Time) : Except CmdErr (Write × Id) :=
  match pickId g.taken ids with
  | none => throw .idExhausted
  | some (id, _) => do
    let eid := if isEpic then "" else epicId
    let ev := Event.newItem isEpic id uuid eid .todo title body (some now)
    let more ← if follow.isEmpty then pure [] else updateEvents g (freshTask isEpic id uuid eid title body now) follow agent po now
    pure (.append (ev :: more), id)

theorem secCreate_eq (g : Graph) (isEpic : Bool) (epicId title body : String) (follow : SetReq) (ids : List Id) (uuid : String)
    (agent : String) (po : PathOutcome) (now : Time) :
    secCreate g isEpic epicId title body follow ids uuid agent po now =
      if !isEpic && epicId != "" then
        match g.find? epicId with
        | none => .error .unknownEpic
        | some e => if !e.isEpic then .error .notEpic else createTail g isEpic epicId title body follow ids uuid agent po now
      else createTail g isEpic epicId title body follow ids uuid agent po now := by
  unfold secCreate createTail
  simp only [bind, Except.bind, pure, Except.pure, throw, throwThe, MonadExceptOf.throw]
  by_cases hc : (!isEpic && epicId != "") = true
  · rw [if_pos hc, if_pos hc]
    cases g.find? epicId with
    | none => rfl
    | some e =>
      dsimp only
      by_cases he : (!e.isEpic) = true
      · rw [if_pos he, if_pos he]
      · rw [if_neg he, if_neg he]
        cases pickId g.taken ids with
        | none => rfl
        | some p => rfl
  · rw [if_neg hc, if_neg hc]
    cases pickId g.taken ids with
    | none => rfl
    | some p => rfl

theorem createTail_ok {g : Graph} {isEpic : Bool} {epicId title body : String} {follow : SetReq} {ids : List Id}
    {uuid agent : String} {po : PathOutcome} {now : Time} {w : Write} {id : Id}
    (h : createTail g isEpic epicId title body follow ids uuid agent po now = .ok (w, id)) :
    id ∈ ids ∧ g.taken id = false ∧
    ∃ more, w = .append (Event.newItem isEpic id uuid (if isEpic then "" else epicId) .todo title body (some now) :: more) ∧
      (more = [] ∨ updateEvents g (freshTask isEpic id uuid (if isEpic then "" else epicId) title body now) follow agent po now
          = .ok more) := by
  unfold createTail at h
  simp only [bind, Except.bind, pure, Except.pure, throw, throwThe, MonadExceptOf.throw] at h
  split at h
  · cases h
  · rename_i id' rest hp
    obtain ⟨h1, h2⟩ := pickId_go_ok _ _ _ _ hp
    split at h
    · injection h with h; injection h with hw hid
      subst hid
      exact ⟨h1, h2, [], hw.symm, Or.inl rfl⟩
    · cases hu : updateEvents g (freshTask isEpic id' uuid (if isEpic then "" else epicId) title body now) follow agent po now with
      | error x => rw [hu] at h; cases h
      | ok v =>
        rw [hu] at h
        injection h with h; injection h with hw hid
        subst hid
        exact ⟨h1, h2, v, hw.symm, Or.inr hu⟩

theorem secCreate_ok {g : Graph} {isEpic : Bool} {epicId title body : String} {follow : SetReq} {ids : List Id}
    {uuid agent : String} {po : PathOutcome} {now : Time} {w : Write} {id : Id}
    (h : secCreate g isEpic epicId title body follow ids uuid agent po now = .ok (w, id)) :
    (isEpic = false → epicId ≠ "" → ∃ e, g.find? epicId = some e ∧ e.isEpic = true) ∧
    createTail g isEpic epicId title body follow ids uuid agent po now = .ok (w, id) := by
  rw [secCreate_eq] at h
  split at h
  · split at h
    · cases h
    · rename_i e hf
      split at h
      · cases h
      · rename_i he
        exact ⟨fun _ _ => ⟨e, hf, by simpa using he⟩, h⟩
  · rename_i hc
    refine ⟨?_, h⟩
    intro h1 h2
    simp [h1, h2] at hc

theorem freshTask_TaskOK {isEpic : Bool} {id uuid eid title body : String} {now : Time} (hpos : 0 < now)
    (htitle : Text.isBlank title = false) : TaskOK (freshTask isEpic id uuid eid title body now) := by
  have hne : now ≠ 0 := by tomega
  refine ⟨?_, fun hx => absurd rfl hx, fun _ => rfl, by simp [freshTask], htitle, ?_, hne⟩
  · symm
    apply maxTimes_eq
    · simp [freshTask]
    · intro x hx
      simp only [freshTask, List.map_nil, List.append_nil, List.mem_cons, List.not_mem_nil, or_false] at hx
      rcases hx with rfl | rfl | rfl | rfl | rfl <;> simp [freshTask]
  · intro _
    simp [freshTask]

end Ergo
