/-
  WP25b — the invariants of what is on disk under concurrency: the byte-level process system (any number of ergo's own lock sections as
  writers, lock-free readers, any schedule, deaths between system calls) refines the process model (`ProcB.reach_sim`), whose runs are
  serial runs of the committed sections (`conc_secReach`), whose logs satisfy every invariant (`secReach_allInv`). Joined here.
-/
import ErgoProofs.Lemmas.ProcBytesThm
import ErgoProofs.Lemmas.ConcReach
import ErgoProofs.Lemmas.PropsAux
open Ergo Ergo.Storage Ergo.Codec Ergo.Proc
namespace Ergo.ProcB

/-- whatever the interleaving of ergo's commands on the real bytes and whoever is killed between two calls, the file under the log's name reads
    back (real line format) to a log whose replay succeeds and satisfies every invariant -/
theorem conc_disk_allInv (f : Bytes) (log0 : List Event) (envs : List (Env × Sec)) (nr limit : Nat) (ets : Event → String)
    (hf : readEvents classifyLine limit f = .ok log0) (hfw : AllWf log0) (h0 : SecReach log0)
    (hok : ∀ es ∈ envs, SecOK es.1 es.2) (hT : ∀ es ∈ envs, EnvT es.1)
    (s : BSys) (h : BReachableNT (BSys.init f (envs.map fun (es : Env × Sec) => secDecide es.1 es.2) nr limit ets) s)
    (hclock : ∀ (i p : Nat) (snap : List Event) (w : Write) (g : Graph), s.commits[i]? = some (p, snap, w) → replayRaw snap = .ok g →
               ∀ es : Env × Sec, envs[p]? = some es → EnvOK g es.1) :
    ∃ L g, readEvents classifyLine limit s.file = .ok L ∧ replayRaw L = .ok g ∧ AllInv g := by
  have hw : ∀ d ∈ envs.map (fun (es : Env × Sec) => secDecide es.1 es.2), ∀ snap wr, AllWf snap → d snap = .ok wr → AllWf wr.events := by
    intro d hd snap wr hs hdw
    obtain ⟨es, hes, rfl⟩ := List.mem_map.1 hd
    exact cmdWriter_wf es.1 (hT es hes) es.2 snap wr hs hdw
  obtain ⟨hr, hinv⟩ := reach_sim h (inv_init f _ nr limit ets log0 hf hfw hw)
  rw [abs_init, decode_of_ok hf] at hr
  obtain ⟨g, hg, hinvg⟩ := secReach_allInv _ (conc_secReach log0 envs nr (abs s) hr h0 hok hclock)
  have hlim : s.limit = limit := limit_const h
  obtain ⟨es', hes', _⟩ := hinv.loads s.file (by
    simp only [BSys.file, List.getD_eq_getElem?_getD]
    rw [List.getElem?_eq_getElem hinv.cur]; exact List.getElem_mem _)
  rw [abs_log s hinv.cur, decode_of_ok hes'] at hg
  exact ⟨es', g, hlim ▸ hes', hg, hinvg⟩

/-- … and whatever a lock-free reader of the bytes decoded meanwhile replays and satisfies every invariant -/
theorem conc_disk_reader_valid (f : Bytes) (log0 : List Event) (envs : List (Env × Sec)) (nr limit : Nat) (ets : Event → String)
    (hf : readEvents classifyLine limit f = .ok log0) (hfw : AllWf log0) (h0 : SecReach log0)
    (hok : ∀ es ∈ envs, SecOK es.1 es.2) (hT : ∀ es ∈ envs, EnvT es.1)
    (s : BSys) (h : BReachableNT (BSys.init f (envs.map fun (es : Env × Sec) => secDecide es.1 es.2) nr limit ets) s)
    (hclock : ∀ (i p : Nat) (snap : List Event) (w : Write) (g : Graph), s.commits[i]? = some (p, snap, w) → replayRaw snap = .ok g →
               ∀ es : Env × Sec, envs[p]? = some es → EnvOK g es.1)
    (r : Nat) (seen : List Event) (hr : s.readers[r]? = some (.done seen)) :
    ∃ g, replay seen = .ok g ∧ AllInv g := by
  have hw : ∀ d ∈ envs.map (fun (es : Env × Sec) => secDecide es.1 es.2), ∀ snap wr, AllWf snap → d snap = .ok wr → AllWf wr.events := by
    intro d hd snap wr hs hdw
    obtain ⟨es, hes, rfl⟩ := List.mem_map.1 hd
    exact cmdWriter_wf es.1 (hT es hes) es.2 snap wr hs hdw
  obtain ⟨hreach, _⟩ := reach_sim h (inv_init f _ nr limit ets log0 hf hfw hw)
  rw [abs_init, decode_of_ok hf] at hreach
  exact reader_state_valid log0 envs nr (abs s) hreach h0 hok hclock r seen hr

end Ergo.ProcB
