/-
  WP20e — time stamps: the calendar date of day n names day n (`civil_roundtrip`, proleptic Gregorian, 400-year cycles), and
  `parseTime (formatTime t) = t` for every instant before year 10000 (`parse_format`): four year digits, two-digit fields, the
  fraction with its trailing zeros dropped, `Z`.
-/
import ErgoModel.Time
open Ergo Ergo.Time
namespace Ergo.Time

/-- number of days in the years before year `y` (y ≥ 1) -/
def daysBeforeYear (y : Nat) : Nat := 365 * (y - 1) + (y - 1) / 4 - (y - 1) / 100 + (y - 1) / 400

theorem isLeap_iff (y : Nat) : isLeap y = true ↔ (y % 4 = 0 ∧ (y % 100 ≠ 0 ∨ y % 400 = 0)) := by
  simp [isLeap]

theorem daysBeforeYear_split (a b c d : Nat) (hb : b ≤ 3) (hc : c ≤ 24) (hd : d ≤ 3) :
    daysBeforeYear (400 * a + 100 * b + 4 * c + d + 1) = 146097 * a + 36524 * b + 1461 * c + 365 * d := by
  simp only [daysBeforeYear]; omega

theorem isLeap_split (a b c d : Nat) (hb : b ≤ 3) (hc : c ≤ 24) (hd : d ≤ 3) :
    isLeap (400 * a + 100 * b + 4 * c + d + 1) = true ↔ (d = 3 ∧ (c ≠ 24 ∨ b = 3)) := by
  rw [isLeap_iff]; omega

theorem split_arith (n a r b r1 c r2 d doy : Nat) (ha : a = n / 146097) (hr : r = n % 146097) (hb : b = min (r / 36524) 3)
    (hr1 : r1 = r - b * 36524) (hc : c = r1 / 1461) (hr2 : r2 = r1 % 1461) (hd : d = min (r2 / 365) 3) (hdoy : doy = r2 - d * 365) :
    b ≤ 3 ∧ c ≤ 24 ∧ d ≤ 3 ∧ n = 146097 * a + 36524 * b + 1461 * c + 365 * d + doy ∧
      doy < 366 ∧ (¬ (d = 3 ∧ (c ≠ 24 ∨ b = 3)) → doy < 365) := by
  simp only [Nat.min_def] at hb hd
  split at hb <;> split at hd <;> omega


def daysInL (m : Nat) (leap : Bool) : Nat :=
  if m = 2 then (if leap then 29 else 28) else if m = 4 ∨ m = 6 ∨ m = 9 ∨ m = 11 then 30 else 31

theorem daysIn_eq (m y : Nat) : daysIn m y = daysInL m (isLeap y) := by unfold daysIn daysInL; rfl

set_option maxHeartbeats 1000000 in
theorem month_spec (doy : Nat) (leap : Bool) (h : doy < 365 + (if leap then 1 else 0)) :
    1 ≤ monthOf doy leap ∧ monthOf doy leap ≤ 12 ∧ daysBefore (monthOf doy leap) leap ≤ doy ∧
      doy < daysBefore (monthOf doy leap) leap + daysInL (monthOf doy leap) leap := by
  generalize hm : monthOf doy leap = m
  unfold monthOf at hm
  cases leap
  · simp only [Bool.false_eq_true, if_false, Nat.add_zero] at h hm
    repeat' split at hm
    all_goals subst hm
    all_goals simp +decide [daysInL, daysBefore]
    all_goals omega
  · simp only [if_true, Nat.reduceAdd] at h hm
    repeat' split at hm
    all_goals subst hm
    all_goals simp +decide [daysInL, daysBefore]
    all_goals omega

set_option maxRecDepth 8000 in
/-- the calendar date of day `n` names day `n` -/
theorem civil_roundtrip (n : Nat) :
    daysFromCivil (civilFromDays n).1 (civilFromDays n).2.1 (civilFromDays n).2.2 = n ∧
    1 ≤ (civilFromDays n).1 ∧ 1 ≤ (civilFromDays n).2.1 ∧ (civilFromDays n).2.1 ≤ 12 ∧
    1 ≤ (civilFromDays n).2.2 ∧ (civilFromDays n).2.2 ≤ daysIn (civilFromDays n).2.1 (civilFromDays n).1 ∧
    (n < 3652059 → (civilFromDays n).1 < 10000) := by
  have hciv0 : civilFromDays n =
      (400 * (n / 146097) + 100 * min (n % 146097 / 36524) 3 + 4 * ((n % 146097 - min (n % 146097 / 36524) 3 * 36524) / 1461) +
          min ((n % 146097 - min (n % 146097 / 36524) 3 * 36524) % 1461 / 365) 3 + 1,
       monthOf ((n % 146097 - min (n % 146097 / 36524) 3 * 36524) % 1461 - min ((n % 146097 - min (n % 146097 / 36524) 3 * 36524) % 1461 / 365) 3 * 365)
         (isLeap (400 * (n / 146097) + 100 * min (n % 146097 / 36524) 3 + 4 * ((n % 146097 - min (n % 146097 / 36524) 3 * 36524) / 1461) +
          min ((n % 146097 - min (n % 146097 / 36524) 3 * 36524) % 1461 / 365) 3 + 1)),
       (n % 146097 - min (n % 146097 / 36524) 3 * 36524) % 1461 - min ((n % 146097 - min (n % 146097 / 36524) 3 * 36524) % 1461 / 365) 3 * 365 -
         daysBefore (monthOf ((n % 146097 - min (n % 146097 / 36524) 3 * 36524) % 1461 - min ((n % 146097 - min (n % 146097 / 36524) 3 * 36524) % 1461 / 365) 3 * 365)
           (isLeap (400 * (n / 146097) + 100 * min (n % 146097 / 36524) 3 + 4 * ((n % 146097 - min (n % 146097 / 36524) 3 * 36524) / 1461) +
            min ((n % 146097 - min (n % 146097 / 36524) 3 * 36524) % 1461 / 365) 3 + 1)))
           (isLeap (400 * (n / 146097) + 100 * min (n % 146097 / 36524) 3 + 4 * ((n % 146097 - min (n % 146097 / 36524) 3 * 36524) / 1461) +
            min ((n % 146097 - min (n % 146097 / 36524) 3 * 36524) % 1461 / 365) 3 + 1)) + 1) := by
    simp only [civilFromDays]
  generalize ha : n / 146097 = a at hciv0
  generalize hr : n % 146097 = r at hciv0
  generalize hb0 : min (r / 36524) 3 = b at hciv0
  generalize hr1 : r - b * 36524 = r1 at hciv0
  generalize hc0 : r1 / 1461 = c at hciv0
  generalize hr2 : r1 % 1461 = r2 at hciv0
  generalize hd0 : min (r2 / 365) 3 = d at hciv0
  generalize hdoy0 : r2 - d * 365 = doy at hciv0
  obtain ⟨hb, hc, hd, hn, hdoy, hdoy'⟩ := split_arith n a r b r1 c r2 d doy ha.symm hr.symm hb0.symm hr1.symm hc0.symm hr2.symm hd0.symm hdoy0.symm
  have hciv := hciv0
  rw [hciv]
  simp only
  generalize hy : 400 * a + 100 * b + 4 * c + d + 1 = y
  have hleap := isLeap_split a b c d hb hc hd
  rw [hy] at hleap
  have hdby := daysBeforeYear_split a b c d hb hc hd
  rw [hy] at hdby
  have hlt : doy < 365 + (if isLeap y then 1 else 0) := by
    by_cases hl : isLeap y = true
    · simp only [hl, if_true]; omega
    · simp only [hl, Bool.false_eq_true, if_false]
      have := hdoy' (by rw [← hleap]; exact hl); omega
  obtain ⟨m1, m12, mle, mlt⟩ := month_spec doy (isLeap y) hlt
  refine ⟨?_, by omega, m1, m12, by omega, ?_, ?_⟩
  · have : daysFromCivil y (monthOf doy (isLeap y)) (doy - daysBefore (monthOf doy (isLeap y)) (isLeap y) + 1) =
        daysBeforeYear y + daysBefore (monthOf doy (isLeap y)) (isLeap y) + (doy - daysBefore (monthOf doy (isLeap y)) (isLeap y)) := by
      simp only [daysFromCivil, daysBeforeYear]; omega
    rw [this, hdby]; omega
  · rw [daysIn_eq]; omega
  · intro hlt'; omega


/-! ### digits -/
theorem digitVal_digitChar_fin : ∀ k : Fin 10, digitVal? (digitChar k.val) = some k.val := by decide

theorem digitChar_mod (n : Nat) : digitChar n = digitChar (n % 10) := by simp [digitChar]

theorem digitVal_digitChar (n : Nat) : digitVal? (digitChar n) = some (n % 10) := by
  rw [digitChar_mod]; exact digitVal_digitChar_fin ⟨n % 10, Nat.mod_lt _ (by decide)⟩

theorem isDigit_digitChar (n : Nat) : isDigit (digitChar n) = true := by simp [isDigit, digitVal_digitChar]

theorem digitChar_toNat (n : Nat) : (digitChar n).toNat - 48 = n % 10 := by
  have h := digitVal_digitChar n
  simp only [digitVal?] at h
  split at h
  · simpa using h
  · cases h

theorem year4_d4 (y : Nat) (hy : y < 10000) (rest : List Char) : year4 (d4 y ++ rest) = some (y, rest) := by
  simp only [d4, List.cons_append, List.nil_append, year4, digitVal_digitChar]
  simp only [Option.some.injEq, Prod.mk.injEq, and_true]; omega

theorem getnum_d2 (n : Nat) (hn : n < 100) (fixed : Bool) (rest : List Char) : getnum (d2 n ++ rest) fixed = some (n, rest) := by
  simp only [d2, List.cons_append, List.nil_append, getnum, digitVal_digitChar]
  simp only [Option.some.injEq, Prod.mk.injEq, and_true]; omega

theorem zone_Z : zone ['Z'] = some (0, []) := by decide


/-! ### the fraction -/
theorem dropTrailingZeros_spec (l : List Char) :
    ∃ k, l = dropTrailingZeros l ++ List.replicate k '0' ∧ k = l.length - (dropTrailingZeros l).length := by
  have h := List.takeWhile_append_dropWhile (p := (· == '0')) (l := l.reverse)
  have htw : ∀ c ∈ l.reverse.takeWhile (· == '0'), c = '0' := by
    intro c hc; have := List.all_eq_true.1 (List.all_takeWhile (l := l.reverse) (p := (· == '0'))) c hc; simpa using this
  have hrep : l.reverse.takeWhile (· == '0') = List.replicate (l.reverse.takeWhile (· == '0')).length '0' :=
    List.eq_replicate_of_mem htw
  refine ⟨(l.reverse.takeWhile (· == '0')).length, ?_, ?_⟩
  · have := congrArg List.reverse h
    rw [List.reverse_append, List.reverse_reverse] at this
    rw [dropTrailingZeros]
    conv => lhs; rw [← this]
    rw [hrep]; simp
  · have := congrArg List.length h
    simp only [List.length_append, List.length_reverse] at this
    simp only [dropTrailingZeros, List.length_reverse]; omega

theorem digitsVal_append_zeros (l : List Char) (k : Nat) : digitsVal (l ++ List.replicate k '0') = digitsVal l * 10 ^ k := by
  induction k with
  | zero => simp
  | succ k ih =>
    rw [List.replicate_succ', ← List.append_assoc]
    simp only [digitsVal, List.foldl_append, List.foldl_cons, List.foldl_nil] at ih ⊢
    rw [ih]; simp [Nat.pow_succ, Nat.mul_assoc]

theorem digitsVal_d9 (ns : Nat) (h : ns < 1000000000) : digitsVal (d9 ns) = ns := by
  simp only [digitsVal, d9, List.foldl_cons, List.foldl_nil, digitChar_toNat]; omega

theorem d9_digits (ns : Nat) : ∀ c ∈ d9 ns, isDigit c = true := by
  intro c hc; simp only [d9, List.mem_cons, List.not_mem_nil, or_false] at hc
  rcases hc with rfl | rfl | rfl | rfl | rfl | rfl | rfl | rfl | rfl <;> exact isDigit_digitChar _

theorem frac_format (ns : Nat) (h : ns < 1000000000) :
    frac ((if ns = 0 then [] else '.' :: dropTrailingZeros (d9 ns)) ++ ['Z']) = (ns, ['Z']) := by
  by_cases h0 : ns = 0
  · subst h0; rfl
  · simp only [h0, if_false]
    obtain ⟨k, hk, hklen⟩ := dropTrailingZeros_spec (d9 ns)
    generalize hF : dropTrailingZeros (d9 ns) = F at hk hklen
    have hval : digitsVal F * 10 ^ k = ns := by
      rw [← digitsVal_append_zeros, ← hk]; exact digitsVal_d9 ns h
    have hlen9 : (d9 ns).length = 9 := rfl
    have hFd : ∀ c ∈ F, isDigit c = true := by
      intro c hc; apply d9_digits ns; rw [hk]; exact List.mem_append_left _ hc
    have hFlen : F.length ≤ 9 := by
      have := congrArg List.length hk; simp only [List.length_append, List.length_replicate] at this; omega
    cases hFc : F with
    | nil => rw [hFc] at hval; simp [digitsVal] at hval; exact absurd hval.symm h0
    | cons d r =>
      have hd : isDigit d = true := hFd d (by rw [hFc]; simp)
      have htw : (d :: (r ++ ['Z'])).takeWhile isDigit = d :: r := by
        have : ∀ c ∈ d :: r, isDigit c = true := by rw [← hFc]; exact hFd
        rw [← List.cons_append, List.takeWhile_append_of_pos this]
        simp +decide
      have hdw : (d :: (r ++ ['Z'])).dropWhile isDigit = ['Z'] := by
        have : ∀ c ∈ d :: r, isDigit c = true := by rw [← hFc]; exact hFd
        rw [← List.cons_append, List.dropWhile_append_of_pos this]
        simp +decide
      simp only [List.cons_append, frac, hd, and_true, true_or, if_true, htw, hdw]
      have htake : (d :: r).take 9 = d :: r := List.take_of_length_le (by rw [← hFc]; exact hFlen)
      rw [htake]
      have : 9 - (d :: r).length = k := by rw [← hFc]; omega
      rw [this, ← hFc, hval]


def maxT : Nat := 3652059 * 86400 * 1000000000

/-- **time stamps survive the log**: `parseTime (formatTime t) = t` for every instant before year 10000 -/
theorem parse_format (t : Nat) (h : t < maxT) : parse (format t) = some t := by
  have hsecs : t / 1000000000 / 86400 < 3652059 := by unfold maxT at h; omega
  obtain ⟨hrt, hy1, hm1, hm12, hd1, hdin, hy4⟩ := civil_roundtrip (t / 1000000000 / 86400)
  have hy := hy4 hsecs
  generalize hciv : civilFromDays (t / 1000000000 / 86400) = ymd at hrt hy1 hm1 hm12 hd1 hdin hy
  obtain ⟨y, m, d⟩ := ymd
  simp only at hrt hy1 hm1 hm12 hd1 hdin hy
  have hd31 : d ≤ 31 := by
    have : daysIn m y ≤ 31 := by unfold daysIn; split <;> (try split) <;> omega
    omega
  have hns : t % 1000000000 < 1000000000 := Nat.mod_lt _ (by decide)
  have hfr := frac_format (t % 1000000000) hns
  simp only [format, hciv, yearDigits, hy, if_true, List.append_assoc, List.cons_append]
  simp only [parse, year4_d4 y hy, bind, Option.bind, expect, if_true,
    getnum_d2 m (by omega), getnum_d2 d (by omega), getnum_d2 (t / 1000000000 % 86400 / 3600) (by omega),
    getnum_d2 (t / 1000000000 % 86400 % 3600 / 60) (by omega), getnum_d2 (t / 1000000000 % 86400 % 60) (by omega), hfr, zone_Z]
  rw [if_neg (by omega), if_neg (by omega), if_neg (by omega), if_neg (by omega), if_neg (by simp), if_neg (by omega), if_neg (by omega)]
  rw [hrt]
  simp only [Int.sub_zero, Int.toNat_natCast]
  rw [if_neg (by omega)]
  simp only [pure, Option.some.injEq]
  have hin : t / 1000000000 / 86400 * 86400 + t / 1000000000 % 86400 / 3600 * 3600 + t / 1000000000 % 86400 % 3600 / 60 * 60 +
          t / 1000000000 % 86400 % 60 = t / 1000000000 := by
    generalize t / 1000000000 = s
    omega
  rw [hin, Nat.mul_comm]; exact Nat.div_add_mod t 1000000000

end Ergo.Time
