/-
  WP6 — prune policy (C09) and plan validation (C11).
  Definitions: pruneTargets, pruneTaskEligible, epicHasRemaining, sortIds (ErgoModel/Query.lean);
  planValid, planTitles, planEdges, hasDup (ErgoModel/Cli.lean); Path, Acyclic (ErgoProofs/Spec.lean).
  You may import individual Mathlib modules in this file if a lemma is missing from core.
-/
import ErgoProofs.Spec
namespace Ergo

/-! helpers -/
theorem St.closed_iff (s : St) : s.closed = true ↔ s = .done ∨ s = .canceled := by
  cases s <;> simp [St.closed]

theorem strLe_iff (a b : String) : strLe a b = true ↔ a ≤ b := by
  simp [strLe, String.not_lt]

theorem strLe_trans (a b c : String) : strLe a b = true → strLe b c = true → strLe a c = true := by
  simp only [strLe_iff]; exact String.le_trans

theorem strLe_total (a b : String) : (strLe a b || strLe b a) = true := by
  simp only [Bool.or_eq_true, strLe_iff]; exact String.le_total a b

theorem mem_sortIds (l : List Id) (x : Id) : x ∈ sortIds l ↔ x ∈ l :=
  (List.mergeSort_perm l strLe).mem_iff

theorem epicHasRemaining_eq_false (g : Graph) (e : Id) :
    epicHasRemaining g e = false ↔
      ∀ c ∈ g.tasks, c.isEpic = false → c.epicId ≠ "" → c.epicId = e → (c.st = .done ∨ c.st = .canceled) := by
  unfold epicHasRemaining
  rw [List.any_eq_false]
  constructor
  · intro h c hc h1 h2 h3
    have := h c hc
    rw [← St.closed_iff]
    cases hcl : c.st.closed
    · exfalso; apply this; subst h3; simp [h1, hcl, h2]
    · rfl
  · intro h c hc hall
    simp only [Bool.and_eq_true, Bool.not_eq_true', bne_iff_ne, ne_eq, beq_iff_eq] at hall
    obtain ⟨⟨⟨h1, h2⟩, h3⟩, h4⟩ := hall
    have := (St.closed_iff _).mpr (h c hc h1 h3 h4)
    rw [h2] at this; exact Bool.noConfusion this

/-- exactly the done/canceled tasks, and the epics that keep no unfinished child -/
theorem mem_pruneTargets (g : Graph) (id : Id) :
    id ∈ pruneTargets g ↔
      ∃ t ∈ g.tasks, t.id = id ∧
        ((t.isEpic = false ∧ (t.st = .done ∨ t.st = .canceled)) ∨
         (t.isEpic = true ∧ ∀ c ∈ g.tasks, c.isEpic = false → c.epicId ≠ "" → c.epicId = t.id → (c.st = .done ∨ c.st = .canceled))) := by
  unfold pruneTargets
  rw [mem_sortIds, List.mem_append, List.mem_map, List.mem_map]
  constructor
  · rintro (⟨t, ht, rfl⟩ | ⟨t, ht, rfl⟩)
    · rw [List.mem_filter] at ht
      obtain ⟨hm, he⟩ := ht
      simp only [pruneTaskEligible, Bool.and_eq_true, Bool.not_eq_true', St.closed_iff] at he
      exact ⟨t, hm, rfl, Or.inl he⟩
    · rw [List.mem_filter] at ht
      obtain ⟨hm, he⟩ := ht
      simp only [Bool.and_eq_true, Bool.not_eq_true', epicHasRemaining_eq_false] at he
      exact ⟨t, hm, rfl, Or.inr he⟩
  · rintro ⟨t, hm, rfl, (h | h)⟩
    · left
      refine ⟨t, ?_, rfl⟩
      rw [List.mem_filter]
      refine ⟨hm, ?_⟩
      simp only [pruneTaskEligible, Bool.and_eq_true, Bool.not_eq_true', St.closed_iff]
      exact h
    · right
      refine ⟨t, ?_, rfl⟩
      rw [List.mem_filter]
      refine ⟨hm, ?_⟩
      simp only [Bool.and_eq_true, Bool.not_eq_true', epicHasRemaining_eq_false]
      exact h

/-- never a task that is todo, doing, blocked or error -/
theorem pruneTargets_never_active (g : Graph) (t : Task) (ht : t ∈ g.tasks) (hne : t.isEpic = false)
    (hst : t.st = .todo ∨ t.st = .doing ∨ t.st = .blocked ∨ t.st = .error)
    (huniq : ∀ u ∈ g.tasks, u.id = t.id → u = t) : t.id ∉ pruneTargets g := by
  intro hmem
  rw [mem_pruneTargets] at hmem
  obtain ⟨u, hu, hid, h⟩ := hmem
  have := huniq u hu hid
  subst this
  rcases h with ⟨_, h⟩ | ⟨h, _⟩
  · rcases h with h | h <;> rcases hst with h' | h' | h' | h' <;> rw [h] at h' <;> exact St.noConfusion h'
  · rw [hne] at h; exact Bool.noConfusion h

/-- the reported list is sorted (deterministic output) -/
theorem pruneTargets_sorted (g : Graph) : (pruneTargets g).Pairwise (fun a b => strLe a b = true) := by
  unfold pruneTargets sortIds
  exact List.pairwise_mergeSort strLe_trans strLe_total _

/-- dry run and apply report the same set; the dry run writes nothing -/
theorem prune_dry_eq_apply (g : Graph) (agent : String) (now : Time) :
    (secPrune g false agent now).2 = (secPrune g true agent now).2 ∧ (secPrune g false agent now).1 = .append [] := by
  simp [secPrune]

/-! plan validation -/
theorem hasDup_iff (l : List String) : hasDup l = false ↔ l.Nodup := by
  induction l with
  | nil => simp [hasDup]
  | cons x xs ih =>
    simp only [hasDup, Bool.or_eq_false_iff, List.nodup_cons, ih]
    rw [← Bool.not_eq_true, List.contains_iff_mem]

/-- `planValid` is exactly: non-blank epic title; body not blank if present; at least one task; every task has a
    non-blank title and a body that is not blank if present; titles pairwise distinct; every `after` entry is
    non-blank, is not the task's own title and names a task of the plan; the `after` relation is acyclic. -/
theorem planValid_iff (p : PlanInput)
    (hreach : ∀ (E : List (String × String)) (a b : String), reachable E a b = true ↔ Path E a b) :
    planValid p = true ↔
      optNonBlank p.title = true ∧ optBlank p.body = false ∧ p.tasks ≠ [] ∧
      (∀ t ∈ p.tasks, optNonBlank t.title = true ∧ optBlank t.body = false) ∧
      (planTitles p).Nodup ∧
      (∀ t ∈ p.tasks, ∀ a ∈ t.after, Text.isBlank a = false ∧ some a ≠ t.title ∧ a ∈ planTitles p) ∧
      Acyclic (planEdges p) := by
  have hacyc : ((planEdges p).any (fun e => reachable (planEdges p) e.2 e.1) = false) ↔ Acyclic (planEdges p) := by
    rw [List.any_eq_false]
    unfold Acyclic
    constructor
    · intro h a b hab hp
      exact h (a, b) hab ((hreach _ _ _).mpr hp)
    · intro h e he hr
      exact h e.1 e.2 he ((hreach _ _ _).mp hr)
  have hne : (p.tasks.isEmpty = false) ↔ p.tasks ≠ [] := by
    cases p.tasks <;> simp
  unfold planValid
  simp only [Bool.and_eq_true, Bool.not_eq_true', List.all_eq_true, hasDup_iff, hacyc, hne,
    List.contains_iff_mem, bne_iff_ne, ne_eq]
  constructor
  · rintro ⟨⟨⟨⟨⟨⟨h1, h2⟩, h3⟩, h4⟩, h5⟩, h6⟩, h7⟩
    exact ⟨h1, h2, h3, h4, h5, fun t ht a ha => ⟨(h6 t ht a ha).1.1, (h6 t ht a ha).1.2, (h6 t ht a ha).2⟩, h7⟩
  · rintro ⟨h1, h2, h3, h4, h5, h6, h7⟩
    exact ⟨⟨⟨⟨⟨⟨h1, h2⟩, h3⟩, h4⟩, h5⟩, fun t ht a ha => ⟨⟨(h6 t ht a ha).1, (h6 t ht a ha).2.1⟩, (h6 t ht a ha).2.2⟩⟩, h7⟩

end Ergo
