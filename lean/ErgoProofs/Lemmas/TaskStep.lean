/-
  Effect of update events on the one item they name.
-/
import ErgoProofs.Spec
namespace Ergo

/-- what an update event does to the item it names (timestamps already parsed) -/
def stepTask (k : Task) : Event → Task
  | .state _ st (some t) =>
      { k with st := st, updatedAt := maxTime k.updatedAt t,
               claimedBy := if st.clearsClaim then "" else k.claimedBy, lastState := t }
  | .claim _ agent (some t) => { k with claimedBy := agent, lastClaim := t }
  | .unclaim _ => { k with claimedBy := "" }
  | .title _ s (some t) => { k with title := s, updatedAt := maxTime k.updatedAt t, lastTitle := t }
  | .body _ s (some t) => { k with body := s, updatedAt := maxTime k.updatedAt t, lastBody := t }
  | .epic _ e (some t) => { k with epicId := e, updatedAt := maxTime k.updatedAt t, lastEpic := t }
  | .result _ summary path sha mtime git (some t) =>
      { k with results := { summary, path, sha, mtime, git, time := t } :: k.results, updatedAt := maxTime k.updatedAt t }
  | _ => k

/-- an update event for `id` carrying a parsed timestamp -/
def IsUpdateFor (id : Id) : Event → Prop
  | .state i _ (some _) | .claim i _ (some _) | .unclaim i | .title i _ (some _) | .body i _ (some _)
  | .epic i _ (some _) | .result i _ _ _ _ _ (some _) => i = id
  | _ => False

@[simp] theorem stepTask_id (k : Task) (e : Event) : (stepTask k e).id = k.id := by
  cases e <;> simp [stepTask] <;> (try split) <;> simp

theorem foldl_stepTask_id (k : Task) (evs : List Event) : (evs.foldl stepTask k).id = k.id := by
  induction evs generalizing k with
  | nil => rfl
  | cons e es ih => simp [List.foldl, ih]

@[simp] theorem stepTask_isEpic (k : Task) (e : Event) : (stepTask k e).isEpic = k.isEpic := by
  cases e <;> simp [stepTask] <;> (try split) <;> simp

theorem Graph.has_iff (g : Graph) (id : Id) : g.has id = true ↔ ∃ t ∈ g.tasks, t.id = id := by
  simp [Graph.has, List.any_eq_true]

theorem Graph.update_tasks_ids (g : Graph) (id : Id) (f : Task → Task) (hf : ∀ k, (f k).id = k.id) :
    (g.update id f).tasks.map (·.id) = g.tasks.map (·.id) := by
  simp only [Graph.update, List.map_map]
  apply List.map_congr_left
  intro t _
  simp only [Function.comp]
  split <;> simp [hf]

theorem Graph.update_has (g : Graph) (id i : Id) (f : Task → Task) (hf : ∀ k, (f k).id = k.id) :
    (g.update id f).has i = g.has i := by
  have h := Graph.update_tasks_ids g id f hf
  simp only [Graph.has]
  have : ∀ l : List Task, l.any (·.id == i) = (l.map (·.id)).any (· == i) := by
    intro l; rw [List.any_map]; rfl
  rw [this, this, h]

@[simp] theorem Graph.update_tombs (g : Graph) (id : Id) (f : Task → Task) : (g.update id f).tombs = g.tombs := rfl
@[simp] theorem Graph.update_deps (g : Graph) (id : Id) (f : Task → Task) : (g.update id f).deps = g.deps := rfl
theorem Graph.update_tombed (g : Graph) (id i : Id) (f : Task → Task) : (g.update id f).tombed i = g.tombed i := rfl

theorem Graph.update_update (g : Graph) (id : Id) (f h : Task → Task) (hf : ∀ k, (f k).id = k.id) :
    (g.update id f).update id h = g.update id (h ∘ f) := by
  simp only [Graph.update, List.map_map]
  congr 1
  apply List.map_congr_left
  intro t _
  simp only [Function.comp]
  by_cases ht : (t.id == id) = true
  · simp [ht, hf]
  · simp [ht]

/-- applying one update event for a live, un-pruned id rewrites exactly that item -/
theorem applyEvent_update (g : Graph) (id : Id) (e : Event) (hl : g.has id = true) (ht : g.tombed id = false)
    (he : IsUpdateFor id e) : applyEvent g e = .ok (g.update id fun k => stepTask k e) := by
  cases e <;> simp only [IsUpdateFor] at he
  all_goals (try (rename_i ts; cases ts <;> simp only [IsUpdateFor] at he))
  all_goals subst he
  all_goals simp [applyEvent, withLive, hl, ht, stepTask]

/-- … and so does a whole list of them -/
theorem foldlM_updates (g : Graph) (id : Id) (evs : List Event) (hl : g.has id = true) (ht : g.tombed id = false)
    (he : ∀ e ∈ evs, IsUpdateFor id e) :
    evs.foldlM applyEvent g = .ok (g.update id fun k => evs.foldl stepTask k) := by
  induction evs generalizing g with
  | nil =>
    simp only [List.foldlM, List.foldl]
    congr 1
    simp [Graph.update]
  | cons e es ih =>
    have h1 := applyEvent_update g id e hl ht (he e (by simp))
    simp only [List.foldlM, h1, bind, Except.bind]
    have hf : ∀ k, (stepTask k e).id = k.id := fun k => stepTask_id k e
    rw [ih]
    · rw [Graph.update_update _ _ _ _ hf]; rfl
    · rw [Graph.update_has _ _ _ _ hf]; exact hl
    · exact ht
    · intro e' he'; exact he e' (by simp [he'])

end Ergo
