/-
  WP11, auxiliary lemmas: transfer of `AllInv` along `ObsEq`, trimmed non-empty strings are not blank,
  and what `sectionOf` returns, one lemma per request constructor.
-/
import ErgoProofs.Inv
namespace Ergo

/-- `AllInv` only looks at observables (plus `GraphOK` and the `lastEpic = 0` clause, which are given separately) -/
theorem allInv_of_obsEq {g g' : Graph} (hobs : ObsEq g' g) (hok : GraphOK g')
    (h0 : ∀ t ∈ g'.tasks, t.isEpic = true → t.lastEpic = 0) (hinv : AllInv g) : AllInv g' := by
  have hwf := hinv.ok.wf
  have hwf' := hok.wf
  have cp : ∀ t' ∈ g'.tasks, ∃ t ∈ g.tasks, obsTask t' = obsTask t := fun t' ht' => hobs.counterpart hwf' t' ht'
  have cp' : ∀ t ∈ g.tasks, ∃ t' ∈ g'.tasks, obsTask t = obsTask t' := fun t ht => hobs.symm.counterpart hwf t ht
  refine ⟨hok, h0, ?_, ⟨?_, ?_⟩, ?_, ?_⟩
  · intro t' ht'
    obtain ⟨t, ht, ho⟩ := cp t' ht'
    have h1 : t'.isEpic = t.isEpic := congrArg Obs.isEpic ho
    have h2 : t'.st = t.st := congrArg Obs.st ho
    have h3 : t'.claimedBy = t.claimedBy := congrArg Obs.claimedBy ho
    have := hinv.i06 t ht
    simpa only [TaskInv, h1, h2, h3] using this
  · exact acyclic_sub hinv.i07.acyclic (fun e he => (hobs.2 e).mp he)
  · intro e he
    obtain ⟨a, ha, b, hb, h1, h2, h3⟩ := hinv.i07.live e ((hobs.2 e).mp he)
    obtain ⟨a', ha', hoa⟩ := cp' a ha
    obtain ⟨b', hb', hob⟩ := cp' b hb
    have ha1 : a.id = a'.id := congrArg Obs.id hoa
    have ha2 : a.isEpic = a'.isEpic := congrArg Obs.isEpic hoa
    have hb1 : b.id = b'.id := congrArg Obs.id hob
    have hb2 : b.isEpic = b'.isEpic := congrArg Obs.isEpic hob
    exact ⟨a', ha', b', hb', ha1 ▸ h1, hb1 ▸ h2, by rw [← ha2, ← hb2]; exact h3⟩
  · intro t' ht'
    obtain ⟨t, ht, ho⟩ := cp t' ht'
    have h1 : t'.isEpic = t.isEpic := congrArg Obs.isEpic ho
    have h2 : t'.epicId = t.epicId := congrArg Obs.epicId ho
    obtain ⟨i1, i2⟩ := hinv.i14 t ht
    rw [h1, h2]
    refine ⟨i1, fun hne => ?_⟩
    rcases i2 hne with h | ⟨e, he, he1, he2⟩
    · exact Or.inl h
    · obtain ⟨e', he', hoe⟩ := cp' e he
      have q1 : e.id = e'.id := congrArg Obs.id hoe
      have q2 : e.isEpic = e'.isEpic := congrArg Obs.isEpic hoe
      exact Or.inr ⟨e', he', q1 ▸ he1, q2 ▸ he2⟩
  · intro t' ht'
    obtain ⟨t, ht, ho⟩ := cp t' ht'
    have h1 : t'.id = t.id := congrArg Obs.id ho
    rw [h1]; exact hinv.ids t ht



theorem dropWhile_all_false {α} (p : α → Bool) (m : List α) (h : m.dropWhile p ≠ []) : (m.dropWhile p).all p = false := by
  induction m with
  | nil => simp at h
  | cons x r ih =>
    by_cases hx : p x = true
    · simp only [List.dropWhile_cons, hx, if_true] at h ⊢; exact ih h
    · simp only [List.dropWhile_cons, hx] 
      simp [hx]

theorem trimSpace_not_blank (s : String) (h : Text.trimSpace s ≠ "") : Text.isBlank (Text.trimSpace s) = false := by
  unfold Text.trimSpace at h ⊢
  unfold Text.isBlank Text.isBlankL
  rw [String.toList_ofList]
  unfold Text.trimSpaceL Text.trimRight at h ⊢
  rw [List.all_reverse]
  apply dropWhile_all_false
  intro h'
  apply h
  rw [h']; rfl

theorem valid_titled (t : TaskInput) (b : Bool) (h : t.valid true b = true) : Text.isBlank (t.title.getD "") = false := by
  unfold TaskInput.valid at h
  cases ht : t.title with
  | none => simp [ht] at h
  | some s => simp [ht] at h; simpa using h.1.1.1.1.1

theorem trimSpace_not_blank' (s : String) (h : ¬(Text.trimSpace s == "") = true) : Text.isBlank (Text.trimSpace s) = false :=
  trimSpace_not_blank s (by simpa using h)

theorem valid_titled' (t : TaskInput) (b : Bool) (h : ¬(!t.valid true b) = true) : Text.isBlank (t.title.getD "") = false :=
  valid_titled t b (by simpa using h)

theorem sectionOf_newTask_titled (agent : String) (i : RawInput) (isEpic : Bool) (epicId title body : String) (follow : SetReq)
    (h : sectionOf agent (.newTask i) = .ok (.create isEpic epicId title body follow)) : Text.isBlank title = false := by
  simp only [sectionOf] at h
  repeat' split at h
  all_goals try (simp only [reduceCtorEq] at h)
  all_goals simp only [Except.ok.injEq, Sec.create.injEq] at h
  all_goals obtain ⟨-, -, rfl, -⟩ := h
  · exact trimSpace_not_blank' _ (by assumption)
  · exact trimSpace_not_blank' _ (by assumption)
  · exact valid_titled' _ _ (by assumption)
  · exact valid_titled' _ _ (by assumption)

theorem sectionOf_newEpic_titled (agent : String) (i : RawInput) (isEpic : Bool) (epicId title body : String) (follow : SetReq)
    (h : sectionOf agent (.newEpic i) = .ok (.create isEpic epicId title body follow)) : Text.isBlank title = false := by
  simp only [sectionOf] at h
  repeat' split at h
  all_goals try (simp only [reduceCtorEq] at h)
  all_goals simp only [Except.ok.injEq, Sec.create.injEq] at h
  all_goals obtain ⟨-, -, rfl, -⟩ := h
  · exact trimSpace_not_blank' _ (by assumption)
  · rename_i hh
    simp only [Bool.and_eq_true, bne_iff_ne, ne_eq] at hh
    exact trimSpace_not_blank _ hh.2
  · exact valid_titled' _ _ (by assumption)

theorem sectionOf_set_sec (agent : String) (id : Id) (i : RawInput) (s : Sec)
    (h : sectionOf agent (.set id i) = .ok s) : ∃ r, s = .update id r := by
  simp only [sectionOf] at h
  repeat' split at h
  all_goals try (simp only [reduceCtorEq] at h)
  all_goals simp only [Except.ok.injEq] at h
  all_goals exact ⟨_, h.symm⟩

theorem sectionOf_claim_sec (agent : String) (id : Id) (s : Sec)
    (h : sectionOf agent (.claim id) = .ok s) : ∃ r, s = .update id r := by
  simp only [sectionOf] at h
  repeat' split at h
  all_goals try (simp only [reduceCtorEq] at h)
  all_goals simp only [Except.ok.injEq] at h
  all_goals exact ⟨_, h.symm⟩

theorem sectionOf_claimOldest_sec (agent : String) (epic : Id) (s : Sec)
    (h : sectionOf agent (.claimOldest epic) = .ok s) : s = .claimOldest epic ∧ agent ≠ "" := by
  simp only [sectionOf] at h
  split at h
  · simp only [reduceCtorEq] at h
  · rename_i hh
    simp only [Except.ok.injEq] at h
    exact ⟨h.symm, by simpa using hh⟩

theorem sectionOf_sequence_sec (agent : String) (args : List String) (s : Sec)
    (h : sectionOf agent (.sequence args) = .ok s) : ∃ un edges, s = .links un edges := by
  simp only [sectionOf] at h
  repeat' split at h
  all_goals try (simp only [reduceCtorEq] at h)
  all_goals simp only [Except.ok.injEq] at h
  all_goals exact ⟨_, _, h.symm⟩

theorem sectionOf_plan_sec (agent : String) (p : Option PlanInput) (s : Sec)
    (h : sectionOf agent (.plan p) = .ok s) : ∃ q, s = .plan q ∧ planValid q = true := by
  simp only [sectionOf] at h
  repeat' split at h
  all_goals try (simp only [reduceCtorEq] at h)
  all_goals simp only [Except.ok.injEq] at h
  all_goals exact ⟨_, h.symm, by assumption⟩

theorem sectionOf_prune_sec (agent : String) (y : Bool) (s : Sec)
    (h : sectionOf agent (.prune y) = .ok s) : s = .prune y := by
  simp only [sectionOf, Except.ok.injEq] at h
  exact h.symm

theorem sectionOf_compact_sec (agent : String) (s : Sec)
    (h : sectionOf agent .compact = .ok s) : s = .compact := by
  simp only [sectionOf, Except.ok.injEq] at h
  exact h.symm

theorem sectionOf_newTask_sec (agent : String) (i : RawInput) (s : Sec)
    (h : sectionOf agent (.newTask i) = .ok s) : ∃ a b c d e, s = .create a b c d e := by
  simp only [sectionOf] at h
  repeat' split at h
  all_goals try (simp only [reduceCtorEq] at h)
  all_goals simp only [Except.ok.injEq] at h
  all_goals exact ⟨_, _, _, _, _, h.symm⟩

theorem sectionOf_newEpic_sec (agent : String) (i : RawInput) (s : Sec)
    (h : sectionOf agent (.newEpic i) = .ok s) : ∃ a b c d e, s = .create a b c d e := by
  simp only [sectionOf] at h
  repeat' split at h
  all_goals try (simp only [reduceCtorEq] at h)
  all_goals simp only [Except.ok.injEq] at h
  all_goals exact ⟨_, _, _, _, _, h.symm⟩
end Ergo
