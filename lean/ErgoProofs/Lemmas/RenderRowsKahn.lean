/-
  WP13b (part 1) — Kahn's algorithm (`topoSort`, ErgoModel/Render.lean): loop invariant, completeness on an acyclic relation.
-/
import ErgoProofs.Spec
import ErgoProofs.Lemmas.Reach
import ErgoProofs.Lemmas.Progress
import ErgoModel.Render
import Mathlib.Data.List.Perm.Basic
import Mathlib.Data.List.Nodup
import Mathlib.Data.List.Perm.Subperm
namespace Ergo.Render.Kahn
open Ergo

/-- remaining in-degree: distinct dependencies inside `tasks` not yet emitted -/
def rem (g : Graph) (tasks acc : List Task) (x : Task) : Nat :=
  ((g.depsOf x.id).eraseDups.filter fun d => tasks.any (·.id == d) && !acc.any (·.id == d)).length

theorem rem_nil (g : Graph) (tasks : List Task) (x : Task) : rem g tasks [] x = inDegree g tasks x := by
  simp [rem, inDegree]

theorem dependsOn_iff {g : Graph} {a b : Id} : dependsOn g a b = true ↔ (a, b) ∈ g.deps := by
  simp [dependsOn]

theorem nodup_eraseDups {α} [BEq α] [LawfulBEq α] : ∀ (l : List α), l.eraseDups.Nodup
  | [] => by simp
  | a :: as => by
    have : (as.filter fun b => !b == a).length < as.length + 1 :=
      Nat.lt_succ_of_le (List.length_filter_le _ as)
    rw [List.eraseDups_cons, List.nodup_cons]
    refine ⟨?_, nodup_eraseDups _⟩
    simp
termination_by l => l.length

theorem rem_step (g : Graph) (tasks acc : List Task) (t x : Task) (ht : t ∈ tasks)
    (hacc : ∀ y ∈ acc, y.id ≠ t.id) :
    rem g tasks acc x = rem g tasks (acc ++ [t]) x + (if dependsOn g x.id t.id then 1 else 0) := by
  unfold rem
  have hnd := nodup_eraseDups (g.depsOf x.id)
  have hf : ((g.depsOf x.id).eraseDups.filter fun d => tasks.any (·.id == d) && !(acc ++ [t]).any (·.id == d))
      = ((g.depsOf x.id).eraseDups.filter fun d => tasks.any (·.id == d) && !acc.any (·.id == d)).erase t.id := by
    rw [(hnd.filter _).erase_eq_filter, List.filter_filter]
    apply List.filter_congr
    intro d _
    by_cases hdt : d = t.id
    · subst hdt; simp
    · have h1 : (t.id == d) = false := by simpa using fun h => hdt h.symm
      have h2 : (d != t.id) = true := by simpa using hdt
      simp only [List.any_append, List.any_cons, List.any_nil, Bool.or_false, h1, h2, Bool.true_and]
  rw [hf, List.length_erase]
  have hmem : t.id ∈ ((g.depsOf x.id).eraseDups.filter fun d => tasks.any (·.id == d) && !acc.any (·.id == d))
      ↔ dependsOn g x.id t.id = true := by
    rw [dependsOn_iff, List.mem_filter, List.mem_eraseDups, mem_depsOf]
    constructor
    · exact fun h => h.1
    · intro h
      refine ⟨h, ?_⟩
      simp only [Bool.and_eq_true, List.any_eq_true, beq_iff_eq, Bool.not_eq_true', List.any_eq_false]
      refine ⟨⟨t, ht, rfl⟩, ?_⟩
      intro y hy; simpa using hacc y hy
  by_cases hd : dependsOn g x.id t.id = true
  · have h1 := hmem.2 hd
    have := List.length_pos_of_mem h1
    simp only [h1, hd, if_true]
    omega
  · have h1 := mt hmem.1 hd
    simp [h1, hd]

theorem lookup_map_dec (deg : List (Id × Nat)) (c : Id → Bool) (i : Id) :
    (deg.map fun (j, n) => if c j then (j, n - 1) else (j, n)).lookup i
      = (deg.lookup i).map fun n => if c i then n - 1 else n := by
  induction deg with
  | nil => rfl
  | cons p deg ih =>
    obtain ⟨j, n⟩ := p
    by_cases hij : i = j
    · subst hij
      by_cases hc : c i <;> simp [hc]
    · have : (i == j) = false := by simpa using hij
      by_cases hc : c j <;> simp [List.lookup_cons, hc, this, ih]

/-! ### acyclic finite relations have no infinite descent -/
theorem no_closed_set {E : List (Id × Id)} (hac : Acyclic E) :
    ∀ (l : List Id) (P : Id → Prop), (∀ a, P a → a ∈ l ∧ ∃ b, (a, b) ∈ E ∧ P b) → ∀ a, ¬ P a
  | [], P, h, a, ha => by simpa using (h a ha).1
  | c :: l, P, h, a, ha => by
    by_cases hc : P c
    · obtain ⟨_, b, hcb, hb⟩ := h c hc
      let P' : Id → Prop := fun a => P a ∧ ∃ m, (c, m) ∈ E ∧ Path E m a
      refine no_closed_set hac l P' ?_ b ⟨hb, b, hcb, Path.refl _⟩
      rintro x ⟨hx, m, hcm, hmx⟩
      obtain ⟨hxl, y, hxy, hy⟩ := h x hx
      refine ⟨?_, y, hxy, hy, m, hcm, Path.trans hmx (Path.step hxy (Path.refl _))⟩
      rcases List.mem_cons.1 hxl with rfl | hxl
      · exact absurd hmx (hac _ _ hcm)
      · exact hxl
    · refine no_closed_set hac l P ?_ a ha
      intro x hx
      obtain ⟨hxl, y, hxy, hy⟩ := h x hx
      refine ⟨?_, y, hxy, hy⟩
      rcases List.mem_cons.1 hxl with rfl | hxl
      · exact absurd hx hc
      · exact hxl

/-! ### the loop invariant -/
def Ordered (g : Graph) (tasks l : List Task) : Prop :=
  ∀ pre a post, l = pre ++ a :: post → ∀ b ∈ tasks, (a.id, b.id) ∈ g.deps → b ∈ pre

structure KInv (g : Graph) (tasks : List Task) (fuel : Nat) (q : List Task) (deg : List (Id × Nat)) (acc : List Task) : Prop where
  acc_sub : ∀ x ∈ acc, x ∈ tasks
  acc_nd : acc.Nodup
  q_nd : q.Nodup
  q_iff : ∀ x, x ∈ q ↔ x ∈ tasks ∧ x ∉ acc ∧ rem g tasks acc x = 0
  deg_eq : ∀ x ∈ tasks, deg.lookup x.id = some (rem g tasks acc x)
  acc_closed : ∀ x ∈ acc, rem g tasks acc x = 0
  fuel_eq : fuel + acc.length = tasks.length
  ordered : Ordered g tasks acc

theorem rem_zero_dep {g : Graph} {tasks acc : List Task} (hnd : (tasks.map (·.id)).Nodup) (hsub : ∀ x ∈ acc, x ∈ tasks)
    {a b : Task} (h0 : rem g tasks acc a = 0) (hb : b ∈ tasks) (hdep : (a.id, b.id) ∈ g.deps) : b ∈ acc := by
  unfold rem at h0
  rw [List.length_eq_zero_iff, List.filter_eq_nil_iff] at h0
  have := h0 b.id (by rw [List.mem_eraseDups, mem_depsOf]; exact hdep)
  simp only [Bool.and_eq_true, List.any_eq_true, beq_iff_eq, Bool.not_eq_true', List.any_eq_false, not_and,
    not_forall, Decidable.not_not] at this
  obtain ⟨y, hy, hyb⟩ := this ⟨b, hb, rfl⟩
  rw [← eq_of_id_eq hnd (hsub y hy) hb hyb]; exact hy

theorem KInv.step {g : Graph} {tasks : List Task} (hnd : (tasks.map (·.id)).Nodup) {fuel : Nat} {t : Task} {q : List Task}
    {deg : List (Id × Nat)} {acc : List Task} (h : KInv g tasks (fuel + 1) (t :: q) deg acc) :
    KInv g tasks fuel
      ((q ++ (tasks.filter fun o => dependsOn g o.id t.id).filter fun o => deg.lookup o.id == some 1).mergeSort (qLe g))
      (deg.map fun (i, n) => if (tasks.filter fun o => dependsOn g o.id t.id).any (·.id == i) then (i, n - 1) else (i, n))
      (acc ++ [t]) := by
  have hq := h.q_nd
  rw [List.nodup_cons] at hq
  obtain ⟨ht, htacc, ht0⟩ := (h.q_iff t).1 (List.mem_cons_self ..)
  have hids : ∀ y ∈ acc, y.id ≠ t.id := fun y hy hyt => htacc (eq_of_id_eq hnd (h.acc_sub y hy) ht hyt ▸ hy)
  have hrs := fun x => rem_step g tasks acc t x ht hids
  have hq0 : ∀ x ∈ q, x ∈ tasks ∧ x ∉ acc ∧ rem g tasks acc x = 0 := fun x hx => (h.q_iff x).1 (List.mem_cons_of_mem _ hx)
  have hnew : ∀ x, x ∈ ((tasks.filter fun o => dependsOn g o.id t.id).filter fun o => deg.lookup o.id == some 1) ↔
      x ∈ tasks ∧ dependsOn g x.id t.id = true ∧ rem g tasks acc x = 1 := by
    intro x
    rw [List.mem_filter, List.mem_filter]
    constructor
    · rintro ⟨⟨hx, hd⟩, hl⟩
      rw [h.deg_eq x hx] at hl
      exact ⟨hx, hd, by simpa using hl⟩
    · rintro ⟨hx, hd, hl⟩
      refine ⟨⟨hx, hd⟩, ?_⟩
      rw [h.deg_eq x hx, hl]; simp
  have htnd : tasks.Nodup := List.Nodup.of_map _ hnd
  refine ⟨?_, ?_, ?_, ?_, ?_, ?_, ?_, ?_⟩
  · intro x hx
    rcases List.mem_append.1 hx with hx | hx
    · exact h.acc_sub x hx
    · rw [List.mem_singleton.1 hx]; exact ht
  · rw [List.nodup_append]
    refine ⟨h.acc_nd, by simp, ?_⟩
    intro a ha b hb
    rw [List.mem_singleton.1 hb]
    rintro rfl; exact htacc ha
  · rw [(List.mergeSort_perm _ _).nodup_iff, List.nodup_append]
    refine ⟨hq.2, (htnd.filter _).filter _, ?_⟩
    intro a ha b hb hab
    subst hab
    have h1 := (hq0 a ha).2.2
    have h2 := ((hnew a).1 hb).2.2
    omega
  · intro x
    rw [List.mem_mergeSort, List.mem_append, hnew]
    have hr := hrs x
    constructor
    · rintro (hx | ⟨hx, hd, h1⟩)
      · obtain ⟨hxt, hxa, hx0⟩ := hq0 x hx
        refine ⟨hxt, ?_, by omega⟩
        intro hm
        rcases List.mem_append.1 hm with hm | hm
        · exact hxa hm
        · rw [List.mem_singleton.1 hm] at hx; exact hq.1 hx
      · refine ⟨hx, ?_, by rw [hd] at hr; simp at hr; omega⟩
        intro hm
        rcases List.mem_append.1 hm with hm | hm
        · have := h.acc_closed x hm; omega
        · rw [List.mem_singleton.1 hm] at h1; omega
    · rintro ⟨hx, hxa, hx0⟩
      have hxa' : x ∉ acc := fun hm => hxa (List.mem_append_left _ hm)
      have hxt : x ≠ t := fun hm => hxa (List.mem_append_right _ (by simp [hm]))
      by_cases hd : dependsOn g x.id t.id = true
      · right
        rw [hd] at hr; simp at hr
        exact ⟨hx, hd, by omega⟩
      · left
        simp [hd] at hr
        have := (h.q_iff x).2 ⟨hx, hxa', by omega⟩
        rcases List.mem_cons.1 this with h1 | h1
        · exact absurd h1 hxt
        · exact h1
  · intro x hx
    rw [lookup_map_dec deg (fun i => (tasks.filter fun o => dependsOn g o.id t.id).any (·.id == i)) x.id, h.deg_eq x hx]
    have hr := hrs x
    have hany : ((tasks.filter fun o => dependsOn g o.id t.id).any (·.id == x.id)) = dependsOn g x.id t.id := by
      rw [Bool.eq_iff_iff, List.any_eq_true]
      constructor
      · rintro ⟨o, ho, hox⟩
        rw [List.mem_filter] at ho
        rw [← (beq_iff_eq.1 hox)]; exact ho.2
      · intro hd
        exact ⟨x, List.mem_filter.2 ⟨hx, hd⟩, by simp⟩
    simp only [Option.map_some, hany]
    by_cases hd : dependsOn g x.id t.id = true
    · rw [hd] at hr; simp at hr; simp [hd]; omega
    · simp [hd] at hr; simp [hd]; omega
  · intro x hx
    have hr := hrs x
    rcases List.mem_append.1 hx with hx | hx
    · have := h.acc_closed x hx; omega
    · rw [List.mem_singleton.1 hx]; rw [List.mem_singleton.1 hx] at hr; omega
  · have := h.fuel_eq
    simp only [List.length_append, List.length_singleton]; omega
  · intro pre a post heq b hb hdep
    rcases List.eq_nil_or_concat post with rfl | ⟨post', c, rfl⟩
    · have := List.append_inj' (t₁ := [t]) (t₂ := [a]) heq rfl
      obtain ⟨h1, h2⟩ := this
      cases h2
      rw [← h1]
      exact rem_zero_dep hnd h.acc_sub ht0 hb hdep
    · have : acc ++ [t] = (pre ++ a :: post') ++ [c] := by simpa using heq
      have := (List.append_inj' this rfl).1
      exact h.ordered pre a post' this b hb hdep

theorem KInv.complete {g : Graph} {tasks : List Task} (hac : Acyclic g.deps) {fuel : Nat}
    {deg : List (Id × Nat)} {acc : List Task} (h : KInv g tasks fuel [] deg acc) : ∀ x ∈ tasks, x ∈ acc := by
  intro x hx
  refine Classical.byContradiction fun hxa => ?_
  refine no_closed_set hac (tasks.map (·.id)) (fun i => ∃ x ∈ tasks, x.id = i ∧ x ∉ acc) ?_ x.id ⟨x, hx, rfl, hxa⟩
  rintro _ ⟨y, hy, rfl, hya⟩
  refine ⟨List.mem_map.2 ⟨y, hy, rfl⟩, ?_⟩
  have hne : rem g tasks acc y ≠ 0 := fun h0 => by simpa using (h.q_iff y).2 ⟨hy, hya, h0⟩
  unfold rem at hne
  rw [Ne, List.length_eq_zero_iff, ← Ne] at hne
  obtain ⟨d, hd⟩ := List.exists_mem_of_ne_nil _ hne
  rw [List.mem_filter, List.mem_eraseDups, mem_depsOf] at hd
  obtain ⟨hdep, hd⟩ := hd
  simp only [Bool.and_eq_true, List.any_eq_true, beq_iff_eq, Bool.not_eq_true', List.any_eq_false] at hd
  obtain ⟨⟨z, hz, rfl⟩, hza⟩ := hd
  exact ⟨z.id, hdep, z, hz, rfl, fun hm => hza z hm rfl⟩

/-- the run ends in a state satisfying the invariant with the queue empty or the fuel used up -/
theorem kahn_final {g : Graph} {tasks : List Task} (hnd : (tasks.map (·.id)).Nodup) :
    ∀ (fuel : Nat) (q : List Task) (deg : List (Id × Nat)) (acc : List Task), KInv g tasks fuel q deg acc →
      ∃ fuel' q' deg', KInv g tasks fuel' q' deg' (kahn g tasks fuel q deg acc) ∧ (fuel' = 0 ∨ q' = [])
  | 0, q, deg, acc, h => by rw [kahn]; exact ⟨0, q, deg, h, Or.inl rfl⟩
  | fuel + 1, [], deg, acc, h => by rw [kahn]; exact ⟨fuel + 1, [], deg, h, Or.inr rfl⟩
  | fuel + 1, t :: q, deg, acc, h => by
    rw [kahn]
    exact kahn_final hnd fuel _ _ _ (h.step hnd)

theorem KInv.perm {g : Graph} {tasks : List Task} (hnd : (tasks.map (·.id)).Nodup) (hac : Acyclic g.deps) {fuel : Nat}
    {q : List Task} {deg : List (Id × Nat)} {acc : List Task} (h : KInv g tasks fuel q deg acc) (hend : fuel = 0 ∨ q = []) :
    acc.Perm tasks := by
  rcases hend with rfl | rfl
  · have := h.fuel_eq
    exact (List.subperm_of_subset h.acc_nd h.acc_sub).perm_of_length_le (by omega)
  · rw [List.perm_ext_iff_of_nodup h.acc_nd (List.Nodup.of_map _ hnd)]
    exact fun a => ⟨h.acc_sub a, h.complete hac a⟩

theorem lookup_map_id {tasks : List Task} (f : Task → Nat) (hnd : (tasks.map (·.id)).Nodup) :
    ∀ x ∈ tasks, (tasks.map fun t => (t.id, f t)).lookup x.id = some (f x) := by
  induction tasks with
  | nil => simp
  | cons a l ih =>
    rw [List.map_cons, List.nodup_cons] at hnd
    intro x hx
    rw [List.map_cons, List.lookup_cons]
    rcases List.mem_cons.1 hx with rfl | hx
    · simp
    · have : (x.id == a.id) = false := by
        rw [beq_eq_false_iff_ne]
        rintro he
        exact hnd.1 (he ▸ List.mem_map.2 ⟨x, hx, rfl⟩)
      rw [this]; exact ih hnd.2 x hx

theorem kinv_init (g : Graph) (tasks : List Task) (hnd : (tasks.map (·.id)).Nodup) :
    KInv g tasks tasks.length ((tasks.filter fun t => inDegree g tasks t == 0).mergeSort (qLe g))
      (tasks.map fun t => (t.id, inDegree g tasks t)) [] := by
  refine ⟨by simp, by simp, ?_, ?_, ?_, by simp, by simp, ?_⟩
  · rw [(List.mergeSort_perm _ _).nodup_iff]
    exact (List.Nodup.of_map _ hnd).filter _
  · intro x
    rw [List.mem_mergeSort, List.mem_filter, rem_nil]
    simp
  · intro x hx
    rw [rem_nil]
    exact lookup_map_id _ hnd x hx
  · intro pre a post h
    simp at h

theorem topoSort_final (g : Graph) (tasks : List Task) (hnd : (tasks.map (·.id)).Nodup) :
    ∃ fuel' q' deg', KInv g tasks fuel' q' deg' (topoSort g tasks) ∧ (fuel' = 0 ∨ q' = []) :=
  kahn_final hnd _ _ _ _ (kinv_init g tasks hnd)

/-- no acyclicity needed: Kahn only emits given tasks, each at most once -/
theorem topoSort_sub (g : Graph) (tasks : List Task) (hnd : (tasks.map (·.id)).Nodup) :
    (∀ x ∈ topoSort g tasks, x ∈ tasks) ∧ (topoSort g tasks).Nodup := by
  obtain ⟨_, _, _, h, _⟩ := topoSort_final g tasks hnd
  exact ⟨h.acc_sub, h.acc_nd⟩

theorem topoSort_spec (g : Graph) (tasks : List Task) (hnd : (tasks.map (·.id)).Nodup) (hac : Acyclic g.deps) :
    (topoSort g tasks).Perm tasks ∧ Ordered g tasks (topoSort g tasks) := by
  obtain ⟨_, _, _, h, hend⟩ := topoSort_final g tasks hnd
  exact ⟨h.perm hnd hac hend, h.ordered⟩

end Ergo.Render.Kahn
