/-
  WP7 — concurrent processes (C01, C02, C13).  Definitions: ErgoModel/Proc.lean (Sys, Writer, Phase, Outcome, RPhase, Step,
  Reachable, Sys.init, Sys.log, writeLog, setPhase, setReader); applyWrite, runSec, Sec, Env (ErgoModel/Exec.lean);
  secClaimOldest, readyTasks (ErgoModel/Command.lean, Query.lean).
  All theorems are inductions over `Reachable`, i.e. over every number of processes, every interleaving and every crash point.
-/
import ErgoModel.Proc
namespace Ergo.Proc

/-- the log after the first `n` committed sections, starting from `log0` -/
def logAfter (log0 : List Event) (commits : List (Nat × List Event × Write)) (n : Nat) : List Event :=
  (commits.take n).foldl (fun l c => applyWrite l c.2.2) log0

variable {log0 : List Event} {ws : List (List Event → Except CmdErr Write)} {nr : Nat} {s : Sys}

/-! ### `logAfter` arithmetic -/
theorem logAfter_zero (log0 : List Event) (cs : List (Nat × List Event × Write)) : logAfter log0 cs 0 = log0 := by
  simp [logAfter]

theorem logAfter_append_le {log0 : List Event} {cs : List (Nat × List Event × Write)} (c : Nat × List Event × Write) {k : Nat}
    (h : k ≤ cs.length) : logAfter log0 (cs ++ [c]) k = logAfter log0 cs k := by
  simp [logAfter, List.take_append_of_le_length h]

theorem logAfter_snoc (log0 : List Event) (cs : List (Nat × List Event × Write)) (c : Nat × List Event × Write) :
    logAfter log0 (cs ++ [c]) (cs.length + 1) = applyWrite (logAfter log0 cs cs.length) c.2.2 := by
  have : (cs ++ [c]).take (cs.length + 1) = cs ++ [c] := List.take_of_length_le (by simp)
  simp [logAfter, this, List.foldl_append]

theorem logAfter_succ {log0 : List Event} {cs : List (Nat × List Event × Write)} {i : Nat} {c : Nat × List Event × Write}
    (h : cs[i]? = some c) : logAfter log0 cs (i + 1) = applyWrite (logAfter log0 cs i) c.2.2 := by
  simp [logAfter, List.take_add_one, h, List.foldl_append]

/-! ### frame lemmas for `setPhase`, `setReader`, `writeLog` -/
/-- `setPhase` together with a new lock holder -/
def setPH (s : Sys) (p : Nat) (ph : Phase) (h : Option Nat) : Sys := { setPhase s p ph with holder := h }

theorem setPH_writers (s : Sys) (p : Nat) (ph : Phase) (h : Option Nat) (q : Nat) :
    (setPH s p ph h).writers[q]? = if q = p then (s.writers[p]?).map (fun w => { w with phase := ph }) else s.writers[q]? := by
  simp only [setPH, setPhase, List.getElem?_modify]
  by_cases hq : q = p
  · subst hq; simp
  · have : ¬ p = q := fun e => hq e.symm
    simp [hq, this]

theorem writeLog_log (s : Sys) (wr : Write) (hc : s.cur < s.inodes.length) : (writeLog s wr).log = applyWrite s.log wr := by
  cases wr <;> simp [writeLog, Sys.log, applyWrite, List.getD_eq_getElem?_getD, hc]

theorem writeLog_cur (s : Sys) (wr : Write) (hc : s.cur < s.inodes.length) : (writeLog s wr).cur < (writeLog s wr).inodes.length := by
  cases wr <;> simp [writeLog, hc]

theorem writeLog_len (s : Sys) (wr : Write) : s.inodes.length ≤ (writeLog s wr).inodes.length := by
  cases wr <;> simp [writeLog]

theorem writeLog_history (s : Sys) (wr : Write) : (writeLog s wr).history = s.history ++ [applyWrite s.log wr] := by
  cases wr <;> simp [writeLog, applyWrite]

theorem writeLog_inode (s : Sys) (wr : Write) (i : Nat) (hi : i < (writeLog s wr).inodes.length) :
    (i < s.inodes.length ∧ (writeLog s wr).inodes.getD i [] = s.inodes.getD i []) ∨
    (writeLog s wr).inodes.getD i [] = applyWrite s.log wr := by
  cases wr with
  | append evs =>
    simp only [writeLog, List.length_set] at hi
    by_cases h : i = s.cur
    · right; subst h; simp [writeLog, applyWrite, List.getD_eq_getElem?_getD, hi]
    · left; refine ⟨hi, ?_⟩
      have : ¬ s.cur = i := fun e => h e.symm
      simp [writeLog, List.getD_eq_getElem?_getD, this]
  | replace evs =>
    simp only [writeLog, List.length_append, List.length_singleton] at hi
    by_cases h : i < s.inodes.length
    · left; refine ⟨h, ?_⟩
      simp [writeLog, List.getD_eq_getElem?_getD, List.getElem?_append, h]
    · right
      have : i = s.inodes.length := by omega
      subst this
      simp [writeLog, applyWrite, List.getD_eq_getElem?_getD]

/-! ### the invariant -/
/-- the writer is between lock and unlock -/
def Phase.active : Phase → Prop
  | .locked | .read _ | .wrote _ _ | .erred _ _ => True
  | _ => False

/-- what a writer's phase says about the commit list and the log -/
def PhaseOK (d : List Event → Except CmdErr Write) (log : List Event) (commits : List (Nat × List Event × Write)) (p : Nat) :
    Phase → Prop
  | .start | .locked | .finished .busy => ∀ c ∈ commits, c.1 ≠ p
  | .read snap => snap = log ∧ ∀ c ∈ commits, c.1 ≠ p
  | .erred snap e | .finished (.failed snap e) => d snap = .error e ∧ ∀ c ∈ commits, c.1 ≠ p
  | .wrote snap wr | .finished (.ok snap wr) => (p, snap, wr) ∈ commits
  | .crashed => True

structure Inv (log0 : List Event) (ws : List (List Event → Except CmdErr Write)) (s : Sys) : Prop where
  dec : ∀ (p : Nat) (w : Writer), s.writers[p]? = some w → ws[p]? = some w.decide
  hold : ∀ p : Nat, s.holder = some p ↔ ∃ w, s.writers[p]? = some w ∧ w.phase.active
  cur : s.cur < s.inodes.length
  log : s.log = logAfter log0 s.commits s.commits.length
  histLen : s.history.length = s.commits.length + 1
  hist : ∀ k : Nat, k ≤ s.commits.length → s.history[k]? = some (logAfter log0 s.commits k)
  phase : ∀ (p : Nat) (w : Writer), s.writers[p]? = some w → PhaseOK w.decide s.log s.commits p w.phase
  com : ∀ (i p : Nat) (snap : List Event) (w : Write), s.commits[i]? = some (p, snap, w) →
    snap = logAfter log0 s.commits i ∧ ∃ d, ws[p]? = some d ∧ d snap = .ok w
  once : ∀ (i j p : Nat) (c c' : List Event × Write), s.commits[i]? = some (p, c) → s.commits[j]? = some (p, c') → i = j
  ino : ∀ i : Nat, i < s.inodes.length → ∃ k, k ≤ s.commits.length ∧ s.inodes.getD i [] = logAfter log0 s.commits k
  rdOpen : ∀ (r i : Nat), s.readers[r]? = some (RPhase.opened i) → i < s.inodes.length
  rdDone : ∀ (r : Nat) (seen : List Event), s.readers[r]? = some (RPhase.done seen) → ∃ k, k ≤ s.commits.length ∧ seen = logAfter log0 s.commits k

theorem inv_init : Inv log0 ws (Sys.init log0 ws nr) where
  dec := by
    intro p w h
    simp only [Sys.init, List.getElem?_map] at h
    cases hp : ws[p]? with
    | none => simp [hp] at h
    | some d => simp [hp] at h; subst h; rfl
  hold := by
    intro p
    simp only [Sys.init, List.getElem?_map]
    constructor
    · intro h; cases h
    · rintro ⟨w, h, ha⟩
      cases hp : ws[p]? with
      | none => simp [hp] at h
      | some d => simp [hp] at h; subst h; exact ha.elim
  cur := by simp [Sys.init]
  log := by simp [Sys.init, Sys.log, logAfter]
  histLen := by simp [Sys.init]
  hist := by
    intro k hk
    simp only [Sys.init, List.length_nil, Nat.le_zero_eq] at hk
    subst hk; simp [Sys.init, logAfter]
  phase := by
    intro p w h
    simp only [Sys.init, List.getElem?_map] at h
    cases hp : ws[p]? with
    | none => simp [hp] at h
    | some d => simp [hp] at h; subst h; simp [PhaseOK, Sys.init]
  com := by intro i p snap w h; simp [Sys.init] at h
  once := by intro i j p c c' h; simp [Sys.init] at h
  ino := by
    intro i hi
    simp only [Sys.init, List.length_singleton, Nat.lt_one_iff] at hi
    subst hi; exact ⟨0, by simp [Sys.init, logAfter]⟩
  rdOpen := by
    intro r i h
    simp only [Sys.init, List.getElem?_replicate] at h
    split at h <;> simp at h
  rdDone := by
    intro r seen h
    simp only [Sys.init, List.getElem?_replicate] at h
    split at h <;> simp at h

/-- a step that only changes one writer's phase and the lock holder -/
theorem inv_setPH (hi : Inv log0 ws s) (p : Nat) (w : Writer) (ph : Phase) (h' : Option Nat)
    (hw : s.writers[p]? = some w)
    (hok : PhaseOK w.decide s.log s.commits p ph)
    (hp : h' = some p ↔ ph.active)
    (hq : ∀ q, q ≠ p → (h' = some q ↔ s.holder = some q)) :
    Inv log0 ws (setPH s p ph h') where
  dec := by
    intro q w' h
    rw [setPH_writers] at h
    split at h
    · rename_i e; subst e; simp [hw] at h; subst h; exact hi.dec _ w hw
    · exact hi.dec _ _ h
  hold := by
    intro q
    rw [setPH_writers]
    by_cases e : q = p
    · subst e; simp [setPH, hw, hp]
    · simp only [e, if_false]; exact (hq q e).trans (hi.hold q)
  cur := hi.cur
  log := hi.log
  histLen := hi.histLen
  hist := hi.hist
  phase := by
    intro q w' h
    rw [setPH_writers] at h
    split at h
    · rename_i e; subst e; simp [hw] at h; subst h; exact hok
    · exact hi.phase _ _ h
  com := hi.com
  once := hi.once
  ino := hi.ino
  rdOpen := hi.rdOpen
  rdDone := hi.rdDone

/-- a reader step -/
theorem inv_setReader (hi : Inv log0 ws s) (r : Nat) (ph : RPhase)
    (h1 : ∀ i, ph = .opened i → i < s.inodes.length)
    (h2 : ∀ seen, ph = .done seen → ∃ k, k ≤ s.commits.length ∧ seen = logAfter log0 s.commits k) :
    Inv log0 ws (setReader s r ph) where
  dec := hi.dec
  hold := hi.hold
  cur := hi.cur
  log := hi.log
  histLen := hi.histLen
  hist := hi.hist
  phase := hi.phase
  com := hi.com
  once := hi.once
  ino := hi.ino
  rdOpen := by
    intro q i h
    simp only [setReader, List.getElem?_set] at h
    split at h
    · split at h
      · exact h1 i (by simpa using h)
      · cases h
    · exact hi.rdOpen q i h
  rdDone := by
    intro q seen h
    simp only [setReader, List.getElem?_set] at h
    split at h
    · split at h
      · exact h2 seen (by simpa using h)
      · cases h
    · exact hi.rdDone q seen h

theorem writeLog_writers (s : Sys) (wr : Write) : (writeLog s wr).writers = s.writers := by cases wr <;> rfl
theorem writeLog_holder (s : Sys) (wr : Write) : (writeLog s wr).holder = s.holder := by cases wr <;> rfl
theorem writeLog_readers (s : Sys) (wr : Write) : (writeLog s wr).readers = s.readers := by cases wr <;> rfl

/-- the state after a `write` step -/
def wstep (s : Sys) (p : Nat) (snap : List Event) (wr : Write) : Sys :=
  { setPhase (writeLog s wr) p (.wrote snap wr) with commits := s.commits ++ [(p, snap, wr)] }

theorem wstep_writers (s : Sys) (p : Nat) (snap : List Event) (wr : Write) (q : Nat) :
    (wstep s p snap wr).writers[q]? =
      if q = p then (s.writers[p]?).map (fun w => { w with phase := .wrote snap wr }) else s.writers[q]? := by
  have := setPH_writers (writeLog s wr) p (.wrote snap wr) none q
  rw [writeLog_writers] at this
  exact this

theorem wstep_log (s : Sys) (p : Nat) (snap : List Event) (wr : Write) (hc : s.cur < s.inodes.length) :
    (wstep s p snap wr).log = applyWrite s.log wr := writeLog_log s wr hc

theorem phaseOK_mono {d : List Event → Except CmdErr Write} {log log' : List Event} {cs : List (Nat × List Event × Write)}
    {c : Nat × List Event × Write} {q : Nat} {ph : Phase} (hc : c.1 ≠ q) (hr : ∀ snap, ph ≠ .read snap)
    (h : PhaseOK d log cs q ph) : PhaseOK d log' (cs ++ [c]) q ph := by
  have key : (∀ c' ∈ cs, c'.1 ≠ q) → ∀ c' ∈ cs ++ [c], c'.1 ≠ q := by
    intro h0 c' hc'
    rcases List.mem_append.1 hc' with h1 | h1
    · exact h0 c' h1
    · simp at h1; subst h1; exact hc
  cases ph with
  | start => exact key h
  | locked => exact key h
  | read snap => exact absurd rfl (hr snap)
  | wrote snap wr => exact List.mem_append_left _ h
  | erred snap e => exact ⟨h.1, key h.2⟩
  | finished o =>
    cases o with
    | busy => exact key h
    | failed snap e => exact ⟨h.1, key h.2⟩
    | ok snap wr => exact List.mem_append_left _ h
  | crashed => trivial

theorem inv_wstep (hi : Inv log0 ws s) (p : Nat) (w : Writer) (snap : List Event) (wr : Write)
    (hw : s.writers[p]? = some w) (hph : w.phase = .read snap) (hd : w.decide snap = .ok wr) :
    Inv log0 ws (wstep s p snap wr) := by
  have hok := hi.phase p w hw
  rw [hph] at hok
  obtain ⟨hsnap, hnot⟩ : snap = s.log ∧ ∀ c ∈ s.commits, c.1 ≠ p := hok
  have hholder : s.holder = some p := (hi.hold p).2 ⟨w, hw, by rw [hph]; trivial⟩
  have hlog' : applyWrite s.log wr = logAfter log0 (s.commits ++ [(p, snap, wr)]) (s.commits.length + 1) := by
    rw [logAfter_snoc, ← hi.log]
  refine
    { dec := ?_, hold := ?_, cur := writeLog_cur s wr hi.cur, log := ?_, histLen := ?_, hist := ?_, phase := ?_, com := ?_,
      once := ?_, ino := ?_, rdOpen := ?_, rdDone := ?_ }
  · intro q w' h
    rw [wstep_writers] at h
    split at h
    · rename_i e; subst e; simp [hw] at h; subst h; exact hi.dec _ w hw
    · exact hi.dec _ _ h
  · intro q
    rw [wstep_writers]
    show (writeLog s wr).holder = some q ↔ _
    rw [writeLog_holder]
    by_cases e : q = p
    · subst e; simp [hw, hholder, Phase.active]
    · simp only [e, if_false]; exact hi.hold q
  · rw [wstep_log _ _ _ _ hi.cur, hlog']; simp [wstep]
  · show (writeLog s wr).history.length = (s.commits ++ [(p, snap, wr)]).length + 1
    rw [writeLog_history]; simp [hi.histLen]
  · intro k hk
    show (writeLog s wr).history[k]? = some (logAfter log0 (s.commits ++ [(p, snap, wr)]) k)
    have hk' : k ≤ s.commits.length + 1 := by simpa [wstep] using hk
    rw [writeLog_history]
    by_cases hkn : k ≤ s.commits.length
    · rw [List.getElem?_append_left (by rw [hi.histLen]; omega), logAfter_append_le _ hkn]
      exact hi.hist k hkn
    · have : k = s.commits.length + 1 := by omega
      subst this
      rw [← hlog', List.getElem?_append_right (by rw [hi.histLen]; omega)]
      simp [hi.histLen]
  · intro q w' h
    rw [wstep_writers] at h
    split at h
    · rename_i e; subst e; simp [hw] at h; subst h
      show (q, snap, wr) ∈ s.commits ++ [(q, snap, wr)]
      simp
    · rename_i e
      show PhaseOK w'.decide _ (s.commits ++ [(p, snap, wr)]) q w'.phase
      refine phaseOK_mono (fun e' => e e'.symm) ?_ (hi.phase q w' h)
      intro snap' hr
      have : s.holder = some q := (hi.hold q).2 ⟨w', h, by rw [hr]; trivial⟩
      rw [hholder] at this
      exact e (Option.some.inj this).symm
  · intro i q snap' w' h
    show snap' = logAfter log0 (s.commits ++ [(p, snap, wr)]) i ∧ _
    have h : (s.commits ++ [(p, snap, wr)])[i]? = some (q, snap', w') := h
    by_cases hin : i < s.commits.length
    · rw [List.getElem?_append_left hin] at h
      rw [logAfter_append_le _ (Nat.le_of_lt hin)]
      exact hi.com i q snap' w' h
    · rw [List.getElem?_append_right (by omega)] at h
      have hin' : i - s.commits.length = 0 := by
        cases hx : i - s.commits.length with
        | zero => rfl
        | succ m => rw [hx] at h; simp at h
      rw [hin'] at h
      simp at h
      obtain ⟨rfl, rfl, rfl⟩ := h
      have : i = s.commits.length := by omega
      subst this
      rw [logAfter_append_le _ (Nat.le_refl _), ← hi.log]
      exact ⟨hsnap, w.decide, hi.dec _ w hw, hd⟩
  · intro i j q c c' h1 h2
    have h1 : (s.commits ++ [(p, snap, wr)])[i]? = some (q, c) := h1
    have h2 : (s.commits ++ [(p, snap, wr)])[j]? = some (q, c') := h2
    have hlen : ∀ {i : Nat} {x}, (s.commits ++ [(p, snap, wr)])[i]? = some x → i < s.commits.length + 1 := by
      intro i x h
      have := (List.getElem?_eq_some_iff.1 h).1
      simpa using this
    have hi1 := hlen h1
    have hj1 := hlen h2
    by_cases hin : i < s.commits.length <;> by_cases hjn : j < s.commits.length
    · rw [List.getElem?_append_left hin] at h1
      rw [List.getElem?_append_left hjn] at h2
      exact hi.once i j q c c' h1 h2
    · have hj : j = s.commits.length := by omega
      subst hj
      rw [List.getElem?_append_left hin] at h1
      rw [List.getElem?_append_right (Nat.le_refl _)] at h2
      simp at h2
      exact absurd h2.1.symm (hnot _ (List.mem_of_getElem? h1))
    · have hi' : i = s.commits.length := by omega
      subst hi'
      rw [List.getElem?_append_left hjn] at h2
      rw [List.getElem?_append_right (Nat.le_refl _)] at h1
      simp at h1
      exact absurd h1.1.symm (hnot _ (List.mem_of_getElem? h2))
    · omega
  · intro i hlt
    have hlt : i < (writeLog s wr).inodes.length := hlt
    show ∃ k, k ≤ (s.commits ++ [(p, snap, wr)]).length ∧
      (writeLog s wr).inodes.getD i [] = logAfter log0 (s.commits ++ [(p, snap, wr)]) k
    rcases writeLog_inode s wr i hlt with ⟨h1, h2⟩ | h2
    · obtain ⟨k, hk, he⟩ := hi.ino i h1
      exact ⟨k, by simp; omega, by rw [h2, he, logAfter_append_le _ hk]⟩
    · exact ⟨s.commits.length + 1, by simp, by rw [h2, hlog']⟩
  · intro r i h
    have h : (writeLog s wr).readers[r]? = some (.opened i) := h
    rw [writeLog_readers] at h
    exact Nat.lt_of_lt_of_le (hi.rdOpen r i h) (writeLog_len s wr)
  · intro r seen h
    have h : (writeLog s wr).readers[r]? = some (.done seen) := h
    rw [writeLog_readers] at h
    obtain ⟨k, hk, he⟩ := hi.rdDone r seen h
    exact ⟨k, by simp [wstep]; omega, by rw [he]; exact (logAfter_append_le _ hk).symm⟩

theorem inv_step {s s' : Sys} (hi : Inv log0 ws s) (st : Step s s') : Inv log0 ws s' := by
  cases st with
  | lockOk p w hw hph hh =>
    have hok := hi.phase p w hw
    rw [hph] at hok
    refine inv_setPH hi p w .locked (some p) hw hok (by simp [Phase.active]) ?_
    intro q hq
    rw [hh]
    constructor
    · intro h; exact absurd (Option.some.inj h).symm hq
    · intro h; cases h
  | lockBusy p w q hw hph hh =>
    have hok := hi.phase p w hw
    rw [hph] at hok
    refine inv_setPH hi p w (.finished .busy) s.holder hw hok ?_ (fun _ _ => Iff.rfl)
    constructor
    · intro h
      obtain ⟨w', hw', ha⟩ := (hi.hold p).1 h
      rw [hw] at hw'; cases hw'
      rw [hph] at ha; exact ha.elim
    · intro h; exact h.elim
  | read p w hw hph =>
    have hok := hi.phase p w hw
    rw [hph] at hok
    have hh : s.holder = some p := (hi.hold p).2 ⟨w, hw, by rw [hph]; trivial⟩
    exact inv_setPH hi p w (.read s.log) s.holder hw ⟨rfl, hok⟩ (by simp [hh, Phase.active]) (fun _ _ => Iff.rfl)
  | decideErr p w snap e hw hph hd =>
    have hok := hi.phase p w hw
    rw [hph] at hok
    have hh : s.holder = some p := (hi.hold p).2 ⟨w, hw, by rw [hph]; trivial⟩
    exact inv_setPH hi p w (.erred snap e) s.holder hw ⟨hd, hok.2⟩ (by simp [hh, Phase.active]) (fun _ _ => Iff.rfl)
  | write p w snap wr hw hph hd => exact inv_wstep hi p w snap wr hw hph hd
  | unlockOk p w snap wr hw hph =>
    have hok := hi.phase p w hw
    rw [hph] at hok
    have hh : s.holder = some p := (hi.hold p).2 ⟨w, hw, by rw [hph]; trivial⟩
    refine inv_setPH hi p w (.finished (.ok snap wr)) none hw hok (by simp [Phase.active]) ?_
    intro q hq
    rw [hh]
    constructor
    · intro h; cases h
    · intro h; exact absurd (Option.some.inj h).symm hq
  | unlockErr p w snap e hw hph =>
    have hok := hi.phase p w hw
    rw [hph] at hok
    have hh : s.holder = some p := (hi.hold p).2 ⟨w, hw, by rw [hph]; trivial⟩
    refine inv_setPH hi p w (.finished (.failed snap e)) none hw hok (by simp [Phase.active]) ?_
    intro q hq
    rw [hh]
    constructor
    · intro h; cases h
    · intro h; exact absurd (Option.some.inj h).symm hq
  | crash p w hw hnf hnc =>
    refine inv_setPH hi p w .crashed _ hw trivial ?_ ?_
    · by_cases hh : s.holder = some p
      · simp [hh, Phase.active]
      · simp [hh, Phase.active]
    · intro q hq
      by_cases hh : s.holder = some p
      · simp only [hh, if_true]
        constructor
        · intro h; cases h
        · intro h; exact absurd (Option.some.inj h).symm hq
      · simp [hh]
  | rOpen r hr => exact inv_setReader hi r (.opened s.cur) (by intro i h; cases h; exact hi.cur) (by intro _ h; cases h)
  | rRead r i hr =>
    refine inv_setReader hi r _ (by intro _ h; cases h) ?_
    intro seen h
    cases h
    exact hi.ino i (hi.rdOpen r i hr)

theorem inv_reachable (h : Reachable (Sys.init log0 ws nr) s) : Inv log0 ws s := by
  induction h with
  | refl => exact inv_init
  | tail _ st ih => exact inv_step ih st

theorem Phase.active_iff (ph : Phase) :
    ph.active ↔ (ph = .locked ∨ (∃ snap, ph = .read snap) ∨ (∃ snap wr, ph = .wrote snap wr) ∨ (∃ snap e, ph = .erred snap e)) := by
  cases ph <;> simp [Phase.active]

/-! ### the stated theorems -/

/-- mutual exclusion: the lock holder is exactly the one writer between lock and unlock -/
theorem holder_unique (h : Reachable (Sys.init log0 ws nr) s) (p : Nat) (w : Writer) (hw : s.writers[p]? = some w) :
    (s.holder = some p ↔ (w.phase = .locked ∨ (∃ snap, w.phase = .read snap) ∨ (∃ snap wr, w.phase = .wrote snap wr) ∨
                          (∃ snap e, w.phase = .erred snap e))) := by
  have hi := inv_reachable h
  rw [← Phase.active_iff, hi.hold p]
  constructor
  · rintro ⟨w', hw', ha⟩
    rw [hw] at hw'; cases hw'; exact ha
  · intro ha; exact ⟨w, hw, ha⟩

/-- C02: the log is exactly the committed writes applied one after the other, in commit (= lock) order -/
theorem log_is_fold (h : Reachable (Sys.init log0 ws nr) s) :
    s.log = logAfter log0 s.commits s.commits.length := by
  exact (inv_reachable h).log

/-- … and each committed section decided on exactly the log its predecessors left (no lost update, no stale read) -/
theorem commit_decided (h : Reachable (Sys.init log0 ws nr) s) (i p : Nat) (snap : List Event) (w : Write)
    (hc : s.commits[i]? = some (p, snap, w)) :
    snap = logAfter log0 s.commits i ∧ ∃ d, ws[p]? = some d ∧ d snap = .ok w := by
  exact (inv_reachable h).com i p snap w hc

/-- a process commits at most once -/
theorem commit_once (h : Reachable (Sys.init log0 ws nr) s) (i j p : Nat) (c c' : List Event × Write)
    (hi : s.commits[i]? = some (p, c)) (hj : s.commits[j]? = some (p, c')) : i = j := by
  exact (inv_reachable h).once i j p c c' hi hj

/-- a writer that reported success is in the commit list with what it reported; one that failed or found the lock busy
    (or died before writing) contributed nothing -/
theorem finished_ok_committed (h : Reachable (Sys.init log0 ws nr) s) (p : Nat) (w : Writer) (snap : List Event) (wr : Write)
    (hw : s.writers[p]? = some w) (hp : w.phase = .finished (.ok snap wr)) : (p, snap, wr) ∈ s.commits := by
  have hok := (inv_reachable h).phase p w hw
  rw [hp] at hok
  exact hok

theorem not_ok_not_committed (h : Reachable (Sys.init log0 ws nr) s) (p : Nat) (w : Writer)
    (hw : s.writers[p]? = some w)
    (hp : w.phase = .finished .busy ∨ (∃ snap e, w.phase = .finished (.failed snap e)) ∨ w.phase = .start ∨ w.phase = .locked ∨
          (∃ snap, w.phase = .read snap) ∨ (∃ snap e, w.phase = .erred snap e)) :
    ∀ c ∈ s.commits, c.1 ≠ p := by
  have hok := (inv_reachable h).phase p w hw
  rcases hp with hp | ⟨snap, e, hp⟩ | hp | hp | ⟨snap, hp⟩ | ⟨snap, e, hp⟩ <;> rw [hp] at hok
  · exact hok
  · exact hok.2
  · exact hok
  · exact hok
  · exact hok.2
  · exact hok.2

/-- the ghost history is the sequence of log values: history[k] = log after k commits -/
theorem history_is_logs (h : Reachable (Sys.init log0 ws nr) s) :
    s.history.length = s.commits.length + 1 ∧ ∀ k, k ≤ s.commits.length → s.history[k]? = some (logAfter log0 s.commits k) := by
  exact ⟨(inv_reachable h).histLen, (inv_reachable h).hist⟩

/-- C13: a reader (no lock) always gets a state the store actually passed through — the log after some whole number of
    committed sections — never a mixture of an old and a new file -/
theorem reader_sees_history (h : Reachable (Sys.init log0 ws nr) s) (r : Nat) (seen : List Event)
    (hr : s.readers[r]? = some (.done seen)) : ∃ k, k ≤ s.commits.length ∧ seen = logAfter log0 s.commits k := by
  exact (inv_reachable h).rdDone r seen hr

/-! ### C01: concurrent `claim` (oldest ready) -/
/-- the closure of `claim` for one agent / epic filter / clock reading -/
def claimDecide (agent epic : String) (now : Time) : List Event → Except CmdErr Write := fun log =>
  match replay log with
  | .error e => .error (.replay e)
  | .ok g => (secClaimOldest g epic agent now).map (·.1)

/-- a claimer that won was handed the head of the ready list of the log *as it was when its claim took effect*,
    and wrote exactly claim + state for it -/
theorem claim_outcome (h : Reachable (Sys.init log0 ws nr) s) (i p : Nat) (snap : List Event) (w : Write)
    (agent epic : String) (now : Time) (hd : ws[p]? = some (claimDecide agent epic now))
    (hc : s.commits[i]? = some (p, snap, w)) :
    snap = logAfter log0 s.commits i ∧
    ∃ g t rest, replay snap = .ok g ∧ readyTasks g epic = t :: rest ∧
      w = .append [Event.claim t.id agent (some now), Event.state t.id .doing (some now)] := by
  obtain ⟨hsnap, d, hd', hdw⟩ := (inv_reachable h).com i p snap w hc
  rw [hd] at hd'; cases hd'
  refine ⟨hsnap, ?_⟩
  unfold claimDecide at hdw
  cases hg : replay snap with
  | error e => rw [hg] at hdw; cases hdw
  | ok g =>
    rw [hg] at hdw
    simp only [secClaimOldest] at hdw
    cases hrt : readyTasks g epic with
    | nil => rw [hrt] at hdw; cases hdw
    | cons t rest =>
      rw [hrt] at hdw
      refine ⟨g, t, rest, rfl, hrt, ?_⟩
      cases hdw; rfl

/-- "no ready tasks" is answered only when the ready set of the log at lock time is empty -/
theorem claim_noReady (h : Reachable (Sys.init log0 ws nr) s) (p : Nat) (wtr : Writer) (snap : List Event)
    (agent epic : String) (now : Time) (hd : ws[p]? = some (claimDecide agent epic now))
    (hw : s.writers[p]? = some wtr) (hp : wtr.phase = .finished (.failed snap .noReady)) :
    ∃ g, replay snap = .ok g ∧ readyTasks g epic = [] := by
  have hi := inv_reachable h
  have hok := hi.phase p wtr hw
  rw [hp] at hok
  have hdec := hi.dec p wtr hw
  have hdec' : wtr.decide = claimDecide agent epic now := Option.some.inj (hdec.symm.trans hd)
  have hdw : claimDecide agent epic now snap = .error .noReady := by rw [← hdec']; exact hok.1
  unfold claimDecide at hdw
  cases hg : replay snap with
  | error e => rw [hg] at hdw; cases hdw
  | ok g =>
    rw [hg] at hdw
    simp only [secClaimOldest] at hdw
    cases hrt : readyTasks g epic with
    | nil => exact ⟨g, rfl, hrt⟩
    | cons t rest => rw [hrt] at hdw; cases hdw

/-- two claimers never win on the same snapshot position: if both committed, their commits are distinct entries and the
    later one decided on a log that already contains the earlier one's claim and state events -/
theorem claim_no_double (h : Reachable (Sys.init log0 ws nr) s) (i j p q : Nat) (snapP snapQ : List Event) (wP wQ : Write)
    (hij : i < j) (hP : s.commits[i]? = some (p, snapP, wP)) (hQ : s.commits[j]? = some (q, snapQ, wQ)) :
    snapQ = (s.commits.take j |>.drop (i + 1)).foldl (fun l c => applyWrite l c.2.2) (applyWrite snapP wP) := by
  have hi := inv_reachable h
  have hsP := (hi.com i p snapP wP hP).1
  have hsQ := (hi.com j q snapQ wQ hQ).1
  have h1 : logAfter log0 s.commits (i + 1) = applyWrite snapP wP := by rw [logAfter_succ hP, ← hsP]
  have hsplit : s.commits.take j = s.commits.take (i + 1) ++ (s.commits.take j).drop (i + 1) := by
    have := (List.take_append_drop (i + 1) (s.commits.take j)).symm
    rwa [List.take_take, Nat.min_eq_left (by omega : i + 1 ≤ j)] at this
  rw [← h1, hsQ]
  unfold logAfter
  conv => lhs; rw [hsplit]
  rw [List.foldl_append]

end Ergo.Proc
